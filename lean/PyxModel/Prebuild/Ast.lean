/-
  C05 / C06 — syntax trees of bridgepoint/oal.py (the statement set the prebuilder supports, event statements
  included; port messages excluded) and the token alphabet of the text that bridgepoint/sourcegen.py prints.

  The trees carry exactly the fields of the `oal.py` node classes (operators, boolean literals and select
  cardinalities as the source spelled them; phrases as the parser delivers them, i.e. always ticked);
  list-like nodes are the inductive lists `Params`, `Block`, `Elifs`, `List Step`.
  No Mathlib, no `import Lean` (linked into the driver).
-/
namespace Pyx.Prebuild

/-- `ImplicitInvocationNode` and its three re-classed variants, plus `FunctionInvocationNode` -/
inductive CallKind where
  | func | implicit | bridge | classop | port
  deriving DecidableEq, Repr, Inhabited

mutual
  inductive Expr where
    | int (v : String)                         -- IntegerNode.value (the digits as written)
    | real (v : String)                        -- RealNode.value
    | str (v : String)                         -- StringNode.value (including the quotes)
    | bool (v : String)                        -- BooleanNode.value (as written: TRUE, true, False …)
    | enum (ns name : String)                  -- EnumOrNamedConstantNode
    | var (n : String)                         -- VariableAccessNode
    | self                                     -- SelfAccessNode
    | selected                                 -- SelectedAccessNode
    | param (n : String)                       -- ParamAccessNode
    | field (h : Expr) (n : String)            -- FieldAccessNode
    | index (h : Expr) (i : Expr)              -- IndexAccessNode
    | un (op : String) (e : Expr)              -- UnaryOperationNode
    | bin (l : Expr) (op : String) (r : Expr)  -- BinaryOperationNode
    | call (k : CallKind) (ns name : String) (ps : Params)   -- Function/Implicit/Bridge/Class/PortInvocationNode
    | icall (h : Expr) (name : String) (ps : Params)          -- InstanceInvocationNode
  inductive Params where                       -- ParameterListNode of ParameterNode(name, expression)
    | nil
    | cons (name : String) (e : Expr) (rest : Params)
end

/-- NavigationStepNode(key_letter, rel_id, phrase); phrase "" = none -/
structure Step where
  kl : String
  rel : String
  phrase : String
  deriving DecidableEq, Repr, Inhabited

/-- the receiver of an event: `KL class` / `KL assigner` (GenerateClassEventNode, CreateClassEventNode),
    `KL creator`, or an instance handle (VariableAccessNode / SelfAccessNode) -/
inductive EvtTo where
  | cls (kl : String)
  | creator (kl : String)
  | inst (h : Expr)

mutual
  inductive Stmt where
    | assign (l r : Expr)                                      -- AssignmentNode
    | ret (e : Option Expr)                                    -- ReturnNode
    | brk | cont | ctl                                         -- BreakNode ContinueNode ControlNode
    | create (v kl : String)                                   -- CreateObjectNode
    | createNV (kl : String)                                   -- CreateObjectNoVariableNode
    | delete (v : String)                                      -- DeleteNode
    | relate (a b rel ph : String)                             -- RelateNode
    | relateU (a b rel ph u : String)                          -- RelateUsingNode
    | unrelate (a b rel ph : String)                           -- UnrelateNode
    | unrelateU (a b rel ph u : String)                        -- UnrelateUsingNode
    | selFrom (card v kl : String)                             -- SelectFromNode
    | selFromW (card v kl : String) (w : Expr)                 -- SelectFromWhereNode
    | selRel (card v : String) (h : Expr) (chain : List Step)  -- SelectRelatedNode
    | selRelW (card v : String) (h : Expr) (chain : List Step) (w : Expr)   -- SelectRelatedWhereNode
    | forEach (v s : String) (b : Block)                       -- ForEachNode
    | while_ (e : Expr) (b : Block)                            -- WhileNode
    | if_ (e : Expr) (b : Block) (elifs : Elifs) (els : Else)  -- IfNode
    | invoke (e : Expr)                                        -- InvocationStatementNode
    /-- Generate{Class,Creator,Instance}EventNode(EventSpecNode(identifier, meaning, event_data), receiver) -/
    | genEvt (label : String) (meaning : Option String) (data : Params) (to : EvtTo)
    /-- Create{Class,Creator,Instance}EventNode(variable_name, EventSpecNode(…), receiver) -/
    | createEvt (v : String) (label : String) (meaning : Option String) (data : Params) (to : EvtTo)
    | genPre (e : Expr)                                        -- GeneratePreexistingNode(variable_access)
  inductive Block where                                        -- BlockNode(StatementListNode)
    | nil
    | cons (s : Stmt) (rest : Block)
  inductive Elifs where                                        -- ElIfListNode of ElIfNode(expression, block)
    | nil
    | cons (e : Expr) (b : Block) (rest : Elifs)
  inductive Else where                                         -- else_clause: None | ElseNode(block)
    | none
    | some (b : Block)
end

/-! ### tokens of the generated text (PLY token types of bridgepoint/oal.py) -/

/-- the keywords `sourcegen.py` can print (PLY type = the upper-case word, value = lower case) -/
inductive Kw where
  | assign | return_ | break_ | continue_ | control_ | stop | create | object | instance_ | of_ | delete
  | relate | to | across | using_ | unrelate | from_ | select | one | any | many | related | by_ | instances
  | where_ | for_ | each | in_ | while_ | if_ | elif_ | else_ | bridge | transform
  | generate | event | class_ | creator
  | true_ | false_ | self_ | selected | param | not_ | empty | not_empty | cardinality | and_ | or_
  deriving DecidableEq, Repr, Inhabited

/-- punctuation and operator tokens -/
inductive Pn where
  | semi | eq | dot | dcolon | lpar | rpar | times | colon | comma | arrow | lsq | rsq
  | deq | neq | lt | le | gt | ge | plus | minus | pipe | div | mod | amp | caret
  deriving DecidableEq, Repr, Inhabited

inductive Tok where
  | kw (k : Kw)
  | p (x : Pn)
  | ident (s : String)     -- ID
  | ns (s : String)        -- NAMESPACE (an identifier directly followed by `::`)
  | num (s : String)       -- NUMBER
  | frac (s : String)      -- FRACTION
  | str (s : String)       -- STRING (with quotes)
  | phrase (s : String)    -- TICKED_PHRASE (with ticks)
  | endIf | endFor | endWhile
  | bad (s : String)       -- what the generator prints for a tree outside the supported set (never lexes back)
  deriving DecidableEq, Repr, Inhabited

/-- name-resolution context: key letters of the external entities and of the classes in scope -/
structure Ctx where
  ees : List String
  classes : List String
  /-- state-machine events of the model: derived label ↦ meaning as sourcegen prints it (`'` Mning `'`) -/
  events : List (String × String) := []
  deriving Repr, Inhabited

end Pyx.Prebuild
