import PyxModel.Prebuild.Canon

/-
  `genTokens` — the token sequence of the text that `bridgepoint.sourcegen.gen_text_action` prints for the
  Body/Value instances `bridgepoint.prebuild` creates from a (canonical, name-resolved) tree.  Written from
  sourcegen.py's `accept_ACT_*` / `accept_V_*` methods composed with prebuild.py's `accept_*Node` methods:

    V_BIN  '(' left ' ' Operator ' ' right ')'        V_UNY  '(' Operator ' ' operand ')'
    V_LBO  Value.lower()      V_LST '"' + value[1:-1] + '"'      V_LIN / V_LRL  value
    V_LEN / V_SCV  NS '::' name      V_PVL 'param.' name      V_SLR 'selected'      V_AVL root '.' attr
    V_AER  root '[' index ']'        V_FNV '::' f '(' params ')'     V_BRV / class V_TRV  KL '::' f '(' … ')'
    instance V_TRV  var '.' f '(' … ')'       V_PAR  name ': ' value, separated by ', ' in source order
    ACT_AI 'assign ' l ' = ' r        ACT_RET 'return ' [value]        ACT_BRK/CON/CTL
    ACT_CR / ACT_CNV / ACT_DEL / ACT_REL / ACT_RU / ACT_UNR / ACT_URU / ACT_FIO / ACT_FIW / ACT_SEL(+ACT_SRW, ACT_LNK chain)
    ACT_FOR / ACT_WHL / ACT_IF (+ACT_EL in source order, ACT_E)        ACT_FNC / 'bridge ' ACT_BRG / ACT_TFM
    E_ESS: E_GES 'generate ' event | E_CES 'create event instance ' var ' of ' event, '(' data items ')' ' to ' receiver
    E_GPR 'generate ' value
    every statement of a block followed by ';'

  Layout (blanks, line breaks, indentation) is not part of the token level; the character level is covered by
  the correspondence run (the real text is lexed by the real PLY lexer and compared token by token).
-/
namespace Pyx.Prebuild

open Tok Kw Pn

/-- operator spelling (lower case, as stored in `V_BIN.Operator`) ↔ the token the lexer makes of it -/
def binOps : List (String × Tok) :=
  [("+", p plus), ("-", p minus), ("|", p pipe), ("*", p times), ("/", p div), ("%", p mod), ("&", p amp),
   ("^", p caret), ("<=", p le), ("<", p lt), ("==", p deq), ("!=", p neq), (">=", p ge), (">", p gt),
   ("and", kw and_), ("or", kw or_)]

def unOps : List (String × Tok) :=
  [("not", kw not_), ("empty", kw empty), ("not_empty", kw not_empty), ("cardinality", kw cardinality),
   ("+", p plus), ("-", p minus)]

def cards : List (String × Tok) := [("one", kw one), ("any", kw any), ("many", kw many)]

def tokOf (tbl : List (String × Tok)) (s : String) : Tok :=
  match tbl.lookup s with
  | some t => t
  | none => bad s

def nameOf (tbl : List (String × Tok)) (t : Tok) : Option String :=
  match tbl.find? (fun x => x.2 == t) with
  | some x => some x.1
  | none => none

/-- `V_LST`: prebuild stores `value[1:-1]`, sourcegen prints it between double quotes -/
def requote (v : String) : String :=
  "\"" ++ String.ofList ((v.toList.drop 1).dropLast) ++ "\""

/-- `V_LBO`: `str(value).upper()` stored, `.lower()` printed; the lexer makes a keyword of true / false -/
def boolTok (v : String) : Tok :=
  if lowerStr v = "true" then kw true_ else if lowerStr v = "false" then kw false_ else bad v

/-- an instance name in delete / relate / unrelate: the variable's name; `self` lexes as the keyword -/
def nameTok (v : String) : Tok := if v = "self" then kw self_ else ident v

def phraseToks (ph : String) : List Tok := if ph = "" then [] else [p dot, phrase ph]

mutual
  def genExpr : Expr → List Tok
    | .int v => [num v]
    | .real v => [frac v]
    | .str v => [str (requote v)]
    | .bool v => [boolTok v]
    | .enum nsp n => [ns nsp, p dcolon, ident n]
    | .var n => [ident n]
    | .self => [kw self_]
    | .selected => [kw selected]
    | .param n => [kw param, p dot, ident n]
    | .field h n => genExpr h ++ [p dot, ident n]
    | .index h i => genExpr h ++ [p lsq] ++ genExpr i ++ [p rsq]
    | .un op e => [p lpar, tokOf unOps op] ++ genExpr e ++ [p rpar]
    | .bin l op r => [p lpar] ++ genExpr l ++ [tokOf binOps op] ++ genExpr r ++ [p rpar]
    | .call .func _ name ps => [p dcolon, ident name, p lpar] ++ genParams ps ++ [p rpar]
    | .call .bridge nsp name ps => [ns nsp, p dcolon, ident name, p lpar] ++ genParams ps ++ [p rpar]
    | .call .classop nsp name ps => [ns nsp, p dcolon, ident name, p lpar] ++ genParams ps ++ [p rpar]
    | .call .implicit nsp _ _ => [bad nsp]
    | .call .port nsp _ _ => [bad nsp]
    | .icall h name ps => genExpr h ++ [p dot, ident name, p lpar] ++ genParams ps ++ [p rpar]
  def genParams : Params → List Tok
    | .nil => []
    | .cons n e .nil => [ident n, p colon] ++ genExpr e
    | .cons n e rest => [ident n, p colon] ++ genExpr e ++ [p comma] ++ genParams rest
end

def genStep (s : Step) : List Tok :=
  [p arrow, ident s.kl, p lsq, ident s.rel] ++ phraseToks s.phrase ++ [p rsq]

def genChain : List Step → List Tok
  | [] => []
  | s :: rest => genStep s ++ genChain rest

/-- `accept_SM_EVT`: Drv_Lbl ":'" Mning "'" — the meaning is printed from the MODEL (SM_EVT.Mning); `canon` puts
    the modelled meaning into the normal form (`canonMeaning`), whatever the source states or omits, so `genTokens`
    of a normal form prints it; `none` only remains for an event the context does not know (outside `supported`) -/
def genEvtSpec (label : String) (meaning : Option String) (data : Params) : List Tok :=
  match meaning with
  | some m => [ident label, p colon, phrase m, p lpar] ++ genParams data ++ [p rpar]
  | none => [bad label]

/-- `accept_E_GSME` / `accept_E_CSME`: ' to ' then the instance variable, `KL class` or `KL creator` -/
def genTo : EvtTo → List Tok
  | .cls kl => [ident kl, kw class_]
  | .creator kl => [ident kl, kw creator]
  | .inst .self => [kw self_]
  | .inst (.var v) => [ident v]
  | .inst _ => [bad "to"]

mutual
  def genStmt : Stmt → List Tok
    | .assign l r => [kw assign] ++ genExpr l ++ [p eq] ++ genExpr r
    | .ret none => [kw return_]
    | .ret (some e) => [kw return_] ++ genExpr e
    | .brk => [kw break_]
    | .cont => [kw continue_]
    | .ctl => [kw control_, kw stop]
    | .create v kl => [kw create, kw object, kw instance_, ident v, kw of_, ident kl]
    | .createNV kl => [kw create, kw object, kw instance_, kw of_, ident kl]
    | .delete v => [kw delete, kw object, kw instance_, nameTok v]
    | .relate a b rel ph => [kw relate, nameTok a, kw to, nameTok b, kw across, ident rel] ++ phraseToks ph
    | .relateU a b rel ph u =>
        [kw relate, nameTok a, kw to, nameTok b, kw across, ident rel] ++ phraseToks ph ++ [kw using_, nameTok u]
    | .unrelate a b rel ph => [kw unrelate, nameTok a, kw from_, nameTok b, kw across, ident rel] ++ phraseToks ph
    | .unrelateU a b rel ph u =>
        [kw unrelate, nameTok a, kw from_, nameTok b, kw across, ident rel] ++ phraseToks ph ++ [kw using_, nameTok u]
    | .selFrom card v kl => [kw select, tokOf cards card, ident v, kw from_, kw instances, kw of_, ident kl]
    | .selFromW card v kl w =>
        [kw select, tokOf cards card, ident v, kw from_, kw instances, kw of_, ident kl, kw where_] ++ genExpr w
    | .selRel card v h chain =>
        [kw select, tokOf cards card, ident v, kw related, kw by_] ++ genExpr h ++ genChain chain
    | .selRelW card v h chain w =>
        [kw select, tokOf cards card, ident v, kw related, kw by_] ++ genExpr h ++ genChain chain ++ [kw where_] ++ genExpr w
    | .forEach v s b => [kw for_, kw each, ident v, kw in_, ident s] ++ genBlock b ++ [endFor]
    | .while_ e b => [kw while_] ++ genExpr e ++ genBlock b ++ [endWhile]
    | .if_ e b elifs els => [kw if_] ++ genExpr e ++ genBlock b ++ genElifs elifs ++ genElse els ++ [endIf]
    | .invoke (.call .bridge nsp name ps) => kw bridge :: genExpr (.call .bridge nsp name ps)
    | .invoke (.icall h name ps) => kw transform :: genExpr (.icall h name ps)
    | .invoke e => genExpr e
    | .genEvt l m d tgt => [kw generate] ++ genEvtSpec l m d ++ [kw to] ++ genTo tgt
    | .createEvt v l m d tgt =>
        [kw create, kw event, kw instance_, ident v, kw of_] ++ genEvtSpec l m d ++ [kw to] ++ genTo tgt
    | .genPre e => [kw generate] ++ genExpr e
  def genBlock : Block → List Tok
    | .nil => []
    | .cons s rest => genStmt s ++ [p semi] ++ genBlock rest
  def genElifs : Elifs → List Tok
    | .nil => []
    | .cons e b rest => [kw elif_] ++ genExpr e ++ genBlock b ++ genElifs rest
  def genElse : Else → List Tok
    | .none => []
    | .some b => [kw else_] ++ genBlock b
end

/-- tokens of the regenerated text of a whole action body -/
def genTokens (b : Block) : List Tok := genBlock b

end Pyx.Prebuild
