import PyxModel.Prebuild.Gen

/-
  `supported ctx b` — the statement set the C05 theorems cover, as a decidable (executable) predicate on a
  tree in normal form: canonical spellings (operators from the two tables, `true`/`false`, select
  cardinalities), name-resolved invocations (a bridge invocation names an external entity, a class
  invocation names a class that is not an external entity), string literals in the shape the lexer delivers,
  handles of field / index access and of instance invocations as the OAL grammar allows them.
  The driver evaluates it on every generated case, so the correspondence run also shows that the generator's
  domain lies inside the theorems' domain.
-/
namespace Pyx.Prebuild

def isAccess : Expr → Bool
  | .var _ | .self | .selected | .param _ | .field _ _ | .index _ _ => true
  | _ => false

def isVarOrSelf : Expr → Bool
  | .var _ | .self => true
  | _ => false

def inTable (tbl : List (String × Tok)) (s : String) : Bool := (tbl.lookup s).isSome

mutual
  def wfExpr (ctx : Ctx) : Expr → Bool
    | .int _ => true
    | .real _ => true
    | .str v => requote v == v
    | .bool v => v == "true" || v == "false"
    | .enum _ _ => true
    | .var _ => true
    | .self => true
    | .selected => true
    | .param _ => true
    | .field h _ => isAccess h && wfExpr ctx h
    | .index h i => isAccess h && wfExpr ctx h && wfExpr ctx i
    | .un op e => inTable unOps op && wfExpr ctx e
    | .bin l op r => inTable binOps op && wfExpr ctx l && wfExpr ctx r
    | .call .func nsp _ ps => nsp == "" && wfParams ctx ps
    | .call .bridge nsp _ ps => resolve ctx nsp == .bridge && wfParams ctx ps
    | .call .classop nsp _ ps => resolve ctx nsp == .classop && wfParams ctx ps
    | .call .implicit _ _ _ => false
    | .call .port _ _ _ => false
    | .icall h _ ps => isVarOrSelf h && wfParams ctx ps
  def wfParams (ctx : Ctx) : Params → Bool
    | .nil => true
    | .cons _ e rest => wfExpr ctx e && wfParams ctx rest
end

def isInvocation : Expr → Bool
  | .call .func _ _ _ | .call .bridge _ _ _ | .call .classop _ _ _ | .icall _ _ _ => true
  | _ => false

def wfTo : EvtTo → Bool
  | .cls _ | .creator _ => true
  | .inst h => isVarOrSelf h

mutual
  def wfStmt (ctx : Ctx) : Stmt → Bool
    | .assign l r => wfExpr ctx l && wfExpr ctx r
    | .ret none => true
    | .ret (some e) => wfExpr ctx e
    | .brk | .cont | .ctl => true
    | .create _ _ | .createNV _ | .delete _ => true
    | .relate _ _ _ _ | .relateU _ _ _ _ _ | .unrelate _ _ _ _ | .unrelateU _ _ _ _ _ => true
    | .selFrom card _ _ => card == "any" || card == "many"
    | .selFromW card _ _ w => (card == "any" || card == "many") && wfExpr ctx w
    | .selRel card _ h chain => inTable cards card && wfExpr ctx h && !chain.isEmpty
    | .selRelW card _ h chain w => inTable cards card && wfExpr ctx h && !chain.isEmpty && wfExpr ctx w
    | .forEach _ _ b => wfBlock ctx b
    | .while_ e b => wfExpr ctx e && wfBlock ctx b
    | .if_ e b elifs els => wfExpr ctx e && wfBlock ctx b && wfElifs ctx elifs && wfElse ctx els
    | .invoke e => isInvocation e && wfExpr ctx e
    | .genEvt _ m d to => m.isSome && wfParams ctx d && wfTo to
    | .createEvt _ _ m d to => m.isSome && wfParams ctx d && wfTo to
    | .genPre (.var _) => true          -- `generate <event variable>`
    | .genPre _ => false
  def wfBlock (ctx : Ctx) : Block → Bool
    | .nil => true
    | .cons s rest => wfStmt ctx s && wfBlock ctx rest
  def wfElifs (ctx : Ctx) : Elifs → Bool
    | .nil => true
    | .cons e b rest => wfExpr ctx e && wfBlock ctx b && wfElifs ctx rest
  def wfElse (ctx : Ctx) : Else → Bool
    | .none => true
    | .some b => wfBlock ctx b
end

/-- the supported, name-resolved action bodies (in normal form) -/
def supported (ctx : Ctx) (b : Block) : Bool := wfBlock ctx b

end Pyx.Prebuild
