import PyxModel.Prebuild.Gen

/-
  `parseGen` — a recursive-descent parser for the OUTPUT language of sourcegen.py (token level):
  every operation is parenthesised, so no precedence climbing is needed; `(` followed by a unary operator
  token is a unary operation, any other `( … )` is a binary operation; postfix `.name`, `[index]` and
  `.name(params)` follow a variable / self / selected / param access; statements are recognised by their
  first keyword.  A bare `NS::f(...)` is classified by the context exactly as `canon` / the prebuilder do
  (`resolve`), `bridge NS::f(...)` is a bridge invocation.

  Fuel-indexed (structural recursion on the fuel); `parseGen` supplies enough fuel for any token list the
  generator can produce (`Proofs/PrebuildFuel.lean`: `fuel_enough`).
  It is an inverse of `genTokens` on the output language, NOT a model of `oal.parse` (it rejects `x = a + b`).
-/
namespace Pyx.Prebuild

open Tok Kw Pn

mutual
  def parseExpr (ctx : Ctx) : Nat → List Tok → Option (Expr × List Tok)
    | 0, _ => none
    | f+1, ts =>
      match ts with
      | num v :: r => some (.int v, r)
      | frac v :: r => some (.real v, r)
      | str v :: r => some (.str v, r)
      | kw true_ :: r => some (.bool "true", r)
      | kw false_ :: r => some (.bool "false", r)
      | p lpar :: t :: r =>
        match nameOf unOps t with
        | some op =>
          match parseExpr ctx f r with
          | some (e, p rpar :: r') => some (.un op e, r')
          | _ => none
        | none =>
          match parseExpr ctx f (t :: r) with
          | some (l, t2 :: r2) =>
            match nameOf binOps t2 with
            | some op =>
              match parseExpr ctx f r2 with
              | some (rr, p rpar :: r3) => some (.bin l op rr, r3)
              | _ => none
            | none => none
          | _ => none
      | ns nsp :: p dcolon :: ident n :: r =>
        match r with
        | p lpar :: r1 =>
          match parseParams ctx f r1 with
          | some (ps, p rpar :: r2) => some (.call (resolve ctx nsp) nsp n ps, r2)
          | _ => none
        | _ => some (.enum nsp n, r)
      | p dcolon :: ident n :: p lpar :: r =>
        match parseParams ctx f r with
        | some (ps, p rpar :: r2) => some (.call .func "" n ps, r2)
        | _ => none
      | ident n :: r => parsePostfix ctx f (.var n) r
      | kw self_ :: r => parsePostfix ctx f .self r
      | kw selected :: r => parsePostfix ctx f .selected r
      | kw param :: p dot :: ident n :: r => parsePostfix ctx f (.param n) r
      | _ => none
  def parsePostfix (ctx : Ctx) : Nat → Expr → List Tok → Option (Expr × List Tok)
    | 0, _, _ => none
    | f+1, acc, ts =>
      match ts with
      | p dot :: ident n :: r =>
        match r with
        | p lpar :: r1 =>
          match parseParams ctx f r1 with
          | some (ps, p rpar :: r2) => some (.icall acc n ps, r2)
          | _ => none
        | _ => parsePostfix ctx f (.field acc n) r
      | p lsq :: r =>
        match parseExpr ctx f r with
        | some (i, p rsq :: r1) => parsePostfix ctx f (.index acc i) r1
        | _ => none
      | _ => some (acc, ts)
  def parseParams (ctx : Ctx) : Nat → List Tok → Option (Params × List Tok)
    | 0, _ => none
    | f+1, ts =>
      match ts with
      | ident n :: p colon :: r =>
        match parseExpr ctx f r with
        | some (e, p comma :: r1) =>
          match parseParams ctx f r1 with
          | some (rest, r2) => some (.cons n e rest, r2)
          | none => none
        | some (e, r1) => some (.cons n e .nil, r1)
        | none => none
      | _ => some (.nil, ts)
end

def parseName : List Tok → Option (String × List Tok)
  | kw self_ :: r => some ("self", r)
  | ident s :: r => some (s, r)
  | _ => none

def parsePhrase : List Tok → String × List Tok
  | p dot :: phrase ph :: r => (ph, r)
  | r => ("", r)

def parseChain : Nat → List Tok → Option (List Step × List Tok)
  | 0, _ => none
  | f+1, ts =>
    match ts with
    | p arrow :: ident kl :: p lsq :: ident rel :: r =>
      match parsePhrase r with
      | (ph, p rsq :: r1) =>
        match parseChain f r1 with
        | some (rest, r2) => some (⟨kl, rel, ph⟩ :: rest, r2)
        | none => none
      | _ => none
    | _ => some ([], ts)

/-- `… across Rn[.phrase] [using v]` — the tail shared by relate and unrelate -/
def parseRelTail (ts : List Tok) : Option (String × String × Option String × List Tok) :=
  match ts with
  | kw across :: ident rel :: r =>
    match parsePhrase r with
    | (ph, kw using_ :: r1) =>
      match parseName r1 with
      | some (u, r2) => some (rel, ph, some u, r2)
      | none => none
    | (ph, r1) => some (rel, ph, none, r1)
  | _ => none

/-- the receiver after ` to ` -/
def parseTo : List Tok → Option (EvtTo × List Tok)
  | ident kl :: kw class_ :: r => some (.cls kl, r)
  | ident kl :: kw creator :: r => some (.creator kl, r)
  | kw self_ :: r => some (.inst .self, r)
  | ident v :: r => some (.inst (.var v), r)
  | _ => none

/-- tokens a statement of the output language can start with -/
def stmtStart : Tok → Bool
  | kw assign | kw return_ | kw break_ | kw continue_ | kw control_ | kw create | kw delete | kw relate
  | kw unrelate | kw select | kw for_ | kw while_ | kw if_ | kw bridge | kw transform | kw generate => true
  | ns _ => true
  | p dcolon => true
  | _ => false

def startsStmt : List Tok → Bool
  | t :: _ => stmtStart t
  | [] => false

mutual
  def parseStmt (ctx : Ctx) : Nat → List Tok → Option (Stmt × List Tok)
    | 0, _ => none
    | f+1, ts =>
      match ts with
      | kw assign :: r =>
        match parseExpr ctx f r with
        | some (l, p eq :: r1) =>
          match parseExpr ctx f r1 with
          | some (rr, r2) => some (.assign l rr, r2)
          | none => none
        | _ => none
      | kw return_ :: r =>
        match r with
        | p semi :: _ => some (.ret none, r)
        | _ =>
          match parseExpr ctx f r with
          | some (e, r1) => some (.ret (some e), r1)
          | none => none
      | kw break_ :: r => some (.brk, r)
      | kw continue_ :: r => some (.cont, r)
      | kw control_ :: kw stop :: r => some (.ctl, r)
      | kw create :: kw event :: kw instance_ :: ident v :: kw of_ :: ident l :: p colon :: phrase m :: p lpar :: r =>
        match parseParams ctx f r with
        | some (d, p rpar :: kw to :: r1) =>
          match parseTo r1 with
          | some (tgt, r2) => some (.createEvt v l (some m) d tgt, r2)
          | none => none
        | _ => none
      | kw generate :: ident l :: p colon :: phrase m :: p lpar :: r =>
        match parseParams ctx f r with
        | some (d, p rpar :: kw to :: r1) =>
          match parseTo r1 with
          | some (tgt, r2) => some (.genEvt l (some m) d tgt, r2)
          | none => none
        | _ => none
      | kw generate :: r =>
        match parseExpr ctx f r with
        | some (e, r1) => some (.genPre e, r1)
        | none => none
      | kw create :: kw object :: kw instance_ :: r =>
        match r with
        | kw of_ :: ident kl :: r1 => some (.createNV kl, r1)
        | ident v :: kw of_ :: ident kl :: r1 => some (.create v kl, r1)
        | _ => none
      | kw delete :: kw object :: kw instance_ :: r =>
        match parseName r with
        | some (v, r1) => some (.delete v, r1)
        | none => none
      | kw relate :: r =>
        match parseName r with
        | some (a, kw to :: r1) =>
          match parseName r1 with
          | some (b, r2) =>
            match parseRelTail r2 with
            | some (rel, ph, none, r3) => some (.relate a b rel ph, r3)
            | some (rel, ph, some u, r3) => some (.relateU a b rel ph u, r3)
            | none => none
          | none => none
        | _ => none
      | kw unrelate :: r =>
        match parseName r with
        | some (a, kw from_ :: r1) =>
          match parseName r1 with
          | some (b, r2) =>
            match parseRelTail r2 with
            | some (rel, ph, none, r3) => some (.unrelate a b rel ph, r3)
            | some (rel, ph, some u, r3) => some (.unrelateU a b rel ph u, r3)
            | none => none
          | none => none
        | _ => none
      | kw select :: c :: ident v :: r =>
        match nameOf cards c with
        | some card =>
          match r with
          | kw from_ :: kw instances :: kw of_ :: ident kl :: r1 =>
            match r1 with
            | kw where_ :: r2 =>
              match parseExpr ctx f r2 with
              | some (w, r3) => some (.selFromW card v kl w, r3)
              | none => none
            | _ => some (.selFrom card v kl, r1)
          | kw related :: kw by_ :: r1 =>
            match parseExpr ctx f r1 with
            | some (h, r2) =>
              match parseChain f r2 with
              | some (chain, r3) =>
                match r3 with
                | kw where_ :: r4 =>
                  match parseExpr ctx f r4 with
                  | some (w, r5) => some (.selRelW card v h chain w, r5)
                  | none => none
                | _ => some (.selRel card v h chain, r3)
              | none => none
            | none => none
          | _ => none
        | none => none
      | kw for_ :: kw each :: ident v :: kw in_ :: ident s :: r =>
        match parseBlock ctx f r with
        | some (b, endFor :: r1) => some (.forEach v s b, r1)
        | _ => none
      | kw while_ :: r =>
        match parseExpr ctx f r with
        | some (e, r1) =>
          match parseBlock ctx f r1 with
          | some (b, endWhile :: r2) => some (.while_ e b, r2)
          | _ => none
        | none => none
      | kw if_ :: r =>
        match parseExpr ctx f r with
        | some (e, r1) =>
          match parseBlock ctx f r1 with
          | some (b, r2) =>
            match parseElifs ctx f r2 with
            | some (elifs, r3) =>
              match parseElse ctx f r3 with
              | some (els, endIf :: r4) => some (.if_ e b elifs els, r4)
              | _ => none
            | none => none
          | none => none
        | none => none
      | kw bridge :: ns nsp :: p dcolon :: ident n :: p lpar :: r =>
        match parseParams ctx f r with
        | some (ps, p rpar :: r1) => some (.invoke (.call .bridge nsp n ps), r1)
        | _ => none
      | kw transform :: r =>
        match parseExpr ctx f r with
        | some (.icall h n ps, r1) => some (.invoke (.icall h n ps), r1)
        | _ => none
      | ns nsp :: r =>
        match parseExpr ctx f (ns nsp :: r) with
        | some (.call k a b c, r1) => some (.invoke (.call k a b c), r1)
        | _ => none
      | p dcolon :: r =>
        match parseExpr ctx f (p dcolon :: r) with
        | some (.call k a b c, r1) => some (.invoke (.call k a b c), r1)
        | _ => none
      | _ => none
  def parseBlock (ctx : Ctx) : Nat → List Tok → Option (Block × List Tok)
    | 0, _ => none
    | f+1, ts =>
      if startsStmt ts then
        match parseStmt ctx f ts with
        | some (s, p semi :: r) =>
          match parseBlock ctx f r with
          | some (rest, r1) => some (.cons s rest, r1)
          | none => none
        | _ => none
      else some (.nil, ts)
  def parseElifs (ctx : Ctx) : Nat → List Tok → Option (Elifs × List Tok)
    | 0, _ => none
    | f+1, ts =>
      match ts with
      | kw elif_ :: r =>
        match parseExpr ctx f r with
        | some (e, r1) =>
          match parseBlock ctx f r1 with
          | some (b, r2) =>
            match parseElifs ctx f r2 with
            | some (rest, r3) => some (.cons e b rest, r3)
            | none => none
          | none => none
        | none => none
      | _ => some (.nil, ts)
  def parseElse (ctx : Ctx) : Nat → List Tok → Option (Else × List Tok)
    | 0, _ => none
    | f+1, ts =>
      match ts with
      | kw else_ :: r =>
        match parseBlock ctx f r with
        | some (b, r1) => some (.some b, r1)
        | none => none
      | _ => some (.none, ts)
end

/-- enough fuel for every token list the generator produces (see `fuel_enough`) -/
def fuelFor (ts : List Tok) : Nat := 3 * ts.length + 3

/-- parse a whole regenerated action body; every token must be consumed -/
def parseGen (ctx : Ctx) (ts : List Tok) : Option Block :=
  match parseBlock ctx (fuelFor ts) ts with
  | some (b, []) => some b
  | _ => none

end Pyx.Prebuild
