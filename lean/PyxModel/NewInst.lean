import PyxModel.Attr
import Gen.MetaDefaults

/-
  C19 — `MetaClass.default_value` / `MetaClass.new` (xtuml/meta.py) and the id generators
  `IdGenerator`, `IntegerGenerator` (xtuml/tools.py), written from the code as it is now.

  The type→default table is GENERATED from the if/elif chain of `default_value`
  (Gen/MetaDefaults.lean).  The attribute store, the three assignment loops of `new` and the small
  world (classes, instances, one association) are those of PyxModel/Attr.lean.
-/

namespace Pyx
namespace NewInst
open Pyx.Attr Pyx.Gen.MetaDefaults

/-- the if/elif chain: first branch whose literal equals `uname` -/
def tableGet : List (Name × Dflt) → Name → Option Dflt
  | [], _ => none
  | (k, d) :: r, n => if n = k then some d else tableGet r n

/-- an id generator seen from outside: the value of the k-th `readfunc()` call (`__init__` makes call 0) and
    the number of `next` calls made so far; `_current = stream pos` -/
structure IdGen where
  stream : Nat → Int
  pos : Nat

def IdGen.peek (g : IdGen) : Int := g.stream g.pos
def IdGen.next (g : IdGen) : Int × IdGen := (g.stream g.pos, { g with pos := g.pos + 1 })

/-- `default_value(type_name)` with the metamodel's generator at position `pos`:
    `uname = type_name.upper()`, then the generated chain; UNIQUE_ID takes `next(id_generator)`;
    no branch → MetaException (`none`) -/
def typedDefault (stream : Nat → Int) (ty : Name) (pos : Nat) : Option (Val × Nat) :=
  match tableGet table (fold ty) with
  | some (.boolean b) => some (.bool b, pos)
  | some (.integer i) => some (.int i, pos)
  | some (.real r) => some (.real r, pos)
  | some (.string s) => some (.str s, pos)
  | some .nextId => some (.int (stream pos), pos + 1)
  | none => none

/-- does `default_value` draw from the generator for this type name? -/
def isIdType (ty : Name) : Bool := decide (tableGet table (fold ty) = some .nextId)

/-! ### one constructor call and sequences of calls on one metamodel (the objects of `arg_order`, `ids_fresh`) -/

structure Call where
  cls : Cls
  args : List Val
  kwargs : List (Name × Val)

structure Made where
  dict : Dict                       -- `__dict__` of the instance (it is in the storage whatever happened)
  defs : List (Name × Val)          -- the defaults computed, in attribute order
  ok : Bool                         -- `false`: MetaException (unknown type, or a misspelt referential keyword)

/-- `MetaClass.new` up to the batch relate: defaults are computed (and ids drawn) BEFORE any argument is
    applied, so an explicitly supplied id still consumes a generator value; keyword names are resolved to the
    declared names first (`Attr.newItems`) -/
def newOne (stream : Nat → Int) (call : Call) (pos : Nat) : Made × Nat :=
  let (defs, pos', dok) := computeDefaults (typedDefault stream) call.cls call.cls.attrs pos
  if dok then
    let (acc, res) := assignAll call.cls ⟨[], []⟩ (newItems call.cls defs call.args call.kwargs)
    ({ dict := acc.dict, defs := defs, ok := decide (res = .ok) }, pos')
  else
    let (acc, _) := assignAll call.cls ⟨[], []⟩ defs
    ({ dict := acc.dict, defs := defs, ok := false }, pos')

def newMany (stream : Nat → Int) : List Call → Nat → List Made × Nat
  | [], pos => ([], pos)
  | call :: r, pos =>
    let (m, pos') := newOne stream call pos
    let (ms, pos'') := newMany stream r pos'
    (m :: ms, pos'')

/-- the last item of an argument list whose name folds to `u` -/
def lastGiven (u : Name) : List (Name × Val) → Option Val
  | [] => none
  | (n, v) :: r =>
    match lastGiven u r with
    | some x => some x
    | none => if fold n = u then some v else none

/-- the unique-id attributes that are left to their default: non-referential, of a generator type, beyond
    the positional arguments (`npos` = positional arguments not yet consumed by `zip(attributes, args)`)
    and not named by any keyword, in any spelling -/
def defaultedIdAttrsAux (c : Cls) (kwargs : List (Name × Val)) : List (Name × Name) → Nat → List Name
  | [], _ => []
  | (a, ty) :: r, npos =>
    (if !(decide (a ∈ c.refs)) && isIdType ty && decide (npos = 0) && (lastGiven (fold a) kwargs).isNone
      then [a] else []) ++ defaultedIdAttrsAux c kwargs r (npos - 1)

def defaultedIdAttrs (call : Call) : List Name :=
  defaultedIdAttrsAux call.cls call.kwargs call.cls.attrs call.args.length

/-- the values those attributes hold in the finished instance -/
def defaultedIds (call : Call) (m : Made) : List (Option Val) :=
  if m.ok then (defaultedIdAttrs call).map (dget m.dict) else []

def allDefaultedIds : List Call → List Made → List (Option Val)
  | call :: cs, m :: ms => defaultedIds call m ++ allDefaultedIds cs ms
  | _, _ => []

/-! ### histories on one metamodel: creations interleaved with the user's own `next()` / `peek()` on the generator -/

inductive HOp where
  | create (c : Call)          -- MetaModel.new(…)
  | next                       -- next(m.id_generator): the value is handed to the caller, not to an instance
  | peek                       -- m.id_generator.peek()

/-- the instances made, with their calls, and the final generator position -/
def runHist (stream : Nat → Int) : List HOp → Nat → List (Call × Made) × Nat
  | [], pos => ([], pos)
  | .create c :: r, pos =>
    let (m, pos') := newOne stream c pos
    let (ms, pos'') := runHist stream r pos'
    ((c, m) :: ms, pos'')
  | .next :: r, pos => runHist stream r (pos + 1)
  | .peek :: r, pos => runHist stream r pos

def histDefaultedIds (l : List (Call × Made)) : List (Option Val) := l.flatMap (fun cm => defaultedIds cm.1 cm.2)

/-! ### `IntegerGenerator`, as the code is written

    class IdGenerator:       __init__: self._current = self.readfunc()
                             peek():   return self._current
                             next():   val = self._current; self._current = self.readfunc(); return val
    class IntegerGenerator:  _current = 0  (class attribute);  readfunc(): return self._current + 1 -/

structure IntGen where
  current : Int

def IntGen.readfunc (g : IntGen) : Int := g.current + 1
def IntGen.init : IntGen := { current := IntGen.readfunc { current := 0 } }
def IntGen.peek (g : IntGen) : Int := g.current
def IntGen.next (g : IntGen) : Int × IntGen := (g.current, { current := g.readfunc })

inductive GOp where
  | peek
  | next
  deriving Repr, DecidableEq

/-- any interleaving of peek / next: the values returned, and the final state -/
def IntGen.run : List GOp → IntGen → List Int × IntGen
  | [], g => ([], g)
  | .peek :: r, g => let (l, g') := IntGen.run r g; (g.peek :: l, g')
  | .next :: r, g => let (v, g1) := g.next; let (l, g') := IntGen.run r g1; (v :: l, g')

def IdGen.run : List GOp → IdGen → List Int × IdGen
  | [], g => ([], g)
  | .peek :: r, g => let (l, g') := IdGen.run r g; (g.peek :: l, g')
  | .next :: r, g => let (v, g1) := g.next; let (l, g') := IdGen.run r g1; (v :: l, g')

/-- the stream of `IntegerGenerator`: the k-th `readfunc()` call returns k + 1 -/
def intStream : Nat → Int := fun k => (k : Int) + 1

/-- a user generator counting `start, start + step, …` -/
def linStream (start step : Int) : Nat → Int := fun k => start + step * (k : Int)

/-! ### world level (correspondence): `MetaModel.new` with the typed defaults; `w.nextId` is the position -/

def newInst (stream : Nat → Int) (w : World) (kind : Name) (args : List Val) (kwargs : List (Name × Val)) :
    World × Option Exc :=
  newInstWith (typedDefault stream) w kind args kwargs

end NewInst
end Pyx
