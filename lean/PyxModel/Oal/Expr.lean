/-!
  OAL expressions at TOKEN level (bridgepoint/oal.py): token kinds, the expression syntax tree
  with exactly the node classes of oal.py, a precedence-climbing parser parameterised by a
  precedence table (the table of the real grammar is GENERATED: Gen/OalPrec.lean), and two
  renderers: `render` (only the parentheses the table requires) and `renderFull` (every operator
  node parenthesised, as bridgepoint/sourcegen.py writes expressions).

  The interface to the text is the token stream of the real PLY lexer (kind + lexeme); the
  character level is modelled elsewhere (C13/C08).  No Mathlib, no `import Lean`.

  Grammar modelled (p_* productions of oal.py):
    expression : constant | variable_access | self_access | selected_access | invocation
               | LPAREN expression RPAREN                       (grouping dropped: p[0] = p[2])
               | unary_operator expression %prec UNARY
               | expression <binary operator token> expression
    constant   : FRACTION | NUMBER | STRING | TRUE | FALSE | namespace DOUBLECOLON identifier
    variable_access : variable_name | field_access | index_access | param_access
    field_access : (structure|index_access|field_access|param_access) DOT identifier
    index_access : (array|index_access|field_access|param_access) LSQBR expression RSQBR
    structure  : variable_name | SELF | SELECTED ;  array : variable_name
    param_access : (PARAM|RCVD_EVT) DOT variable_name
    invocation : namespace DOUBLECOLON identifier LPAREN parameter_list RPAREN
               | DOUBLECOLON identifier LPAREN parameter_list RPAREN
               | structure DOT identifier LPAREN parameter_list RPAREN
    parameter_list : parameter | parameter COMMA parameter_list | <empty>     (so `f(a:1,)` is accepted)
    parameter  : identifier COLON expression
  Names: `variable_name` / `rel_id` (= `limited_identifier : ID | kw_as_identifier_1`) and `identifier`
  (`limited_identifier | kw_as_identifier_2 | _3 | _4`) are modelled with their keyword alternatives: a name
  in the tree is the TOKEN that was written (kind + lexeme; oal.py keeps the lexeme), `Kind.isVarName` /
  `Kind.isIdent` are the two classes (tied to the kw_as_identifier productions by Props/C07 `name_classes`).
-/
namespace Pyx.Oal

/-- the token kinds of `OALParser.tokens` that the lexer returns (COMMENT / SL_STRING never are) -/
inductive Kind where
  | ASSIGN | ASSIGNER | BREAK | BRIDGE | SEND | CONTROL | STOP | CONTINUE | CREATE | EVENT
  | INSTANCE | OF | OBJECT | DELETE | FOR | EACH | IN | GENERATE | IF | ELIF | ELSE | RELATE
  | TO | ACROSS | USING | RETURN | SELECT | ONE | ANY | MANY | TRANSFORM | UNRELATE | FROM
  | WHILE | CLASS | CREATOR | RELATED | BY | INSTANCES | WHERE | CARDINALITY | EMPTY | FALSE
  | NOT | NOT_EMPTY | TRUE | AND | OR | PARAM | RCVD_EVT | SELF | SELECTED | LOOP | THEN
  | SEMICOLON | EQUAL | DOT | DOUBLECOLON | LPAREN | RPAREN | TIMES | COLON | COMMA | ARROW
  | LSQBR | RSQBR | ID | NAMESPACE | END_FOR | END_IF | END_WHILE | TICKED_PHRASE | QMARK
  | FRACTION | NUMBER | STRING | DOUBLEEQUAL | NOTEQUAL | LESSTHAN | LE | GT | GE | PLUS
  | MINUS | PIPE | DIV | MOD | AMP | CARET
  deriving DecidableEq, Repr, Inhabited

inductive Assoc where
  | left | right | nonassoc
  deriving DecidableEq, Repr

/-- one token of the PLY lexer: `tok.type`, `tok.value` -/
structure Tok where
  kind : Kind
  lex : String
  deriving DecidableEq, Repr

/-- kind of the first token, if any -/
def hk : List Tok → Option Kind
  | [] => none
  | tok :: _ => some tok.kind

@[simp] theorem hk_nil : hk [] = none := rfl
@[simp] theorem hk_cons (tok : Tok) (ts : List Tok) : hk (tok :: ts) = some tok.kind := rfl

/-- `limited_identifier : ID | kw_as_identifier_1` — what `variable_name` and `rel_id` accept -/
def Kind.isVarName : Kind → Bool
  | .ID | .ACROSS | .ANY | .ASSIGN | .ASSIGNER | .BREAK | .BY | .CLASS | .CONTINUE | .CONTROL | .CREATE | .CREATOR
  | .DELETE | .EACH | .EVENT | .FOR | .FROM | .GENERATE | .IN | .INSTANCES | .INSTANCE | .MANY | .OBJECT | .ONE
  | .RELATED | .RELATE | .SELECT | .STOP | .TO | .WHERE | .UNRELATE | .USING => true
  | _ => false

/-- `identifier : limited_identifier | kw_as_identifier_2 | kw_as_identifier_3 | kw_as_identifier_4` -/
def Kind.isIdent : Kind → Bool
  | .BRIDGE | .CARDINALITY | .EMPTY | .FALSE | .NOT | .NOT_EMPTY | .SEND | .TRANSFORM | .TRUE | .OF
  | .PARAM | .RCVD_EVT | .SELECTED | .SELF
  | .AND | .ELIF | .ELSE | .IF | .OR | .RETURN | .WHILE => true
  | k => k.isVarName

/-! ### syntax tree (node classes of oal.py; the field order is the constructor's).
    A name field holds the token that was written; the oal.py node holds its lexeme. -/

mutual
inductive Expr where
  /-- `IntegerNode(value)` : NUMBER lexeme -/
  | int (v : String)
  /-- `RealNode(value)` : FRACTION lexeme -/
  | real (v : String)
  /-- `StringNode(value)` : STRING lexeme, quotes included -/
  | str (v : String)
  /-- `BooleanNode(value)` : the TRUE / FALSE keyword as spelled -/
  | bool (b : Bool) (v : String)
  /-- `EnumOrNamedConstantNode(namespace, name)` -/
  | enumc (ns : String) (name : Tok)
  /-- `VariableAccessNode(variable_name)` -/
  | var (n : Tok)
  /-- `SelfAccessNode()` -/
  | self
  /-- `SelectedAccessNode()` -/
  | selected
  /-- `ParamAccessNode(variable_name)` : `param.n` / `rcvd_evt.n` -/
  | param (n : Tok)
  /-- `FieldAccessNode(handle, name)` -/
  | field (h : Expr) (n : Tok)
  /-- `IndexAccessNode(handle, expression)` -/
  | index (h : Expr) (i : Expr)
  /-- `FunctionInvocationNode(action_name, parameter_list)` : `::f(...)` -/
  | fcall (name : Tok) (ps : Params)
  /-- `ImplicitInvocationNode(namespace, action_name, parameter_list)` : `NS::f(...)` -/
  | icall (ns : String) (name : Tok) (ps : Params)
  /-- `InstanceInvocationNode(handle, action_name, parameter_list)` : `x.op(...)` -/
  | ocall (h : Expr) (name : Tok) (ps : Params)
  /-- `UnaryOperationNode(operator, operand)`; the operator token as lexed -/
  | un (op : Tok) (e : Expr)
  /-- `BinaryOperationNode(left, operator, right)` -/
  | bin (l : Expr) (op : Tok) (r : Expr)
/-- `ParameterListNode` of `ParameterNode(name, expression)` -/
inductive Params where
  | nil
  | cons (name : Tok) (e : Expr) (rest : Params)
end

instance : Inhabited Expr := ⟨.self⟩

/-! ### precedence table -/

/-- what the parser and the renderer need to know about operators.  `bin k = some (level, assoc)`
    for the binary operator tokens, `un k` for the tokens of `unary_operator`, `ulevel` the effective
    precedence level of the production `expression : unary_operator expression`. -/
structure Tbl where
  bin : Kind → Option (Nat × Assoc)
  un : Kind → Bool
  ulevel : Nat

/-- table from association lists (the shape the translator emits) -/
def Tbl.ofLists (bins : List (Kind × Nat × Assoc)) (uns : List Kind) (ulevel : Nat) : Tbl where
  bin k := bins.lookup k
  un k := uns.contains k
  ulevel := ulevel

/-- tokens after which / before which an operand is never an operator: closing and separating
    punctuation and the three tokens that continue an access chain or open an argument list -/
def Kind.isStructural : Kind → Bool
  | .DOT | .LSQBR | .LPAREN | .RPAREN | .RSQBR | .COMMA => true
  | _ => false

/-- tokens that start an operand -/
def Kind.isAtomStart : Kind → Bool
  | .NUMBER | .FRACTION | .STRING | .TRUE | .FALSE | .SELF | .SELECTED | .PARAM | .RCVD_EVT
  | .NAMESPACE | .DOUBLECOLON | .LPAREN => true
  | k => k.isVarName

/-- minimal level of the right operand: PLY reduces `e op e . op'` when `op'` is lower, or equal
    and `left`; errors when equal and `nonassoc`; shifts otherwise -/
def rmin (l : Nat) : Assoc → Nat
  | .right => l
  | _ => l + 1

/-- minimal level of an unparenthesised left operand -/
def lmin (l : Nat) : Assoc → Nat
  | .left => l
  | _ => l + 1

/-! ### parser -/

def Expr.isStruct : Expr → Bool
  | .var _ | .self | .selected => true
  | _ => false

/-- what may stand before `[` : array (a variable name), index_access, field_access, param_access -/
def Expr.isIndexable : Expr → Bool
  | .var _ | .param _ | .field _ _ | .index _ _ => true
  | _ => false

/-- what may stand before `.name` : structure, index_access, field_access, param_access -/
def Expr.isChain : Expr → Bool
  | .var _ | .self | .selected | .param _ | .field _ _ | .index _ _ => true
  | _ => false

mutual
/-- `parameter_list` up to (not including) the closing parenthesis -/
def parseParams (t : Tbl) : Nat → List Tok → Option (Params × List Tok)
  | 0, _ => none
  | f+1, nm :: col :: ts =>
    if nm.kind.isIdent = true ∧ col.kind = .COLON then
      match parseExpr t f 0 ts with
      | some (e, ts') =>
        if hk ts' = some .COMMA then
          match parseParams t f (ts'.drop 1) with
          | some (ps, ts'') => some (.cons nm e ps, ts'')
          | none => none
        else some (.cons nm e .nil, ts')
      | none => none
    else some (.nil, nm :: col :: ts)
  | _+1, ts => some (.nil, ts)
/-- the suffixes of an access chain after the handle `h` -/
def parseSuffix (t : Tbl) : Nat → Expr → List Tok → Option (Expr × List Tok)
  | 0, _, _ => none
  | f+1, h, tok :: ts =>
    match tok.kind with
    | .DOT =>
      match ts with
      | nm :: ts1 =>
        if nm.kind.isIdent then
          if hk ts1 = some .LPAREN then
            -- instance_invocation : structure DOT identifier LPAREN parameter_list RPAREN
            if h.isStruct then
              match parseParams t f (ts1.drop 1) with
              | some (ps, ts2) =>
                if hk ts2 = some .RPAREN then some (.ocall h nm ps, ts2.drop 1) else none
              | none => none
            else none
          else if h.isChain then parseSuffix t f (.field h nm) ts1 else none
        else none
      | [] => none
    | .LSQBR =>
      if h.isIndexable then
        match parseExpr t f 0 ts with
        | some (i, ts1) =>
          if hk ts1 = some .RSQBR then parseSuffix t f (.index h i) (ts1.drop 1) else none
        | none => none
      else none
    | _ => some (h, tok :: ts)
  | _+1, h, [] => some (h, [])
/-- one operand: a constant, an access chain, an invocation, a parenthesised expression or a
    unary operator applied to an expression parsed at the unary level -/
def parsePrefix (t : Tbl) : Nat → List Tok → Option (Expr × List Tok)
  | 0, _ => none
  | _+1, [] => none
  | f+1, tok :: ts =>
    if t.un tok.kind then
      match parseExpr t f t.ulevel ts with
      | some (e, ts') => some (.un tok e, ts')
      | none => none
    else if tok.kind.isVarName then parseSuffix t f (.var tok) ts
    else
      match tok.kind with
      | .NUMBER => some (.int tok.lex, ts)
      | .FRACTION => some (.real tok.lex, ts)
      | .STRING => some (.str tok.lex, ts)
      | .TRUE => some (.bool true tok.lex, ts)
      | .FALSE => some (.bool false tok.lex, ts)
      | .SELF => parseSuffix t f .self ts
      | .SELECTED => parseSuffix t f .selected ts
      | .PARAM | .RCVD_EVT =>
        match ts with
        | d :: nm :: ts' =>
          if d.kind = .DOT ∧ nm.kind.isVarName = true then parseSuffix t f (.param nm) ts' else none
        | _ => none
      | .NAMESPACE =>
        match ts with
        | dc :: nm :: ts' =>
          if dc.kind = .DOUBLECOLON ∧ nm.kind.isIdent = true then
            if hk ts' = some .LPAREN then
              match parseParams t f (ts'.drop 1) with
              | some (ps, ts2) =>
                if hk ts2 = some .RPAREN then some (.icall tok.lex nm ps, ts2.drop 1) else none
              | none => none
            else some (.enumc tok.lex nm, ts')
          else none
        | _ => none
      | .DOUBLECOLON =>
        match ts with
        | nm :: lp :: ts' =>
          if nm.kind.isIdent = true ∧ lp.kind = .LPAREN then
            match parseParams t f ts' with
            | some (ps, ts2) =>
              if hk ts2 = some .RPAREN then some (.fcall nm ps, ts2.drop 1) else none
            | none => none
          else none
        | _ => none
      | .LPAREN =>
        match parseExpr t f 0 ts with
        | some (e, ts') => if hk ts' = some .RPAREN then some (e, ts'.drop 1) else none
        | none => none
      | _ => none
/-- an expression all of whose top-level binary operators have level ≥ `minL` -/
def parseExpr (t : Tbl) : Nat → Nat → List Tok → Option (Expr × List Tok)
  | 0, _, _ => none
  | f+1, minL, ts =>
    match parsePrefix t f ts with
    | some (lhs, ts') => parseLoop t f minL none lhs ts'
    | none => none
/-- the operator loop; `na = some l` when `lhs` was just built by a non-associative operator of
    level `l` (a second operator of that level is then a syntax error, as in PLY) -/
def parseLoop (t : Tbl) : Nat → Nat → Option Nat → Expr → List Tok → Option (Expr × List Tok)
  | 0, _, _, _, _ => none
  | _+1, _, _, lhs, [] => some (lhs, [])
  | f+1, minL, na, lhs, tok :: ts =>
    match t.bin tok.kind with
    | some (l, a) =>
      if l < minL then some (lhs, tok :: ts)
      else if na = some l then none
      else
        match parseExpr t f (rmin l a) ts with
        | some (rhs, ts') =>
          parseLoop t f minL (if a = .nonassoc then some l else none) (.bin lhs tok rhs) ts'
        | none => none
    | none => some (lhs, tok :: ts)
end

/-- fuel that is enough for EVERY token list: `Proofs/OalFuel.lean` proves that a result obtained with any amount of
    fuel is obtained with every amount ≥ 2·|ts| + 2 (`parseExpr_fuel_indep`), so `parseExprTop` rejects only what
    every fuel rejects (`parseExprTop_complete`) -/
def fuelFor (ts : List Tok) : Nat := 8 * ts.length + 8

/-- the expression parser as the driver and the statement parser use it -/
def parseExprTop (t : Tbl) (ts : List Tok) : Option (Expr × List Tok) :=
  parseExpr t (fuelFor ts) 0 ts

/-! ### renderers -/

def tk (k : Kind) (s : String) : Tok := ⟨k, s⟩

def LP : Tok := ⟨.LPAREN, "("⟩
def RP : Tok := ⟨.RPAREN, ")"⟩

/-- precedence level of the top node -/
def Expr.level (t : Tbl) : Expr → Nat
  | .un _ _ => t.ulevel
  | .bin _ op _ => match t.bin op.kind with | some (l, _) => l | none => 0
  | _ => t.ulevel + 1

def wrap (b : Bool) (ts : List Tok) : List Tok :=
  if b then LP :: (ts ++ [RP]) else ts

mutual
/-- the tokens of `e` without parentheses around `e` itself; an operand gets parentheses exactly
    when its level is below what its position requires -/
def renderRaw (t : Tbl) : Expr → List Tok
  | .int v => [tk .NUMBER v]
  | .real v => [tk .FRACTION v]
  | .str v => [tk .STRING v]
  | .bool b v => [tk (if b then .TRUE else .FALSE) v]
  | .enumc ns n => [tk .NAMESPACE ns, tk .DOUBLECOLON "::", n]
  | .var n => [n]
  | .self => [tk .SELF "self"]
  | .selected => [tk .SELECTED "selected"]
  | .param n => [tk .PARAM "param", tk .DOT ".", n]
  | .field h n => renderRaw t h ++ [tk .DOT ".", n]
  | .index h i =>
    renderRaw t h ++ tk .LSQBR "[" :: (wrap (decide (i.level t < 0)) (renderRaw t i) ++ [tk .RSQBR "]"])
  | .fcall n ps => tk .DOUBLECOLON "::" :: n :: LP :: (renderParams t ps ++ [RP])
  | .icall ns n ps =>
    tk .NAMESPACE ns :: tk .DOUBLECOLON "::" :: n :: LP :: (renderParams t ps ++ [RP])
  | .ocall h n ps => renderRaw t h ++ tk .DOT "." :: n :: LP :: (renderParams t ps ++ [RP])
  | .un op e => op :: wrap (decide (e.level t < t.ulevel)) (renderRaw t e)
  | .bin l op r =>
    match t.bin op.kind with
    | some (lv, a) =>
      wrap (decide (l.level t < lmin lv a)) (renderRaw t l) ++
        op :: wrap (decide (r.level t < rmin lv a)) (renderRaw t r)
    | none => []
def renderParams (t : Tbl) : Params → List Tok
  | .nil => []
  | .cons n e .nil => n :: tk .COLON ":" :: wrap (decide (e.level t < 0)) (renderRaw t e)
  | .cons n e ps =>
    n :: tk .COLON ":" :: (wrap (decide (e.level t < 0)) (renderRaw t e) ++ tk .COMMA "," :: renderParams t ps)
end

/-- `e` as an operand that must have level ≥ `need` -/
def render (t : Tbl) (e : Expr) (need : Nat) : List Tok :=
  wrap (decide (e.level t < need)) (renderRaw t e)

mutual
/-- every unary / binary node in its own parentheses (bridgepoint/sourcegen.py: `( l op r )`, `( op e )`) -/
def renderFull : Expr → List Tok
  | .int v => [tk .NUMBER v]
  | .real v => [tk .FRACTION v]
  | .str v => [tk .STRING v]
  | .bool b v => [tk (if b then .TRUE else .FALSE) v]
  | .enumc ns n => [tk .NAMESPACE ns, tk .DOUBLECOLON "::", n]
  | .var n => [n]
  | .self => [tk .SELF "self"]
  | .selected => [tk .SELECTED "selected"]
  | .param n => [tk .PARAM "param", tk .DOT ".", n]
  | .field h n => renderFull h ++ [tk .DOT ".", n]
  | .index h i => renderFull h ++ tk .LSQBR "[" :: (renderFull i ++ [tk .RSQBR "]"])
  | .fcall n ps => tk .DOUBLECOLON "::" :: n :: LP :: (renderFullParams ps ++ [RP])
  | .icall ns n ps =>
    tk .NAMESPACE ns :: tk .DOUBLECOLON "::" :: n :: LP :: (renderFullParams ps ++ [RP])
  | .ocall h n ps => renderFull h ++ tk .DOT "." :: n :: LP :: (renderFullParams ps ++ [RP])
  | .un op e => LP :: op :: (renderFull e ++ [RP])
  | .bin l op r => LP :: (renderFull l ++ op :: (renderFull r ++ [RP]))
def renderFullParams : Params → List Tok
  | .nil => []
  | .cons n e .nil => n :: tk .COLON ":" :: renderFull e
  | .cons n e ps => n :: tk .COLON ":" :: (renderFull e ++ tk .COMMA "," :: renderFullParams ps)
end

/-! ### which trees are expressions of the language (under a table) -/

mutual
/-- operators are known to the table in their role; handles are what the grammar allows there -/
def Expr.Ok (t : Tbl) : Expr → Prop
  | .enumc _ n => n.kind.isIdent = true
  | .var n => n.kind.isVarName = true
  | .param n => n.kind.isVarName = true
  | .field h n => h.isChain = true ∧ h.Ok t ∧ n.kind.isIdent = true
  | .index h i => h.isIndexable = true ∧ h.Ok t ∧ i.Ok t
  | .fcall n ps => n.kind.isIdent = true ∧ ps.Ok t
  | .icall _ n ps => n.kind.isIdent = true ∧ ps.Ok t
  | .ocall h n ps => h.isStruct = true ∧ h.Ok t ∧ n.kind.isIdent = true ∧ ps.Ok t
  | .un op e => t.un op.kind = true ∧ e.Ok t
  | .bin l op r => (t.bin op.kind).isSome = true ∧ l.Ok t ∧ r.Ok t
  | _ => True
def Params.Ok (t : Tbl) : Params → Prop
  | .nil => True
  | .cons n e ps => n.kind.isIdent = true ∧ e.Ok t ∧ ps.Ok t
end

/-! ### grammar productions as data (what the translator reads from the `p_*` functions) -/

/-- one production: the `p_*` function it stands in, `lhs : rhs [%prec prec]`, and the function body with
    `p[i]` written `$i` -/
structure Prod where
  fn : String
  lhs : String
  rhs : List String
  prec : Option String
  body : String
  deriving DecidableEq, Repr

/-- the grammar content of a production (the name of the `p_*` function is not part of it) -/
def Prod.sem (p : Prod) : String × List String × Option String × String := (p.lhs, p.rhs, p.prec, p.body)

/-- the expression sub-grammar this model implements, in the same format (see `stmtGrammar` in Stmt.lean) -/
def exprGrammar : List (String × List String × Option String × String) := [
  -- parsePrefix
  ("array", ["variable_name"], none,
    "$0 = VariableAccessNode(variable_name=$1)"),
  -- parsePrefix
  ("constant", ["FALSE"], none,
    "$0 = BooleanNode(value=$1)"),
  -- parsePrefix
  ("constant", ["FRACTION"], none,
    "$0 = RealNode(value=$1)"),
  -- parsePrefix
  ("constant", ["NUMBER"], none,
    "$0 = IntegerNode(value=$1)"),
  -- parsePrefix
  ("constant", ["STRING"], none,
    "$0 = StringNode(value=$1)"),
  -- parsePrefix
  ("constant", ["TRUE"], none,
    "$0 = BooleanNode(value=$1)"),
  -- parsePrefix
  ("constant", ["namespace", "DOUBLECOLON", "identifier"], none,
    "$0 = EnumOrNamedConstantNode(namespace=$1, name=$3)"),
  -- parsePrefix
  ("expression", ["LPAREN", "expression", "RPAREN"], none,
    "$0 = $2"),
  -- parsePrefix
  ("expression", ["constant"], none,
    "$0 = $1"),
  -- parseLoop (table: Gen binOps)
  ("expression", ["expression", "AMP", "expression"], none,
    "$0 = BinaryOperationNode(left=$1, operator=$2, right=$3)"),
  -- parseLoop (table: Gen binOps)
  ("expression", ["expression", "AND", "expression"], none,
    "$0 = BinaryOperationNode(left=$1, operator=$2, right=$3)"),
  -- parseLoop (table: Gen binOps)
  ("expression", ["expression", "CARET", "expression"], none,
    "$0 = BinaryOperationNode(left=$1, operator=$2, right=$3)"),
  -- parseLoop (table: Gen binOps)
  ("expression", ["expression", "DIV", "expression"], none,
    "$0 = BinaryOperationNode(left=$1, operator=$2, right=$3)"),
  -- parseLoop (table: Gen binOps)
  ("expression", ["expression", "DOUBLEEQUAL", "expression"], none,
    "$0 = BinaryOperationNode(left=$1, operator=$2, right=$3)"),
  -- parseLoop (table: Gen binOps)
  ("expression", ["expression", "GE", "expression"], none,
    "$0 = BinaryOperationNode(left=$1, operator=$2, right=$3)"),
  -- parseLoop (table: Gen binOps)
  ("expression", ["expression", "GT", "expression"], none,
    "$0 = BinaryOperationNode(left=$1, operator=$2, right=$3)"),
  -- parseLoop (table: Gen binOps)
  ("expression", ["expression", "LE", "expression"], none,
    "$0 = BinaryOperationNode(left=$1, operator=$2, right=$3)"),
  -- parseLoop (table: Gen binOps)
  ("expression", ["expression", "LESSTHAN", "expression"], none,
    "$0 = BinaryOperationNode(left=$1, operator=$2, right=$3)"),
  -- parseLoop (table: Gen binOps)
  ("expression", ["expression", "MINUS", "expression"], none,
    "$0 = BinaryOperationNode(left=$1, operator=$2, right=$3)"),
  -- parseLoop (table: Gen binOps)
  ("expression", ["expression", "MOD", "expression"], none,
    "$0 = BinaryOperationNode(left=$1, operator=$2, right=$3)"),
  -- parseLoop (table: Gen binOps)
  ("expression", ["expression", "NOTEQUAL", "expression"], none,
    "$0 = BinaryOperationNode(left=$1, operator=$2, right=$3)"),
  -- parseLoop (table: Gen binOps)
  ("expression", ["expression", "OR", "expression"], none,
    "$0 = BinaryOperationNode(left=$1, operator=$2, right=$3)"),
  -- parseLoop (table: Gen binOps)
  ("expression", ["expression", "PIPE", "expression"], none,
    "$0 = BinaryOperationNode(left=$1, operator=$2, right=$3)"),
  -- parseLoop (table: Gen binOps)
  ("expression", ["expression", "PLUS", "expression"], none,
    "$0 = BinaryOperationNode(left=$1, operator=$2, right=$3)"),
  -- parseLoop (table: Gen binOps)
  ("expression", ["expression", "TIMES", "expression"], none,
    "$0 = BinaryOperationNode(left=$1, operator=$2, right=$3)"),
  -- parsePrefix
  ("expression", ["invocation"], none,
    "$0 = $1"),
  -- parsePrefix
  ("expression", ["selected_access"], none,
    "$0 = $1"),
  -- parsePrefix
  ("expression", ["self_access"], none,
    "$0 = $1"),
  -- parsePrefix (table: Gen unOps / unaryProd)
  ("expression", ["unary_operator", "expression"], some "UNARY",
    "$0 = UnaryOperationNode(operator=$1, operand=$2)"),
  -- parsePrefix
  ("expression", ["variable_access"], none,
    "$0 = $1"),
  -- parseSuffix
  ("field_access", ["field_access", "DOT", "identifier"], none,
    "$0 = FieldAccessNode(handle=$1, name=$3)"),
  -- parseSuffix
  ("field_access", ["index_access", "DOT", "identifier"], none,
    "$0 = FieldAccessNode(handle=$1, name=$3)"),
  -- parseSuffix
  ("field_access", ["param_access", "DOT", "identifier"], none,
    "$0 = FieldAccessNode(handle=$1, name=$3)"),
  -- parseSuffix
  ("field_access", ["structure", "DOT", "identifier"], none,
    "$0 = FieldAccessNode(handle=$1, name=$3)"),
  -- parsePrefix
  ("function_invocation", ["DOUBLECOLON", "identifier", "LPAREN", "parameter_list", "RPAREN"], none,
    "$0 = FunctionInvocationNode(action_name=$2, parameter_list=$4)"),
  -- parsePrefix
  ("implicit_invocation", ["namespace", "DOUBLECOLON", "identifier", "LPAREN", "parameter_list", "RPAREN"], none,
    "$0 = ImplicitInvocationNode(namespace=$1, action_name=$3, parameter_list=$5)"),
  -- parseSuffix
  ("index_access", ["array", "LSQBR", "expression", "RSQBR"], none,
    "$0 = IndexAccessNode(handle=$1, expression=$3)"),
  -- parseSuffix
  ("index_access", ["field_access", "LSQBR", "expression", "RSQBR"], none,
    "$0 = IndexAccessNode(handle=$1, expression=$3)"),
  -- parseSuffix
  ("index_access", ["index_access", "LSQBR", "expression", "RSQBR"], none,
    "$0 = IndexAccessNode(handle=$1, expression=$3)"),
  -- parseSuffix
  ("index_access", ["param_access", "LSQBR", "expression", "RSQBR"], none,
    "$0 = IndexAccessNode(handle=$1, expression=$3)"),
  -- parseSuffix
  ("instance_invocation", ["structure", "DOT", "identifier", "LPAREN", "parameter_list", "RPAREN"], none,
    "$0 = InstanceInvocationNode(handle=$1, action_name=$3, parameter_list=$5)"),
  -- parsePrefix
  ("invocation", ["function_invocation"], none,
    "$0 = $1"),
  -- parsePrefix
  ("invocation", ["implicit_invocation"], none,
    "$0 = $1"),
  -- parsePrefix
  ("invocation", ["instance_invocation"], none,
    "$0 = $1"),
  -- parsePrefix
  ("param", ["PARAM"], none,
    "$0 = $1"),
  -- parsePrefix
  ("param", ["RCVD_EVT"], none,
    "$0 = $1"),
  -- parsePrefix
  ("param_access", ["param", "DOT", "variable_name"], none,
    "$0 = ParamAccessNode(variable_name=$3)"),
  -- parseParams
  ("parameter", ["identifier", "COLON", "expression"], none,
    "$0 = ParameterNode(name=$1, expression=$3)"),
  -- parseParams
  ("parameter_list", [], none,
    "$0 = ParameterListNode()"),
  -- parseParams
  ("parameter_list", ["parameter"], none,
    "$0 = ParameterListNode(); $0.children.append($1)"),
  -- parseParams
  ("parameter_list", ["parameter", "COMMA", "parameter_list"], none,
    "$0 = $3; $0.children.insert(0, $1)"),
  -- parsePrefix
  ("selected_access", ["SELECTED"], none,
    "$0 = SelectedAccessNode()"),
  -- parsePrefix
  ("self_access", ["SELF"], none,
    "$0 = SelfAccessNode()"),
  -- parsePrefix
  ("structure", ["SELECTED"], none,
    "$0 = SelectedAccessNode()"),
  -- parsePrefix
  ("structure", ["SELF"], none,
    "$0 = SelfAccessNode()"),
  -- parsePrefix
  ("structure", ["variable_name"], none,
    "$0 = VariableAccessNode(variable_name=$1)"),
  -- table: Gen unOps
  ("unary_operator", ["CARDINALITY"], none,
    "$0 = $1"),
  -- table: Gen unOps
  ("unary_operator", ["EMPTY"], none,
    "$0 = $1"),
  -- table: Gen unOps
  ("unary_operator", ["MINUS"], none,
    "$0 = $1"),
  -- table: Gen unOps
  ("unary_operator", ["NOT"], none,
    "$0 = $1"),
  -- table: Gen unOps
  ("unary_operator", ["NOT_EMPTY"], none,
    "$0 = $1"),
  -- table: Gen unOps
  ("unary_operator", ["PLUS"], none,
    "$0 = $1"),
  -- parsePrefix
  ("variable_access", ["field_access"], none,
    "$0 = $1"),
  -- parsePrefix
  ("variable_access", ["index_access"], none,
    "$0 = $1"),
  -- parsePrefix
  ("variable_access", ["param_access"], none,
    "$0 = $1"),
  -- parsePrefix
  ("variable_access", ["variable_name"], none,
    "$0 = VariableAccessNode(variable_name=$1)") ]

/-! ### re-spelling of keywords (used for C08: letter case of keywords does not matter to the parser)

  The parser looks at token KINDS only and copies lexemes into the tree.  `mapTok g` rewrites the lexeme of
  every token by a function of its kind; `Expr.mapKw g` rewrites exactly the fields of a tree that hold a
  token or the lexeme of a keyword-kind token: the boolean literal value, the operator of unary / binary nodes,
  and the name tokens (for `g` that leaves non-keyword lexemes alone — `KwOnly` — a name is changed only when
  it is a keyword used as a name; oal.py keeps such a name's spelling, identifiers being case-sensitive). -/

/-- the token kinds whose lexeme is a keyword (any letter case), incl. the `end if|for|while` tokens -/
def Kind.isKeyword : Kind → Bool
  | .ASSIGN | .ASSIGNER | .BREAK | .BRIDGE | .SEND | .CONTROL | .STOP | .CONTINUE | .CREATE | .EVENT
  | .INSTANCE | .OF | .OBJECT | .DELETE | .FOR | .EACH | .IN | .GENERATE | .IF | .ELIF | .ELSE | .RELATE
  | .TO | .ACROSS | .USING | .RETURN | .SELECT | .ONE | .ANY | .MANY | .TRANSFORM | .UNRELATE | .FROM
  | .WHILE | .CLASS | .CREATOR | .RELATED | .BY | .INSTANCES | .WHERE | .CARDINALITY | .EMPTY | .FALSE
  | .NOT | .NOT_EMPTY | .TRUE | .AND | .OR | .PARAM | .RCVD_EVT | .SELF | .SELECTED | .LOOP | .THEN
  | .END_FOR | .END_IF | .END_WHILE => true
  | _ => false

/-- rewrite the lexeme of a token by a function of its kind -/
def mapTok (g : Kind → String → String) (tok : Tok) : Tok := ⟨tok.kind, g tok.kind tok.lex⟩

mutual
def Expr.mapKw (g : Kind → String → String) : Expr → Expr
  | .bool b v => .bool b (g (if b then .TRUE else .FALSE) v)
  | .enumc ns n => .enumc ns (mapTok g n)
  | .var n => .var (mapTok g n)
  | .param n => .param (mapTok g n)
  | .field h n => .field (h.mapKw g) (mapTok g n)
  | .index h i => .index (h.mapKw g) (i.mapKw g)
  | .fcall n ps => .fcall (mapTok g n) (ps.mapKw g)
  | .icall ns n ps => .icall ns (mapTok g n) (ps.mapKw g)
  | .ocall h n ps => .ocall (h.mapKw g) (mapTok g n) (ps.mapKw g)
  | .un op e => .un (mapTok g op) (e.mapKw g)
  | .bin l op r => .bin (l.mapKw g) (mapTok g op) (r.mapKw g)
  | e => e
def Params.mapKw (g : Kind → String → String) : Params → Params
  | .nil => .nil
  | .cons n e ps => .cons (mapTok g n) (e.mapKw g) (ps.mapKw g)
end

/-- ASCII lower case, character by character (`A`–`Z` only, as the keyword test of `t_ID` folds case) -/
def lowerStr (s : String) : String := String.ofList (s.toList.map Char.toLower)

/-- lower-case the lexeme of keyword-kind tokens, leave every other lexeme alone -/
def lowerKw (k : Kind) (s : String) : String := if k.isKeyword then lowerStr s else s

/-- forget the lexeme of keyword-kind tokens, leave every other lexeme alone -/
def eraseKw (k : Kind) (s : String) : String := if k.isKeyword then "" else s

/-- all token kinds (completeness: `Kind.mem_all`, Proofs/OalExpr.lean) -/
def Kind.all : List Kind := [.ASSIGN, .ASSIGNER, .BREAK, .BRIDGE, .SEND, .CONTROL, .STOP, .CONTINUE, .CREATE, .EVENT, .INSTANCE, .OF, .OBJECT, .DELETE, .FOR, .EACH, .IN, .GENERATE, .IF, .ELIF, .ELSE, .RELATE, .TO, .ACROSS, .USING, .RETURN, .SELECT, .ONE, .ANY, .MANY, .TRANSFORM, .UNRELATE, .FROM, .WHILE, .CLASS, .CREATOR, .RELATED, .BY, .INSTANCES, .WHERE, .CARDINALITY, .EMPTY, .FALSE, .NOT, .NOT_EMPTY, .TRUE, .AND, .OR, .PARAM, .RCVD_EVT, .SELF, .SELECTED, .LOOP, .THEN, .SEMICOLON, .EQUAL, .DOT, .DOUBLECOLON, .LPAREN, .RPAREN, .TIMES, .COLON, .COMMA, .ARROW, .LSQBR, .RSQBR, .ID, .NAMESPACE, .END_FOR, .END_IF, .END_WHILE, .TICKED_PHRASE, .QMARK, .FRACTION, .NUMBER, .STRING, .DOUBLEEQUAL, .NOTEQUAL, .LESSTHAN, .LE, .GT, .GE, .PLUS, .MINUS, .PIPE, .DIV, .MOD, .AMP, .CARET]

end Pyx.Oal
