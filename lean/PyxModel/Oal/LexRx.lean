import PyxModel.Oal.LexGen

/-!
  The OAL lexer model with its lexemes taken from the generic regex engine (PyxModel/Regex.lean) run on the regex
  ASTs generated from the rule docstrings (`Gen.OalLex.rx`) instead of the hand-written scanners: the same PLY
  discipline (skip `t_ignore`, rules in definition order, first rule that matches a non-empty prefix wins, `t_error`
  skips one character), the same bookkeeping (`mkTok`).  Compared with the real PLY token stream on every case of the
  C13 correspondence; Proofs/OalRegex.lean proves rule by rule that the hand scanner IS this matcher.
-/
namespace Pyx.OalLex

def firstMatchF : List (Rule × (List Char → Option Nat)) → List Char → Option (Rule × Nat)
  | [], _ => none
  | (r, f) :: rs, cs =>
    match f cs with
    | some n => if n == 0 then firstMatchF rs cs else some (r, n)
    | none => firstMatchF rs cs

def lexRunF (cfg : LexCfg) (fs : List (Rule × (List Char → Option Nat))) :
    Nat → List Char → Nat → Nat → List Tok × List Char
  | 0, cs, _, _ => ([], cs)
  | _ + 1, [], _, _ => ([], [])
  | fuel + 1, c :: cs, off, line =>
    if cfg.ignore.contains c then lexRunF cfg fs fuel cs (off + 1) line
    else
      match firstMatchF fs (c :: cs) with
      | some (r, n) =>
        let lexeme := (c :: cs).take n
        let line' := if r.countsNl then line + countNl lexeme else line
        let res := lexRunF cfg fs fuel ((c :: cs).drop n) (off + lexeme.length) line'
        if r.returnsTok then (mkTok cfg r lexeme off line line' :: res.1, res.2) else res
      | none => lexRunF cfg fs fuel cs (off + 1) line

/-- every rule of the generated table with the generic matcher on its generated regex AST -/
def rxScanners : List (Rule × (List Char → Option Nat)) :=
  List.zipWith (fun r x => (r, Pyx.Regex.Regex.matchPrefix x)) Gen.OalLex.rules Gen.OalLex.rx

/-- token stream of `text` when every rule is matched by the generic regex engine on its source regex -/
def lexRx (text : List Char) : List Tok := (lexRunF Gen.OalLex.cfg rxScanners text.length text 0 1).1

end Pyx.OalLex
