/-
  Source positions of `bridgepoint/oal.py` (properties C13, C08): line / column arithmetic over the
  lexer input as a `List Char` (Python `str` = sequence of code points, offsets are code-point indices).

    find_column(lexdata, lexpos) = lexpos - lexdata.rfind('\n', 0, lexpos)
    set_positional_info:  start_stream = lexpos of the first symbol, start_line = its lineno,
                          start_column = find_column(start_stream),
                          end_stream = endlexpos of the last symbol that has one (a symbol of an empty
                          production has no end position and is skipped), end_line = its endlineno,
                          end_column = find_column(end_stream) - 1,
                          character_stream = lexdata[start_stream:end_stream]

  No Mathlib, no `import Lean`: linked into the driver.
-/
namespace Pyx.OalLex

/-- number of newline characters -/
def countNl (cs : List Char) : Nat := cs.count '\n'

/-- specification: 1-based line of the character at offset `off` = 1 + number of '\n' before it -/
def lineOf (text : List Char) (off : Nat) : Nat := 1 + countNl (text.take off)

/-- specification of a column by a writing cursor: the column (1-based, every character including a tab
    advances by one, a newline resets to 1) reached after writing `cs`, starting in column `k` -/
def colAfter : List Char → Nat → Nat
  | [], k => k
  | c :: cs, k => colAfter cs (if c = '\n' then 1 else k + 1)

/-- specification: 1-based column of the character at offset `off` -/
def colOf (text : List Char) (off : Nat) : Nat := colAfter (text.take off) 1

/-- Python `s[a:b]` for `0 ≤ a`, `0 ≤ b` -/
def slice (text : List Char) (a b : Nat) : List Char := (text.drop a).take (b - a)

/-- scan for the last '\n':  `best` is the answer so far, `i` the index of the head of the list -/
def rfindNlGo : List Char → Nat → Int → Int
  | [], _, best => best
  | c :: cs, i, best => rfindNlGo cs (i + 1) (if c = '\n' then (i : Int) else best)

/-- Python `text.rfind('\n', 0, pos)`: index of the last '\n' in `text[0:pos]`, `-1` when there is none -/
def rfindNl (text : List Char) (pos : Nat) : Int := rfindNlGo (text.take pos) 0 (-1)

/-- `find_column(lexdata, lexpos)` exactly as written in oal.py -/
def findColumn (text : List Char) (pos : Nat) : Int := (pos : Int) - rfindNl text pos

/-- what `set_positional_info` stores in `node.position` / `node.character_stream` -/
structure Position where
  startStream : Nat
  startLine : Nat
  startColumn : Int
  endStream : Nat
  endLine : Nat
  endColumn : Int
  deriving Repr, DecidableEq

end Pyx.OalLex
