/-
  Position stamping of the OAL parser (property C13): what `track_production` / `set_positional_info` of
  bridgepoint/oal.py record for the node a production returns, on top of PLY's position tracking
  (ply/yacc.py, `parse(..., tracking=1)`):

    shift of a token            the symbol is the lexer token: lexpos, lineno, and (set by every token rule of
                                oal.py) endlexpos, endlineno
    reduce by  A : X1 .. Xn     n > 0:  A.lexpos = X1.lexpos, A.lineno = X1.lineno,
                                        A.endlexpos = getattr(Xn, 'endlexpos', Xn.lexpos),
                                        A.endlineno = getattr(Xn, 'endlineno', Xn.lineno)
                                n = 0:  A.lexpos = lexer.lexpos, A.lineno = lexer.lineno  (wherever the lexer is:
                                        already past the look-ahead token) and NO end attributes
    p.lexpos(i) / p.lineno(i)   the attributes of Xi;  p.lexspan(i) = (lexpos, getattr(endlexpos, lexpos)),
                                p.linespan(i) likewise
    set_positional_info         start = p.lexpos(1), p.lineno(1);  last = n, walked back while last > 1 and Xlast has
                                no `endlexpos` (only symbols of empty productions lack it);  end = p.lexspan(last)[1],
                                p.linespan(last)[1]

  No Mathlib, no `import Lean`: linked into the driver.
-/
namespace Pyx.OalTrack

/-- a grammar symbol: a token, or the nonterminal with the given index -/
inductive GSym where
  | t
  | n (id : Nat)
  deriving DecidableEq, Repr

/-- what a production function puts into `p[0]` -/
inductive Res where
  /-- `p[0] = Cls(...)`; `checked`: the class is a statement / expression node class -/
  | node (cls : String) (checked : Bool)
  /-- `p[0] = p[i]` -/
  | pass (i : Nat)
  | other
  deriving Repr

structure Prod where
  fn : String
  lhs : Nat
  lhsName : String
  rhs : List GSym
  rhsNames : List String
  /-- decorated with `@track_production` -/
  tracked : Bool
  res : Res
  /-- `p[0]` can be a statement / expression node (built here, or passed through from a symbol that carries one) -/
  carries : Bool
  deriving Repr

structure Grammar where
  prods : List Prod
  nullable : List Nat
  startSolid : List Nat
  endSolid : List Nat
  endOk : List Nat
  /-- `set_positional_info` walks back over trailing symbols without `endlexpos` -/
  walkBack : Bool

/-- offsets and lines of a piece of text: first character .. one past the last character / line of the last character -/
structure Span where
  start : Nat
  stop : Nat
  line : Nat
  endLine : Nat
  deriving DecidableEq, Repr

/-- the attributes yacc keeps on a stack symbol -/
structure Attr where
  pos : Nat
  line : Nat
  /-- `(endlexpos, endlineno)` when the symbol has them -/
  fin : Option (Nat × Nat)
  deriving Repr

/-- a symbol on the parser stack: its grammar symbol, yacc's attributes, and (ghost) the span of the tokens it
    really covers, `none` when it covers no token -/
structure Inst where
  sym : GSym
  attr : Attr
  truth : Option Span

/-- a shifted token whose recorded positions are exact (C13 `line_exact`) -/
def tokInst (s : Span) : Inst :=
  { sym := .t, attr := { pos := s.start, line := s.line, fin := some (s.stop, s.endLine) }, truth := some s }

/-- attributes yacc gives the left-hand side; `junk` = (lexer.lexpos, lexer.lineno) at the time of an empty reduce -/
def yaccAttr (junk : Nat × Nat) (kids : List Inst) : Attr :=
  match kids.head?, kids.getLast? with
  | some k, some l =>
    { pos := k.attr.pos, line := k.attr.line,
      fin := some (match l.attr.fin with
        | some f => f
        | none => (l.attr.pos, l.attr.line)) }
  | _, _ => { pos := junk.1, line := junk.2, fin := none }

def firstSome : List (Option Span) → Option Span
  | [] => none
  | some s :: _ => some s
  | none :: rest => firstSome rest

/-- the span really covered by a sequence of symbols: from the first to the last token below them -/
def joinTruth (ts : List (Option Span)) : Option Span :=
  match firstSome ts, firstSome ts.reverse with
  | some a, some b => some { start := a.start, stop := b.stop, line := a.line, endLine := b.endLine }
  | _, _ => none

/-- the symbol `set_positional_info` takes the end from -/
def endSym (walkBack : Bool) (k0 : Inst) (rest : List Inst) : Inst :=
  if walkBack then
    match rest.reverse.find? (fun k => k.attr.fin.isSome) with
    | some x => x
    | none => k0
  else rest.getLast?.getD k0

/-- what `track_production` stamps on the returned node; `none`: an empty production is not stamped -/
def stamp (walkBack : Bool) : List Inst → Option Span
  | [] => none
  | k0 :: rest =>
    let w := endSym walkBack k0 rest
    let e := w.attr.fin.getD (w.attr.pos, w.attr.line)
    some { start := k0.attr.pos, stop := e.1, line := k0.attr.line, endLine := e.2 }

/-! ## obligations on the generated grammar table (Bool, checked by `decide`) -/

def solidStart (g : Grammar) : GSym → Bool
  | .t => true
  | .n m => g.startSolid.contains m

def solidEnd (g : Grammar) : GSym → Bool
  | .t => true
  | .n m => g.endSolid.contains m

def okEnd (g : Grammar) : GSym → Bool
  | .t => true
  | .n m => g.endOk.contains m || g.endSolid.contains m

/-- the three nonterminal sets are closed (every production of a member has the shape the set promises) and the
    nullable set contains every nonterminal with an all-nullable production -/
def setsOk (g : Grammar) : Bool :=
  g.prods.all fun p =>
    (!g.startSolid.contains p.lhs || (match p.rhs.head? with
      | some x => solidStart g x
      | none => false)) &&
    (!g.endSolid.contains p.lhs || (match p.rhs.getLast? with
      | some x => solidEnd g x
      | none => false)) &&
    (!g.endOk.contains p.lhs || (match p.rhs.getLast? with
      | some x => solidEnd g x
      | none => true)) &&
    (!(p.rhs.all fun x => match x with
        | .t => false
        | .n m => g.nullable.contains m) || g.nullable.contains p.lhs)

/-- scanning the right-hand side from the right over symbols that may be empty (and then lack an end position)
    reaches a symbol whose end position is always the true one -/
def endScan (g : Grammar) : List GSym → Bool
  | [] => false
  | x :: more => solidEnd g x || (okEnd g x && endScan g more)

/-- the production is not empty (an empty production is not stamped at all) and its stamped span is exact -/
def prodStampOk (g : Grammar) (p : Prod) : Bool :=
  (match p.rhs.head? with
    | some x => solidStart g x
    | none => true) &&
  (!p.rhs.isEmpty && (if g.walkBack then endScan g p.rhs.reverse else
    (match p.rhs.getLast? with
      | some x => solidEnd g x
      | none => false)))

/-- a production whose result can be a statement / expression node must be tracked, unless it merely passes its
    only symbol through (the node keeps the span it already has) -/
def needsTrack (p : Prod) : Bool :=
  p.carries && !(match p.res with
    | .pass _ => p.rhs.length == 1
    | _ => false)

def trackedOk (g : Grammar) : Bool := g.prods.all fun p => !needsTrack p || p.tracked

def stampsOk (g : Grammar) : Bool := g.prods.all fun p => !(p.tracked && p.carries) || prodStampOk g p

end Pyx.OalTrack
