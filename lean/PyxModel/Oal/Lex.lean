import PyxModel.Oal.Pos

/-
  Character-level model of the OAL lexer of `bridgepoint/oal.py` (PLY 3.11, properties C13 and C08).

  PLY semantics (ply/lex.py `Lexer.token`), modelled in `lexRun`:
    at each position
      * a character in `t_ignore` is skipped;
      * otherwise the rules are tried as ONE alternation in definition order (function rules sorted by
        source line): the first rule whose regex matches at this position wins, with the match Python's
        backtracking `re` finds for that rule alone (each rule's regex is hand-modelled below as a
        deterministic scanner returning the match length; `scanRegex` selects the scanner by the regex
        SOURCE TEXT that the translator read from the rule's docstring - an unknown regex has no scanner
        and the obligation `rulesKnown` fails);
      * the token gets `lineno = lexer.lineno` and `lexpos` BEFORE the rule body runs; the body may advance
        `lexer.lineno` by the number of '\n' in the lexeme (`countsNl`), store the advanced counter in
        `t.endlineno` (`setsEndLine`), store `t.endlexpos = t.lexpos + len(t.value)` (`setsEndPos`), and
        return the token or nothing (`returnsTok`) - all four read from the source by the translator;
      * `t_ID` re-types the token when the (upper-cased, `idUpper`) lexeme is in `keywords`;
      * when no rule matches, `t_error` skips one character.
    yacc (tracking=1) reads `endlineno` / `endlexpos` with `getattr(tok, ..., tok.lineno / tok.lexpos)`,
    hence the fall-backs in `mkTok`.

  Python `re` facts used (str patterns, flags = re.VERBOSE only): `\d` = `str.isdecimal` (Unicode Nd),
  `\s` = `str.isspace`, `.` = any character except '\n', `[^...]` matches '\n' unless listed, explicit
  ranges `[0-9a-zA-Z_]` are ASCII only.  The two Unicode tables below are those of CPython 3.12
  (Unicode 15.0); they are Python semantics, not repository content, and are validated by correspondence.

  No Mathlib, no `import Lean`: linked into the driver.
-/
namespace Pyx.OalLex

/-! ## tables read from the source (instantiated in Gen/OalLex.lean) -/

structure Rule where
  name : List Char
  regex : List Char
  /-- `some s`: the regex is the plain literal `s` -/
  lit : Option (List Char)
  /-- translator (Python's regex parser): a match of the regex can contain '\n' -/
  canNl : Bool
  countsNl : Bool
  setsEndLine : Bool
  setsEndPos : Bool
  returnsTok : Bool
  deriving Repr, DecidableEq

structure LexCfg where
  rules : List Rule
  keywords : List (List Char)
  ignore : List Char
  idUpper : Bool

/-- a finite or co-finite set of characters (first-character set of a regex alternative) -/
structure CharSet where
  neg : Bool
  chars : List Char
  deriving Repr, DecidableEq

/-- a place in the interpreter / prebuilder / node classes that reads a keyword-spelling-carrying field -/
structure Consumer where
  file : String
  handler : String
  field : String
  normalised : Bool
  deriving Repr

structure Tok where
  kind : List Char
  lexeme : List Char
  start : Nat
  stop : Nat
  line : Nat
  endLine : Nat
  deriving Repr, DecidableEq

/-! ## character classes (all defined through `Char.toNat`) -/

def isUpperA (c : Char) : Bool := 65 ≤ c.toNat && c.toNat ≤ 90
def isLowerA (c : Char) : Bool := 97 ≤ c.toNat && c.toNat ≤ 122
def isLetterA (c : Char) : Bool := isUpperA c || isLowerA c

/-- ASCII lower-casing (`str.lower` restricted to ASCII) -/
def lowerAscii (c : Char) : Char := if isUpperA c then Char.ofNat (c.toNat + 32) else c
/-- ASCII upper-casing (`str.upper` on the ASCII words `t_ID` matches) -/
def upperAscii (c : Char) : Char := if isLowerA c then Char.ofNat (c.toNat - 32) else c

/-- `[0-9a-zA-Z_]` -/
def isWord (c : Char) : Bool :=
  (48 ≤ c.toNat && c.toNat ≤ 57) || isLetterA c || c.toNat == 95
/-- `[a-zA-Z_]` -/
def isIdStart (c : Char) : Bool := isLetterA c || c.toNat == 95

def inRanges (rs : List (Nat × Nat)) (n : Nat) : Bool := rs.any fun r => r.1 ≤ n && n ≤ r.2

/-- non-ASCII characters with `str.isdecimal()` (CPython 3.12, Unicode 15.0 category Nd) -/
def decimalRanges : List (Nat × Nat) :=
  [(1632, 1641), (1776, 1785), (1984, 1993), (2406, 2415), (2534, 2543), (2662, 2671), (2790, 2799),
   (2918, 2927), (3046, 3055), (3174, 3183), (3302, 3311), (3430, 3439), (3558, 3567), (3664, 3673),
   (3792, 3801), (3872, 3881), (4160, 4169), (4240, 4249), (6112, 6121), (6160, 6169), (6470, 6479),
   (6608, 6617), (6784, 6793), (6800, 6809), (6992, 7001), (7088, 7097), (7232, 7241), (7248, 7257),
   (42528, 42537), (43216, 43225), (43264, 43273), (43472, 43481), (43504, 43513), (43600, 43609),
   (44016, 44025), (65296, 65305), (66720, 66729), (68912, 68921), (69734, 69743), (69872, 69881),
   (69942, 69951), (70096, 70105), (70384, 70393), (70736, 70745), (70864, 70873), (71248, 71257),
   (71360, 71369), (71472, 71481), (71904, 71913), (72016, 72025), (72784, 72793), (73040, 73049),
   (73120, 73129), (73552, 73561), (92768, 92777), (92864, 92873), (93008, 93017), (120782, 120831),
   (123200, 123209), (123632, 123641), (124144, 124153), (125264, 125273), (130032, 130041)]

/-- `\d` of a str pattern -/
def isDigit (c : Char) : Bool :=
  if c.toNat < 128 then (48 ≤ c.toNat && c.toNat ≤ 57) else inRanges decimalRanges c.toNat

/-- non-ASCII characters with `str.isspace()` -/
def spaceRanges : List (Nat × Nat) :=
  [(133, 133), (160, 160), (5760, 5760), (8192, 8202), (8232, 8233), (8239, 8239), (8287, 8287), (12288, 12288)]

/-- `\s` of a str pattern: `[ \t\n\r\f\v]`, U+001C..U+001F and the Unicode spaces -/
def isSpace (c : Char) : Bool :=
  if c.toNat < 128 then ((9 ≤ c.toNat && c.toNat ≤ 13) || (28 ≤ c.toNat && c.toNat ≤ 32))
  else inRanges spaceRanges c.toNat

/-! ## scanners: `some n` = the rule's regex matches exactly the first `n` characters

    Every rule regex except the block comment is written as a deterministic pattern `Pat` (ordered choice,
    greedy repetition of a character class, no backtracking into a finished sub-pattern).  For these regexes
    that coincides with Python's backtracking semantics: a greedy class repetition is always followed by
    something the class excludes (or by nothing that can fail), so giving characters back never helps; the
    comments on the patterns say why in each case. -/

/-- length of the longest prefix whose characters satisfy `p` (a greedy `[class]*`) -/
def spanLen (p : Char → Bool) : List Char → Nat
  | [] => 0
  | c :: cs => if p c then spanLen p cs + 1 else 0

/-- `s` is a prefix of `cs` -/
def hasPrefix : List Char → List Char → Bool
  | [], _ => true
  | _ :: _, [] => false
  | x :: s, c :: cs => c == x && hasPrefix s cs

inductive Pat where
  /-- matches the empty string -/
  | eps
  /-- one character of a class -/
  | ch (p : Char → Bool)
  /-- greedy `[class]*` -/
  | many (p : Char → Bool)
  | seq (a b : Pat)
  /-- ordered choice: `b` is tried only when `a` does not match here -/
  | alt (a b : Pat)
  /-- look-ahead `(?=literal)` -/
  | look (s : List Char)

namespace Pat

def run : Pat → List Char → Option Nat
  | eps, _ => some 0
  | ch p, cs => match cs with
    | c :: _ => if p c then some 1 else none
    | [] => none
  | many p, cs => some (spanLen p cs)
  | seq a b, cs => match run a cs with
    | some n => (run b (cs.drop n)).map (n + ·)
    | none => none
  | alt a b, cs => match run a cs with
    | some n => some n
    | none => run b cs
  | look s, cs => if hasPrefix s cs then some 0 else none

/-- greedy `[class]+` -/
def many1 (p : Char → Bool) : Pat := seq (ch p) (many p)
/-- greedy `( ... )?` -/
def opt (a : Pat) : Pat := alt a eps
/-- the literal character `x` -/
def lit (x : Char) : Pat := ch (fun c => c == x)
/-- a per-letter class `[Xx]` (x given in lower case) -/
def ci (x : Char) : Pat := ch (fun c => lowerAscii c == x)
def seqs : List Pat → Pat
  | [] => eps
  | [a] => a
  | a :: rest => seq a (seqs rest)

end Pat
open Pat

/-- a literal rule (`::`, `==`, `;` ...) -/
def scanLit (s : List Char) (cs : List Char) : Option Nat :=
  if s.isEmpty then none else if hasPrefix s cs then some s.length else none

/-- body of a block comment after `/*`; `star` = the previous character was a '*' of the body.
    `/\*([^*]|(\*+[^*/]))*\*+/`: a '*' can only be consumed by one of the two `\*+`, each of which must take a
    whole maximal run of '*' (what follows it is not a '*'); the run followed by '/' can only be the closing
    one, so the unique match ends at the first `*/` after the opening. -/
def commentBody : List Char → Bool → Option Nat
  | [], _ => none
  | c :: r, star =>
    if c == '*' then (commentBody r true).map (· + 1)
    else if c == '/' && star then some 1
    else (commentBody r false).map (· + 1)

/-- `/\*([^*]|(\*+[^*/]))*\*+/` -/
def scanComment : List Char → Option Nat
  | c1 :: c2 :: r => if c1 == '/' && c2 == '*' then (commentBody r false).map (· + 2) else none
  | _ => none

/-- `\/\/.*\n`  (`.` = any character but '\n'; the closing '\n' belongs to the lexeme) -/
def patSlString : Pat := seqs [lit '/', lit '/', many (fun c => !(c == '\n')), lit '\n']

/-- `\'[^\']*\'` -/
def patTicked : Pat := seqs [lit '\'', many (fun c => !(c == '\'')), lit '\'']

/-- `"[^"\n]*"` -/
def patString : Pat := seqs [lit '"', many (fun c => !(c == '"') && !(c == '\n')), lit '"']

/-- `[Ee][Nn][Dd][\s]+<word in per-letter classes>`; nothing is looked at after the word -/
def patEnd (w : List Char) : Pat := seqs ([ci 'e', ci 'n', ci 'd', many1 isSpace] ++ w.map ci)

/-- `([0-9a-zA-Z_])+(?=::)` : the run must be maximal because ':' is not in the class -/
def patNamespace : Pat := seq (many1 isWord) (look [':', ':'])

/-- `[a-zA-Z_][0-9a-zA-Z_]*|[a-zA-Z][0-9a-zA-Z_]*[0-9a-zA-Z_]+`: the first alternative matches whenever the
    second could (and nothing follows the alternation), so the second alternative is dead -/
def patId : Pat := seq (ch isIdStart) (many isWord)

/-- `[eE][-+]?\d+`: when no digit follows the sign, giving the sign back makes `\d+` fail on the sign -/
def patExp : Pat := seq (ci 'e') (alt (seq (ch (fun c => c == '-' || c == '+')) (many1 isDigit)) (many1 isDigit))

/-- `(((\d*\.\d+)|(\d+\.)([eE][-+]?\d+)?)|(\d+([eE][-+]?\d+)))[FfLl]?`
    A1 digits* '.' digits+ ; A2 digits+ '.' exponent? ; A3 digits+ exponent ; then an optional suffix.
    Nothing after the alternation can fail, so the first alternative that matches is kept. -/
def patFraction : Pat :=
  seq (alt (seqs [many isDigit, lit '.', many1 isDigit])
        (alt (seqs [many1 isDigit, lit '.', opt patExp])
             (seq (many1 isDigit) patExp)))
      (opt (ch (fun c => lowerAscii c == 'f' || lowerAscii c == 'l')))

/-- `\d+` -/
def patNumber : Pat := many1 isDigit

/-- `\n+` -/
def patNewline : Pat := many1 (fun c => c == '\n')

/-! ## the regex sources the scanners above model -/

/-- `/\*([^*]|(\*+[^*/]))*\*+/` -/
def reComment : List Char :=
  ['/', '\\', '*', '(', '[', '^', '*', ']', '|', '(', '\\', '*', '+', '[', '^', '*', '/', ']', ')', ')', '*', '\\', '*', '+', '/']
/-- `\/\/.*\n` -/
def reSlString : List Char :=
  ['\\', '/', '\\', '/', '.', '*', '\\', 'n']
/-- `\'[^\']*\'` -/
def reTicked : List Char :=
  ['\\', '\'', '[', '^', '\\', '\'', ']', '*', '\\', '\'']
/-- `"[^"\n]*"` -/
def reString : List Char :=
  ['"', '[', '^', '"', '\\', 'n', ']', '*', '"']
/-- `[Ee][Nn][Dd][\s]+[Ff][Oo][Rr]` -/
def reEndFor : List Char :=
  ['[', 'E', 'e', ']', '[', 'N', 'n', ']', '[', 'D', 'd', ']', '[', '\\', 's', ']', '+', '[', 'F', 'f', ']', '[', 'O', 'o', ']', '[', 'R', 'r', ']']
/-- `[Ee][Nn][Dd][\s]+[Ii][Ff]` -/
def reEndIf : List Char :=
  ['[', 'E', 'e', ']', '[', 'N', 'n', ']', '[', 'D', 'd', ']', '[', '\\', 's', ']', '+', '[', 'I', 'i', ']', '[', 'F', 'f', ']']
/-- `[Ee][Nn][Dd][\s]+[Ww][Hh][Ii][Ll][Ee]` -/
def reEndWhile : List Char :=
  ['[', 'E', 'e', ']', '[', 'N', 'n', ']', '[', 'D', 'd', ']', '[', '\\', 's', ']', '+', '[', 'W', 'w', ']', '[', 'H', 'h', ']', '[', 'I', 'i', ']', '[', 'L', 'l', ']', '[', 'E', 'e', ']']
/-- `([0-9a-zA-Z_])+(?=::)` -/
def reNamespace : List Char :=
  ['(', '[', '0', '-', '9', 'a', '-', 'z', 'A', '-', 'Z', '_', ']', ')', '+', '(', '?', '=', ':', ':', ')']
/-- `[a-zA-Z_][0-9a-zA-Z_]*|[a-zA-Z][0-9a-zA-Z_]*[0-9a-zA-Z_]+` -/
def reId : List Char :=
  ['[', 'a', '-', 'z', 'A', '-', 'Z', '_', ']', '[', '0', '-', '9', 'a', '-', 'z', 'A', '-', 'Z', '_', ']', '*', '|', '[', 'a', '-', 'z', 'A', '-', 'Z', ']', '[', '0', '-', '9', 'a', '-', 'z', 'A', '-', 'Z', '_', ']', '*', '[', '0', '-', '9', 'a', '-', 'z', 'A', '-', 'Z', '_', ']', '+']
/-- `(((\d*\.\d+)|(\d+\.)([eE][-+]?\d+)?)|(\d+([eE][-+]?\d+)))[FfLl]?` -/
def reFraction : List Char :=
  ['(', '(', '(', '\\', 'd', '*', '\\', '.', '\\', 'd', '+', ')', '|', '(', '\\', 'd', '+', '\\', '.', ')', '(', '[', 'e', 'E', ']', '[', '-', '+', ']', '?', '\\', 'd', '+', ')', '?', ')', '|', '(', '\\', 'd', '+', '(', '[', 'e', 'E', ']', '[', '-', '+', ']', '?', '\\', 'd', '+', ')', ')', ')', '[', 'F', 'f', 'L', 'l', ']', '?']
/-- `\d+` -/
def reNumber : List Char :=
  ['\\', 'd', '+']
/-- `\n+` -/
def reNewline : List Char :=
  ['\\', 'n', '+']

inductive RegexId
  | comment | slString | ticked | string | endFor | endIf | endWhile | namespace_ | id | fraction | number
  | newline | unknown
  deriving Repr, DecidableEq

def regexId (re : List Char) : RegexId :=
  if re = reComment then .comment else if re = reSlString then .slString
  else if re = reTicked then .ticked else if re = reString then .string
  else if re = reEndFor then .endFor else if re = reEndIf then .endIf
  else if re = reEndWhile then .endWhile else if re = reNamespace then .namespace_
  else if re = reId then .id else if re = reFraction then .fraction
  else if re = reNumber then .number else if re = reNewline then .newline else .unknown

def scanById : RegexId → List Char → Option Nat
  | .comment => scanComment
  | .slString => patSlString.run
  | .ticked => patTicked.run
  | .string => patString.run
  | .endFor => (patEnd ['f', 'o', 'r']).run
  | .endIf => (patEnd ['i', 'f']).run
  | .endWhile => (patEnd ['w', 'h', 'i', 'l', 'e']).run
  | .namespace_ => patNamespace.run
  | .id => patId.run
  | .fraction => patFraction.run
  | .number => patNumber.run
  | .newline => patNewline.run
  | .unknown => fun _ => none

/-- the scanner of a rule: literal rules by their literal, the others by their regex source -/
def scanOf (r : Rule) : List Char → Option Nat :=
  match r.lit with
  | some s => scanLit s
  | none => scanById (regexId r.regex)

/-! ## the lexer -/

/-- master alternation: first rule (in table order) that matches a non-empty prefix -/
def firstMatch : List Rule → List Char → Option (Rule × Nat)
  | [], _ => none
  | r :: rs, cs =>
    match scanOf r cs with
    | some n => if n == 0 then firstMatch rs cs else some (r, n)
    | none => firstMatch rs cs

def idName : List Char := ['I', 'D']

/-- token type: the rule name, except that `t_ID` re-types keywords -/
def kindOf (cfg : LexCfg) (r : Rule) (lexeme : List Char) : List Char :=
  if r.name = idName then
    let v := if cfg.idUpper then lexeme.map upperAscii else lexeme
    if cfg.keywords.contains v then v else idName
  else r.name

def mkTok (cfg : LexCfg) (r : Rule) (lexeme : List Char) (off line line' : Nat) : Tok :=
  { kind := kindOf cfg r lexeme, lexeme := lexeme, start := off,
    stop := if r.setsEndPos then off + lexeme.length else off,
    line := line,
    endLine := if r.setsEndLine then line' else line }

/-- `fuel` scanning steps from input `cs` at offset `off` with `lexer.lineno = line`:
    (tokens returned to the parser, input left unconsumed when the fuel ran out) -/
def lexRun (cfg : LexCfg) : Nat → List Char → Nat → Nat → List Tok × List Char
  | 0, cs, _, _ => ([], cs)
  | _ + 1, [], _, _ => ([], [])
  | fuel + 1, c :: cs, off, line =>
    if cfg.ignore.contains c then lexRun cfg fuel cs (off + 1) line
    else
      match firstMatch cfg.rules (c :: cs) with
      | some (r, n) =>
        let lexeme := (c :: cs).take n
        let line' := if r.countsNl then line + countNl lexeme else line
        let res := lexRun cfg fuel ((c :: cs).drop n) (off + lexeme.length) line'
        if r.returnsTok then (mkTok cfg r lexeme off line line' :: res.1, res.2) else res
      | none => lexRun cfg fuel cs (off + 1) line          -- t_error: skip(1)

/-- the token stream of a text: `lexer.input(text)`, `lineno = 1`, fuel = length of the text -/
def lexWith (cfg : LexCfg) (text : List Char) : List Tok := (lexRun cfg text.length text 0 1).1

/-! ## compiled code only: the same lexer without recomputing `regexId` at every position

  `scanOf` looks the scanner of a rule up by comparing the rule's regex text with the modelled regexes.  The
  definitions above are the ones all theorems are about; for the driver executable the two `@[csimp]` equations below
  (proved, so the compiler may rewrite with them) replace `lexWith` by a version that computes each rule's scanner
  key once per text, and `regexId` by a version that compares lengths before it compares texts. -/

/-- which scanner a rule uses, computed once -/
inductive ScanKey where
  | lit (s : List Char)
  | rx (rid : RegexId)

def scanKey (r : Rule) : ScanKey :=
  match r.lit with
  | some s => .lit s
  | none => .rx (regexId r.regex)

def runKey : ScanKey → List Char → Option Nat
  | .lit s => scanLit s
  | .rx rid => scanById rid

theorem scanOf_eq_runKey (r : Rule) (cs : List Char) : scanOf r cs = runKey (scanKey r) cs := by
  unfold scanOf scanKey
  cases r.lit <;> rfl

def firstMatchK : List (Rule × ScanKey) → List Char → Option (Rule × Nat)
  | [], _ => none
  | (r, k) :: rs, cs =>
    match runKey k cs with
    | some n => if n == 0 then firstMatchK rs cs else some (r, n)
    | none => firstMatchK rs cs

theorem firstMatchK_eq (rules : List Rule) (cs : List Char) :
    firstMatchK (rules.map fun r => (r, scanKey r)) cs = firstMatch rules cs := by
  induction rules with
  | nil => rfl
  | cons r rs ih => simp only [List.map_cons, firstMatchK, firstMatch, scanOf_eq_runKey, ih]

def lexRunK (cfg : LexCfg) (keys : List (Rule × ScanKey)) : Nat → List Char → Nat → Nat → List Tok × List Char
  | 0, cs, _, _ => ([], cs)
  | _ + 1, [], _, _ => ([], [])
  | fuel + 1, c :: cs, off, line =>
    if cfg.ignore.contains c then lexRunK cfg keys fuel cs (off + 1) line
    else
      match firstMatchK keys (c :: cs) with
      | some (r, n) =>
        let lexeme := (c :: cs).take n
        let line' := if r.countsNl then line + countNl lexeme else line
        let res := lexRunK cfg keys fuel ((c :: cs).drop n) (off + lexeme.length) line'
        if r.returnsTok then (mkTok cfg r lexeme off line line' :: res.1, res.2) else res
      | none => lexRunK cfg keys fuel cs (off + 1) line

theorem lexRunK_eq (cfg : LexCfg) : ∀ (fuel : Nat) (cs : List Char) (off line : Nat),
    lexRunK cfg (cfg.rules.map fun r => (r, scanKey r)) fuel cs off line = lexRun cfg fuel cs off line := by
  intro fuel
  induction fuel with
  | zero => intro cs off line; rfl
  | succ fuel ih =>
    intro cs off line
    cases cs with
    | nil => rfl
    | cons c cs => simp only [lexRunK, lexRun, firstMatchK_eq, ih]

def lexWithFast (cfg : LexCfg) (text : List Char) : List Tok :=
  (lexRunK cfg (cfg.rules.map fun r => (r, scanKey r)) text.length text 0 1).1

@[csimp] theorem lexWith_eq_lexWithFast : @lexWith = @lexWithFast := by
  funext cfg text
  simp only [lexWith, lexWithFast, lexRunK_eq]

def regexIdFast (re : List Char) : RegexId :=
  let n := re.length
  if n == reComment.length && re == reComment then .comment
  else if n == reSlString.length && re == reSlString then .slString
  else if n == reTicked.length && re == reTicked then .ticked
  else if n == reString.length && re == reString then .string
  else if n == reEndFor.length && re == reEndFor then .endFor
  else if n == reEndIf.length && re == reEndIf then .endIf
  else if n == reEndWhile.length && re == reEndWhile then .endWhile
  else if n == reNamespace.length && re == reNamespace then .namespace_
  else if n == reId.length && re == reId then .id
  else if n == reFraction.length && re == reFraction then .fraction
  else if n == reNumber.length && re == reNumber then .number
  else if n == reNewline.length && re == reNewline then .newline
  else .unknown

theorem lenGuard (re c : List Char) : ((re.length == c.length && re == c) = true) ↔ re = c := by
  constructor
  · intro h
    simp only [Bool.and_eq_true, beq_iff_eq] at h
    exact h.2
  · intro h
    subst h
    simp

@[csimp] theorem regexId_eq_regexIdFast : @regexId = @regexIdFast := by
  funext re
  simp only [regexId, regexIdFast, lenGuard]

/-! ## what the parser records for a node built from a non-empty token range (`set_positional_info`) -/

def spanOf (text : List Char) (first last : Tok) : Position :=
  { startStream := first.start, startLine := first.line, startColumn := findColumn text first.start,
    endStream := last.stop, endLine := last.endLine, endColumn := findColumn text last.stop - 1 }

def streamOf (text : List Char) (first last : Tok) : List Char := slice text first.start last.stop

/-! ## keyword spelling (C08) -/

def endKinds : List (List Char) :=
  [['E', 'N', 'D', '_', 'F', 'O', 'R'], ['E', 'N', 'D', '_', 'I', 'F'], ['E', 'N', 'D', '_', 'W', 'H', 'I', 'L', 'E']]

/-- token kinds whose lexeme is a keyword spelling -/
def isKwKind (cfg : LexCfg) (k : List Char) : Bool := cfg.keywords.contains k || endKinds.contains k

/-- forget the letter case of keyword lexemes -/
def normTok (cfg : LexCfg) (t : Tok) : Tok :=
  if isKwKind cfg t.kind then { t with lexeme := t.lexeme.map lowerAscii } else t

/-! ## obligations on the generated tables (Bool, checked by `decide` on Gen) -/

/-- can a match of this (modelled) regex contain '\n' -/
def idMayNl : RegexId → Bool
  | .comment | .slString | .ticked | .endFor | .endIf | .endWhile | .newline => true
  | _ => false

/-- modelled regexes whose match can contain '\n' but never ends with one -/
def idEndsNonNl : RegexId → Bool
  | .ticked | .endFor | .endIf | .endWhile => true
  | _ => false

def ruleMayNl (r : Rule) : Bool :=
  match r.lit with
  | some s => s.contains '\n'
  | none => idMayNl (regexId r.regex)

/-- every non-literal rule has a regex that is modelled -/
def rulesKnown (rules : List Rule) : Bool :=
  rules.all fun r => r.lit.isSome || regexId r.regex != .unknown

/-- the line bookkeeping of the table is sound:
    a rule that can match a newline (by the translator's analysis OR by the model) counts its newlines,
    records the end line if it returns a token, and such a returned token never ends in a newline;
    every returned token records its end offset; some rule matches a lone newline; the ignored
    characters are not newlines -/
def linesOk (cfg : LexCfg) : Bool :=
  cfg.rules.all (fun r =>
    (!(r.canNl || ruleMayNl r) || r.countsNl) &&
    (!(r.returnsTok && (r.canNl || ruleMayNl r)) ||
      (r.setsEndLine && r.lit.isNone && idEndsNonNl (regexId r.regex))) &&
    (!r.returnsTok || r.setsEndPos)) &&
  cfg.rules.any (fun r => r.lit.isNone && regexId r.regex == .newline) &&
  !cfg.ignore.contains '\n'

/-- letter case cannot influence which rule matches: literals and ignored characters contain no ASCII
    letters, keywords are recognised after upper-casing and are themselves upper-case -/
def caseOk (cfg : LexCfg) : Bool :=
  cfg.idUpper &&
  cfg.rules.all (fun r => match r.lit with
    | some s => s.all (fun x => !isLetterA x)
    | none => true) &&
  cfg.ignore.all (fun x => !isLetterA x)

def CharSet.mem (s : CharSet) (c : Char) : Bool := s.chars.contains c != s.neg

/-- two first-character sets have no character in common (two co-finite sets always overlap) -/
def CharSet.disjoint (a b : CharSet) : Bool :=
  match a.neg, b.neg with
  | false, false => a.chars.all fun c => !b.chars.contains c
  | false, true => a.chars.all fun c => b.chars.contains c
  | true, false => b.chars.all fun c => a.chars.contains c
  | true, true => false

def pairwiseDisjoint : List CharSet → Bool
  | [] => true
  | a :: rest => rest.all (fun b => a.disjoint b) && pairwiseDisjoint rest

end Pyx.OalLex
