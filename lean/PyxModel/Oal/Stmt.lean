import PyxModel.Oal.Expr

/-!
  OAL statements at TOKEN level (bridgepoint/oal.py, the `statement` productions): a syntax tree that
  also records which OPTIONAL WORDS were written (assign, loop, then, `instances of`, and the other
  spellings that leave the node unchanged: CLASS/ASSIGNER, `*` in an event specification, empty `()` event
  data, `transform` before an instance invocation), a recursive-descent parser and a printer.

  The node that `oal.parse` builds is the tree with these choices forgotten (Driver/C07.lean writes it
  in the wire format); the round trip `parseStmts (printStmts s) = some s` therefore says: for every tree
  and every choice of the optional words, the text parses back to exactly that tree (and the parser even
  recovers the choices).

  Every production of `statement` (oal.py, p_*_statement*, p_port_event_generation and the clause /
  list productions below them) is covered; the list is `implementedProds` at the end of this file and is
  compared with the productions read from the p_* docstrings (Gen/OalPrec.lean) in Props/C07.lean.

  Names are tokens of the classes `Kind.isVarName` (variable_name, rel_id) / `Kind.isIdent` (identifier), so
  keywords are accepted as names exactly where the grammar's kw_as_identifier productions allow them; the
  grammar is LALR(1) without conflicts (PLY reports none besides the operator precedences), so what PLY
  accepts is what the grammar derives, and the two places where a predictive parser must look one token
  further are: a statement that begins with a keyword which is also a variable name (it is the variable iff
  `=`, `.` or `[` follows) and `FROM INSTANCES` (the keyword pair iff `OF` follows).
-/
namespace Pyx.Oal

inductive Card where
  | one | any | many
  deriving DecidableEq, Repr

def Card.kind : Card → Kind
  | .one => .ONE
  | .any => .ANY
  | .many => .MANY

/-- the cardinality keyword as spelled (`cardinality=p[2]`) -/
structure CardTok where
  c : Card
  lex : String
  deriving DecidableEq, Repr

/-- `instance_name : variable_name | SELF` (the node keeps the lexeme) -/
inductive InstName where
  | var (n : Tok)
  | self (lex : String)
  deriving DecidableEq, Repr

/-- `phrase : TICKED_PHRASE | identifier`; the node keeps the ticked lexeme resp. `'identifier'` -/
inductive Phrase where
  | ticked (lex : String)
  | ident (n : Tok)
  deriving DecidableEq, Repr

/-- `NavigationStepNode(key_letter, rel_id, phrase)` : `-> KL [ R1 ]` / `-> KL [ R1 . 'phrase' ]` -/
structure NavStep where
  kl : Tok
  rel : Tok
  phrase : Option Phrase
  deriving DecidableEq, Repr

/-- `EventSpecNode(identifier, meaning, event_data)` -/
structure EvSpec where
  id : Tok
  /-- `identifier TIMES …` (p_ploymorphic_event_spec): not recorded in the node -/
  star : Bool
  /-- `COLON phrase` -/
  meaning : Option Phrase
  /-- `LPAREN event_parameter_list RPAREN` written (true) or `event_data : <empty>` (false) -/
  parens : Bool
  data : Params

/-- where an event goes: `TO identifier CLASS|ASSIGNER`, `TO identifier CREATOR`, `TO variable_access|self_access` -/
inductive EvTarget where
  | cls (kl : Tok) (assigner : Bool)
  | creator (kl : Tok)
  | inst (e : Expr)

/-- which subclass `p[k].__class__ = …` turns the ImplicitInvocationNode into -/
inductive IKind where
  | bridge | cls | port
  deriving DecidableEq, Repr

def IKind.kw : IKind → Tok
  | .bridge => tk .BRIDGE "bridge"
  | .cls => tk .TRANSFORM "transform"
  | .port => tk .SEND "send"

mutual
inductive Stmt where
  /-- `BreakNode` / `ContinueNode` / `ControlNode` -/
  | brk
  | cont
  | ctrl
  /-- `ReturnNode(expression)` : RETURN [expression] -/
  | ret (e : Option Expr)
  /-- `AssignmentNode(variable_access, expression)` : [ASSIGN] variable_access EQUAL expression -/
  | assign (kw : Bool) (va : Expr) (e : Expr)
  /-- `InvocationStatementNode(invocation)` : `NS::f(…)` | `::f(…)` | `x.op(…)` -/
  | invoke (inv : Expr)
  /-- BRIDGE|TRANSFORM|SEND [variable_access EQUAL] implicit_invocation :
      `InvocationStatementNode(X)` / `AssignmentNode(va, X)` with X a Bridge/Class/PortInvocationNode -/
  | kwCall (k : IKind) (va : Option Expr) (ns : String) (name : Tok) (ps : Params)
  /-- TRANSFORM [variable_access EQUAL] instance_invocation -/
  | trCall (va : Option Expr) (h : Expr) (name : Tok) (ps : Params)
  /-- `GeneratePortEventNode(port_name, action_name, parameter_list, expression)` : SEND NS::f(…) TO expression -/
  | sendEvent (port : String) (name : Tok) (ps : Params) (to : Expr)
  /-- GENERATE event_specification TO … : GenerateClassEventNode / GenerateCreatorEventNode / GenerateInstanceEventNode -/
  | gen (es : EvSpec) (tg : EvTarget)
  /-- `GeneratePreexistingNode(variable_access)` : GENERATE variable_access -/
  | genPre (va : Expr)
  /-- CREATE EVENT INSTANCE v OF event_specification TO … : Create{Class,Creator,Instance}EventNode -/
  | crtEv (v : Tok) (es : EvSpec) (tg : EvTarget)
  /-- `CreateObjectNode(variable_name, key_letter)` -/
  | createObj (v kl : Tok)
  /-- `CreateObjectNoVariableNode(key_letter)` -/
  | createObjNoVar (kl : Tok)
  /-- `DeleteNode(variable_name)` -/
  | delete (i : InstName)
  /-- `ForEachNode(instance_variable_name, set_variable_name, block)` : FOR EACH v IN s [LOOP] block END_FOR -/
  | forEach (v set : Tok) (loop : Bool) (b : Block)
  /-- `WhileNode(expression, block)` : WHILE expression [LOOP] block END_WHILE -/
  | while_ (c : Expr) (loop : Bool) (b : Block)
  /-- `IfNode(expression, block, elif_list, else_clause)` -/
  | if_ (c : Expr) (thn : Bool) (b : Block) (elifs : Elifs) (els : Else)
  /-- `RelateNode` / `RelateUsingNode` / `UnrelateNode` / `UnrelateUsingNode`
      (from_variable_name, to_variable_name, rel_id, phrase[, using_variable_name]) -/
  | rel (un : Bool) (a b : InstName) (rel : Tok) (phrase : Option Phrase) (usg : Option InstName)
  /-- `SelectFromNode(cardinality, variable_name, key_letter)` / `SelectFromWhereNode(…, where_clause)` -/
  | selFrom (card : CardTok) (v : Tok) (instOf : Bool) (kl : Tok) (w : Option Expr)
  /-- `SelectRelatedNode(cardinality, variable_name, handle, navigation_chain)` / `SelectRelatedWhereNode` -/
  | selRel (card : CardTok) (v : Tok) (hook : Expr) (chain : List NavStep) (w : Option Expr)
/-- `BlockNode(StatementListNode)`: the non-empty statements in order -/
inductive Block where
  | nil
  | cons (s : Stmt) (rest : Block)
/-- `ElIfListNode` of `ElIfNode(expression, block)` -/
inductive Elifs where
  | nil
  | cons (c : Expr) (thn : Bool) (b : Block) (rest : Elifs)
/-- `ElseNode(block)` or None -/
inductive Else where
  | none
  | some (b : Block)
end

/-! ### small token-level helpers -/

def expectK (k : Kind) : List Tok → Option (List Tok)
  | tok :: ts => if tok.kind = k then some ts else none
  | [] => none

/-- an `identifier` token (ID or one of the keywords the grammar allows as an identifier) -/
def takeIdent : List Tok → Option (Tok × List Tok)
  | tok :: ts => if tok.kind.isIdent then some (tok, ts) else none
  | [] => none

/-- a `variable_name` / `rel_id` token (`limited_identifier`) -/
def takeVarName : List Tok → Option (Tok × List Tok)
  | tok :: ts => if tok.kind.isVarName then some (tok, ts) else none
  | [] => none

/-- skip one token of kind `k` if it is there; tells whether it was -/
def optK (k : Kind) (ts : List Tok) : Bool × List Tok :=
  if hk ts = some k then (true, ts.drop 1) else (false, ts)

def parseInstName : List Tok → Option (InstName × List Tok)
  | tok :: ts =>
    if tok.kind = .SELF then some (.self tok.lex, ts)
    else if tok.kind.isVarName then some (.var tok, ts)
    else none
  | [] => none

/-- `phrase : TICKED_PHRASE | identifier` (the identifier form yields `'identifier'`) -/
def parsePhrase : List Tok → Option (Phrase × List Tok)
  | tok :: ts =>
    if tok.kind = .TICKED_PHRASE then some (.ticked tok.lex, ts)
    else if tok.kind.isIdent then some (.ident tok, ts)
    else none
  | [] => none

/-- `[DOT phrase]` -/
def parseOptPhrase (ts : List Tok) : Option (Option Phrase × List Tok) :=
  if hk ts = some .DOT then
    match parsePhrase (ts.drop 1) with
    | some (p, ts') => some (some p, ts')
    | none => none
  else some (none, ts)

/-- `navigation_step : ARROW identifier LSQBR identifier [DOT phrase] RSQBR` -/
def parseNavStep (ts : List Tok) : Option (NavStep × List Tok) := do
  let ts ← expectK .ARROW ts
  let (kl, ts) ← takeIdent ts
  let ts ← expectK .LSQBR ts
  let (rel, ts) ← takeIdent ts
  let (ph, ts) ← parseOptPhrase ts
  let ts ← expectK .RSQBR ts
  pure (⟨kl, rel, ph⟩, ts)

/-- `navigation_chain : navigation_step | navigation_step navigation_chain` -/
def parseNavChain : Nat → List Tok → Option (List NavStep × List Tok)
  | 0, _ => none
  | f+1, ts =>
    match parseNavStep ts with
    | some (st, ts') =>
      if hk ts' = some .ARROW then
        match parseNavChain f ts' with
        | some (more, ts'') => some (st :: more, ts'')
        | none => none
      else some ([st], ts')
    | none => none

/-- what an access chain or an invocation may begin with (not a literal, a parenthesis or an operator) -/
def isAccessStart : Option Kind → Bool
  | some .SELF | some .SELECTED | some .PARAM | some .RCVD_EVT | some .NAMESPACE | some .DOUBLECOLON => true
  | some k => k.isVarName
  | none => false

/-- `variable_access`, `self_access`, `selected_access`, `invocation` or `NS::name`, by the operand parser -/
def parseAccess (t : Tbl) (f : Nat) (ts : List Tok) : Option (Expr × List Tok) :=
  if isAccessStart (hk ts) then parsePrefix t f ts else none

/-- `variable_access : variable_name | field_access | index_access | param_access` -/
def Expr.isVarAccess : Expr → Bool
  | .var _ | .param _ | .field _ _ | .index _ _ => true
  | _ => false

def Expr.isSelf : Expr → Bool
  | .self => true
  | _ => false

/-- `variable_access | self_access` (navigation_hook, the target of an instance event) -/
def Expr.isHook (e : Expr) : Bool := e.isVarAccess || e.isSelf

def Expr.isInvocation : Expr → Bool
  | .fcall _ _ | .icall _ _ _ | .ocall _ _ _ => true
  | _ => false

/-- `event_meaning : COLON phrase | <empty>` -/
def parseEvMeaning (ts : List Tok) : Option (Option Phrase × List Tok) :=
  if hk ts = some .COLON then
    match parsePhrase (ts.drop 1) with
    | some (p, ts') => some (some p, ts')
    | none => none
  else some (none, ts)

/-- `event_data : LPAREN event_parameter_list RPAREN | <empty>` (the list has the shape of `parameter_list`) -/
def parseEvData (t : Tbl) (f : Nat) (id : Tok) (star : Bool) (meaning : Option Phrase) (ts : List Tok) :
    Option (EvSpec × List Tok) :=
  if hk ts = some .LPAREN then
    match parseParams t f (ts.drop 1) with
    | some (ps, ts') =>
      match expectK .RPAREN ts' with
      | some ts'' => some (⟨id, star, meaning, true, ps⟩, ts'')
      | none => none
    | none => none
  else some (⟨id, star, meaning, false, .nil⟩, ts)

/-- `event_specification : identifier [TIMES] event_meaning event_data` -/
def parseEvSpec (t : Tbl) (f : Nat) (ts : List Tok) : Option (EvSpec × List Tok) :=
  match takeIdent ts with
  | some (id, ts1) =>
    match parseEvMeaning (optK .TIMES ts1).2 with
    | some (meaning, ts2) => parseEvData t f id (optK .TIMES ts1).1 meaning ts2
    | none => none
  | none => none

/-- does the token list begin with a token of the given class? -/
def hkIs (p : Kind → Bool) : List Tok → Bool
  | tok :: _ => p tok.kind
  | [] => false

def isClassWord : Option Kind → Bool
  | some .CLASS | some .ASSIGNER | some .CREATOR => true
  | _ => false

/-- what follows `TO` in the event statements -/
def parseEvTarget (t : Tbl) (f : Nat) (ts : List Tok) : Option (EvTarget × List Tok) :=
  if hkIs Kind.isIdent ts = true ∧ isClassWord (hk (ts.drop 1)) = true then
    match ts with
    | nm :: w :: ts' =>
      if w.kind = .CREATOR then some (.creator nm, ts')
      else some (.cls nm (decide (w.kind = .ASSIGNER)), ts')
    | _ => none
  else
    match parseAccess t f ts with
    | some (e, ts') => if e.isHook then some (.inst e, ts') else none
    | none => none

/-- after GENERATE: does an event specification follow (rather than a variable_access)? -/
def startsEvSpec (ts : List Tok) : Bool :=
  hkIs Kind.isIdent ts &&
    (match hk (ts.drop 1) with
     | some .TIMES | some .COLON | some .LPAREN | some .TO => true
     | _ => false)

/-- BRIDGE / TRANSFORM / SEND statements (the keyword already consumed) -/
def parseKw (t : Tbl) (f : Nat) (k : IKind) (ts : List Tok) : Option (Stmt × List Tok) :=
  match parseAccess t f ts with
  | some (.icall ns n ps, ts') =>
    if k = .port ∧ hk ts' = some .TO then
      match parseExpr t f 0 (ts'.drop 1) with
      | some (e, ts'') => some (.sendEvent ns n ps e, ts'')
      | none => none
    else some (.kwCall k none ns n ps, ts')
  | some (.ocall h n ps, ts') => if k = .cls then some (.trCall none h n ps, ts') else none
  | some (va, ts') =>
    if va.isVarAccess = true ∧ hk ts' = some .EQUAL then
      match parseAccess t f (ts'.drop 1) with
      | some (.icall ns n ps, ts'') => some (.kwCall k (some va) ns n ps, ts'')
      | some (.ocall h n ps, ts'') => if k = .cls then some (.trCall (some va) h n ps, ts'') else none
      | _ => none
    else none
  | none => none

/-- `[WHERE expression]` -/
def parseOptWhere (t : Tbl) (f : Nat) (ts : List Tok) : Option (Option Expr × List Tok) :=
  if hk ts = some .WHERE then
    match parseExpr t f 0 (ts.drop 1) with
    | some (e, ts') => some (some e, ts')
    | none => none
  else some (none, ts)

/-- RELATE / UNRELATE (the keyword already consumed; `un` = UNRELATE, whose middle word is FROM) -/
def parseRel (un : Bool) (ts : List Tok) : Option (Stmt × List Tok) :=
  match parseInstName ts with
  | some (a, ts1) =>
    match expectK (if un then .FROM else .TO) ts1 with
    | some ts2 =>
      match parseInstName ts2 with
      | some (b, ts3) =>
        match expectK .ACROSS ts3 with
        | some ts4 =>
          match takeVarName ts4 with
          | some (r, ts5) =>
            match parseOptPhrase ts5 with
            | some (ph, ts6) =>
              if hk ts6 = some .USING then
                match parseInstName (ts6.drop 1) with
                | some (u, ts7) => some (.rel un a b r ph (some u), ts7)
                | none => none
              else some (.rel un a b r ph none, ts6)
            | none => none
          | none => none
        | none => none
      | none => none
    | none => none
  | none => none

def parseCard : List Tok → Option (CardTok × List Tok)
  | tok :: ts =>
    if tok.kind = .ONE then some (⟨.one, tok.lex⟩, ts)
    else if tok.kind = .ANY then some (⟨.any, tok.lex⟩, ts)
    else if tok.kind = .MANY then some (⟨.many, tok.lex⟩, ts)
    else none
  | [] => none

/-- `[INSTANCES OF]`: the keyword pair iff OF follows (otherwise `instances` is the key letters) -/
def parseInstOf (ts : List Tok) : Option (Bool × List Tok) :=
  if hk ts = some .INSTANCES ∧ hk (ts.drop 1) = some .OF then some (true, ts.drop 2)
  else some (false, ts)

/-- SELECT ANY|MANY v FROM · : `[INSTANCES OF] identifier [WHERE expression]` -/
def parseSelFrom (t : Tbl) (f : Nat) (card : CardTok) (v : Tok) (ts : List Tok) : Option (Stmt × List Tok) :=
  match parseInstOf ts with
  | some (io, ts1) =>
    match takeIdent ts1 with
    | some (kl, ts2) =>
      match parseOptWhere t f ts2 with
      | some (w, ts3) => some (.selFrom card v io kl w, ts3)
      | none => none
    | none => none
  | none => none

/-- SELECT ONE|ANY|MANY v RELATED BY · : `navigation_hook navigation_chain [WHERE expression]` -/
def parseSelRel (t : Tbl) (f : Nat) (card : CardTok) (v : Tok) (ts : List Tok) : Option (Stmt × List Tok) :=
  match parseAccess t f ts with
  | some (hook, ts1) =>
    if hook.isHook then
      match parseNavChain f ts1 with
      | some (chain, ts2) =>
        match parseOptWhere t f ts2 with
        | some (w, ts3) => some (.selRel card v hook chain w, ts3)
        | none => none
      | none => none
    else none
  | none => none

/-- SELECT (the keyword already consumed) -/
def parseSelect (t : Tbl) (f : Nat) (ts : List Tok) : Option (Stmt × List Tok) :=
  match parseCard ts with
  | some (card, ts1) =>
    match takeVarName ts1 with
    | some (v, ts2) =>
      if hk ts2 = some .FROM then
        if card.c = .one then none else parseSelFrom t f card v (ts2.drop 1)
      else
        match expectK .RELATED ts2 with
        | some ts3 =>
          match expectK .BY ts3 with
          | some ts4 => parseSelRel t f card v ts4
          | none => none
        | none => none
    | none => none
  | none => none

/-- the tokens a statement can begin with -/
def Kind.isStmtStart : Kind → Bool
  | .RETURN | .SELF | .SELECTED | .PARAM | .RCVD_EVT | .NAMESPACE | .DOUBLECOLON | .BRIDGE | .TRANSFORM | .SEND
  | .WHILE | .IF => true
  | k => k.isVarName      -- ID and every kw_as_identifier_1 keyword, which includes the other statement keywords

/-- the statement keywords that are also variable names (kw_as_identifier_1) -/
def Kind.isStmtKeyword : Kind → Bool
  | .ASSIGN | .BREAK | .CONTINUE | .CONTROL | .CREATE | .DELETE | .FOR | .GENERATE | .RELATE | .SELECT
  | .UNRELATE => true
  | _ => false

/-- does a statement that begins with `tok` (followed by `ts`) begin with an access chain or an invocation?
    A keyword that is both a statement keyword and a variable name is the variable iff `=`, `.` or `[` follows. -/
def startsAccessStmt (tok : Tok) (ts : List Tok) : Bool :=
  match tok.kind with
  | .SELF | .SELECTED | .PARAM | .RCVD_EVT | .NAMESPACE | .DOUBLECOLON => true
  | k =>
    k.isVarName &&
      (!k.isStmtKeyword ||
        (match hk ts with
         | some .EQUAL | some .DOT | some .LSQBR => true
         | _ => false))

mutual
/-- one statement (without its SEMICOLON) -/
def parseStmt (t : Tbl) : Nat → List Tok → Option (Stmt × List Tok)
  | 0, _ => none
  | _+1, [] => none
  | f+1, tok :: ts =>
    if startsAccessStmt tok ts then
      match parsePrefix t f (tok :: ts) with
      | some (x, ts') =>
        if hk ts' = some .EQUAL then
          if x.isVarAccess then
            match parseExpr t f 0 (ts'.drop 1) with
            | some (e, ts'') => some (.assign false x e, ts'')
            | none => none
          else none
        else if x.isInvocation then some (.invoke x, ts')
        else none
      | none => none
    else
    match tok.kind with
    | .BREAK => some (.brk, ts)
    | .CONTINUE => some (.cont, ts)
    | .CONTROL =>
      match expectK .STOP ts with
      | some ts' => some (.ctrl, ts')
      | none => none
    | .RETURN =>
      if hk ts = some .SEMICOLON then some (.ret none, ts)
      else
        match parseExpr t f 0 ts with
        | some (e, ts') => some (.ret (some e), ts')
        | none => none
    | .ASSIGN =>
      match parseAccess t f ts with
      | some (va, ts') =>
        if va.isVarAccess = true ∧ hk ts' = some .EQUAL then
          match parseExpr t f 0 (ts'.drop 1) with
          | some (e, ts'') => some (.assign true va e, ts'')
          | none => none
        else none
      | none => none
    | .BRIDGE => parseKw t f .bridge ts
    | .TRANSFORM => parseKw t f .cls ts
    | .SEND => parseKw t f .port ts
    | .GENERATE =>
      if startsEvSpec ts then
        match parseEvSpec t f ts with
        | some (es, ts1) =>
          match expectK .TO ts1 with
          | some ts2 =>
            match parseEvTarget t f ts2 with
            | some (tg, ts3) => some (.gen es tg, ts3)
            | none => none
          | none => none
        | none => none
      else
        match parseAccess t f ts with
        | some (va, ts') => if va.isVarAccess then some (.genPre va, ts') else none
        | none => none
    | .CREATE =>
      if hk ts = some .EVENT then
        match expectK .INSTANCE (ts.drop 1) with
        | some ts1 =>
          match takeVarName ts1 with
          | some (v, ts2) =>
            match expectK .OF ts2 with
            | some ts3 =>
              match parseEvSpec t f ts3 with
              | some (es, ts4) =>
                match expectK .TO ts4 with
                | some ts5 =>
                  match parseEvTarget t f ts5 with
                  | some (tg, ts6) => some (.crtEv v es tg, ts6)
                  | none => none
                | none => none
              | none => none
            | none => none
          | none => none
        | none => none
      else
        match expectK .OBJECT ts with
        | some ts1 =>
          match expectK .INSTANCE ts1 with
          | some ts2 =>
            if hk ts2 = some .OF then
              match takeIdent (ts2.drop 1) with
              | some (kl, ts3) => some (.createObjNoVar kl, ts3)
              | none => none
            else
              match takeVarName ts2 with
              | some (v, ts3) =>
                match expectK .OF ts3 with
                | some ts4 =>
                  match takeIdent ts4 with
                  | some (kl, ts5) => some (.createObj v kl, ts5)
                  | none => none
                | none => none
              | none => none
          | none => none
        | none => none
    | .DELETE =>
      match expectK .OBJECT ts with
      | some ts1 =>
        match expectK .INSTANCE ts1 with
        | some ts2 =>
          match parseInstName ts2 with
          | some (i, ts3) => some (.delete i, ts3)
          | none => none
        | none => none
      | none => none
    | .FOR =>
      match expectK .EACH ts with
      | some ts1 =>
        match takeVarName ts1 with
        | some (v, ts2) =>
          match expectK .IN ts2 with
          | some ts3 =>
            match takeVarName ts3 with
            | some (s, ts4) =>
              match parseBlock t f (optK .LOOP ts4).2 with
              | some (b, ts5) =>
                match expectK .END_FOR ts5 with
                | some ts6 => some (.forEach v s (optK .LOOP ts4).1 b, ts6)
                | none => none
              | none => none
            | none => none
          | none => none
        | none => none
      | none => none
    | .WHILE =>
      match parseExpr t f 0 ts with
      | some (c, ts1) =>
        match parseBlock t f (optK .LOOP ts1).2 with
        | some (b, ts2) =>
          match expectK .END_WHILE ts2 with
          | some ts3 => some (.while_ c (optK .LOOP ts1).1 b, ts3)
          | none => none
        | none => none
      | none => none
    | .IF =>
      match parseExpr t f 0 ts with
      | some (c, ts1) =>
        match parseBlock t f (optK .THEN ts1).2 with
        | some (b, ts2) =>
          match parseElifs t f ts2 with
          | some (el, ts3) =>
            match parseElse t f ts3 with
            | some (e, ts4) =>
              match expectK .END_IF ts4 with
              | some ts5 => some (.if_ c (optK .THEN ts1).1 b el e, ts5)
              | none => none
            | none => none
          | none => none
        | none => none
      | none => none
    | .RELATE => parseRel false ts
    | .UNRELATE => parseRel true ts
    | .SELECT => parseSelect t f ts
    | _ => none
/-- `block`: statements each followed by SEMICOLON (empty statements are skipped), up to the first token
    that neither begins a statement nor is a SEMICOLON -/
def parseBlock (t : Tbl) : Nat → List Tok → Option (Block × List Tok)
  | 0, _ => none
  | _+1, [] => some (.nil, [])
  | f+1, tok :: ts =>
    if tok.kind = .SEMICOLON then parseBlock t f ts
    else if tok.kind.isStmtStart then
      match parseStmt t f (tok :: ts) with
      | some (s, ts1) =>
        match expectK .SEMICOLON ts1 with
        | some ts2 =>
          match parseBlock t f ts2 with
          | some (b, ts3) => some (.cons s b, ts3)
          | none => none
        | none => none
      | none => none
    else some (.nil, tok :: ts)
/-- `elif_list : <empty> | ELIF elif_clause elif_list`, `elif_clause : expression [THEN] block` -/
def parseElifs (t : Tbl) : Nat → List Tok → Option (Elifs × List Tok)
  | 0, _ => none
  | f+1, ts =>
    if hk ts = some .ELIF then
      match parseExpr t f 0 (ts.drop 1) with
      | some (c, ts1) =>
        match parseBlock t f (optK .THEN ts1).2 with
        | some (b, ts2) =>
          match parseElifs t f ts2 with
          | some (more, ts3) => some (.cons c (optK .THEN ts1).1 b more, ts3)
          | none => none
        | none => none
      | none => none
    else some (.nil, ts)
/-- `else_clause : ELSE block | <empty>` -/
def parseElse (t : Tbl) : Nat → List Tok → Option (Else × List Tok)
  | 0, _ => none
  | f+1, ts =>
    if hk ts = some .ELSE then
      match parseBlock t f (ts.drop 1) with
      | some (b, ts1) => some (.some b, ts1)
      | none => none
    else some (.none, ts)
end

/-- fuel that is enough for EVERY token list (`Proofs/OalFuel.lean`: `parseBlock_fuel_indep`, bound 2·|ts| + 2;
    `parseStmts_complete`: a rejection by `parseStmts` is never an exhaustion of the fuel) -/
def fuelForS (ts : List Tok) : Nat := 8 * ts.length + 16

/-- `action : action_body : block` on the whole token stream -/
def parseStmts (t : Tbl) (ts : List Tok) : Option Block :=
  match parseBlock t (fuelForS ts) ts with
  | some (b, []) => some b
  | _ => none

/-! ### printer -/

def printInst : InstName → Tok
  | .var n => n
  | .self lex => tk .SELF lex

def printPhrase : Phrase → Tok
  | .ticked lex => tk .TICKED_PHRASE lex
  | .ident n => n

def printOptPhrase : Option Phrase → List Tok
  | some p => [tk .DOT ".", printPhrase p]
  | none => []

def printNavStep (s : NavStep) : List Tok :=
  tk .ARROW "->" :: s.kl :: tk .LSQBR "[" :: s.rel :: (printOptPhrase s.phrase ++ [tk .RSQBR "]"])

def printNavChain : List NavStep → List Tok
  | [] => []
  | s :: ss => printNavStep s ++ printNavChain ss

def optWord (b : Bool) (w : Tok) : List Tok := if b then [w] else []

def printEvMeaning : Option Phrase → List Tok
  | some p => [tk .COLON ":", printPhrase p]
  | none => []

def printEvData (t : Tbl) (parens : Bool) (data : Params) : List Tok :=
  if parens then LP :: (renderParams t data ++ [RP]) else []

def printEvSpec (t : Tbl) (es : EvSpec) : List Tok :=
  es.id :: (optWord es.star (tk .TIMES "*") ++ (printEvMeaning es.meaning ++ printEvData t es.parens es.data))

def printEvTarget (t : Tbl) : EvTarget → List Tok
  | .cls kl assigner => [kl, if assigner then tk .ASSIGNER "assigner" else tk .CLASS "class"]
  | .creator kl => [kl, tk .CREATOR "creator"]
  | .inst e => renderRaw t e

def printInstOf (io : Bool) : List Tok :=
  if io then [tk .INSTANCES "instances", tk .OF "of"] else []

def printUsing : Option InstName → List Tok
  | some i => [tk .USING "using", printInst i]
  | none => []

def printOptWhere (t : Tbl) : Option Expr → List Tok
  | some e => tk .WHERE "where" :: render t e 0
  | none => []

def printImplicit (t : Tbl) (ns : String) (name : Tok) (ps : Params) : List Tok :=
  tk .NAMESPACE ns :: tk .DOUBLECOLON "::" :: name :: LP :: (renderParams t ps ++ [RP])

mutual
def printStmt (t : Tbl) : Stmt → List Tok
  | .brk => [tk .BREAK "break"]
  | .cont => [tk .CONTINUE "continue"]
  | .ctrl => [tk .CONTROL "control", tk .STOP "stop"]
  | .ret none => [tk .RETURN "return"]
  | .ret (some e) => tk .RETURN "return" :: render t e 0
  | .assign kw va e => optWord kw (tk .ASSIGN "assign") ++ (renderRaw t va ++ tk .EQUAL "=" :: render t e 0)
  | .invoke inv => renderRaw t inv
  | .kwCall k none ns n ps => k.kw :: printImplicit t ns n ps
  | .kwCall k (some va) ns n ps => k.kw :: (renderRaw t va ++ tk .EQUAL "=" :: printImplicit t ns n ps)
  | .trCall none h n ps => tk .TRANSFORM "transform" :: renderRaw t (.ocall h n ps)
  | .trCall (some va) h n ps =>
    tk .TRANSFORM "transform" :: (renderRaw t va ++ tk .EQUAL "=" :: renderRaw t (.ocall h n ps))
  | .sendEvent port n ps to =>
    tk .SEND "send" :: (printImplicit t port n ps ++ tk .TO "to" :: render t to 0)
  | .gen es tg => tk .GENERATE "generate" :: (printEvSpec t es ++ tk .TO "to" :: printEvTarget t tg)
  | .genPre va => tk .GENERATE "generate" :: renderRaw t va
  | .crtEv v es tg =>
    tk .CREATE "create" :: tk .EVENT "event" :: tk .INSTANCE "instance" :: v :: tk .OF "of" ::
      (printEvSpec t es ++ tk .TO "to" :: printEvTarget t tg)
  | .createObj v kl =>
    [tk .CREATE "create", tk .OBJECT "object", tk .INSTANCE "instance", v, tk .OF "of", kl]
  | .createObjNoVar kl =>
    [tk .CREATE "create", tk .OBJECT "object", tk .INSTANCE "instance", tk .OF "of", kl]
  | .delete i => [tk .DELETE "delete", tk .OBJECT "object", tk .INSTANCE "instance", printInst i]
  | .forEach v s loop b =>
    tk .FOR "for" :: tk .EACH "each" :: v :: tk .IN "in" :: s ::
      (optWord loop (tk .LOOP "loop") ++ (printBlock t b ++ [tk .END_FOR "end for"]))
  | .while_ c loop b =>
    tk .WHILE "while" :: (render t c 0 ++ (optWord loop (tk .LOOP "loop") ++ (printBlock t b ++ [tk .END_WHILE "end while"])))
  | .if_ c thn b el e =>
    tk .IF "if" :: (render t c 0 ++ (optWord thn (tk .THEN "then") ++
      (printBlock t b ++ (printElifs t el ++ (printElse t e ++ [tk .END_IF "end if"])))))
  | .rel un a b r ph u =>
    (if un then tk .UNRELATE "unrelate" else tk .RELATE "relate") :: printInst a ::
      (if un then tk .FROM "from" else tk .TO "to") :: printInst b :: tk .ACROSS "across" :: r ::
      (printOptPhrase ph ++ printUsing u)
  | .selFrom card v io kl w =>
    tk .SELECT "select" :: tk card.c.kind card.lex :: v :: tk .FROM "from" ::
      (printInstOf io ++ kl :: printOptWhere t w)
  | .selRel card v hook chain w =>
    tk .SELECT "select" :: tk card.c.kind card.lex :: v :: tk .RELATED "related" :: tk .BY "by" ::
      (renderRaw t hook ++ (printNavChain chain ++ printOptWhere t w))
/-- every statement is followed by its SEMICOLON -/
def printBlock (t : Tbl) : Block → List Tok
  | .nil => []
  | .cons s b => printStmt t s ++ tk .SEMICOLON ";" :: printBlock t b
def printElifs (t : Tbl) : Elifs → List Tok
  | .nil => []
  | .cons c thn b more =>
    tk .ELIF "elif" :: (render t c 0 ++ (optWord thn (tk .THEN "then") ++ (printBlock t b ++ printElifs t more)))
def printElse (t : Tbl) : Else → List Tok
  | .none => []
  | .some b => tk .ELSE "else" :: printBlock t b
end

/-- the whole action body -/
def printStmts (t : Tbl) (b : Block) : List Tok := printBlock t b

/-! ### which trees are statements of the language -/

def Phrase.Ok : Phrase → Prop
  | .ticked _ => True
  | .ident n => n.kind.isIdent = true

def optPhraseOk : Option Phrase → Prop
  | some p => p.Ok
  | none => True

def InstName.Ok : InstName → Prop
  | .var n => n.kind.isVarName = true
  | .self _ => True

def optInstOk : Option InstName → Prop
  | some i => i.Ok
  | none => True

def NavStep.Ok (s : NavStep) : Prop :=
  s.kl.kind.isIdent = true ∧ s.rel.kind.isIdent = true ∧ optPhraseOk s.phrase

def EvSpec.Ok (t : Tbl) (es : EvSpec) : Prop :=
  es.id.kind.isIdent = true ∧ optPhraseOk es.meaning ∧ es.data.Ok t ∧ (es.parens = false → es.data = .nil)

def EvTarget.Ok (t : Tbl) : EvTarget → Prop
  | .inst e => e.isHook = true ∧ e.Ok t
  | .cls kl _ => kl.kind.isIdent = true
  | .creator kl => kl.kind.isIdent = true

def optExprOk (t : Tbl) : Option Expr → Prop
  | some e => e.Ok t
  | none => True

def optVarAccessOk (t : Tbl) : Option Expr → Prop
  | some va => va.isVarAccess = true ∧ va.Ok t
  | none => True

mutual
def Stmt.Ok (t : Tbl) : Stmt → Prop
  | .ret e => optExprOk t e
  | .assign _ va e => va.isVarAccess = true ∧ va.Ok t ∧ e.Ok t
  | .invoke inv => inv.isInvocation = true ∧ inv.Ok t
  | .kwCall _ va _ n ps => optVarAccessOk t va ∧ n.kind.isIdent = true ∧ ps.Ok t
  | .trCall va h n ps => optVarAccessOk t va ∧ h.isStruct = true ∧ h.Ok t ∧ n.kind.isIdent = true ∧ ps.Ok t
  | .sendEvent _ n ps to => n.kind.isIdent = true ∧ ps.Ok t ∧ to.Ok t
  | .gen es tg => es.Ok t ∧ tg.Ok t
  | .genPre va => va.isVarAccess = true ∧ va.Ok t
  | .crtEv v es tg => v.kind.isVarName = true ∧ es.Ok t ∧ tg.Ok t
  | .createObj v kl => v.kind.isVarName = true ∧ kl.kind.isIdent = true
  | .createObjNoVar kl => kl.kind.isIdent = true
  | .delete i => i.Ok
  | .forEach v s _ b => v.kind.isVarName = true ∧ s.kind.isVarName = true ∧ b.Ok t
  | .while_ c _ b => c.Ok t ∧ b.Ok t
  | .if_ c _ b el e => c.Ok t ∧ b.Ok t ∧ el.Ok t ∧ e.Ok t
  | .rel _ a b r ph u => a.Ok ∧ b.Ok ∧ r.kind.isVarName = true ∧ optPhraseOk ph ∧ optInstOk u
  | .selFrom card v _ kl w => card.c ≠ .one ∧ v.kind.isVarName = true ∧ kl.kind.isIdent = true ∧ optExprOk t w
  | .selRel _ v hook chain w =>
    v.kind.isVarName = true ∧ hook.isHook = true ∧ hook.Ok t ∧ chain ≠ [] ∧ (∀ s ∈ chain, s.Ok) ∧ optExprOk t w
  | _ => True
def Block.Ok (t : Tbl) : Block → Prop
  | .nil => True
  | .cons s b => s.Ok t ∧ b.Ok t
def Elifs.Ok (t : Tbl) : Elifs → Prop
  | .nil => True
  | .cons c _ b more => c.Ok t ∧ b.Ok t ∧ more.Ok t
def Else.Ok (t : Tbl) : Else → Prop
  | .none => True
  | .some b => b.Ok t
end

/-! ### the statement grammar this model implements

  `(lhs, rhs, %prec, body with p[i] written $i)` of every production below `statement` and of the name
  classes (sorted by lhs, rhs), each with the model function that implements it.  Props/C07.lean
  (`grammar_shape`) proves that this list is exactly what the translator reads from the `p_*` functions of
  bridgepoint/oal.py (Gen/OalPrec.lean), so adding, dropping or rewiring a production there — also adding a
  keyword to or removing it from a kw_as_identifier class — breaks an obligation. -/
def stmtGrammar : List (String × List String × Option String × String) := [
  -- parseStmts
  ("action", ["action_body"], none,
    "$0 = $1"),
  -- parseStmts
  ("action_body", ["block"], none,
    "$0 = BodyNode(block=$1)"),
  -- parseBlock
  ("block", [], none,
    "$0 = BlockNode(statement_list=StatementListNode())"),
  -- parseBlock
  ("block", ["statement_list"], none,
    "$0 = BlockNode(statement_list=$1)"),
  -- parseElifs
  ("elif_clause", ["expression", "THEN", "block"], none,
    "$0 = ElIfNode(expression=$1, block=$3)"),
  -- parseElifs
  ("elif_clause", ["expression", "block"], none,
    "$0 = ElIfNode(expression=$1, block=$2)"),
  -- parseElifs
  ("elif_list", [], none,
    "$0 = ElIfListNode()"),
  -- parseElifs
  ("elif_list", ["ELIF", "elif_clause", "elif_list"], none,
    "$0 = $3; $0.children.insert(0, $2)"),
  -- parseElse
  ("else_clause", [], none,
    "$0 = None"),
  -- parseElse
  ("else_clause", ["ELSE", "block"], none,
    "$0 = ElseNode($2)"),
  -- parseEvData
  ("event_data", [], none,
    "$0 = EventDataListNode()"),
  -- parseEvData
  ("event_data", ["LPAREN", "event_parameter_list", "RPAREN"], none,
    "$0 = $2"),
  -- parseEvMeaning
  ("event_meaning", [], none,
    "$0 = None"),
  -- parseEvMeaning
  ("event_meaning", ["COLON", "phrase"], none,
    "$0 = $2"),
  -- parseParams (the event data list has the shape of parameter_list)
  ("event_parameter", ["identifier", "COLON", "expression"], none,
    "$0 = EventDataItemNode(name=$1, expression=$3)"),
  -- parseParams (the event data list has the shape of parameter_list)
  ("event_parameter_list", [], none,
    "$0 = EventDataListNode()"),
  -- parseParams (the event data list has the shape of parameter_list)
  ("event_parameter_list", ["event_parameter"], none,
    "$0 = EventDataListNode(); $0.children.append($1)"),
  -- parseParams (the event data list has the shape of parameter_list)
  ("event_parameter_list", ["event_parameter", "COMMA", "event_parameter_list"], none,
    "$0 = $3; $0.children.insert(0, $1)"),
  -- parseEvSpec
  ("event_specification", ["identifier", "TIMES", "event_meaning", "event_data"], none,
    "$0 = EventSpecNode(identifier=$1, meaning=$3, event_data=$4)"),
  -- parseEvSpec
  ("event_specification", ["identifier", "event_meaning", "event_data"], none,
    "$0 = EventSpecNode(identifier=$1, meaning=$2, event_data=$3)"),
  -- takeIdent / Kind.isIdent
  ("identifier", ["kw_as_identifier_2"], none,
    "$0 = $1"),
  -- takeIdent / Kind.isIdent
  ("identifier", ["kw_as_identifier_3"], none,
    "$0 = $1"),
  -- takeIdent / Kind.isIdent
  ("identifier", ["kw_as_identifier_4"], none,
    "$0 = $1"),
  -- takeIdent / Kind.isIdent
  ("identifier", ["limited_identifier"], none,
    "$0 = $1"),
  -- parseInstName
  ("instance_name", ["SELF"], none,
    "$0 = $1"),
  -- parseInstName
  ("instance_name", ["variable_name"], none,
    "$0 = $1"),
  -- Kind.isVarName (and Kind.isIdent)
  ("kw_as_identifier_1", ["ACROSS"], none,
    "$0 = $1"),
  -- Kind.isVarName (and Kind.isIdent)
  ("kw_as_identifier_1", ["ANY"], none,
    "$0 = $1"),
  -- Kind.isVarName (and Kind.isIdent)
  ("kw_as_identifier_1", ["ASSIGN"], none,
    "$0 = $1"),
  -- Kind.isVarName (and Kind.isIdent)
  ("kw_as_identifier_1", ["ASSIGNER"], none,
    "$0 = $1"),
  -- Kind.isVarName (and Kind.isIdent)
  ("kw_as_identifier_1", ["BREAK"], none,
    "$0 = $1"),
  -- Kind.isVarName (and Kind.isIdent)
  ("kw_as_identifier_1", ["BY"], none,
    "$0 = $1"),
  -- Kind.isVarName (and Kind.isIdent)
  ("kw_as_identifier_1", ["CLASS"], none,
    "$0 = $1"),
  -- Kind.isVarName (and Kind.isIdent)
  ("kw_as_identifier_1", ["CONTINUE"], none,
    "$0 = $1"),
  -- Kind.isVarName (and Kind.isIdent)
  ("kw_as_identifier_1", ["CONTROL"], none,
    "$0 = $1"),
  -- Kind.isVarName (and Kind.isIdent)
  ("kw_as_identifier_1", ["CREATE"], none,
    "$0 = $1"),
  -- Kind.isVarName (and Kind.isIdent)
  ("kw_as_identifier_1", ["CREATOR"], none,
    "$0 = $1"),
  -- Kind.isVarName (and Kind.isIdent)
  ("kw_as_identifier_1", ["DELETE"], none,
    "$0 = $1"),
  -- Kind.isVarName (and Kind.isIdent)
  ("kw_as_identifier_1", ["EACH"], none,
    "$0 = $1"),
  -- Kind.isVarName (and Kind.isIdent)
  ("kw_as_identifier_1", ["EVENT"], none,
    "$0 = $1"),
  -- Kind.isVarName (and Kind.isIdent)
  ("kw_as_identifier_1", ["FOR"], none,
    "$0 = $1"),
  -- Kind.isVarName (and Kind.isIdent)
  ("kw_as_identifier_1", ["FROM"], none,
    "$0 = $1"),
  -- Kind.isVarName (and Kind.isIdent)
  ("kw_as_identifier_1", ["GENERATE"], none,
    "$0 = $1"),
  -- Kind.isVarName (and Kind.isIdent)
  ("kw_as_identifier_1", ["IN"], none,
    "$0 = $1"),
  -- Kind.isVarName (and Kind.isIdent)
  ("kw_as_identifier_1", ["INSTANCE"], none,
    "$0 = $1"),
  -- Kind.isVarName (and Kind.isIdent)
  ("kw_as_identifier_1", ["INSTANCES"], none,
    "$0 = $1"),
  -- Kind.isVarName (and Kind.isIdent)
  ("kw_as_identifier_1", ["MANY"], none,
    "$0 = $1"),
  -- Kind.isVarName (and Kind.isIdent)
  ("kw_as_identifier_1", ["OBJECT"], none,
    "$0 = $1"),
  -- Kind.isVarName (and Kind.isIdent)
  ("kw_as_identifier_1", ["ONE"], none,
    "$0 = $1"),
  -- Kind.isVarName (and Kind.isIdent)
  ("kw_as_identifier_1", ["RELATE"], none,
    "$0 = $1"),
  -- Kind.isVarName (and Kind.isIdent)
  ("kw_as_identifier_1", ["RELATED"], none,
    "$0 = $1"),
  -- Kind.isVarName (and Kind.isIdent)
  ("kw_as_identifier_1", ["SELECT"], none,
    "$0 = $1"),
  -- Kind.isVarName (and Kind.isIdent)
  ("kw_as_identifier_1", ["STOP"], none,
    "$0 = $1"),
  -- Kind.isVarName (and Kind.isIdent)
  ("kw_as_identifier_1", ["TO"], none,
    "$0 = $1"),
  -- Kind.isVarName (and Kind.isIdent)
  ("kw_as_identifier_1", ["UNRELATE"], none,
    "$0 = $1"),
  -- Kind.isVarName (and Kind.isIdent)
  ("kw_as_identifier_1", ["USING"], none,
    "$0 = $1"),
  -- Kind.isVarName (and Kind.isIdent)
  ("kw_as_identifier_1", ["WHERE"], none,
    "$0 = $1"),
  -- Kind.isIdent
  ("kw_as_identifier_2", ["BRIDGE"], none,
    "$0 = $1"),
  -- Kind.isIdent
  ("kw_as_identifier_2", ["CARDINALITY"], none,
    "$0 = $1"),
  -- Kind.isIdent
  ("kw_as_identifier_2", ["EMPTY"], none,
    "$0 = $1"),
  -- Kind.isIdent
  ("kw_as_identifier_2", ["FALSE"], none,
    "$0 = $1"),
  -- Kind.isIdent
  ("kw_as_identifier_2", ["NOT"], none,
    "$0 = $1"),
  -- Kind.isIdent
  ("kw_as_identifier_2", ["NOT_EMPTY"], none,
    "$0 = $1"),
  -- Kind.isIdent
  ("kw_as_identifier_2", ["OF"], none,
    "$0 = $1"),
  -- Kind.isIdent
  ("kw_as_identifier_2", ["SEND"], none,
    "$0 = $1"),
  -- Kind.isIdent
  ("kw_as_identifier_2", ["TRANSFORM"], none,
    "$0 = $1"),
  -- Kind.isIdent
  ("kw_as_identifier_2", ["TRUE"], none,
    "$0 = $1"),
  -- Kind.isIdent
  ("kw_as_identifier_3", ["PARAM"], none,
    "$0 = $1"),
  -- Kind.isIdent
  ("kw_as_identifier_3", ["RCVD_EVT"], none,
    "$0 = $1"),
  -- Kind.isIdent
  ("kw_as_identifier_3", ["SELECTED"], none,
    "$0 = $1"),
  -- Kind.isIdent
  ("kw_as_identifier_3", ["SELF"], none,
    "$0 = $1"),
  -- Kind.isIdent
  ("kw_as_identifier_4", ["AND"], none,
    "$0 = $1"),
  -- Kind.isIdent
  ("kw_as_identifier_4", ["ELIF"], none,
    "$0 = $1"),
  -- Kind.isIdent
  ("kw_as_identifier_4", ["ELSE"], none,
    "$0 = $1"),
  -- Kind.isIdent
  ("kw_as_identifier_4", ["IF"], none,
    "$0 = $1"),
  -- Kind.isIdent
  ("kw_as_identifier_4", ["OR"], none,
    "$0 = $1"),
  -- Kind.isIdent
  ("kw_as_identifier_4", ["RETURN"], none,
    "$0 = $1"),
  -- Kind.isIdent
  ("kw_as_identifier_4", ["WHILE"], none,
    "$0 = $1"),
  -- takeVarName / Kind.isVarName
  ("limited_identifier", ["ID"], none,
    "$0 = $1"),
  -- takeVarName / Kind.isVarName
  ("limited_identifier", ["kw_as_identifier_1"], none,
    "$0 = $1"),
  -- the NAMESPACE token (parsePrefix, parseKw)
  ("namespace", ["NAMESPACE"], none,
    "$0 = $1"),
  -- parseNavChain
  ("navigation_chain", ["navigation_step"], none,
    "$0 = NavigationListNode(); $0.children.append($1)"),
  -- parseNavChain
  ("navigation_chain", ["navigation_step", "navigation_chain"], none,
    "$0 = $2; $0.children.insert(0, $1)"),
  -- parseSelRel: parseAccess + isHook
  ("navigation_hook", ["self_access"], none,
    "$0 = $1"),
  -- parseSelRel: parseAccess + isHook
  ("navigation_hook", ["variable_access"], none,
    "$0 = $1"),
  -- parseNavStep
  ("navigation_step", ["ARROW", "identifier", "LSQBR", "identifier", "DOT", "phrase", "RSQBR"], none,
    "$0 = NavigationStepNode(key_letter=$2, rel_id=$4, phrase=$6)"),
  -- parseNavStep
  ("navigation_step", ["ARROW", "identifier", "LSQBR", "identifier", "RSQBR"], none,
    "$0 = NavigationStepNode(key_letter=$2, rel_id=$4, phrase=None)"),
  -- parsePhrase
  ("phrase", ["TICKED_PHRASE"], none,
    "$0 = $1"),
  -- parsePhrase
  ("phrase", ["identifier"], none,
    "$0 = \"'%s'\" % $1"),
  -- takeVarName / Kind.isVarName
  ("rel_id", ["limited_identifier"], none,
    "$0 = $1"),
  -- parseBlock (an empty statement is skipped)
  ("statement", [], none,
    "pass"),
  -- parseStmt
  ("statement", ["ASSIGN", "variable_access", "EQUAL", "expression"], none,
    "$0 = AssignmentNode(variable_access=$2, expression=$4)"),
  -- parseStmt
  ("statement", ["BREAK"], none,
    "$0 = BreakNode()"),
  -- parseKw
  ("statement", ["BRIDGE", "implicit_invocation"], none,
    "$2.__class__ = BridgeInvocationNode; $0 = InvocationStatementNode($2)"),
  -- parseKw
  ("statement", ["BRIDGE", "variable_access", "EQUAL", "implicit_invocation"], none,
    "$4.__class__ = BridgeInvocationNode; $0 = AssignmentNode(variable_access=$2, expression=$4)"),
  -- parseStmt
  ("statement", ["CONTINUE"], none,
    "$0 = ContinueNode()"),
  -- parseStmt
  ("statement", ["CONTROL", "STOP"], none,
    "$0 = ControlNode()"),
  -- parseStmt + parseEvSpec + parseEvTarget
  ("statement", ["CREATE", "EVENT", "INSTANCE", "variable_name", "OF", "event_specification", "TO", "identifier", "ASSIGNER"], none,
    "$0 = CreateClassEventNode(variable_name=$4, event_specification=$6, key_letter=$8)"),
  -- parseStmt + parseEvSpec + parseEvTarget
  ("statement", ["CREATE", "EVENT", "INSTANCE", "variable_name", "OF", "event_specification", "TO", "identifier", "CLASS"], none,
    "$0 = CreateClassEventNode(variable_name=$4, event_specification=$6, key_letter=$8)"),
  -- parseStmt + parseEvSpec + parseEvTarget
  ("statement", ["CREATE", "EVENT", "INSTANCE", "variable_name", "OF", "event_specification", "TO", "identifier", "CREATOR"], none,
    "$0 = CreateCreatorEventNode(variable_name=$4, event_specification=$6, key_letter=$8)"),
  -- parseStmt + parseEvSpec + parseEvTarget
  ("statement", ["CREATE", "EVENT", "INSTANCE", "variable_name", "OF", "event_specification", "TO", "self_access"], none,
    "$0 = CreateInstanceEventNode(variable_name=$4, event_specification=$6, to_variable_access=$8)"),
  -- parseStmt + parseEvSpec + parseEvTarget
  ("statement", ["CREATE", "EVENT", "INSTANCE", "variable_name", "OF", "event_specification", "TO", "variable_access"], none,
    "$0 = CreateInstanceEventNode(variable_name=$4, event_specification=$6, to_variable_access=$8)"),
  -- parseStmt
  ("statement", ["CREATE", "OBJECT", "INSTANCE", "OF", "identifier"], none,
    "$0 = CreateObjectNoVariableNode(key_letter=$5)"),
  -- parseStmt
  ("statement", ["CREATE", "OBJECT", "INSTANCE", "variable_name", "OF", "identifier"], none,
    "$0 = CreateObjectNode(variable_name=$4, key_letter=$6)"),
  -- parseStmt
  ("statement", ["DELETE", "OBJECT", "INSTANCE", "instance_name"], none,
    "$0 = DeleteNode(variable_name=$4)"),
  -- parseStmt
  ("statement", ["FOR", "EACH", "variable_name", "IN", "variable_name", "LOOP", "block", "END_FOR"], none,
    "$0 = ForEachNode(instance_variable_name=$3, set_variable_name=$5, block=$7)"),
  -- parseStmt
  ("statement", ["FOR", "EACH", "variable_name", "IN", "variable_name", "block", "END_FOR"], none,
    "$0 = ForEachNode(instance_variable_name=$3, set_variable_name=$5, block=$6)"),
  -- parseStmt + parseEvSpec + parseEvTarget
  ("statement", ["GENERATE", "event_specification", "TO", "identifier", "ASSIGNER"], none,
    "$0 = GenerateClassEventNode(event_specification=$2, key_letter=$4)"),
  -- parseStmt + parseEvSpec + parseEvTarget
  ("statement", ["GENERATE", "event_specification", "TO", "identifier", "CLASS"], none,
    "$0 = GenerateClassEventNode(event_specification=$2, key_letter=$4)"),
  -- parseStmt + parseEvSpec + parseEvTarget
  ("statement", ["GENERATE", "event_specification", "TO", "identifier", "CREATOR"], none,
    "$0 = GenerateCreatorEventNode(event_specification=$2, key_letter=$4)"),
  -- parseStmt + parseEvSpec + parseEvTarget
  ("statement", ["GENERATE", "event_specification", "TO", "self_access"], none,
    "$0 = GenerateInstanceEventNode(event_specification=$2, variable_access=$4)"),
  -- parseStmt + parseEvSpec + parseEvTarget
  ("statement", ["GENERATE", "event_specification", "TO", "variable_access"], none,
    "$0 = GenerateInstanceEventNode(event_specification=$2, variable_access=$4)"),
  -- parseStmt
  ("statement", ["GENERATE", "variable_access"], none,
    "$0 = GeneratePreexistingNode(variable_access=$2)"),
  -- parseStmt
  ("statement", ["IF", "expression", "THEN", "block", "elif_list", "else_clause", "END_IF"], none,
    "$0 = IfNode(expression=$2, block=$4, elif_list=$5, else_clause=$6)"),
  -- parseStmt
  ("statement", ["IF", "expression", "block", "elif_list", "else_clause", "END_IF"], none,
    "$0 = IfNode(expression=$2, block=$3, elif_list=$4, else_clause=$5)"),
  -- parseRel
  ("statement", ["RELATE", "instance_name", "TO", "instance_name", "ACROSS", "rel_id"], none,
    "$0 = RelateNode(from_variable_name=$2, to_variable_name=$4, rel_id=$6, phrase=None)"),
  -- parseRel
  ("statement", ["RELATE", "instance_name", "TO", "instance_name", "ACROSS", "rel_id", "DOT", "phrase"], none,
    "$0 = RelateNode(from_variable_name=$2, to_variable_name=$4, rel_id=$6, phrase=$8)"),
  -- parseRel
  ("statement", ["RELATE", "instance_name", "TO", "instance_name", "ACROSS", "rel_id", "DOT", "phrase", "USING", "instance_name"], none,
    "$0 = RelateUsingNode(from_variable_name=$2, to_variable_name=$4, rel_id=$6, phrase=$8, using_variable_name=$10)"),
  -- parseRel
  ("statement", ["RELATE", "instance_name", "TO", "instance_name", "ACROSS", "rel_id", "USING", "instance_name"], none,
    "$0 = RelateUsingNode(from_variable_name=$2, to_variable_name=$4, rel_id=$6, phrase=None, using_variable_name=$8)"),
  -- parseStmt
  ("statement", ["RETURN"], none,
    "$0 = ReturnNode(expression=None)"),
  -- parseStmt
  ("statement", ["RETURN", "expression"], none,
    "$0 = ReturnNode(expression=$2)"),
  -- parseSelect / parseSelFrom
  ("statement", ["SELECT", "ANY", "variable_name", "FROM", "INSTANCES", "OF", "identifier"], none,
    "$0 = SelectFromNode(cardinality=$2, variable_name=$3, key_letter=$7)"),
  -- parseSelect / parseSelFrom
  ("statement", ["SELECT", "ANY", "variable_name", "FROM", "INSTANCES", "OF", "identifier", "WHERE", "expression"], none,
    "$0 = SelectFromWhereNode(cardinality=$2, variable_name=$3, key_letter=$7, where_clause=$9)"),
  -- parseSelect / parseSelFrom
  ("statement", ["SELECT", "ANY", "variable_name", "FROM", "identifier"], none,
    "$0 = SelectFromNode(cardinality=$2, variable_name=$3, key_letter=$5)"),
  -- parseSelect / parseSelFrom
  ("statement", ["SELECT", "ANY", "variable_name", "FROM", "identifier", "WHERE", "expression"], none,
    "$0 = SelectFromWhereNode(cardinality=$2, variable_name=$3, key_letter=$5, where_clause=$7)"),
  -- parseSelect / parseSelRel
  ("statement", ["SELECT", "ANY", "variable_name", "RELATED", "BY", "navigation_hook", "navigation_chain"], none,
    "$0 = SelectRelatedNode(cardinality=$2, variable_name=$3, handle=$6, navigation_chain=$7)"),
  -- parseSelect / parseSelRel
  ("statement", ["SELECT", "ANY", "variable_name", "RELATED", "BY", "navigation_hook", "navigation_chain", "WHERE", "expression"], none,
    "$0 = SelectRelatedWhereNode(cardinality=$2, variable_name=$3, handle=$6, navigation_chain=$7, where_clause=$9)"),
  -- parseSelect / parseSelFrom
  ("statement", ["SELECT", "MANY", "variable_name", "FROM", "INSTANCES", "OF", "identifier"], none,
    "$0 = SelectFromNode(cardinality=$2, variable_name=$3, key_letter=$7)"),
  -- parseSelect / parseSelFrom
  ("statement", ["SELECT", "MANY", "variable_name", "FROM", "INSTANCES", "OF", "identifier", "WHERE", "expression"], none,
    "$0 = SelectFromWhereNode(cardinality=$2, variable_name=$3, key_letter=$7, where_clause=$9)"),
  -- parseSelect / parseSelFrom
  ("statement", ["SELECT", "MANY", "variable_name", "FROM", "identifier"], none,
    "$0 = SelectFromNode(cardinality=$2, variable_name=$3, key_letter=$5)"),
  -- parseSelect / parseSelFrom
  ("statement", ["SELECT", "MANY", "variable_name", "FROM", "identifier", "WHERE", "expression"], none,
    "$0 = SelectFromWhereNode(cardinality=$2, variable_name=$3, key_letter=$5, where_clause=$7)"),
  -- parseSelect / parseSelRel
  ("statement", ["SELECT", "MANY", "variable_name", "RELATED", "BY", "navigation_hook", "navigation_chain"], none,
    "$0 = SelectRelatedNode(cardinality=$2, variable_name=$3, handle=$6, navigation_chain=$7)"),
  -- parseSelect / parseSelRel
  ("statement", ["SELECT", "MANY", "variable_name", "RELATED", "BY", "navigation_hook", "navigation_chain", "WHERE", "expression"], none,
    "$0 = SelectRelatedWhereNode(cardinality=$2, variable_name=$3, handle=$6, navigation_chain=$7, where_clause=$9)"),
  -- parseSelect / parseSelRel
  ("statement", ["SELECT", "ONE", "variable_name", "RELATED", "BY", "navigation_hook", "navigation_chain"], none,
    "$0 = SelectRelatedNode(cardinality=$2, variable_name=$3, handle=$6, navigation_chain=$7)"),
  -- parseSelect / parseSelRel
  ("statement", ["SELECT", "ONE", "variable_name", "RELATED", "BY", "navigation_hook", "navigation_chain", "WHERE", "expression"], none,
    "$0 = SelectRelatedWhereNode(cardinality=$2, variable_name=$3, handle=$6, navigation_chain=$7, where_clause=$9)"),
  -- parseKw
  ("statement", ["SEND", "implicit_invocation"], none,
    "$2.__class__ = PortInvocationNode; $0 = InvocationStatementNode($2)"),
  -- parseKw
  ("statement", ["SEND", "namespace", "DOUBLECOLON", "identifier", "LPAREN", "parameter_list", "RPAREN", "TO", "expression"], none,
    "$0 = GeneratePortEventNode(port_name=$2, action_name=$4, parameter_list=$6, expression=$9)"),
  -- parseKw
  ("statement", ["SEND", "variable_access", "EQUAL", "implicit_invocation"], none,
    "$4.__class__ = PortInvocationNode; $0 = AssignmentNode(variable_access=$2, expression=$4)"),
  -- parseKw
  ("statement", ["TRANSFORM", "implicit_invocation"], none,
    "$2.__class__ = ClassInvocationNode; $0 = InvocationStatementNode($2)"),
  -- parseKw
  ("statement", ["TRANSFORM", "instance_invocation"], none,
    "$0 = InvocationStatementNode($2)"),
  -- parseKw
  ("statement", ["TRANSFORM", "variable_access", "EQUAL", "implicit_invocation"], none,
    "$4.__class__ = ClassInvocationNode; $0 = AssignmentNode(variable_access=$2, expression=$4)"),
  -- parseKw
  ("statement", ["TRANSFORM", "variable_access", "EQUAL", "instance_invocation"], none,
    "$0 = AssignmentNode(variable_access=$2, expression=$4)"),
  -- parseRel
  ("statement", ["UNRELATE", "instance_name", "FROM", "instance_name", "ACROSS", "rel_id"], none,
    "$0 = UnrelateNode(from_variable_name=$2, to_variable_name=$4, rel_id=$6, phrase=None)"),
  -- parseRel
  ("statement", ["UNRELATE", "instance_name", "FROM", "instance_name", "ACROSS", "rel_id", "DOT", "phrase"], none,
    "$0 = UnrelateNode(from_variable_name=$2, to_variable_name=$4, rel_id=$6, phrase=$8)"),
  -- parseRel
  ("statement", ["UNRELATE", "instance_name", "FROM", "instance_name", "ACROSS", "rel_id", "DOT", "phrase", "USING", "instance_name"], none,
    "$0 = UnrelateUsingNode(from_variable_name=$2, to_variable_name=$4, rel_id=$6, phrase=$8, using_variable_name=$10)"),
  -- parseRel
  ("statement", ["UNRELATE", "instance_name", "FROM", "instance_name", "ACROSS", "rel_id", "USING", "instance_name"], none,
    "$0 = UnrelateUsingNode(from_variable_name=$2, to_variable_name=$4, rel_id=$6, phrase=None, using_variable_name=$8)"),
  -- parseStmt
  ("statement", ["WHILE", "expression", "LOOP", "block", "END_WHILE"], none,
    "$0 = WhileNode(expression=$2, block=$4)"),
  -- parseStmt
  ("statement", ["WHILE", "expression", "block", "END_WHILE"], none,
    "$0 = WhileNode(expression=$2, block=$3)"),
  -- parseStmt (startsAccessStmt)
  ("statement", ["invocation"], none,
    "$0 = InvocationStatementNode($1)"),
  -- parseStmt (startsAccessStmt)
  ("statement", ["variable_access", "EQUAL", "expression"], none,
    "$0 = AssignmentNode(variable_access=$1, expression=$3)"),
  -- parseBlock
  ("statement_list", ["statement", "SEMICOLON"], none,
    "$0 = StatementListNode(); if $1 is not None: $0.children.insert(0, $1)"),
  -- parseBlock
  ("statement_list", ["statement", "SEMICOLON", "statement_list"], none,
    "$0 = $3; if $1 is not None: $0.children.insert(0, $1)"),
  -- takeVarName / Kind.isVarName
  ("variable_name", ["limited_identifier"], none,
    "$0 = $1") ]

/-! ### re-spelling of keywords (C08)

  `Block.mapKw g` rewrites exactly the fields of a statement tree that hold a token or the lexeme of a
  keyword-kind token: select cardinality, `self` written as an instance name (delete / relate / unrelate /
  using), name tokens (changed only if the name is a keyword, for `KwOnly g`), phrases written as identifiers,
  and, inside expressions, boolean literal values and operators (`Expr.mapKw`). -/

def CardTok.mapKw (g : Kind → String → String) (c : CardTok) : CardTok := ⟨c.c, g c.c.kind c.lex⟩

def InstName.mapKw (g : Kind → String → String) : InstName → InstName
  | .var n => .var (mapTok g n)
  | .self lex => .self (g .SELF lex)

def Phrase.mapKw (g : Kind → String → String) : Phrase → Phrase
  | .ticked lex => .ticked lex
  | .ident n => .ident (mapTok g n)

def NavStep.mapKw (g : Kind → String → String) (s : NavStep) : NavStep :=
  ⟨mapTok g s.kl, mapTok g s.rel, s.phrase.map (Phrase.mapKw g)⟩

def EvSpec.mapKw (g : Kind → String → String) (es : EvSpec) : EvSpec :=
  ⟨mapTok g es.id, es.star, es.meaning.map (Phrase.mapKw g), es.parens, es.data.mapKw g⟩

def EvTarget.mapKw (g : Kind → String → String) : EvTarget → EvTarget
  | .inst e => .inst (e.mapKw g)
  | .cls kl a => .cls (mapTok g kl) a
  | .creator kl => .creator (mapTok g kl)

mutual
def Stmt.mapKw (g : Kind → String → String) : Stmt → Stmt
  | .brk => .brk
  | .cont => .cont
  | .ctrl => .ctrl
  | .ret e => .ret (e.map (Expr.mapKw g))
  | .assign kw va e => .assign kw (va.mapKw g) (e.mapKw g)
  | .invoke inv => .invoke (inv.mapKw g)
  | .kwCall k va ns n ps => .kwCall k (va.map (Expr.mapKw g)) ns (mapTok g n) (ps.mapKw g)
  | .trCall va h n ps => .trCall (va.map (Expr.mapKw g)) (h.mapKw g) (mapTok g n) (ps.mapKw g)
  | .sendEvent p n ps to => .sendEvent p (mapTok g n) (ps.mapKw g) (to.mapKw g)
  | .gen es tg => .gen (es.mapKw g) (tg.mapKw g)
  | .genPre va => .genPre (va.mapKw g)
  | .crtEv v es tg => .crtEv (mapTok g v) (es.mapKw g) (tg.mapKw g)
  | .createObj v kl => .createObj (mapTok g v) (mapTok g kl)
  | .createObjNoVar kl => .createObjNoVar (mapTok g kl)
  | .delete i => .delete (i.mapKw g)
  | .forEach v s lp b => .forEach (mapTok g v) (mapTok g s) lp (b.mapKw g)
  | .while_ c lp b => .while_ (c.mapKw g) lp (b.mapKw g)
  | .if_ c th b el e => .if_ (c.mapKw g) th (b.mapKw g) (el.mapKw g) (e.mapKw g)
  | .rel un a b r ph u =>
    .rel un (a.mapKw g) (b.mapKw g) (mapTok g r) (ph.map (Phrase.mapKw g)) (u.map (InstName.mapKw g))
  | .selFrom card v io kl w => .selFrom (card.mapKw g) (mapTok g v) io (mapTok g kl) (w.map (Expr.mapKw g))
  | .selRel card v hook chain w =>
    .selRel (card.mapKw g) (mapTok g v) (hook.mapKw g) (chain.map (NavStep.mapKw g)) (w.map (Expr.mapKw g))
def Block.mapKw (g : Kind → String → String) : Block → Block
  | .nil => .nil
  | .cons s b => .cons (s.mapKw g) (b.mapKw g)
def Elifs.mapKw (g : Kind → String → String) : Elifs → Elifs
  | .nil => .nil
  | .cons c th b more => .cons (c.mapKw g) th (b.mapKw g) (more.mapKw g)
def Else.mapKw (g : Kind → String → String) : Else → Else
  | .none => .none
  | .some b => .some (b.mapKw g)
end

/-- the tree with the spelling of keywords normalised: lower-cases exactly the fields that keep the lexeme of a
    keyword-kind token verbatim (select cardinality, operator of unary / binary nodes, boolean literal value,
    `self` as an instance name, and a NAME or identifier-phrase that is a keyword token); names that are ID
    tokens, literals, ticked phrases, namespaces are untouched -/
def normCase (b : Block) : Block := b.mapKw lowerKw

def Expr.normCase (e : Expr) : Expr := e.mapKw lowerKw

/-- the tree with the spelling of keywords forgotten -/
def eraseCase (b : Block) : Block := b.mapKw eraseKw

def Expr.eraseCase (e : Expr) : Expr := e.mapKw eraseKw

end Pyx.Oal
