import PyxModel.Oal.LexGen

/-!
  Computable classification used by the layout theorems (Proofs/OalLayout.lean, Proofs/OalTight.lean) and by the
  driver: which rules of the generated table can start with a character, what may directly follow a lexeme,
  lexical units and the pairwise `tightOk` test ("these two lexemes may be written without a separator").
  No Mathlib, no `import Lean`: linked into the driver.
-/
namespace Pyx.OalLex

/-- coarse class of a character, fine enough to tell which rules can start with it -/
inductive Cls where
  | E | L | D | U
  | other (c : Char)
  deriving DecidableEq

def charClass (c : Char) : Cls :=
  if lowerAscii c == 'e' then .E
  else if isIdStart c then .L
  else if 48 ≤ c.toNat && c.toNat ≤ 57 then .D
  else if isDigit c then .U
  else .other c

def idStart : RegexId → Cls → Bool
  | .comment, k => k == .other '/'
  | .slString, k => k == .other '/'
  | .ticked, k => k == .other '\''
  | .string, k => k == .other '"'
  | .endFor, k => k == .E
  | .endIf, k => k == .E
  | .endWhile, k => k == .E
  | .namespace_, k => k == .E || k == .L || k == .D
  | .id, k => k == .E || k == .L
  | .fraction, k => k == .D || k == .U || k == .other '.'
  | .number, k => k == .D || k == .U
  | .newline, k => k == .other '\n'
  | .unknown, _ => false

/-- necessary condition on the class of the first character for the rule to match -/
def startOk (r : Rule) (k : Cls) : Bool :=
  match r.lit with
  | some (h :: _) => charClass h == k
  | some [] => false
  | none => idStart (regexId r.regex) k

instance : Inhabited Rule := ⟨⟨[], [], none, false, false, false, false, false⟩⟩

/-- the `i`-th rule of the generated table (PLY matching order) -/
def R (i : Nat) : Rule := Gen.OalLex.rules.getD i default

/-- indexes of the fixed-string token rules of the generated table, all but DIV (`/` can start a comment) -/
def litIndexes : List Nat := [11, 12, 13, 14, 15, 16, 17, 18, 19, 20, 21, 22, 23, 24, 25, 26, 27, 28, 29, 30, 31, 32,
  34, 35, 36]

/-- the token kind `t_ID` gives a word: the upper-cased word when that is a keyword, `ID` otherwise -/
def wordKind (s : List Char) : List Char :=
  if Gen.OalLex.keywords.contains (s.map upperAscii) then s.map upperAscii else idName

/-! ## what may directly follow a lexeme -/

/-- no character class of the modelled regex accepts `c` (and its look-ahead does not mention `c`): appending a
    tail that starts with `c` cannot change what the rule does on the text before it -/
def rejectsB : RegexId → Char → Bool
  | .namespace_, c => !isWord c && !(c == ':')
  | .id, c => !isWord c
  | .number, c => !isDigit c
  | .fraction, c => !isDigit c && !(c == '.') && !(lowerAscii c == 'e') && !(c == '-') && !(c == '+') &&
      !(lowerAscii c == 'f') && !(lowerAscii c == 'l')
  | _, _ => false

/-- rule `r` behaves on `lx ++ c :: rest` as on the isolated lexeme `lx`: it cannot start with the lexeme's first
    character; or it is a literal that does not continue with `c` after the lexeme's length; or a regex that `c` cannot
    extend (for the lexeme `.`: the FRACTION regex needs a digit right after the dot) -/
def stableL (r : Rule) (lx : List Char) (c : Char) : Bool :=
  !startOk r (charClass (lx.headD ' ')) || (match r.lit with
    | some l => (l.drop lx.length).head? != some c
    | none => rejectsB (regexId r.regex) c ||
        (regexId r.regex == .fraction && lx == ['.'] && !isDigit c))

/-- follow condition of a lexeme, by lexeme class -/
inductive Fol where
  | word | number | fraction | any | div
  | lit (lx : List Char)

/-- the tail starts with `::` -/
def dblColon (t : List Char) : Bool := hasPrefix [':', ':'] t

/-- may the text `t` directly follow a lexeme of this class?  (`[]` = end of the text) -/
def Fol.ok : Fol → List Char → Bool
  | _, [] => true
  | .word, c :: rest => !isWord c && !dblColon (c :: rest)
  | .number, c :: rest => !isWord c && !isDigit c && !(c == '.') && !dblColon (c :: rest)
  | .fraction, c :: rest => rejectsB .fraction c && !isWord c && !dblColon (c :: rest)
  | .any, _ => true
  | .div, c :: _ => !(c == '*') && !(c == '/')
  | .lit lx, c :: _ => Gen.OalLex.rules.all fun r => stableL r lx c

/-- a lexical unit: one lexeme of a token class, or the fused pair `NS::` -/
inductive LexUnit where
  | word (s : List Char)
  | number (s : List Char)
  | fraction (s : List Char)
  | string (s : List Char)
  | ticked (s : List Char)
  | endFor (s : List Char)
  | endIf (s : List Char)
  | endWhile (s : List Char)
  /-- the fixed-string token of rule `i` (`i ∈ litIndexes`) -/
  | lit (i : Nat)
  | div
  | ns (n : List Char)

def LexUnit.text : LexUnit → List Char
  | .word s | .number s | .fraction s | .string s | .ticked s | .endFor s | .endIf s | .endWhile s => s
  | .lit i => (R i).lit.getD []
  | .div => ['/']
  | .ns n => n ++ [':', ':']

/-- the tokens (kind, lexeme) the unit stands for -/
def LexUnit.toks : LexUnit → List (List Char × List Char)
  | .word s => [(wordKind s, s)]
  | .number s => [((R 10).name, s)]
  | .fraction s => [((R 9).name, s)]
  | .string s => [((R 3).name, s)]
  | .ticked s => [((R 2).name, s)]
  | .endFor s => [((R 4).name, s)]
  | .endIf s => [((R 5).name, s)]
  | .endWhile s => [((R 6).name, s)]
  | .lit i => [((R i).name, (R i).lit.getD [])]
  | .div => [((R 33).name, ['/'])]
  | .ns n => [((R 7).name, n), ((R 11).name, [':', ':'])]

def LexUnit.fol : LexUnit → Fol
  | .word _ => .word
  | .number _ => .number
  | .fraction _ => .fraction
  | .string _ | .ticked _ | .endFor _ | .endIf _ | .endWhile _ => .any
  | .lit i => .lit ((R i).lit.getD [])
  | .div => .div
  | .ns _ => .lit [':', ':']

/-- `u` may be followed by `v` without any separator: the pair cannot merge or be split differently
    (sufficient, not necessary: e.g. a FRACTION followed by `+` is refused although it lexes fine) -/
def tightOk (u v : LexUnit) : Bool := u.fol.ok v.text

end Pyx.OalLex
