import PyxModel.Oal.Lex
import Gen.OalLex

/-! the OAL lexer model instantiated with the tables generated from `bridgepoint/oal.py` -/
namespace Pyx.OalLex

/-- token stream of `text` under the rule table, keyword table and `t_ignore` that the source has now -/
def lex (text : List Char) : List Tok := lexWith Gen.OalLex.cfg text

end Pyx.OalLex
