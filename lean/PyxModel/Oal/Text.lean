import PyxModel.Oal.Stmt
import PyxModel.Oal.LexClass
import Gen.OalPrec

/-!
  TEXT-level parser model (C07): the character-level lexer model (`Pyx.OalLex.lex`, PyxModel/Oal/Lex*.lean,
  tables generated from oal.py) composed with the token-level parser model (`Pyx.Oal.parseStmts`):

      parseText text = parseStmts table ((lex text).map ofLexTok)

  `ofLexTok` converts a lexer token (kind = PLY token-type name as characters) into a parser token (kind : Kind) by
  the name table `Kind.name`; Proofs/OalText.lean proves that it IS builder-A2's `toParserTok` (Proofs/OalBridge.lean),
  so `parseText` is the function `text_roundtrip` speaks about.  The driver runs `parseText` on the texts the harness
  hands to the real `oal.parse`.

  Also here, computable (the driver evaluates them to report whether a generated text lies in the proved domain):
  Boolean well-formedness checks of lexical units (`wellB`, sound for the `Well…` predicates: Proofs/OalText.lean),
  `unitsOf` (printed tokens → lexical units), `layoutB` (a string is layout: blanks, tabs, CR, LF, block and line
  comments) and `pairOkB` (the hypothesis `PairOk` of `layout_irrelevant_tight`, decided).
  No Mathlib, no `import Lean`: linked into the driver.
-/
namespace Pyx.Oal

/-- the PLY token-type name of a kind -/
def Kind.name : Kind → String
  | .ASSIGN => "ASSIGN"
  | .ASSIGNER => "ASSIGNER"
  | .BREAK => "BREAK"
  | .BRIDGE => "BRIDGE"
  | .SEND => "SEND"
  | .CONTROL => "CONTROL"
  | .STOP => "STOP"
  | .CONTINUE => "CONTINUE"
  | .CREATE => "CREATE"
  | .EVENT => "EVENT"
  | .INSTANCE => "INSTANCE"
  | .OF => "OF"
  | .OBJECT => "OBJECT"
  | .DELETE => "DELETE"
  | .FOR => "FOR"
  | .EACH => "EACH"
  | .IN => "IN"
  | .GENERATE => "GENERATE"
  | .IF => "IF"
  | .ELIF => "ELIF"
  | .ELSE => "ELSE"
  | .RELATE => "RELATE"
  | .TO => "TO"
  | .ACROSS => "ACROSS"
  | .USING => "USING"
  | .RETURN => "RETURN"
  | .SELECT => "SELECT"
  | .ONE => "ONE"
  | .ANY => "ANY"
  | .MANY => "MANY"
  | .TRANSFORM => "TRANSFORM"
  | .UNRELATE => "UNRELATE"
  | .FROM => "FROM"
  | .WHILE => "WHILE"
  | .CLASS => "CLASS"
  | .CREATOR => "CREATOR"
  | .RELATED => "RELATED"
  | .BY => "BY"
  | .INSTANCES => "INSTANCES"
  | .WHERE => "WHERE"
  | .CARDINALITY => "CARDINALITY"
  | .EMPTY => "EMPTY"
  | .FALSE => "FALSE"
  | .NOT => "NOT"
  | .NOT_EMPTY => "NOT_EMPTY"
  | .TRUE => "TRUE"
  | .AND => "AND"
  | .OR => "OR"
  | .PARAM => "PARAM"
  | .RCVD_EVT => "RCVD_EVT"
  | .SELF => "SELF"
  | .SELECTED => "SELECTED"
  | .LOOP => "LOOP"
  | .THEN => "THEN"
  | .SEMICOLON => "SEMICOLON"
  | .EQUAL => "EQUAL"
  | .DOT => "DOT"
  | .DOUBLECOLON => "DOUBLECOLON"
  | .LPAREN => "LPAREN"
  | .RPAREN => "RPAREN"
  | .TIMES => "TIMES"
  | .COLON => "COLON"
  | .COMMA => "COMMA"
  | .ARROW => "ARROW"
  | .LSQBR => "LSQBR"
  | .RSQBR => "RSQBR"
  | .ID => "ID"
  | .NAMESPACE => "NAMESPACE"
  | .END_FOR => "END_FOR"
  | .END_IF => "END_IF"
  | .END_WHILE => "END_WHILE"
  | .TICKED_PHRASE => "TICKED_PHRASE"
  | .QMARK => "QMARK"
  | .FRACTION => "FRACTION"
  | .NUMBER => "NUMBER"
  | .STRING => "STRING"
  | .DOUBLEEQUAL => "DOUBLEEQUAL"
  | .NOTEQUAL => "NOTEQUAL"
  | .LESSTHAN => "LESSTHAN"
  | .LE => "LE"
  | .GT => "GT"
  | .GE => "GE"
  | .PLUS => "PLUS"
  | .MINUS => "MINUS"
  | .PIPE => "PIPE"
  | .DIV => "DIV"
  | .MOD => "MOD"
  | .AMP => "AMP"
  | .CARET => "CARET"

end Pyx.Oal

namespace Pyx.OalText
open Pyx.OalLex
open Pyx.Oal (Kind Block)

abbrev PTok := Pyx.Oal.Tok

/-- the name table (a constant: computed once) -/
def kindNameTable : List (Kind × List Char) := Kind.all.map (fun kd => (kd, kd.name.toList))

/-- the kind with the given PLY name -/
def kindOfLexName (k : List Char) : Option Kind := (kindNameTable.find? (fun p => p.2 == k)).map (·.1)

/-- the kinds of the fixed-string rules (a constant) -/
def litKinds : List (Nat × Option Kind) := litIndexes.map (fun i => (i, kindOfLexName (R i).name))

/-- a (kind, lexeme) pair of the lexer as a parser token; a token type without a `Kind` (there is none:
    `lexer_kinds_covered`, Proofs/OalBridge.lean) would become an ID -/
def conv (p : List Char × List Char) : PTok := ⟨(kindOfLexName p.1).getD .ID, String.ofList p.2⟩

/-- a lexer token as the parser sees it -/
def ofLexTok (t : Tok) : PTok := conv (t.kind, t.lexeme)

/-- **the composed model**: lex the text, convert the tokens, parse the statements (with the generated tables) -/
def parseText (text : List Char) : Option Block :=
  Pyx.Oal.parseStmts Gen.OalPrec.table ((lex text).map ofLexTok)

/-- the parser tokens a unit stands for -/
def unitToks (u : LexUnit) : List PTok := u.toks.map conv

/-! ## Boolean well-formedness checks (soundness: Proofs/OalText.lean) -/

def wellWordB (s : List Char) : Bool :=
  match s with
  | x :: s' => isIdStart x && s'.all isWord && !(s.map lowerAscii == ['e', 'n', 'd'])
  | [] => false


def wellNumberB (s : List Char) : Bool := !s.isEmpty && s.all isDigit


def wellFractionB (s : List Char) : Bool := !s.isEmpty && decide (patFraction.run s = some s.length)


/-- `q body q` with every character of the body accepted by `f` -/
def quotedB (q : Char) (f : Char → Bool) (s : List Char) : Bool :=
  match s with
  | x :: rest =>
    x == q &&
      (match rest.reverse with
       | y :: bodyRev => y == q && bodyRev.all f
       | [] => false)
  | [] => false


def wellStringB (s : List Char) : Bool := quotedB '"' (fun y => !(y == '"') && !(y == '\n')) s
def wellTickedB (s : List Char) : Bool := quotedB '\'' (fun y => !(y == '\'')) s


def wellEndB (w : List Char) (s : List Char) : Bool :=
  match s with
  | a :: b :: c :: y :: rest =>
    (lowerAscii a == 'e') && (lowerAscii b == 'n') && (lowerAscii c == 'd') && isSpace y &&
      ((rest.dropWhile isSpace).map lowerAscii == w)
  | _ => false


def wellNsB (n : List Char) : Bool := !n.isEmpty && n.all isWord


/-- the unit's lexeme is one its rule reads (Boolean) -/
def wellB : LexUnit → Bool
  | .word s => wellWordB s
  | .number s => wellNumberB s
  | .fraction s => wellFractionB s
  | .string s => wellStringB s
  | .ticked s => wellTickedB s
  | .endFor s => wellEndB ['f', 'o', 'r'] s
  | .endIf s => wellEndB ['i', 'f'] s
  | .endWhile s => wellEndB ['w', 'h', 'i', 'l', 'e'] s
  | .lit i => litIndexes.contains i
  | .div => true
  | .ns n => wellNsB n


/-- the unit a single parser token would be written as (NAMESPACE is handled with its `::`) -/
def candidate (tok : PTok) : Option LexUnit :=
  match tok.kind with
  | .NUMBER => some (.number tok.lex.toList)
  | .FRACTION => some (.fraction tok.lex.toList)
  | .STRING => some (.string tok.lex.toList)
  | .TICKED_PHRASE => some (.ticked tok.lex.toList)
  | .END_FOR => some (.endFor tok.lex.toList)
  | .END_IF => some (.endIf tok.lex.toList)
  | .END_WHILE => some (.endWhile tok.lex.toList)
  | .DIV => some .div
  | .NAMESPACE => none
  | k =>
    match litKinds.find? (fun p => p.2 == some k) with
    | some p => some (.lit p.1)
    | none => some (.word tok.lex.toList)

/-- the units of a token list: every unit is checked to spell exactly its token(s) and to be well-formed -/
def unitsOf : List PTok → Option (List LexUnit)
  | [] => some []
  | [a] =>
    match candidate a with
    | some u => if unitToks u = [a] ∧ wellB u = true then some [u] else none
    | none => none
  | a :: d :: rest =>
    if a.kind = .NAMESPACE then
      if unitToks (.ns a.lex.toList) = [a, d] ∧ wellB (.ns a.lex.toList) = true then
        (unitsOf rest).map (LexUnit.ns a.lex.toList :: ·)
      else none
    else
      match candidate a with
      | some u => if unitToks u = [a] ∧ wellB u = true then (unitsOf (d :: rest)).map (u :: ·) else none
      | none => none


/-- units and the separators that follow them -/
def withSeps (us : List LexUnit) (seps : List (List Char)) : List (LexUnit × List Char) := us.zip seps


/-- every lexeme of the printed tree is one the lexer returns as exactly that token (Boolean form of `LexemesOk`) -/
def lexemesOkB (b : Block) : Bool := (unitsOf (Pyx.Oal.printStmts Gen.OalPrec.table b)).isSome

/-! ## layout strings and the pairwise layout condition, decided -/

/-- the string is layout: blanks, tabs, CR, LF, `/* … */` (up to the first `*/`), `// … \n` (fuel: its length) -/
def layoutB : Nat → List Char → Bool
  | _, [] => true
  | 0, _ :: _ => false
  | f + 1, c :: rest =>
    if c == ' ' || c == '\t' || c == '\r' || c == '\n' then layoutB f rest
    else if c == '/' then
      match rest with
      | d :: r =>
        if d == '*' then
          match commentBody r false with
          | some n => layoutB f (r.drop n)
          | none => false
        else if d == '/' then
          match r.dropWhile (fun y => !(y == '\n')) with
          | _ :: r' => layoutB f r'
          | [] => false
        else false
      | [] => false
    else false

def isLayout (s : List Char) : Bool := layoutB s.length s

def startsWithSlash : List Char → Bool
  | c :: _ => c == '/'
  | [] => false

/-- `PairOk` (Proofs/OalTight.lean), decided: units well-formed, separators layout, an empty separator only where
    `tightOk` allows, a `/` token not directly followed by a comment -/
def pairOkB : List (LexUnit × List Char) → Bool
  | [] => true
  | [(u, sep)] => wellB u && isLayout sep && (!(u.text == ['/']) || !startsWithSlash sep)
  | (u, sep) :: (v, sepv) :: rest =>
    wellB u && isLayout sep && (!sep.isEmpty || tightOk u v) && (!(u.text == ['/']) || !startsWithSlash sep) &&
      pairOkB ((v, sepv) :: rest)

/-- the separators after the units, from the gaps after the TOKENS (`NS` and `::` are one unit: the gap between them
    must be empty) -/
def unitSeps : List LexUnit → List (List Char) → Option (List (List Char))
  | [], [] => some []
  | [], _ :: _ => none
  | .ns _ :: us, g1 :: g2 :: gaps => if g1.isEmpty then (unitSeps us gaps).map (g2 :: ·) else none
  | .ns _ :: _, _ => none
  | _ :: us, g :: gaps => (unitSeps us gaps).map (g :: ·)
  | _ :: _, [] => none

/-- is the text `sep0 ++ t1 ++ g1 ++ t2 ++ g2 …` (tokens `ts`, gaps after them `gaps`) in the domain of
    `text_roundtrip` / `lex_units`?  -> (lexemes are lexable, layout is accepted) -/
def inDomain (ts : List PTok) (sep0 : List Char) (gaps : List (List Char)) : Bool × Bool :=
  match unitsOf ts with
  | none => (false, false)
  | some us =>
    match unitSeps us gaps with
    | none => (true, false)
    | some seps => (true, isLayout sep0 && pairOkB (withSeps us seps))

end Pyx.OalText
