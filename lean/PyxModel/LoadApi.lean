import PyxModel.Load

/-
  The API route of property C03: rows created through `MetaModel.new` with referential values
  (`MetaClass.new` and its batch relate, `relate`, `_find_link`, `Link.connect` with the
  cardinality check, `Link.disconnect`), and `MetaModel.clone` (attribute reads through the
  referential properties `Association.formalize` installs).

  Modelled from the code as it is now, including: `new` calls `relate(other_inst, inst,
  link.rel_id, link.phrase)` — the link originates at the NEW instance's class but the
  instances are passed the other way round, so `_find_link` looks for an association whose
  *opposite* end carries `link.phrase`; the null test on the referential values; `if not
  kwargs: continue` (an association with an empty key list is never related by `new`);
  the rollback of the source link when the target link refuses the pair.

  Attribute reads (`getattr`) are modelled with the referential properties `formalize` installs:
  a referential attribute is read from the first partner under the association formalised
  last that links the instance, recursively (`readAttr`, fuel-indexed; running out of fuel —
  more steps than there are (instance, attribute) pairs — is Python's RecursionError on a
  cyclic chain).
-/

namespace Pyx.Load

inductive Outcome where
  | ok
  | relateError      -- RelateException
  | unknownLink      -- UnknownLinkException
  | recursionError   -- RecursionError: an attribute read chased referential properties round a cycle
  | unmodelled
  deriving DecidableEq, Repr, Inhabited

/-- `_find_link(inst1, inst2, rel_id, phrase)` on the kinds of the two instances: index of the
    association and whether the pair is returned swapped (`return inst2, inst1, ass`) -/
def findLinkFrom (k1 k2 rel phrase : String) : Nat → List AssocStmt → Option (Nat × Bool)
  | _, [] => none
  | n, a :: rest =>
    if a.rel ≠ rel then findLinkFrom k1 k2 rel phrase (n + 1) rest
    else if a.tgtKind = k1 ∧ a.srcKind = k2 ∧ a.tgtPhrase = phrase then some (n, false)
    else if a.srcKind = k1 ∧ a.tgtKind = k2 ∧ a.srcPhrase = phrase then some (n, true)
    else findLinkFrom k1 k2 rel phrase (n + 1) rest

def findLink (as : List AssocStmt) (k1 k2 rel phrase : String) : Option (Nat × Bool) :=
  findLinkFrom k1 k2 rel phrase 0 as

/-- `Link.connect(x, y)` with the cardinality check; `none` = returned `False` -/
def connectChecked (m : Nat → List Nat) (many : Bool) (x y : Nat) : Option (Nat → List Nat) :=
  if y ∈ m x then some m
  else if (m x) ≠ [] ∧ many = false then none
  else some (fun z => if z = x then m x ++ [y] else m z)

/-- `Link.disconnect(x, y)` -/
def disconnect (m : Nat → List Nat) (x y : Nat) : Nat → List Nat :=
  fun z => if z = x then (m x).filter (· ≠ y) else m z

/-- the body of `relate` once `_find_link` has answered: `t` is the instance of the referred
    (target) class, `s` the instance of the referring (source) class -/
def relateAt (a : AssocStmt) (L : Links) (t s : Nat) : Links × Bool :=
  match connectChecked L.src a.srcMany t s with
  | none => (L, false)
  | some src' =>
    match connectChecked L.tgt a.tgtMany s t with
    | none => (⟨disconnect src' t s, L.tgt⟩, false)
    | some tgt' => (⟨src', tgt'⟩, true)

def updateAt {α : Type} (l : List α) (n : Nat) (f : α → α) : List α :=
  match l, n with
  | [], _ => []
  | x :: xs, 0 => f x :: xs
  | x :: xs, n + 1 => x :: updateAt xs n f

/-- `relate(from_instance, to_instance, rel_id, phrase)`; instances are (kind, position) -/
def relate (m : Model) (k1 : String) (i1 : Nat) (k2 : String) (i2 : Nat) (rel phrase : String) : Model × Outcome :=
  match findLink (m.assocs.map (·.1)) k1 k2 rel phrase with
  | none => (m, .unknownLink)
  | some (n, swapped) =>
    match m.assocs[n]? with
    | none => (m, .unknownLink)
    | some (a, L) =>
      let r := if swapped then relateAt a L i2 i1 else relateAt a L i1 i2
      ({ m with assocs := updateAt m.assocs n (fun p => (p.1, r.1)) }, if r.2 then .ok else .relateError)

/-- `dict(zip(target_keys, source_keys))`: the key map of the target link -/
def revKeyMap (a : AssocStmt) : List (String × String) := dictOfPairs (a.tgtKeys.zip a.srcKeys)

/-- the chain of referential properties of attribute `x` of instance `(kind, i)`: the association formalised last
    is asked first (the list is in REVERSE definition order); an association under which the instance has no partner
    defers to the earlier ones; without any partner the read gives `None`; `rec` reads the partner's attribute -/
def readChain (rec : String → Nat → String → Option Val) (kind : String) (i : Nat) (x : String) :
    List (AssocStmt × Links) → Option Val
  | [] => some .none
  | (a, L) :: earlier =>
    match (if a.srcKind = kind then (a.srcKeys.zip a.tgtKeys).lookup x else none) with
    | none => readChain rec kind i x earlier
    | some tkey =>
      match (L.tgt i).head? with
      | none => readChain rec kind i x earlier
      | some j => rec a.tgtKind j tkey

/-- `getattr(instance, x)`: a non-referential attribute is read from the instance's `__dict__`, a referential one
    through its chain of properties; `none` = the recursion did not end (RecursionError) -/
def readAttr (m : Model) : Nat → String → Nat → String → Option Val
  | 0 => fun _ _ _ => none
  | fuel + 1 => fun kind i x =>
    if (referential (m.assocs.map (·.1)) kind).contains x then
      readChain (readAttr m fuel) kind i x m.assocs.reverse
    else some (((rowsOf m.classes kind)[i]?.getD []).get x)

/-- more steps than there are (instance, attribute) pairs: a read that needs more goes round a cycle -/
def fuelOf (m : Model) : Nat :=
  (m.classes.map (fun c => (c.rows.length + 1) * (c.attrs.length + 1))).sum + 1

/-- `WhereEqual.__call__` on one instance: `for name, value in items: if getattr(inst, name) != value: break` -/
def rowMatches (m : Model) (fuel : Nat) (kind : String) (j : Nat) : List (String × Val) → Option Bool
  | [] => some true
  | (n, v) :: rest =>
    match readAttr m fuel kind j n with
    | none => none
    | some r => if r == v then rowMatches m fuel kind j rest else some false

/-- `for other_inst in to_metaclass.query(kwargs): relate(other_inst, inst, rel, phrase)` — the query is a
    generator: the instances of the other class are tested one by one, in storage order, and every hit is related
    before the next instance is tested -/
def relateQuery (fuel : Nat) (kwargs : List (String × Val)) (okind kind : String) (i : Nat) (rel phrase : String) :
    List Nat → Model → Model × Outcome
  | [], m => (m, .ok)
  | j :: js, m =>
    match rowMatches m fuel okind j kwargs with
    | none => (m, .recursionError)
    | some false => relateQuery fuel kwargs okind kind i rel phrase js m
    | some true =>
      match relate m okind j kind i rel phrase with
      | (m', .ok) => relateQuery fuel kwargs okind kind i rel phrase js m'
      | r => r

/-- `for other_inst in hits: relate(other_inst, inst, link.rel_id, link.phrase)` (used by the proofs: the loop of
    `relateQuery` once the hits are known) -/
def relateHits (okind : String) (kind : String) (i : Nat) (rel phrase : String) : List Nat → Model → Model × Outcome
  | [], m => (m, .ok)
  | j :: js, m =>
    match relate m okind j kind i rel phrase with
    | (m', .ok) => relateHits okind kind i rel phrase js m'
    | r => r

/-- one entry of `self.links.values()` in the batch relate of `MetaClass.new`:
    the map is key attribute of the *other* class ↦ attribute of the new instance's class -/
def relateLink (refs : List (String × Val)) (km : List (String × String))
    (okind kind : String) (i : Nat) (rel phrase : String) (m : Model) : Model × Outcome :=
  if !(km.all (fun p => (refs.map (·.1)).contains p.2)) then (m, .ok)       -- some key attribute was not given
  else if km.any (fun p => isNull ((refs.lookup p.2).getD .none)) then (m, .ok)   -- a null value refers to nothing
  else if km.isEmpty then (m, .ok)                                            -- `if not kwargs: continue`
  else
    let kwargs := km.map (fun p => (p.1, (refs.lookup p.2).getD .none))
    relateQuery (fuelOf m) kwargs okind kind i rel phrase (List.range (rowsOf m.classes okind).length) m

/-- the links of a class in `metaclass.links` order: per association, the source link (if the class is
    the referred one) before the target link (if it is the referring one) -/
def linksOfKind (all : List AssocStmt) (kind : String) : List (List (String × String) × String × String × String) :=
  all.flatMap (fun a =>
    (if a.tgtKind = kind then [(keyMap a, a.srcKind, a.rel, a.tgtPhrase)] else [])
    ++ (if a.srcKind = kind then [(revKeyMap a, a.tgtKind, a.rel, a.srcPhrase)] else []))

def relateLinks (refs : List (String × Val)) (kind : String) (i : Nat) :
    List (List (String × String) × String × String × String) → Model → Model × Outcome
  | [], m => (m, .ok)
  | (km, okind, rel, phrase) :: rest, m =>
    match relateLink refs km okind kind i rel phrase m with
    | (m', .ok) => relateLinks refs kind i rest m'
    | r => r

/-- `MetaClass.new(*args)` with one positional argument per attribute -/
def apiNew (m : Model) (kind : String) (args : List Val) : Model × Outcome :=
  match findCls m.classes kind with
  | none => (m, .unmodelled)
  | some c =>
    let all := m.assocs.map (·.1)
    let refNames := referential all kind
    let given : Row := (c.attrs.zip args).map (fun p => (p.1.1, p.2))
    let stored := stripRow refNames given
    let refs := given.filter (fun p => refNames.contains p.1)
    let i := c.rows.length
    let m1 : Model := { m with classes := addRow m.classes kind stored }
    if refs.isEmpty then (m1, .ok)
    else relateLinks refs kind i (linksOfKind all kind) m1

/-- the empty metamodel with the schema of the statements (define_class, define_unique_identifier,
    define_association + formalize, in the loader's phase order) -/
def schemaModel (ss : List Stmt) : Model :=
  ⟨popUniques ss (popClasses ss), (popAssocs ss).map (fun a => (a, Links.empty))⟩

def apiRun : List (String × List Val) → Model → Model × List Outcome
  | [], m => (m, [])
  | (k, vs) :: rest, m =>
    let r := apiNew m k vs
    let r' := apiRun rest r.1
    (r'.1, r.2 :: r'.2)

/-- rows created through `new` in the given order -/
def apiBuild (ss : List Stmt) (order : List (String × List Val)) : Model × List Outcome :=
  apiRun order (schemaModel ss)

/-! ### clone -/

/-- `[getattr(instance, name) for name, _ in attributes]` on a loaded instance -/
def readAll (m : Model) (c : Cls) (i : Nat) : Option (List Val) :=
  c.attrs.mapM (fun p => readAttr m (fuelOf m) c.kind i p.1)

def cloneRun (src : Model) : List (String × Nat) → Model → Model × List Outcome
  | [], m => (m, [])
  | (k, i) :: rest, m =>
    let r := match findCls src.classes k with
      | none => (m, Outcome.unmodelled)
      | some c =>
        match readAll src c i with
        | none => (m, Outcome.recursionError)
        | some args => apiNew m k args
    let r' := cloneRun src rest r.1
    (r'.1, r.2 :: r'.2)

/-- load `ss`, then clone the instances `(kind, position)` in the given order into an empty metamodel with
    the same schema -/
def cloneBuild (ss : List Stmt) (order : List (String × Nat)) : Model × List Outcome :=
  cloneRun (buildCore ss) order (schemaModel ss)

end Pyx.Load
