/-
  S-expressions: the wire format of the line protocol between the Python harness
  and the Lean driver.  One command per line, one answer per line.

    atom  ::= symbol | integer | "string"
    sexp  ::= atom | ( sexp* )

  Strings: printable ASCII except `"` and `\` stands for itself; everything else is
  written `\u{HEX}`.  No Mathlib, no `Lean` import: this file is linked into the driver.
-/

namespace Pyx

inductive Sexp where
  | sym  : String → Sexp
  | int  : Int → Sexp
  | str  : String → Sexp
  | list : List Sexp → Sexp
  deriving Repr, Inhabited, BEq

namespace Sexp

def hexDigit (n : Nat) : Char :=
  if n < 10 then Char.ofNat (48 + n) else Char.ofNat (87 + n)

partial def toHex (n : Nat) : String :=
  if n < 16 then String.singleton (hexDigit n)
  else toHex (n / 16) ++ String.singleton (hexDigit (n % 16))

def escapeStr (s : String) : String :=
  s.foldl (fun acc c =>
    if c.toNat ≥ 32 ∧ c.toNat < 127 ∧ c ≠ '"' ∧ c ≠ '\\' then acc.push c
    else acc ++ "\\u{" ++ toHex c.toNat ++ "}") ""

partial def render : Sexp → String
  | sym s => s
  | int i => toString i
  | str s => "\"" ++ escapeStr s ++ "\""
  | list xs => "(" ++ " ".intercalate (xs.map render) ++ ")"

instance : ToString Sexp := ⟨render⟩

def hexVal (c : Char) : Option Nat :=
  if '0' ≤ c ∧ c ≤ '9' then some (c.toNat - 48)
  else if 'a' ≤ c ∧ c ≤ 'f' then some (c.toNat - 87)
  else if 'A' ≤ c ∧ c ≤ 'F' then some (c.toNat - 55)
  else none

/-- parse the inside of a string literal, after the opening quote -/
partial def parseStr : List Char → String → Option (String × List Char)
  | [], _ => none
  | '"' :: rest, acc => some (acc, rest)
  | '\\' :: 'u' :: '{' :: rest, acc =>
    let rec go : List Char → Nat → Option (Nat × List Char)
      | '}' :: r, n => some (n, r)
      | c :: r, n => match hexVal c with
        | some v => go r (n * 16 + v)
        | none => none
      | [], _ => none
    match go rest 0 with
    | some (n, r) => parseStr r (acc.push (Char.ofNat n))
    | none => none
  | c :: rest, acc => parseStr rest (acc.push c)

def isDelim (c : Char) : Bool := c = '(' || c = ')' || c = ' ' || c = '"' || c = '\n' || c = '\t' || c = '\r'

def atomOf (s : String) : Sexp :=
  match s.toInt? with
  | some i => int i
  | none => sym s

mutual
  partial def parseOne : List Char → Option (Sexp × List Char)
    | [] => none
    | ' ' :: r => parseOne r
    | '\t' :: r => parseOne r
    | '\n' :: r => parseOne r
    | '\r' :: r => parseOne r
    | '(' :: r => parseList r []
    | ')' :: _ => none
    | '"' :: r => match parseStr r "" with
      | some (s, r') => some (str s, r')
      | none => none
    | cs =>
      let tok := cs.takeWhile (fun c => !isDelim c)
      let rest := cs.dropWhile (fun c => !isDelim c)
      some (atomOf (String.ofList tok), rest)
  partial def parseList : List Char → List Sexp → Option (Sexp × List Char)
    | [], _ => none
    | ' ' :: r, acc => parseList r acc
    | '\t' :: r, acc => parseList r acc
    | '\n' :: r, acc => parseList r acc
    | '\r' :: r, acc => parseList r acc
    | ')' :: r, acc => some (list acc.reverse, r)
    | cs, acc => match parseOne cs with
      | some (x, r) => parseList r (x :: acc)
      | none => none
end

def parse (s : String) : Option Sexp :=
  match parseOne s.toList with
  | some (x, _) => some x
  | none => none

/-! convenience accessors used by the per-domain drivers -/

def asNat? : Sexp → Option Nat
  | int i => if i ≥ 0 then some i.toNat else none
  | _ => none

def asInt? : Sexp → Option Int
  | int i => some i
  | _ => none

def asStr? : Sexp → Option String
  | str s => some s
  | sym s => some s
  | _ => none

def asList? : Sexp → Option (List Sexp)
  | list xs => some xs
  | _ => none

def ofBool (b : Bool) : Sexp := sym (if b then "T" else "F")
def ofNat (n : Nat) : Sexp := int n
def ofNats (ns : List Nat) : Sexp := list (ns.map ofNat)
def ofOptNat : Option Nat → Sexp
  | some n => int n
  | none => sym "none"

end Sexp
end Pyx
