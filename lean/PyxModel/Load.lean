/-
  Statement-level model of `xtuml/load.py` (`ModelLoader.input`, `populate*`,
  `build_metamodel`) together with the parts of `xtuml/meta.py` they call
  (`_is_null`, `Link.compute_lookup_key / compute_index_key`, `Link.connect`,
  `MetaModel.define_class / define_unique_identifier / define_association`).

  The text layer (lexer, parser, printers) is modelled elsewhere; here a loader is the list
  of statements it has accumulated.  Values are the *deserialised* Python values.

  Written from the code as it is, including: the index cache of `populate_connections`
  (one index per target class and per *set* of target key attribute names, shared by all
  associations with that target and key set), `dict(zip(..))` for the key maps (a repeated
  key keeps its first position and its last value), frozenset keys (compared as sets),
  `OrderedSet` buckets, `connect(check=False)` in both directions, the five phases in the
  fixed order classes, identifiers, associations, instances, connections, the class
  inferred from the first INSERT of an undeclared kind, and the final removal of the
  referential values from the instances.

  Not modelled (inputs on which the model is NOT claimed faithful are excluded by
  `inDomain`, which the driver evaluates on every compared case):
    * case folding of kinds / attribute names (`kind.upper()`): names are compared exactly
      (type names ARE case-folded: `Ty.ofName`);
    * default values drawn for attributes a positional INSERT leaves out (id generator);
    * deserialisation by column type (values are taken as already well typed);
    * Python's cross-type equality (`1 == 1.0 == True`): corresponding key attributes
      must have the same declared type.
  No Mathlib, no `import Lean`: this file is linked into the driver.
-/

namespace Pyx.Load

/-! ## values -/

inductive Ty where
  | boolean | integer | real | string | uniqueId
  deriving DecidableEq, Repr, Inhabited

/-- `str.upper()` on an ASCII letter -/
def upperChar (c : Char) : Char :=
  if 97 ≤ c.toNat ∧ c.toNat ≤ 122 then Char.ofNat (c.toNat - 32) else c

/-- a type name already upper-cased -/
def Ty.ofUpper (u : List Char) : Option Ty :=
  if u = ['B', 'O', 'O', 'L', 'E', 'A', 'N'] then some .boolean
  else if u = ['I', 'N', 'T', 'E', 'G', 'E', 'R'] then some .integer
  else if u = ['R', 'E', 'A', 'L'] then some .real
  else if u = ['S', 'T', 'R', 'I', 'N', 'G'] then some .string
  else if u = ['U', 'N', 'I', 'Q', 'U', 'E', '_', 'I', 'D'] then some .uniqueId
  else none

/-- a type name as written in CREATE TABLE: the code upper-cases type names wherever it looks at them
    (`_is_null`, `deserialize_value`, `default_value`, `serialize_value`, the null test of `MetaClass.new`), so
    every letter-case spelling of a core type name denotes that type -/
def Ty.ofChars (cs : List Char) : Option Ty := Ty.ofUpper (cs.map upperChar)

def Ty.ofName (s : String) : Option Ty := Ty.ofChars s.toList

/-- Python values of the five core types; `real` holds the value scaled by 10^6 (the
    harness only uses dyadic values with at most six fraction digits, which `float()` and
    `'%f'` represent exactly); `none` is Python's `None` (attribute left out by a named INSERT,
    or a referential attribute read on an unlinked instance). -/
inductive Val where
  | int (i : Int)
  | str (s : String)
  | bool (b : Bool)
  | id (n : Nat)
  | real (micro : Int)
  | none
  deriving DecidableEq, Repr, Inhabited

/-- `xtuml.meta._is_null` on a well-typed value: `None`, the id 0 and the empty string are
    null; the integer 0, the real 0.0 and `False` are not. -/
def isNull : Val → Bool
  | .none => true
  | .id n => n == 0
  | .str s => s == ""
  | _ => false

/-- `guess_type_name` on the lexeme of a value (used for classes inferred from an INSERT);
    `none` has no lexeme (excluded by `inDomain`). -/
def guessTy : Val → Ty
  | .int _ => .integer
  | .str _ => .string
  | .bool _ => .boolean
  | .id _ => .uniqueId
  | .real _ => .real
  | .none => .string

def Val.hasTy : Val → Ty → Bool
  | .int _, .integer => true
  | .str _, .string => true
  | .bool _, .boolean => true
  | .id _, .uniqueId => true
  | .real _, .real => true
  | _, _ => false

/-- an instance's `__dict__` restricted to attribute values, in insertion order -/
abbrev Row := List (String × Val)

/-- read an attribute; an absent entry reads `None` (that is what the referential property
    returns on an instance that is not linked yet). -/
def Row.get (r : Row) (a : String) : Val :=
  match r.lookup a with
  | some v => v
  | none => .none

/-! ## Python dict as an insertion-ordered association list -/

/-- `d[k] = v`: an existing key keeps its position and takes the new value -/
def dictSet {β : Type} (d : List (String × β)) (k : String) (v : β) : List (String × β) :=
  match d with
  | [] => [(k, v)]
  | (k', v') :: rest => if k' = k then (k', v) :: rest else (k', v') :: dictSet rest k v

/-- `dict(pairs)` -/
def dictOfPairs {β : Type} (l : List (String × β)) : List (String × β) :=
  l.foldl (fun d p => dictSet d p.1 p.2) []

/-- `OrderedSet.add` -/
def osetAdd (b : List Nat) (j : Nat) : List Nat := if j ∈ b then b else b ++ [j]

/-- `for y in ys: s.add(y)` -/
def osetAddAll (b : List Nat) (ys : List Nat) : List Nat := ys.foldl osetAdd b

/-- instances of a class are named by their position in `metaclass.storage` -/
def enumFrom {α : Type} : Nat → List α → List (Nat × α)
  | _, [] => []
  | n, x :: xs => (n, x) :: enumFrom (n + 1) xs

/-! ## statements -/

/-- `CreateAssociationStmt`; the cardinality strings are kept as the two tests the loader
    applies to them (`'M' in c`, `'C' in c`). -/
structure AssocStmt where
  rel : String
  srcKind : String
  srcMany : Bool
  srcCond : Bool
  srcKeys : List String
  srcPhrase : String
  tgtKind : String
  tgtMany : Bool
  tgtCond : Bool
  tgtKeys : List String
  tgtPhrase : String
  deriving DecidableEq, Repr, Inhabited

inductive Stmt where
  /-- `CREATE TABLE kind (attrs)` -/
  | cls (kind : String) (attrs : List (String × Ty))
  /-- `CREATE ROP REF_ID rel FROM .. TO ..` -/
  | assoc (a : AssocStmt)
  /-- `CREATE UNIQUE INDEX name ON kind (attrs)` -/
  | uniq (kind : String) (name : String) (attrs : List String)
  /-- `INSERT INTO kind [(names)] VALUES (vals)` -/
  | insert (kind : String) (names : Option (List String)) (vals : List Val)
  deriving DecidableEq, Repr, Inhabited

/-- `ModelLoader.statements` -/
abbrev Loader := List Stmt

/-- `ModelLoader.input`: `self.statements.extend(parsed)` -/
def Loader.input (l : Loader) (parsed : List Stmt) : Loader := l ++ parsed

/-- several `input` calls (files of a directory walk, members of a zip archive) one after the other -/
def Loader.inputs (l : Loader) (parts : List (List Stmt)) : Loader := parts.foldl Loader.input l

/-! ## keys -/

/-- `source_link.key_map = dict(zip(source_keys, target_keys))`: referential attribute ↦ identifying attribute -/
def keyMap (a : AssocStmt) : List (String × String) := dictOfPairs (a.srcKeys.zip a.tgtKeys)

/-- the target key attribute names `source_link.key_map.values()` -/
def keyNames (a : AssocStmt) : List String := (keyMap a).map (·.2)

/-- a `frozenset` of (attribute, value) pairs -/
abbrev Key := List (String × Val)

/-- frozenset equality -/
def keyEq (a b : Key) : Bool := a.all (fun p => b.contains p) && b.all (fun p => a.contains p)

/-- `frozenset(names)` equality (`link_key`) -/
def namesEq (a b : List String) : Bool := a.all (fun p => b.contains p) && b.all (fun p => a.contains p)

/-- `Link.compute_lookup_key(from_instance)` of the source link: `None` as soon as a referential
    value is null, otherwise identifying attribute ↦ referential value -/
def lookupKey (a : AssocStmt) (s : Row) : Option Key :=
  if (keyMap a).any (fun p => isNull (s.get p.1)) then none
  else some (dictOfPairs ((keyMap a).map (fun p => (p.2, s.get p.1))))

/-- `Link.compute_index_key(to_instance)` for the identifying attribute names `names` -/
def indexKey (names : List String) (t : Row) : Option Key :=
  if names.any (fun n => isNull (t.get n)) then none
  else some (dictOfPairs (names.map (fun n => (n, t.get n))))

/-! ## the hash index of `populate_connections` -/

/-- key ↦ `OrderedSet` of target instances, in dict insertion order -/
abbrev Index := List (Key × List Nat)

def indexAdd : Index → Key → Nat → Index
  | [], k, j => [(k, [j])]
  | (k', b) :: rest, k, j => if keyEq k' k then (k', osetAdd b j) :: rest else (k', b) :: indexAdd rest k j

def mkIndexFrom (names : List String) : Nat → List Row → Index → Index
  | _, [], idx => idx
  | j, t :: ts, idx =>
    mkIndexFrom names (j + 1) ts
      (match indexKey names t with
       | none => idx
       | some k => indexAdd idx k j)

/-- the index over `target_class.storage` -/
def mkIndex (names : List String) (T : List Row) : Index := mkIndexFrom names 0 T []

def findBucket (idx : Index) (k : Key) : Option (List Nat) :=
  match idx.find? (fun e => keyEq e.1 k) with
  | some e => some e.2
  | none => none

/-! ## links -/

/-- the two directed links of one association.
    `src j` = `ass.source_link[target instance j]` (ordered source instances),
    `tgt i` = `ass.target_link[source instance i]` (ordered target instances);
    a dict of `OrderedSet`s is modelled as a function with point updates. -/
structure Links where
  src : Nat → List Nat
  tgt : Nat → List Nat

def Links.empty : Links := ⟨fun _ => [], fun _ => []⟩

/-- `Link.connect(x, y, check=False)` -/
def connect (m : Nat → List Nat) (x y : Nat) : Nat → List Nat :=
  fun z => if z = x then osetAdd (m x) y else m z

/-- `for other_inst in bucket: source_link.connect(other, inst); target_link.connect(inst, other)` -/
def connectBucket (i : Nat) : List Nat → Links → Links
  | [], L => L
  | j :: js, L => connectBucket i js ⟨connect L.src j i, connect L.tgt i j⟩

/-- the targets the index yields for one source row -/
def partners (a : AssocStmt) (idx : Index) (s : Row) : List Nat :=
  match lookupKey a s with
  | none => []
  | some k =>
    match findBucket idx k with
    | none => []
    | some b => b

/-- `for inst in source_class.storage: …` -/
def joinLoop (a : AssocStmt) (idx : Index) : List (Nat × Row) → Links → Links
  | [], L => L
  | (i, s) :: rest, L => joinLoop a idx rest (connectBucket i (partners a idx s) L)

def joinWith (a : AssocStmt) (idx : Index) (S : List Row) : Links :=
  joinLoop a idx (enumFrom 0 S) Links.empty

/-- the loader's join for one association: source rows `S`, target rows `T` -/
def hashJoin (a : AssocStmt) (S T : List Row) : Links :=
  joinWith a (mkIndex (keyNames a) T) S

/-! ## the join as the property states it -/

/-- all referential values non-null and equal to the corresponding identifying values -/
def matchesB (a : AssocStmt) (s t : Row) : Bool :=
  (a.srcKeys.zip a.tgtKeys).all (fun p => !isNull (s.get p.1) && s.get p.1 == t.get p.2)

def nestedJoin (a : AssocStmt) (S T : List Row) : Links :=
  ⟨fun j => match T[j]? with
      | none => []
      | some t => (enumFrom 0 S).filterMap (fun p => if matchesB a p.2 t then some p.1 else none),
   fun i => match S[i]? with
      | none => []
      | some s => (enumFrom 0 T).filterMap (fun p => if matchesB a s p.2 then some p.1 else none)⟩

/-! ## the five phases -/

/-- a metaclass with its instances -/
structure Cls where
  kind : String
  attrs : List (String × Ty)
  /-- `metaclass.indices` -/
  indices : List (String × List String)
  /-- `metaclass.storage`, each instance by its attribute values -/
  rows : List Row
  deriving Repr, Inhabited

/-- phase 1, `populate_classes` -/
def popClasses (ss : List Stmt) : List Cls :=
  ss.filterMap (fun s => match s with
    | .cls k as => some ⟨k, as, [], []⟩
    | _ => none)

/-- `MetaModel.define_unique_identifier` -/
def defineUnique (cs : List Cls) (kind name : String) (attrs : List String) : List Cls :=
  if attrs.isEmpty then cs
  else cs.map (fun c => if c.kind = kind then { c with indices := dictSet c.indices name attrs } else c)

/-- phase 2, `populate_unique_identifiers` -/
def popUniques (ss : List Stmt) (cs : List Cls) : List Cls :=
  ss.foldl (fun cs s => match s with
    | .uniq k n as => defineUnique cs k n as
    | _ => cs) cs

/-- phase 3, `populate_associations`: `metamodel.associations` -/
def popAssocs (ss : List Stmt) : List AssocStmt :=
  ss.filterMap (fun s => match s with
    | .assoc a => some a
    | _ => none)

/-- `metaclass.referential_attributes` after `Association.formalize` of every association -/
def referential (as : List AssocStmt) (kind : String) : List String :=
  (as.filter (fun a => a.srcKind = kind)).flatMap (·.srcKeys)

/-- `['_%s' % idx for idx in range(n)]` -/
def positionalNames (n : Nat) : List String := (List.range n).map (fun i => "_" ++ toString i)

/-- `_populate_matching_class`: the attributes of a class inferred from an INSERT -/
def inferAttrs (names : Option (List String)) (vals : List Val) : List (String × Ty) :=
  let ns : List String := match names with
    | some (n :: ns) => n :: ns
    | _ => positionalNames vals.length
  (ns.zip vals).map (fun p => (p.1, guessTy p.2))

/-- the `__dict__` entries `_populate_instance_with_{positional,named}_arguments` store
    (`if stmt.names:` — an empty name list takes the positional branch) -/
def mkRow (attrs : List (String × Ty)) (names : Option (List String)) (vals : List Val) : Row :=
  match names with
  | some (n :: ns) => attrs.map (fun x => (x.1, match ((n :: ns).zip vals).lookup x.1 with
      | some v => v
      | none => .none))
  | _ => (attrs.zip vals).map (fun p => (p.1.1, p.2))

def hasKind (cs : List Cls) (kind : String) : Bool := cs.any (fun c => c.kind = kind)

def findCls (cs : List Cls) (kind : String) : Option Cls := cs.find? (fun c => c.kind = kind)

def addRow (cs : List Cls) (kind : String) (r : Row) : List Cls :=
  cs.map (fun c => if c.kind = kind then { c with rows := c.rows ++ [r] } else c)

def insertStep (cs : List Cls) (kind : String) (names : Option (List String)) (vals : List Val) : List Cls :=
  let cs' := if hasKind cs kind then cs else cs ++ [⟨kind, inferAttrs names vals, [], []⟩]
  match findCls cs' kind with
  | some c => addRow cs' kind (mkRow c.attrs names vals)
  | none => cs'

/-- phase 4, `populate_instances` -/
def popInstances (ss : List Stmt) (cs : List Cls) : List Cls :=
  ss.foldl (fun cs s => match s with
    | .insert k ns vs => insertStep cs k ns vs
    | _ => cs) cs

def rowsOf (cs : List Cls) (kind : String) : List Row :=
  match findCls cs kind with
  | some c => c.rows
  | none => []

/-- `storage[target_class][link_key]` flattened: (target kind, key attribute names) ↦ index -/
abbrev Cache := List ((String × List String) × Index)

def cacheFind (c : Cache) (kind : String) (names : List String) : Option Index :=
  match c.find? (fun e => decide (e.1.1 = kind) && namesEq e.1.2 names) with
  | some e => some e.2
  | none => none

/-- phase 5, `populate_connections` (the loop over `metamodel.associations`) -/
def connectAll (rows : String → List Row) : Cache → List AssocStmt → List Links
  | _, [] => []
  | c, a :: rest =>
    match cacheFind c a.tgtKind (keyNames a) with
    | some idx => joinWith a idx (rows a.srcKind) :: connectAll rows c rest
    | none =>
      let idx := mkIndex (keyNames a) (rows a.tgtKind)
      joinWith a idx (rows a.srcKind) :: connectAll rows (c ++ [((a.tgtKind, keyNames a), idx)]) rest

/-- the built metamodel: classes in `metamodel.metaclasses` order with the rows as the INSERTs
    stored them, associations in `metamodel.associations` order with their links -/
structure Model where
  classes : List Cls
  assocs : List (AssocStmt × Links)

/-- `ModelLoader.populate` on inputs the code does not reject -/
def buildCore (ss : List Stmt) : Model :=
  let cs := popInstances ss (popUniques ss (popClasses ss))
  let as := popAssocs ss
  ⟨cs, as.zip (connectAll (rowsOf cs) [] as)⟩

/-! ### what the code rejects (phases 1–3 raise; nothing is built) -/

def attrNames (cs : List Cls) (kind : String) : List String :=
  match findCls cs kind with
  | some c => c.attrs.map (·.1)
  | none => []

/-- `define_class` raises on a repeated kind; `define_unique_identifier` (with a non-empty
    attribute list) and `define_association` raise `UnknownClassException` on an undeclared
    kind — classes inferred from INSERTs do not exist yet in phases 2 and 3 —;
    `define_association` raises on an identifying attribute the referred class lacks and on key lists of
    different length; `define_class` raises on two attributes of the same name (the code compares the names
    upper-cased; the model's domain spells a name in one letter case);
    phase 4 raises `ParsingException` on a named INSERT whose numbers of names and values differ. -/
def accepted (ss : List Stmt) : Bool :=
  let cs := popClasses ss
  let kinds := cs.map (·.kind)
  decide kinds.Nodup
  && ss.all (fun s => match s with
      | .cls _ as => decide (as.map (·.1)).Nodup
      | .uniq k _ as => as.isEmpty || kinds.contains k
      | .assoc a => kinds.contains a.srcKind && kinds.contains a.tgtKind
          && a.tgtKeys.all (fun n => (attrNames cs a.tgtKind).contains n)
          && a.srcKeys.length == a.tgtKeys.length
      | .insert _ (some ns) vs => ns.length == vs.length
      | _ => true)

/-- `ModelLoader.build_metamodel`; `none` = an exception was raised -/
def build (ss : List Stmt) : Option Model :=
  if accepted ss then some (buildCore ss) else none

/-- the last loop of `populate_connections`: the referential values are deleted from the instances -/
def stripRow (refs : List String) (r : Row) : Row := r.filter (fun p => !refs.contains p.1)

def strippedRows (m : Model) (c : Cls) : List Row :=
  c.rows.map (stripRow (referential (m.assocs.map (·.1)) c.kind))

/-! ### the domain on which the model is claimed faithful -/

def attrTy (cs : List Cls) (kind attr : String) : Option Ty :=
  match findCls cs kind with
  | some c => c.attrs.lookup attr
  | none => none

/-- the keys under which `add_link` files the two links of an association in the classes'
    `links` dicts: (owning class, kind navigated to, rel id, phrase) -/
def linkKeys (a : AssocStmt) : List (String × String × String × String) :=
  [(a.tgtKind, a.srcKind, a.rel, a.tgtPhrase), (a.srcKind, a.tgtKind, a.rel, a.srcPhrase)]

def rowTyped (attrs : List (String × Ty)) (r : Row) : Bool :=
  r.all (fun p => p.2 = .none || match attrs.lookup p.1 with
    | some ty => p.2.hasTy ty
    | none => false)

/-- one association inside the domain: key lists without repeats and of equal length, referential attributes
    declared, corresponding key attributes of the same declared type -/
def assocInDomain (cs : List Cls) (a : AssocStmt) : Bool :=
  decide a.srcKeys.Nodup && decide a.tgtKeys.Nodup && a.srcKeys.length == a.tgtKeys.length
  && a.srcKeys.all (fun n => (attrNames cs a.srcKind).contains n)
  && (a.srcKeys.zip a.tgtKeys).all (fun p => attrTy cs a.srcKind p.1 == attrTy cs a.tgtKind p.2)

/-- the (kind, name) an identifier statement defines (none for an empty attribute list, which is ignored) -/
def uniqKey (s : Stmt) : Option (String × String) :=
  match s with
  | .uniq k n as => if as.isEmpty then none else some (k, n)
  | _ => none

/-- one INSERT inside the domain -/
def insertInDomain (cs : List Cls) (ss : List Stmt) (s : Stmt) : Bool :=
  match s with
  | .insert k ns vs =>
    !vs.contains .none
    && (match ns with
        | some ns => decide ns.Nodup
        | none => true)
    && (match findCls cs k with
        | some c =>
          (match ns with
           | some (_ :: _) => true
           | _ => c.attrs.length ≤ vs.length
               -- a SHORT positional row: the attributes left out are referential ones (they stay unset; any other
               -- attribute would take a default drawn from the id generator / the type, property C19)
               || (c.attrs.drop vs.length).all (fun p => (referential (popAssocs ss) k).contains p.1))
          && rowTyped c.attrs (mkRow c.attrs ns vs)
        | none =>
          -- inferred class: every INSERT of the kind infers the same class
          ss.all (fun s' => match s' with
            | .insert k' ns' vs' => k' != k || inferAttrs ns' vs' == inferAttrs ns vs
            | _ => true))
  | _ => true

def inDomain (ss : List Stmt) : Bool :=
  let cs := popClasses ss
  let as := popAssocs ss
  accepted ss
  && cs.all (fun c => decide (c.attrs.map (·.1)).Nodup)
  && as.all (assocInDomain cs)
  && decide (as.flatMap linkKeys).Nodup
  && decide ((ss.filterMap uniqKey).Nodup)
  && ss.all (insertInDomain cs ss)

end Pyx.Load
