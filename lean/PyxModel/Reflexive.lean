import PyxModel.Meta
import PyxModel.Query

/-
  `xtuml.sort_reflexive(set_of_instances, rel_id, phrase)` (C16).

  Abstract level: two partial functions on instances,
    `across x` = `navigate_one(x).nav(kind, rel, phrase)()`        (partner across the given phrase)
    `back x`   = `navigate_one(x).nav(kind, rel, other_phrase)()`  (partner across the opposite phrase)
  The Python `while inst:` loop is a fuel-indexed recursion; the theorems show the fuel the driver
  uses is never exhausted.
-/
namespace Pyx
namespace Reflexive
open Pyx.Meta Pyx.Query

/-- the inner `while inst:` loop started at `first` and currently at `inst` -/
def walk (back : Inst → Option Inst) (set : List Inst) (first : Inst) : Nat → Inst → List Inst
  | 0, _ => []
  | fuel + 1, inst =>
    (if inst ∈ set then [inst] else []) ++
      (match back inst with
       | none => []
       | some nxt => if nxt = first then [] else walk back set first fuel nxt)

/-- the starting points: members without partner across the phrase, in set order; when there is
    none ("the instance sequence is recursive") the set's first member -/
def firsts (across : Inst → Option Inst) (set : List Inst) : List Inst :=
  let fs := set.filter (fun x => (across x).isNone)
  if fs.isEmpty then set.take 1 else fs

def sortReflexive (across back : Inst → Option Inst) (set : List Inst) (fuel : Nat) : List Inst :=
  dedupFirst ((firsts across set).flatMap (fun first => walk back set first fuel first))

/-! state level: the two partner functions come from the link dict of the class -/

/-- "figure out the phrase in the other direction": first link of the class back to the class itself with
    the rel id and a different phrase -/
def otherPhrase (sch : Schema) (k : Kind) (rel phrase : String) : Option String :=
  ((linkDict sch k).find? (fun e => e.toKind == k && e.rel == rel && e.phrase != phrase)).map (·.phrase)

def partner (sch : Schema) (s : State) (k : Kind) (rel phrase : String) (x : Inst) : Option Inst :=
  match navigate sch s x k rel phrase with
  | some l => l.head?
  | none => none

/-- `none` = UnknownLinkException -/
def sortReflexiveSt (sch : Schema) (s : State) (set : List Inst) (rel phrase : String) : Option (List Inst) :=
  match set.head? with
  | none => some []
  | some f =>
    let k := s.kindOf f
    match otherPhrase sch k rel phrase with
    | none => none
    | some other =>
      -- the first-instance filter navigates every member across `phrase`: an unknown key raises
      match navigate sch s f k rel phrase with
      | none => none
      | some _ =>
        some (sortReflexive (partner sch s k rel phrase) (partner sch s k rel other) set (s.count + 1))

end Reflexive
end Pyx
