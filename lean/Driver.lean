import Driver.Main
