import Proofs.SqlFixedPoint
import Proofs.SqlReloadRoutes
import Proofs.SqlLinks
import Proofs.SqlInfer
import Proofs.SqlParserTotal
import Proofs.SqlLoadBridge
import Proofs.SqlRegex
import Proofs.SqlTemplates

/-!
  C01 — Persisted models load back unchanged (schema, values, links).
  Property theorems only (helper lemmas: Proofs/SqlChars.lean, SqlLexer.lean, SqlStep.lean, SqlCodec.lean,
  SqlParser.lean, SqlTokenRoundtrip.lean, SqlCharLex.lean, SqlCharRoundtrip.lean, SqlRoutes.lean, SqlFixedPoint.lean).
  Model: PyxModel/Sql — character-level lexer following the rule order of Gen/SqlLex.lean; its hand-written matchers are
  PROVED to be the generic regex engine (Python `re` semantics) on the parse trees generated from the `t_*` regexes of the
  source (`lexer_is_source_regex`; rule by rule in Props/C12.lean), parser, value printers and readers, the writers of
  xtuml/persist.py.
  `u : UC` is Python's view of the non-ASCII characters (`\d`, `\w`, `str.upper`); every theorem holds for all of them.
  Not modelled: the conversion between binary floats and decimal numerals (a REAL value is its six-decimal numeral);
  the key-matching join that recomputes links (C03) -- `linksOfAssoc` (PyxModel/Sql/Links.lean) is its SPECIFICATION (the
  nested loop over the key values), compared with the implementation by the correspondence runs; it is not connected in
  Lean to C03's model of `populate_connections` (different model files).
  Open finding `unset-referential-relinks`: an unrelated referrer whose INTEGER / REAL / BOOLEAN referential attribute is
  unset is written with the type default 0 / 0.000000 / 0, which the loader does not treat as null; if an instance of the
  referred class carries that value as identifying value, the reload links them.  `UnsetSafe` is the exact guard of the
  link theorems against it; the harness generates the case and D reports it under that signature.
-/
namespace PyxProps.C01
open Pyx.Sql
open Gen.Persist (Ty)
open Gen.SqlLex (Kw Rule)

/-! ### tables of the source (regenerated on every run) -/

/-- the value formats `fmtValue` implements are the ones `transfer_fn` states -/
theorem transfer_tie (t : Ty) : Gen.Persist.transfer t = modelledTransfer t := by cases t <;> rfl
theorem serialize_value_shape :
    Gen.Persist.typeUpperCasedFirst = true ∧ Gen.Persist.unsetUsesNullValue = true ∧ Gen.Persist.returnsTransfer = true := by
  decide
/-- the statement templates, loop orders and call structure the writers were modelled from -/
theorem templates_tie : Gen.Persist.templates = modelledTemplates := rfl
theorem orderings_tie : Gen.Persist.orderings = modelledOrderings := rfl
theorem calls_tie : Gen.Persist.calls = modelledCalls := rfl

/-- **serialize_class_as_in_source**: for EVERY class (any kind, any attribute list, any `u`) the text the model prints is what
    Python's `%` (`pyFmt`: a generic interpreter of `%s` templates), `str.join` and `+=` make of the string constants that
    Gen/Persist.lean reads off `serialize_class`, composed as the function composes them (`srcSerializeClass`); it never
    raises.  A changed constant in xtuml/persist.py changes the right-hand side. -/
theorem serialize_class_as_in_source (u : UC) (kind : Name) (attrs : List (Name × Name)) :
    (Item.cls kind attrs).print u = srcSerializeClass u kind attrs ∧ ((Item.cls kind attrs).print u).isSome :=
  ⟨(srcSerializeClass_eq u kind attrs).symm, rfl⟩

/-- **serialize_association_as_in_source**: for EVERY association the printed text is the generated constants of
    `serialize_association` filled in by `%`, `', '.join`, the phrase test (`if phrase:` = not empty) and the generic
    `str.replace` on the constants `'` / `''` (`srcSerializeAssociation`); each end is `endText` -/
theorem serialize_association_as_in_source (u : UC) (rel : Name) (s t : EndM) :
    (Item.assoc rel s t).print u = srcSerializeAssociation rel s t ∧
    srcEnd 0 s = some (endText s) ∧ srcEnd 5 t = some (endText t) :=
  ⟨(srcSerializeAssociation_eq u rel s t).symm, srcEnd_eq 0 (Or.inl rfl) s, srcEnd_eq 5 (Or.inr rfl) t⟩

/-- **serialize_instance_as_in_source**: for EVERY row (any values, set or unset, also when a value cannot be printed: then
    both sides are `none`, and `inst_print_none_iff` below says exactly when) the printed text is the head constant
    filled with the kind, the loop of `serialize_instance` with its counter (`attr_count < len(attributes)` selects the
    `, -- %s : %s` constant, otherwise ` -- %s : %s`) and the tail constant -/
theorem serialize_instance_as_in_source (u : UC) (kind : Name) (attrs : List (Name × Name)) (vals : List (Option Val)) :
    (Item.inst kind attrs vals).print u = srcSerializeInstance u kind attrs vals :=
  (srcSerializeInstance_eq u kind attrs vals).symm

/-- the error ending of the previous theorem made explicit: a row prints unless its value lines do not -/
theorem inst_print_none_iff (u : UC) (kind : Name) (attrs : List (Name × Name)) (vals : List (Option Val)) :
    srcSerializeInstance u kind attrs vals = none ↔ valueLines u attrs vals = none := by
  rw [srcSerializeInstance_eq]
  simp only [Item.print]
  cases valueLines u attrs vals <;> simp

/-- **index_line_as_in_source**: the `CREATE UNIQUE INDEX` line is written out separately in three functions of
    xtuml/persist.py; for EVERY index each of the three texts is the model's one -/
theorem index_line_as_in_source (u : UC) (name kind : Name) (attrs : List Name) :
    srcIndexLine "serialize_unique_identifiers" 1 name kind attrs = (Item.index name kind attrs).print u ∧
    srcIndexLine "persist_unique_identifiers" 1 name kind attrs = (Item.index name kind attrs).print u ∧
    srcIndexLine "persist_database" 1 name kind attrs = (Item.index name kind attrs).print u :=
  ⟨srcIndexLine_eq u _ 1 ⟨Or.inl rfl, rfl⟩ name kind attrs, srcIndexLine_eq u _ 1 ⟨Or.inr (Or.inl rfl), rfl⟩ name kind attrs,
   srcIndexLine_eq u _ 1 ⟨Or.inr (Or.inr rfl), rfl⟩ name kind attrs⟩

/-- **routes_as_in_source**: for EVERY metamodel each writer route of the model is the iteration the generated `orderings`
    name, in the nesting of the function: the iterable expressions are interpreted (`srcClassIter`: sorted keys / dict
    values, `srcAssocIter`: the sort with the key lambda the table gives, `srcInstIter`, `srcIndexIter`), so another
    iterable or sort key in the source gives `none` or another list on the left -/
theorem routes_as_in_source (u : UC) (m : MM) :
    (srcClassIter u m (ord "serialize_classes" 0)).map (·.map ClassM.item) = some (m.serializeClasses u) ∧
    (srcAssocIter m (ord "serialize_associations" 1) (ord "serialize_associations" 0)).map (·.map AssocM.item) =
      some m.serializeAssociations ∧
    srcInstIter m (ord "serialize_instances" 0) = some m.serializeInstances ∧
    (srcClassIter u m (ord "serialize_unique_identifiers" 0)).bind
        (fun cs => (mapOpt (fun c => srcIndexIter c (ord "serialize_unique_identifiers" 1)) cs).map List.flatten) =
      some (m.serializeUniqueIdentifiers u) ∧
    srcInstIter m (ord "persist_instances" 0) = some m.persistInstances ∧
    ((srcClassIter u m (ord "persist_schema" 0)).bind fun cs =>
      (srcAssocIter m (ord "persist_schema" 1) (ord "persist_schema" 2)).map fun as =>
        cs.map ClassM.item ++ as.map AssocM.item) = some (m.persistSchema u) ∧
    (srcClassIter u m (ord "persist_unique_identifiers" 0)).bind
        (fun cs => (mapOpt (fun c => srcIndexIter c (ord "persist_unique_identifiers" 1)) cs).map List.flatten) =
      some m.persistUniqueIdentifiers ∧
    ((srcClassIter u m (ord "persist_database" 0)).bind fun cs =>
      (mapOpt (fun c => (srcIndexIter c (ord "persist_database" 1)).map (c.item :: ·)) cs).bind fun cis =>
      (srcAssocIter m (ord "persist_database" 2) (ord "persist_database" 3)).bind fun as =>
      (srcInstIter m (ord "persist_database" 4)).map fun is =>
        cis.flatten ++ as.map AssocM.item ++ is) = some (m.persistDatabase u) :=
  routes_orderings u m

/-- non-vacuity: the interpreter really formats, rejects a wrong argument count and an uninterpreted conversion, and the
    interpretation of a concrete class / association / row is the expected text -/
example : pyFmt "a %s b %s".toList ["X".toList, "Y".toList] = some "a X b Y".toList ∧
    pyFmt "%s %s".toList ["X".toList] = none ∧ pyFmt "%s".toList ["X".toList, "Y".toList] = none ∧
    pyFmt "%d".toList ["X".toList] = none := by decide
example : srcSerializeClass UC.ascii "A".toList [("Id".toList, "integer".toList), ("N".toList, "string".toList)] =
    some "CREATE TABLE A (\n    Id INTEGER,\n    N STRING\n);\n".toList := by decide
example : srcSerializeAssociation "R1".toList ⟨false, true, "A".toList, ["x".toList, "y".toList], "it's".toList⟩
      ⟨true, false, "B".toList, ["Id".toList], []⟩ =
    some "CREATE ROP REF_ID R1 FROM 1C A (x, y) PHRASE 'it''s' TO M B (Id);\n".toList := by decide
example : srcSerializeInstance UC.ascii "A".toList [("M".toList, "String".toList), ("N".toList, "string".toList)]
      [some (.str "o'k".toList), none] =
    some "INSERT INTO A VALUES (\n    'o''k', -- M : String\n    '' -- N : string\n);\n".toList := by decide
/-- the regular expressions and the grammar the lexer / parser were modelled from -/
theorem regex_tie (r : Rule) : Rule.regex r = modelledRegex r := by cases r <;> rfl
theorem grammar_tie : Gen.SqlLex.grammar = modelledGrammar ∧ Gen.SqlLex.cardinalityChecks = modelledCardinalityChecks :=
  ⟨rfl, rfl⟩

/-- the lexer of all the theorems below IS the source regexes: its token stream is the one the generic regex engine produces on
    the parse trees generated from the `t_*` regexes of xtuml/load.py (every rule: Props/C12.lean `sql_scanner_is_regex_*`) -/
theorem lexer_is_source_regex (u : UC) (hu : u.PyTables) (cs : Text) : lexRx u cs = lex u cs := lexRx_eq_lex u hu cs

/-! ### value codecs -/

/-- strings: for EVERY list of characters `s` (quotes, doubled quotes, `--`, newlines, NUL, non-ASCII …) and every
    continuation that does not start with a quote, the string rule lexes the printed literal to exactly one STRING
    token, and reading it back gives `s` -/
theorem str_codec (u : UC) (s rest : Text) (h : ∀ c, rest.head? = some c → c ≠ '\'') :
    step u (strText s ++ rest) = .emit ⟨.STRING, strText s⟩ rest ∧ unescapeQ (escapeQ s) = s ∧
    ∀ ty, tyOfName u ty = some .STRING → deserialize u ty (strText s) = some (.str s) :=
  ⟨step_string u s rest h, unescapeQ_escapeQ s, fun ty hty => deserialize_string u ty hty s⟩

/-- integers of any size and sign: the decimal text lexes as NUMBER or MINUS NUMBER, `p_value` rebuilds the text,
    reading it back gives `z`; the numeral functions are inverse -/
theorem int_codec (u : UC) (z : Int) (rest : Text) (h : NumFollow u rest) :
    lex u (intText z ++ rest) = (lex u rest).map (fun ts => intToks z ++ ts) ∧
    (∀ ts, valueAt (intToks z ++ ts) = some (intText z, ts)) ∧
    (∀ ty, tyOfName u ty = some .INTEGER → deserialize u ty (intText z) = some (.int z)) ∧
    (∀ n, ofDigits (digits n) = n) :=
  ⟨lex_intText u z rest h, valueAt_intToks z, fun ty hty => deserialize_integer u ty hty z, ofDigits_digits⟩

/-- ids below 2^128: the 8-4-4-4-12 text lexes as ONE GUID token and parses back to `n` -/
theorem uuid_codec (u : UC) (n : Nat) (hn : n < 2 ^ 128) (rest : Text) :
    step u (guidText n ++ rest) = .emit ⟨.GUID, guidText n⟩ rest ∧ uuidParse (guidBody n) = some n ∧
    ∀ ty, tyOfName u ty = some .UNIQUE_ID → deserialize u ty (guidText n) = some (.id n) :=
  ⟨step_guidText u n rest, uuidParse_guidBody n hn, fun ty hty => deserialize_unique_id u ty hty n hn⟩

/-- booleans are printed `1` / `0`, lexed as NUMBER and read back -/
theorem bool_codec (u : UC) (b : Bool) (rest : Text) (h : NumFollow u rest) :
    fmtValue .BOOLEAN (.bool b) = some (natText (if b then 1 else 0)) ∧
    lex u (natText (if b then 1 else 0) ++ rest) = (lex u rest).map (fun ts => ⟨.NUMBER, natText (if b then 1 else 0)⟩ :: ts) ∧
    ∀ ty, tyOfName u ty = some .BOOLEAN → deserialize u ty (natText (if b then 1 else 0)) = some (.bool b) :=
  ⟨rfl, lex_natText u _ rest h, fun ty hty => deserialize_boolean u ty hty b⟩

/-- reals at text level: sign, digits, `.`, six digits lexes as FRACTION / MINUS FRACTION and reads back as the
    same six-decimal value (the binary <-> decimal conversion of Python floats is NOT part of the model) -/
theorem real_text_codec (u : UC) (neg : Bool) (micro : Nat) (rest : Text) (h : ∀ c, rest.head? = some c → u.isDigit c = false) :
    lex u (realText neg micro ++ rest) = (lex u rest).map (fun ts => realToks neg micro ++ ts) ∧
    (∀ ts, valueAt (realToks neg micro ++ ts) = some (realText neg micro, ts)) ∧
    ∀ ty, tyOfName u ty = some .REAL → deserialize u ty (realText neg micro) = some (.real neg micro) :=
  ⟨lex_realText u neg micro rest h, valueAt_realToks neg micro, fun ty hty => deserialize_real u ty hty neg micro⟩

/-- an unset value is printed exactly like the null value of its type (over the generated `null_value` table) -/
theorem null_unset (t : Ty) : printValue t none = printValue t (some (documentedNull t)) := by
  cases t <;> rfl

/-- every attribute type spelling that upper-cases to a core type name selects that type -/
theorem type_names (u : UC) (t : Ty) : tyOfName u t.chars = some t := tyOfName_chars u t

/-- every well-typed value is read back from its printed text, and printing is stable after one round -/
theorem value_roundtrip (u : UC) (t : Ty) (v : Val) (txt : Text) (ty : Text) (hty : tyOfName u ty = some t)
    (h : fmtValue t v = some txt) : deserialize u ty txt = some v ∧ (deserialize u ty txt).bind (fmtValue t) = some txt := by
  have key : deserialize u ty txt = some v := by
    cases t <;> cases v <;> simp only [fmtValue] at h <;> (first | (exfalso; simp at h; done) | skip)
    · simp only [Option.some.injEq] at h; subst h; exact deserialize_boolean u ty hty _
    · simp only [Option.some.injEq] at h; subst h; exact deserialize_integer u ty hty _
    · simp only [Option.some.injEq] at h; subst h; exact deserialize_real u ty hty _ _
    · simp only [Option.some.injEq] at h; subst h; exact deserialize_string u ty hty _
    · split at h
      · rename_i hn; simp only [Option.some.injEq] at h; subst h; exact deserialize_unique_id u ty hty _ hn
      · simp at h
  exact ⟨key, by rw [key]; exact h⟩

/-! ### identifiers, rel ids, comments -/

/-- every identifier `[A-Za-z_][A-Za-z0-9_]*` that does not start with `R<digit>` lexes (before blank, comma,
    parenthesis, semicolon, newline or the end) to a single token carrying exactly the identifier: an ID token, or
    the reserved-word token when its upper-case form is reserved; `p_identifier` accepts it either way -/
theorem ident_lex (u : UC) (w : Text) (hw : IdentOk w) (rest : Text) (hs : Safe rest) :
    lex u (w ++ rest) = (lex u rest).map (fun ts => wordTok u w :: ts) ∧ (wordTok u w).text = w ∧
    ((wordTok u w).kind = .ID ∨ ∃ k, (wordTok u w).kind = .kw k) ∧ isIdentTok (wordTok u w) = true :=
  ⟨lex_word u w hw rest hs, wordTok_text u w, mkTok_ID_kind u w, isIdentTok_wordTok u w⟩

/-- `p_identifier` lists every reserved word (generated table) -/
theorem identifier_accepts_reserved (k : Kw) : Gen.SqlLex.identifierKws.contains k = true ∧ Gen.SqlLex.identifierAllowsID = true :=
  ⟨identifierKws_all k, rfl⟩

/-- every reserved word, printed in upper case, lexes to its own token -/
theorem keyword_lex (u : UC) (k : Kw) (rest : Text) (hs : Safe rest) :
    lex u (k.chars ++ rest) = (lex u rest).map (fun ts => kwTok k :: ts) := lex_kw_safe u k rest hs

/-- association numbers `R<n>` lex as one RELID token (the RELID rule stands before the ID rule) -/
theorem relid_lex (u : UC) (n : Nat) (rest : Text) (h : ∀ c, rest.head? = some c → isAsciiDigit c = false) :
    step u ('R' :: (natText n ++ rest)) = .emit ⟨.RELID, 'R' :: natText n⟩ rest := by
  obtain ⟨d, ds, hd⟩ := natText_cons n
  have hall : ∀ c ∈ d :: ds, isAsciiDigit c = true := by rw [← hd]; exact natText_all_digit n
  rw [hd]; exact step_relid u d ds rest hall h

/-- the four cardinalities are read back: `1` and `1C` by their own rules, `M` and `MC` as identifiers -/
theorem cardinality_tokens (u : UC) (many cond : Bool) (r : List Tok) :
    cardAt (cardToks u many cond ++ r) = some (cardText many cond, r) := cardAt_cardToks u many cond r

/-- association phrases use the string codec: any phrase (quotes, doubled quotes, `--`, newlines …) is written
    escaped after `PHRASE`, lexed as one STRING token, and un-escaped to itself by `p_phrased_association_end` -/
theorem phrase_codec (u : UC) (p rest : Text) (hs : Safe rest) :
    lex u (phraseText p ++ rest) = (lex u rest).map (fun more => phraseToks p ++ more) ∧
    unescapeQ (stripEnds (strText p)) = p :=
  ⟨lexTo_phrase u p rest hs, stripEnds_phrase p⟩

/-- a trailing comment can never swallow a value: everything up to and including the newline is discarded,
    lexing continues with what follows the line -/
theorem comment_skip (u : UC) (c rest : Text) (h : ∀ x ∈ c, x ≠ '\n') :
    lex u ('-' :: '-' :: (c ++ '\n' :: rest)) = lex u rest := lex_comment u c rest h

/-- blanks and newlines between tokens are skipped -/
theorem layout_skip (u : UC) (rest : Text) : lex u (' ' :: rest) = lex u rest ∧ lex u ('\n' :: rest) = lex u rest :=
  ⟨lex_space u rest, lex_newline u rest⟩

/-! ### statements -/

/-- TOKEN LEVEL: for every list of printed items (classes, associations, instances, identifiers, in any order —
    every writer route is such a list), parsing the token list of the items gives back exactly their statements -/
theorem stmt_roundtrip_tokens (u : UC) (items : List Item) (toks : List Tok) (h : itemsToks u items = some toks) :
    ∃ stmts, itemsStmts u items = some stmts ∧ parse toks = some stmts := parse_items u items toks h

/-- one printed value lexes to the tokens the token-level theorem starts from -/
theorem value_lex (u : UC) (t : Ty) (v : Val) (txt : Text) (ts : List Tok) (hf : fmtValue t v = some txt)
    (hv : valueToks t v = some ts) (rest : Text) (hs : Safe rest) :
    lex u (txt ++ rest) = (lex u rest).map (fun more => ts ++ more) := lex_value u t v txt ts hf hv rest hs

/-- CHARACTER LEVEL, one item: the text `serialize_class` / `serialize_association` / `serialize_instance` / the
    identifier line prints for a well-formed item lexes, whatever text follows, to the item's token list -/
theorem item_lex (u : UC) (it : Item) (hw : it.WF u) (txt : Text) (hp : it.print u = some txt) :
    ∃ toks, it.toks u = some toks ∧ ∀ rest, lex u (txt ++ rest) = (lex u rest).map (fun more => toks ++ more) :=
  lexTo_item u it hw txt hp

/-- ROUND TRIP, any list of well-formed items in any order (classes, associations, instances, identifiers; with or
    without the CREATE TABLE items): the loader accepts the printed text and the statements it parses are exactly the
    statements of the items — `parse (lex (print items)) = stmts items` at CHARACTER level -/
theorem stmt_roundtrip (u : UC) (items : List Item) (text : Text) (hw : ∀ it ∈ items, it.WF u)
    (hp : printItems u items = some text) :
    ∃ stmts, itemsStmts u items = some stmts ∧ classify u text = .accepted stmts :=
  classify_items u items text hw hp

/-- every writer route (serialize_database, serialize_schema, serialize_instances, serialize_unique_identifiers,
    persist_database, persist_schema, persist_instances, persist_unique_identifiers — each with its own ordering) of a
    well-formed metamodel reloads to exactly the statements of its items -/
theorem route_roundtrip (u : UC) (m : MM) (hw : m.WF u) (r : List Item) (hr : r ∈ m.routes u) (text : Text)
    (hp : printItems u r = some text) : ∃ stmts, itemsStmts u r = some stmts ∧ classify u text = .accepted stmts :=
  Pyx.Sql.route_roundtrip u m hw r hr text hp

/-- concatenating texts concatenates statements: the three separately written parts may be fed in any order -/
theorem concat_roundtrip (u : UC) (a b : List Item) (ta tb : Text) (ha : ∀ it ∈ a, it.WF u) (hb : ∀ it ∈ b, it.WF u)
    (hpa : printItems u a = some ta) (hpb : printItems u b = some tb) :
    ∃ sa sb, itemsStmts u a = some sa ∧ itemsStmts u b = some sb ∧ classify u (ta ++ tb) = .accepted (sa ++ sb) :=
  classify_concat u a b ta tb ha hb hpa hpb

/-- FIXED POINT (item level).  `canonItem` is the item as it is printed from the reloaded metamodel: type names
    upper-cased, unset values replaced by the null value of their type.  It denotes the same statement as the original
    (so loading text₂ gives the statements of text₁ again) and it is its own canonical form (so text₃ = text₂). -/
theorem fixed_point (u : UC) (it : Item) (h : it.AsciiTypes) :
    (canonItem u it).stmt u = it.stmt u ∧ canonItem u (canonItem u it) = canonItem u it :=
  ⟨canon_stmt u it h, canon_idem u it h⟩

/-- … and the tie to the model level: the items printed from a class of the RELOADED metamodel (`canonClass`, the classes
    of `MM.reloaded`) are the canonical items of the original class — its CREATE TABLE item, its INSERT items, its
    identifier items — so `fixed_point` applies to every item of `m.reloaded` -/
theorem reloaded_items_canonical (u : UC) (c : ClassM) :
    (canonClass u c).item = canonItem u c.item ∧
    (canonClass u c).instItems = c.instItems.map (canonItem u) ∧
    (canonClass u c).indexItems = c.indexItems.map (canonItem u) := by
  refine ⟨rfl, ?_, ?_⟩
  · simp only [canonClass, ClassM.instItems, List.map_map]; rfl
  · simp only [canonClass, ClassM.indexItems, List.map_map]; rfl

/-! ### model level: reload of everything but links -/

/-- RELOAD (all but links), `serialize_database`: for every well-formed, closed metamodel (class names distinct after
    upper-casing, attribute names of a class distinct after upper-casing — `define_class` accepts no other class —,
    no attribute name or association key of the form `__x__` — `define_class` / `define_association` raise for them, so no
    such metamodel can be built —, core attribute types, identifier names distinct per class, association ends naming classes of the model
    with key lists of equal length and existing target keys, rows as long as the attribute list) the written text is
    accepted, builds, and the built metamodel — as the writers see it — is `m.reloaded`: the same classes (in sorted
    order) with the same attributes (type names upper-cased), the same identifiers, the same rows in order with equal
    values (an unset value is the null value of its type; a REAL value is its six-decimal numeral), and the same
    associations (rel id, kinds, keys, multiplicity, conditionality, phrases; in the order written).
    GETATTR VALUES.  `bs.toMM` keeps the value an INSERT carried for a referential cell, while the implementation deletes
    referential attributes from `__dict__` at the end of the load and reads them through the link.  The last conjunct says
    that this makes no difference: the built metamodel is a FIXED POINT of reading through links (`MM.ReadsFixed`:
    `getattr` returns every stored cell, up to unset ≡ null value) -- provided the canonical form of `m` is one
    (hypothesis `hread`, USED).  `reads_fixed_of_links` says when that is: whenever a row has a partner the partner's
    identifying value is the stored referential value, and a referential cell of a row without partner is empty or null;
    everything the writers produce from an API-built model is like that, a hand-written `B(7, A_Id=5)` without an
    `A(Id=5)` is not (the implementation reads 0 there; example below). -/
theorem reload_same_partial (u : UC) (m : MM) (hw : m.WF u) (hm : m.Closed u)
    (hread : (m.reloaded u m.assocsByIdKind).ReadsFixed u) (text : Text)
    (hp : printItems u (m.serializeDatabase u) = some text) :
    ∃ stmts bs, classify u text = .accepted stmts ∧ build u stmts = .ok bs ∧ bs.toMM u = m.reloaded u m.assocsByIdKind ∧
      (bs.toMM u).ReadsFixed u := by
  obtain ⟨stmts, bs, hc, hb, he⟩ := reload_serializeDatabase u m hw hm text hp
  exact ⟨stmts, bs, hc, hb, he, by rw [he]; exact hread⟩

/-- … `persist_database` (identifiers interleaved after each class, associations sorted by rel id only) -/
theorem reload_same_partial_persist (u : UC) (m : MM) (hw : m.WF u) (hm : m.Closed u)
    (hread : (m.reloaded u m.assocsById).ReadsFixed u) (text : Text)
    (hp : printItems u (m.persistDatabase u) = some text) :
    ∃ stmts bs, classify u text = .accepted stmts ∧ build u stmts = .ok bs ∧ bs.toMM u = m.reloaded u m.assocsById ∧
      (bs.toMM u).ReadsFixed u := by
  obtain ⟨stmts, bs, hc, hb, he⟩ := reload_persistDatabase u m hw hm text hp
  exact ⟨stmts, bs, hc, hb, he, by rw [he]; exact hread⟩

/-- … the three parts of `serialize_schema / serialize_instances / serialize_unique_identifiers` and of the
    `persist_*` writers in ANY of the six orders: the statements build to the same reloaded metamodel -/
theorem reload_same_partial_parts (u : UC) (m : MM) (hm : m.Closed u)
    (hread1 : (m.reloaded u m.assocsByIdKind).ReadsFixed u) (hread2 : (m.reloaded u m.assocsById).ReadsFixed u)
    (items : List Item) (stmts : List Stmt) (hs : itemsStmts u items = some stmts) :
    (items ∈ serializeOrders u m →
      ∃ bs, build u stmts = .ok bs ∧ bs.toMM u = m.reloaded u m.assocsByIdKind ∧ (bs.toMM u).ReadsFixed u) ∧
    (items ∈ persistOrders u m →
      ∃ bs, build u stmts = .ok bs ∧ bs.toMM u = m.reloaded u m.assocsById ∧ (bs.toMM u).ReadsFixed u) := by
  constructor
  · intro h
    obtain ⟨bs, hb, he⟩ := (reload_parts u m hm items stmts hs).1 h
    exact ⟨bs, hb, he, by rw [he]; exact hread1⟩
  · intro h
    obtain ⟨bs, hb, he⟩ := (reload_parts u m hm items stmts hs).2 h
    exact ⟨bs, hb, he, by rw [he]; exact hread2⟩

/-- WHEN a metamodel is a fixed point of reading through links (the hypothesis `hread` of the reload theorems), in terms of
    its links: (partner) whenever a row has a partner across an association, the partner's identifying value is the row's
    stored referential value; (alone) a referential cell of a row without any partner holds nothing or the null value of
    its type.  Without associations nothing is read through links. -/
theorem reads_fixed_of_links (u : UC) (m : MM) :
    (ReadsResolved u m → m.ReadsFixed u) ∧ (m.assocs = [] → m.ReadsFixed u) :=
  ⟨readsFixed_of_resolved u m, readsFixed_no_assocs u m⟩

/-- the reloaded metamodel is a fixed point of reloading as far as classes, identifiers and associations go:
    canonicalising a class twice is canonicalising it once (type names ASCII) -/
theorem reloaded_class_idem (u : UC) (c : ClassM) (h : ∀ a ∈ c.attrs, AsciiText a.2) :
    canonClass u (canonClass u c) = canonClass u c := by
  simp only [canonClass, upAttrs, List.map_map, ClassM.mk.injEq, true_and]
  refine ⟨?_, ?_⟩
  · apply List.map_congr_left
    intro a ha
    simp only [Function.comp, upper_idem u a.2 (h a ha)]
  · apply List.map_congr_left
    intro r _
    exact canonVals_idem u c.attrs r h

/-! ### links -/

/-- `MM` has no link component (it is the metamodel as the writers see it: classes, rows, associations), so the links an
    in-memory model holds are a separate parameter `L` of the theorems below; `KeysResolve` relates the two: the links
    (per association: pairs of source row index and target row index, each within
    its class) are exactly the links its key values denote under the loader's rule: every key pair non-null (`None`;
    UNIQUE_ID 0; STRING '') and equal.  A model built with `relate` meets it when the referred instances carry non-null
    key tuples that are unique in their class (a related referrer then READS the keys of its target, an unrelated one
    reads `None`); a model with hand-set contradictory referential values does not. -/
def KeysResolve (u : UC) (m : MM) (L : AssocM → List (Nat × Nat)) : Prop :=
  ∀ a ∈ m.assocs, ∀ p, p ∈ L a ↔ p ∈ linksOfAssoc u m a

/-- LINK CLAUSE: the links of the reloaded metamodel (spec join of PyxModel/Sql/Links.lean, which C03 proves the batch
    loader computes) are the links of the original, association by association and row by row.  `UnsetSafe`: an unset
    key cell of type INTEGER / REAL / BOOLEAN — written as 0 / 0.000000 / 0, which the loader does not treat as null —
    meets no equal value on the other side; automatic for UNIQUE_ID and STRING keys.  Outside `UnsetSafe` the
    implementation really gains a link on reload: OPEN FINDING `unset-referential-relinks` (KNOWN_FINDINGS.txt), which the
    harness generates and D reports; `UnsetSafe` is the exact guard, not a convenience. -/
theorem reload_links (u : UC) (m : MM) (hm : m.Closed u) (hsafe : UnsetSafe u m) (A : List AssocM) (a : AssocM)
    (ha : a ∈ m.assocs) : linksOfAssoc u (m.reloaded u A) a = linksOfAssoc u m a :=
  linksOfAssoc_reloaded u m hm hsafe A a ha

/-- unset key cells of the types that have a null value never need the side condition -/
theorem unset_nullable_safe (t : Option Gen.Persist.Ty) (h : t = some .UNIQUE_ID ∨ t = some .STRING ∨ t = none)
    (c : Option Gen.Persist.Ty × Option Val) :
    cellMatch (canonCell (t, none)) c = false ∧ cellMatch c (canonCell (t, none)) = false :=
  ⟨cellMatch_canon_unset_left t h c, cellMatch_canon_unset_right t h c⟩

/-- RELOAD, the two halves together (a repackaging of `reload_same_partial` and `reload_links`, no new content): what
    `serialize_database` writes for a well-formed, closed metamodel whose links `L` are the ones its keys denote is
    accepted, builds, the built metamodel is `m.reloaded` (classes, attribute types, identifiers, rows, associations) and
    its keys denote the SAME links `L` — under the spec join `linksOfAssoc`; that the loader's `populate_connections`
    computes that join is C03's theorem about C03's model and the correspondence run here, not a Lean bridge. -/
theorem reload_same_spec (u : UC) (m : MM) (hw : m.WF u) (hm : m.Closed u) (hsafe : UnsetSafe u m)
    (L : AssocM → List (Nat × Nat)) (hL : KeysResolve u m L) (text : Text)
    (hp : printItems u (m.serializeDatabase u) = some text) :
    ∃ stmts bs, classify u text = .accepted stmts ∧ build u stmts = .ok bs ∧
      bs.toMM u = m.reloaded u m.assocsByIdKind ∧ KeysResolve u (bs.toMM u) L := by
  obtain ⟨stmts, bs, hc, hb, he⟩ := reload_serializeDatabase u m hw hm text hp
  refine ⟨stmts, bs, hc, hb, he, ?_⟩
  rw [he]
  intro a ha p
  have ham : a ∈ m.assocs := (mem_sortBy _ _ _).mp ha
  rw [linksOfAssoc_reloaded u m hm hsafe _ a ham]
  exact hL a ham p

/-- … and `persist_database` -/
theorem reload_same_persist_spec (u : UC) (m : MM) (hw : m.WF u) (hm : m.Closed u) (hsafe : UnsetSafe u m)
    (L : AssocM → List (Nat × Nat)) (hL : KeysResolve u m L) (text : Text)
    (hp : printItems u (m.persistDatabase u) = some text) :
    ∃ stmts bs, classify u text = .accepted stmts ∧ build u stmts = .ok bs ∧
      bs.toMM u = m.reloaded u m.assocsById ∧ KeysResolve u (bs.toMM u) L := by
  obtain ⟨stmts, bs, hc, hb, he⟩ := reload_persistDatabase u m hw hm text hp
  refine ⟨stmts, bs, hc, hb, he, ?_⟩
  rw [he]
  intro a ha p
  have ham : a ∈ m.assocs := (mem_sortBy _ _ _).mp ha
  rw [linksOfAssoc_reloaded u m hm hsafe _ a ham]
  exact hL a ham p

/-! ### links: from the spec join to the LOADER MODEL (bridge to C03's model of `populate_connections`) -/

/-- LINKS AGREE (Proofs/SqlLoadBridge.lean): `toLoad` maps a metamodel to the statement list of builder-C's loader model
    (`Pyx.Load`: CREATE TABLE per class, CREATE ROP per association, one positional INSERT per row).  For every metamodel
    in the bridge domain `LoadDom` -- closed; key attributes spelled exactly as declared (that model compares names
    exactly); no attribute twice in a key list; corresponding key attributes of the same declared type (it has no
    cross-type `1 == 1.0 == True`); every cell empty or of its column's type -- that model's `build` (five phases, hashed
    index with its cache, `connect` in both directions; C03 proves hash join = nested join on it) ACCEPTS the statements,
    keeps the associations in order, and both directed links it builds for an association hold exactly the pairs of the
    spec join `linksOfAssoc`.  What remains between the loader model and `populate_connections` itself is C03's part:
    its correspondence runs and the shape tie of its LoadDecisions table. -/
theorem loader_links_are_spec_links (u : UC) (m : MM) (h : LoadDom u m) :
    ∃ lm, Pyx.Load.build (toLoad u m) = some lm ∧ lm.assocs.map (fun x => x.1) = m.assocs.map toLAssoc ∧
      ∀ a ∈ m.assocs, ∀ L, (toLAssoc a, L) ∈ lm.assocs → ∀ i j,
        ((i, j) ∈ linksOfAssoc u m a ↔ j ∈ L.tgt i) ∧ ((i, j) ∈ linksOfAssoc u m a ↔ i ∈ L.src j) :=
  links_agree u m h

/-- … as a relation (`LoaderLinked u m a i j`: the loader model, built from the statements of `m`, links source row `i` and
    target row `j` across `a` in both directions), and the domain is kept by reloading -/
theorem loader_linked_iff_spec (u : UC) (m : MM) (h : LoadDom u m) (A : List AssocM) (hA : ∀ a ∈ A, a ∈ m.assocs) :
    (∀ a ∈ m.assocs, ∀ i j, LoaderLinked u m a i j ↔ (i, j) ∈ linksOfAssoc u m a) ∧ LoadDom u (m.reloaded u A) :=
  ⟨fun a ha i j => loaderLinked_iff u m h a ha i j, loadDom_reloaded u m h A hA⟩

/-- RELOAD, both halves, with the link clause ON THE LOADER MODEL (corollary of `reload_same_partial`, `reload_links` and the
    bridge): what `serialize_database` writes for a well-formed metamodel of the bridge domain is accepted, builds, the built
    metamodel is `m.reloaded`, and the loader model builds from ITS statements exactly the links `L` the original holds
    (`hL`: `L` is what the loader model builds from the statements of `m`) -- under `UnsetSafe`, the guard against the open
    finding `unset-referential-relinks` -/
theorem reload_same (u : UC) (m : MM) (hw : m.WF u) (hd : LoadDom u m) (hsafe : UnsetSafe u m)
    (L : AssocM → List (Nat × Nat)) (hL : ∀ a ∈ m.assocs, ∀ i j, (i, j) ∈ L a ↔ LoaderLinked u m a i j) (text : Text)
    (hp : printItems u (m.serializeDatabase u) = some text) :
    ∃ stmts bs, classify u text = .accepted stmts ∧ build u stmts = .ok bs ∧
      bs.toMM u = m.reloaded u m.assocsByIdKind ∧
      ∀ a ∈ m.assocs, ∀ i j, (i, j) ∈ L a ↔ LoaderLinked u (bs.toMM u) a i j := by
  obtain ⟨stmts, bs, hc, hb, he⟩ := reload_serializeDatabase u m hw hd.closed text hp
  refine ⟨stmts, bs, hc, hb, he, ?_⟩
  intro a ha i j
  rw [he, hL a ha i j]
  exact (loader_links_reloaded u m hd hsafe _ (fun x hx => (mem_sortBy _ _ _).mp hx) a ((mem_sortBy _ _ _).mpr ha) i j).symm

/-- … and `persist_database` -/
theorem reload_same_persist (u : UC) (m : MM) (hw : m.WF u) (hd : LoadDom u m) (hsafe : UnsetSafe u m)
    (L : AssocM → List (Nat × Nat)) (hL : ∀ a ∈ m.assocs, ∀ i j, (i, j) ∈ L a ↔ LoaderLinked u m a i j) (text : Text)
    (hp : printItems u (m.persistDatabase u) = some text) :
    ∃ stmts bs, classify u text = .accepted stmts ∧ build u stmts = .ok bs ∧
      bs.toMM u = m.reloaded u m.assocsById ∧
      ∀ a ∈ m.assocs, ∀ i j, (i, j) ∈ L a ↔ LoaderLinked u (bs.toMM u) a i j := by
  obtain ⟨stmts, bs, hc, hb, he⟩ := reload_persistDatabase u m hw hd.closed text hp
  refine ⟨stmts, bs, hc, hb, he, ?_⟩
  intro a ha i j
  rw [he, hL a ha i j]
  exact (loader_links_reloaded u m hd hsafe _ (fun x hx => (mem_sortBy _ _ _).mp hx) a ((mem_sortBy _ _ _).mpr ha) i j).symm

/-! ### text fixed point at model level -/

/-- TEXT FIXED POINT, `serialize_database`: let R = `m.reloaded` be the metamodel reloaded from the text of a well-formed,
    closed metamodel m.  The text₂ written from R is accepted, builds, and the metamodel built from it is R again, so the
    text₃ written from that is text₂: `serialize (reload m) = serialize (reload (reload m))`.  Covers the whole value
    canonicalisation (unset → null value, six-decimal reals, booleans as 0 / 1, string and phrase escaping, type names
    upper-cased, classes sorted). -/
theorem text_fixed_point (u : UC) (m : MM) (hw : m.WF u) (hm : m.Closed u)
    (hread : (m.reloaded u m.assocsByIdKind).ReadsFixed u) (text1 : Text)
    (hp : printItems u (m.serializeDatabase u) = some text1) :
    ∃ text2, printItems u ((m.reloaded u m.assocsByIdKind).serializeDatabase u) = some text2 ∧
      ∃ stmts2 bs2, classify u text2 = .accepted stmts2 ∧ build u stmts2 = .ok bs2 ∧
        bs2.toMM u = m.reloaded u m.assocsByIdKind ∧ printItems u ((bs2.toMM u).serializeDatabase u) = some text2 ∧
        (bs2.toMM u).ReadsFixed u := by
  obtain ⟨text2, h1, stmts2, bs2, h2, h3, h4, h5⟩ := text_fixed_point_serializeDatabase u m hw hm text1 hp
  exact ⟨text2, h1, stmts2, bs2, h2, h3, h4, h5, by rw [h4]; exact hread⟩

/-- … `persist_database` -/
theorem text_fixed_point_persist (u : UC) (m : MM) (hw : m.WF u) (hm : m.Closed u)
    (hread : (m.reloaded u m.assocsById).ReadsFixed u) (text1 : Text)
    (hp : printItems u (m.persistDatabase u) = some text1) :
    ∃ text2, printItems u ((m.reloaded u m.assocsById).persistDatabase u) = some text2 ∧
      ∃ stmts2 bs2, classify u text2 = .accepted stmts2 ∧ build u stmts2 = .ok bs2 ∧
        bs2.toMM u = m.reloaded u m.assocsById ∧ printItems u ((bs2.toMM u).persistDatabase u) = some text2 ∧
        (bs2.toMM u).ReadsFixed u := by
  obtain ⟨text2, h1, stmts2, bs2, h2, h3, h4, h5⟩ := text_fixed_point_persistDatabase u m hw hm text1 hp
  exact ⟨text2, h1, stmts2, bs2, h2, h3, h4, h5, by rw [h4]; exact hread⟩

/-- … the three separately written parts of the RELOADED metamodel, in any of the six orders, build to the reloaded
    metamodel again (so every part is written identically once more) -/
theorem text_fixed_point_parts (u : UC) (m : MM) (hm : m.Closed u)
    (hread1 : (m.reloaded u m.assocsByIdKind).ReadsFixed u) (hread2 : (m.reloaded u m.assocsById).ReadsFixed u)
    (items : List Item) (stmts : List Stmt) (hs : itemsStmts u items = some stmts) :
    (items ∈ serializeOrders u (m.reloaded u m.assocsByIdKind) →
      ∃ bs, build u stmts = .ok bs ∧ bs.toMM u = m.reloaded u m.assocsByIdKind ∧ (bs.toMM u).ReadsFixed u) ∧
    (items ∈ persistOrders u (m.reloaded u m.assocsById) →
      ∃ bs, build u stmts = .ok bs ∧ bs.toMM u = m.reloaded u m.assocsById ∧ (bs.toMM u).ReadsFixed u) := by
  have hA1 : ∀ a ∈ m.assocsByIdKind, a ∈ m.assocs := fun a ha => (mem_sortBy _ _ _).mp ha
  have hA2 : ∀ a ∈ m.assocsById, a ∈ m.assocs := fun a ha => (mem_sortBy _ _ _).mp ha
  constructor
  · intro h
    obtain ⟨bs, hb, he⟩ := (reload_parts u _ (closed_reloaded u m hm _ hA1) items stmts hs).1 h
    have e := reloaded_reloaded_byIdKind u m hm
    exact ⟨bs, hb, by rw [he, e], by rw [he, e]; exact hread1⟩
  · intro h
    obtain ⟨bs, hb, he⟩ := (reload_parts u _ (closed_reloaded u m hm _ hA2) items stmts hs).2 h
    have e := reloaded_reloaded_byId u m hm
    exact ⟨bs, hb, by rw [he, e], by rw [he, e]; exact hread2⟩

/-- WHEN THE FIRST TEXT IS ALREADY THE FIXED POINT: `serialize (reload m) = serialize m` holds when the classes of m are
    already in sorted order and its attribute type names are already upper-case.  It can fail only through the order of
    the INSERT blocks (the class dict order of m versus the sorted order after a reload) and the spelling of the type
    names in the per-value comments; never through values (unset is written as the null value both times, a REAL value
    of the model is its six-decimal numeral). -/
theorem text_first_equals_second (u : UC) (m : MM) (hm : m.Closed u) (hsorted : SortedBy (classLe u) m.classes)
    (hup : ∀ c ∈ m.classes, ∀ a ∈ c.attrs, u.upper a.2 = a.2) :
    printItems u ((m.reloaded u m.assocsByIdKind).serializeDatabase u) = printItems u (m.serializeDatabase u) :=
  serialize_reload_eq u m hm hsorted hup

/-! ### without CREATE TABLE statements -/

/-- which types the INSERT-only route infers: the declared one, except that BOOLEAN columns (written 0 / 1) become
    INTEGER; the guess depends only on the declared type of the column, not on the row -/
theorem insert_only_types (u : UC) (t : Gen.Persist.Ty) (x : Val) (txt : Text) (h : fmtValue t x = some txt) :
    guessType u txt = some (guessedTy t) ∧ (t ≠ .BOOLEAN → guessedTy t = t) ∧ guessedTy .BOOLEAN = .INTEGER ∧
    deserialize u (guessedTy t).chars txt = some (inferVal t x) ∧ fmtValue (guessedTy t) (inferVal t x) = some txt :=
  ⟨guessType_fmt u t x txt h, by intro hne; cases t <;> first | rfl | exact absurd rfl hne, rfl,
    deserialize_guessed u t x txt h, fmt_inferVal t x txt h⟩

/-- WITHOUT CREATE TABLE: the instance text of a well-formed, closed metamodel alone is accepted and builds to
    `m.inferred` — per kind that has rows, in the order of first appearance, a class with attributes `_0 … _n` of the
    guessed types and the rows in their order with their values (unset ≡ null, a boolean as 0 / 1); identifiers,
    associations and classes without rows are not there.  Writing the instances of that metamodel and loading them again
    gives the same metamodel: a fixed point after one round.  There are no associations, so nothing is read through links
    (`ReadsFixed` holds outright). -/
theorem insert_only_reload (u : UC) (m : MM) (hw : m.WF u) (hm : m.Closed u) (text1 : Text)
    (hp : printItems u m.serializeInstances = some text1) :
    (∃ stmts bs, classify u text1 = .accepted stmts ∧ build u stmts = .ok bs ∧ bs.toMM u = m.inferred u) ∧
    (∃ text2, printItems u (m.inferred u).serializeInstances = some text2 ∧
      ∃ stmts2 bs2, classify u text2 = .accepted stmts2 ∧ build u stmts2 = .ok bs2 ∧ bs2.toMM u = m.inferred u) ∧
    (m.inferred u).ReadsFixed u :=
  ⟨(instances_only_text u m hw hm text1 hp).1, (instances_only_text u m hw hm text1 hp).2,
    readsFixed_no_assocs u _ rfl⟩

/-- inferring again changes nothing -/
theorem insert_only_idem (u : UC) (m : MM) (hm : m.Closed u) : (m.inferred u).inferred u = m.inferred u :=
  inferred_idem u m hm

/- What remains outside these theorems: that the links `populate_connections` actually creates on the statements of the
   text are `linksOf` of the built metamodel is C03's `build_links` (stated on builder-C's loader model,
   PyxModel/Load.lean, whose nested join has the same matching rule); the two models are tied to each other and to the
   implementation by correspondence: the driver prints `linksOf` of the generated metamodel and of the metamodel it
   builds from the written text, the harness compares both with the links of the real in-memory model and of the
   really reloaded model (harness/prop_C01.py).  The model-level fixed point
   `printDb (reload (reload m)) = printDb (reload m)` follows from `reload_same` and `reloaded_class_idem` once referential
   values are read through the links; it is validated by D (text₂ = text₃ on every route). -/

/-! non-vacuity: concrete instances -/

example (u : UC) : step u (strText "it's -- \n".toList ++ ", -- s : STRING\n".toList) =
    .emit ⟨.STRING, strText "it's -- \n".toList⟩ ", -- s : STRING\n".toList :=
  (str_codec u _ _ (by intro c hc; simp at hc; subst hc; decide)).1
example : escapeQ "it's".toList = "it''s".toList := by decide
example (u : UC) : lex u (intText (-18446744073709551617) ++ ", -- x\n".toList) =
    (lex u ", -- x\n".toList).map (fun ts => intToks (-18446744073709551617) ++ ts) :=
  (int_codec u _ _ ((Safe.cons_comma _).numFollow u)).1
example (u : UC) : NumFollow u ", -- x\n".toList := (Safe.cons_comma _).numFollow u
example : guidBody 0x0123456789abcdef0123456789abcdef = "01234567-89ab-cdef-0123-456789abcdef".toList := by decide
example : realText true 1500000 = "-1.500000".toList := by
  simp [realText, natText, digits, digitsRev, digitChar, fixedDigits]
example : IdentOk "CREATE".toList ∧ IdentOk "R".toList ∧ IdentOk "Rx1".toList ∧ IdentOk "_t".toList := by
  refine ⟨⟨by decide, by decide, by decide, by decide⟩, ⟨by decide, by decide, by decide, by decide⟩,
    ⟨by decide, by decide, by decide, by decide⟩, ⟨by decide, by decide, by decide, by decide⟩⟩
example : ¬ IdentOk "R5".toList := by intro h; exact absurd (h.notRelid rfl '5' rfl) (by decide)
example (u : UC) : itemsToks u [.cls ['A'] [(['i'], "integer".toList)], .index ['I'] ['A'] [['i']]] ≠ none := by
  simp [itemsToks, Item.toks]

/-- a class named by a reserved word, a reflexive association with phrases and a row with an unset value are
    well-formed items -/
example (u : UC) : (Item.cls "TABLE".toList [("Id".toList, "unique_id".toList)]).WF u := by
  refine ⟨⟨by decide, by decide, by decide, by decide⟩, ?_⟩
  intro a ha
  simp only [List.mem_singleton] at ha; subst ha
  refine ⟨⟨by decide, by decide, by decide, by decide⟩, ?_⟩
  have : u.upper "unique_id".toList = "UNIQUE_ID".toList := by
    rw [upper_ascii u _ (by unfold AsciiText; decide)]; decide
  rw [this]; exact ⟨by decide, by decide, by decide, by decide⟩

example (u : UC) : (Item.assoc "R1".toList ⟨false, true, "TABLE".toList, ["next".toList], "owner's -- \n".toList⟩
    ⟨false, true, "TABLE".toList, ["Id".toList], "succeeds".toList⟩).WF u := by
  refine ⟨⟨'1', [], rfl, by decide⟩, ⟨⟨by decide, by decide, by decide, by decide⟩, ?_⟩,
    ⟨⟨by decide, by decide, by decide, by decide⟩, ?_⟩⟩
  · intro k hk; simp only [List.mem_singleton] at hk; subst hk; exact ⟨by decide, by decide, by decide, by decide⟩
  · intro k hk; simp only [List.mem_singleton] at hk; subst hk; exact ⟨by decide, by decide, by decide, by decide⟩

example : (Item.inst "TABLE".toList [("Id".toList, "unique_id".toList)] [none]).AsciiTypes := by
  intro a ha; simp only [List.mem_singleton] at ha; subst ha; unfold AsciiText; decide

/-- a closed metamodel: one class with an identifier, an unset row and a reflexive association over its id -/
def mEx : MM :=
  ⟨[⟨"A".toList, [("Id".toList, "unique_id".toList)], [("I1".toList, ["Id".toList])], [[none]]⟩],
   [⟨"R1".toList, ⟨false, true, "A".toList, ["Id".toList], []⟩, ⟨false, true, "A".toList, ["Id".toList], "x".toList⟩⟩]⟩

example : mEx.Closed UC.ascii := by
  refine ⟨by decide, by decide, by decide, ?_, by decide, by decide, by decide, by decide⟩
  intro a ha
  simp only [mEx, List.mem_singleton] at ha; subst ha
  exact ⟨⟨_, List.mem_singleton.mpr rfl, rfl⟩, rfl, _, List.mem_singleton.mpr rfl, rfl, by decide⟩

/-- a root that is its own parent and a child of it: the keys denote the links (0,0) and (1,0); the unset parent of a
    third row denotes none; all key columns are UNIQUE_ID, so `UnsetSafe` holds -/
def mTree : MM :=
  ⟨[⟨"N".toList, [("Id".toList, "unique_id".toList), ("Parent".toList, "UNIQUE_ID".toList)], [],
     [[some (.id 1), some (.id 1)], [some (.id 2), some (.id 1)], [some (.id 3), none]]⟩],
   [⟨"R1".toList, ⟨true, true, "N".toList, ["Parent".toList], "child".toList⟩,
     ⟨false, true, "N".toList, ["Id".toList], "parent".toList⟩⟩]⟩

example : linksOf UC.ascii mTree = [(mTree.assocs.head!, [(0, 0), (1, 0)])] := by decide

example : UnsetSafe UC.ascii mTree := by
  apply unsetSafe_of_nullable_keys
  intro a ha sc tc hsc htc kk hkk
  simp only [mTree, List.mem_singleton] at ha; subst ha
  have e1 : MM.findClass UC.ascii mTree "N".toList = some mTree.classes.head! := by decide
  rw [show (AssocM.mk "R1".toList ⟨true, true, "N".toList, ["Parent".toList], "child".toList⟩
      ⟨false, true, "N".toList, ["Id".toList], "parent".toList⟩).src.kind = "N".toList from rfl, e1] at hsc
  rw [show (AssocM.mk "R1".toList ⟨true, true, "N".toList, ["Parent".toList], "child".toList⟩
      ⟨false, true, "N".toList, ["Id".toList], "parent".toList⟩).tgt.kind = "N".toList from rfl, e1] at htc
  simp only [Option.some.injEq] at hsc htc; subst hsc; subst htc
  simp only [List.zip, List.zipWith, List.mem_singleton] at hkk; subst hkk
  exact ⟨Or.inl (by decide), Or.inl (by decide)⟩

/-! ### a metamodel that meets EVERY hypothesis of the reload theorems, and the theorems applied to it -/

/-- Owner (Id, Name; identifier I1 over Id) with a name holding a quote, a comment marker and a newline, and an owner without
    name (unset); Dog (Tag, Owner_Id referential) with a linked dog and a dog with nothing set; R1 Dog -> Owner over
    UNIQUE_ID keys, with a phrase holding a quote -/
def mPets : MM :=
  ⟨[⟨"Owner".toList, [("Id".toList, "unique_id".toList), ("Name".toList, "STRING".toList)], [("I1".toList, ["Id".toList])],
     [[some (.id 1), some (.str "it's -- \n".toList)], [some (.id 2), none]]⟩,
    ⟨"Dog".toList, [("Tag".toList, "string".toList), ("Owner_Id".toList, "UNIQUE_ID".toList)], [],
     [[some (.str "rex".toList), some (.id 1)], [none, none]]⟩],
   [⟨"R1".toList, ⟨true, true, "Dog".toList, ["Owner_Id".toList], []⟩,
     ⟨false, true, "Owner".toList, ["Id".toList], "owner's".toList⟩⟩]⟩

theorem mPets_wf (u : UC) : mPets.WF u := by
  have up : ∀ w : Text, AsciiText w → u.upper w = w.map asciiUpper := fun w h => upper_ascii u w h
  have idok : ∀ w : Text, w ∈ ["Owner".toList, "Dog".toList, "Id".toList, "Name".toList, "Tag".toList, "Owner_Id".toList,
      "I1".toList, "UNIQUE_ID".toList, "STRING".toList] → IdentOk w := by
    intro w hw
    simp only [List.mem_cons, List.mem_nil_iff, or_false] at hw
    rcases hw with rfl | rfl | rfl | rfl | rfl | rfl | rfl | rfl | rfl <;> exact ⟨by decide, by decide, by decide, by decide⟩
  have e1 : u.upper "unique_id".toList = "UNIQUE_ID".toList := by rw [up _ (by unfold AsciiText; decide)]; decide
  have e2 : u.upper "STRING".toList = "STRING".toList := by rw [up _ (by unfold AsciiText; decide)]; decide
  have e3 : u.upper "string".toList = "STRING".toList := by rw [up _ (by unfold AsciiText; decide)]; decide
  have e4 : u.upper "UNIQUE_ID".toList = "UNIQUE_ID".toList := by rw [up _ (by unfold AsciiText; decide)]; decide
  refine ⟨?_, ?_, ?_, ?_⟩
  · intro c hc
    simp only [mPets, List.mem_cons, List.mem_nil_iff, or_false] at hc
    rcases hc with rfl | rfl
    · refine ⟨idok _ (by simp), ?_⟩
      intro a ha
      simp only [List.mem_cons, List.mem_nil_iff, or_false] at ha
      rcases ha with rfl | rfl
      · exact ⟨idok _ (by simp), by rw [e1]; exact idok _ (by simp)⟩
      · exact ⟨idok _ (by simp), by rw [e2]; exact idok _ (by simp)⟩
    · refine ⟨idok _ (by simp), ?_⟩
      intro a ha
      simp only [List.mem_cons, List.mem_nil_iff, or_false] at ha
      rcases ha with rfl | rfl
      · exact ⟨idok _ (by simp), by rw [e3]; exact idok _ (by simp)⟩
      · exact ⟨idok _ (by simp), by rw [e4]; exact idok _ (by simp)⟩
  · intro c hc it hit
    simp only [mPets, List.mem_cons, List.mem_nil_iff, or_false] at hc
    rcases hc with rfl | rfl
    · simp only [ClassM.indexItems, List.map_cons, List.map_nil, List.mem_singleton] at hit; subst hit
      refine ⟨idok _ (by simp), idok _ (by simp), ?_⟩
      intro a ha; simp only [List.mem_singleton] at ha; subst ha; exact idok _ (by simp)
    · simp [ClassM.indexItems] at hit
  · intro c hc it hit
    simp only [mPets, List.mem_cons, List.mem_nil_iff, or_false] at hc
    rcases hc with rfl | rfl
    · simp only [ClassM.instItems, List.map_cons, List.map_nil, List.mem_cons, List.mem_nil_iff, or_false] at hit
      rcases hit with rfl | rfl <;>
      · refine ⟨idok _ (by simp), ?_⟩
        intro a ha
        simp only [List.mem_cons, List.mem_nil_iff, or_false] at ha
        rcases ha with rfl | rfl <;> exact ⟨by unfold NoNewline; decide, by unfold NoNewline; decide⟩
    · simp only [ClassM.instItems, List.map_cons, List.map_nil, List.mem_cons, List.mem_nil_iff, or_false] at hit
      rcases hit with rfl | rfl <;>
      · refine ⟨idok _ (by simp), ?_⟩
        intro a ha
        simp only [List.mem_cons, List.mem_nil_iff, or_false] at ha
        rcases ha with rfl | rfl <;> exact ⟨by unfold NoNewline; decide, by unfold NoNewline; decide⟩
  · intro a ha
    simp only [mPets, List.mem_singleton] at ha; subst ha
    refine ⟨⟨'1', [], rfl, by decide⟩, ⟨idok _ (by simp), ?_⟩, ⟨idok _ (by simp), ?_⟩⟩
    · intro k hk; simp only [List.mem_singleton] at hk; subst hk; exact idok _ (by simp)
    · intro k hk; simp only [List.mem_singleton] at hk; subst hk; exact idok _ (by simp)

theorem mPets_closed : mPets.Closed UC.ascii := by
  refine ⟨by decide, by decide, by decide, ?_, by decide, by decide, by decide, by decide⟩
  intro a ha
  simp only [mPets, List.mem_singleton] at ha; subst ha
  exact ⟨⟨_, List.mem_cons_of_mem _ (List.mem_singleton.mpr rfl), rfl⟩, rfl, _, List.mem_cons_self, rfl, by decide⟩

theorem mPets_assoc_classes {a : AssocM} (ha : a ∈ mPets.assocs) {sc tc : ClassM}
    (hsc : mPets.findClass UC.ascii a.src.kind = some sc) (htc : mPets.findClass UC.ascii a.tgt.kind = some tc) :
    a = mPets.assocs.head! ∧ sc = mPets.classes[1]! ∧ tc = mPets.classes[0]! := by
  simp only [mPets, List.mem_singleton] at ha; subst ha
  have e1 : MM.findClass UC.ascii mPets "Dog".toList = some mPets.classes[1]! := by decide
  have e2 : MM.findClass UC.ascii mPets "Owner".toList = some mPets.classes[0]! := by decide
  rw [show (AssocM.mk "R1".toList ⟨true, true, "Dog".toList, ["Owner_Id".toList], []⟩
      ⟨false, true, "Owner".toList, ["Id".toList], "owner's".toList⟩).src.kind = "Dog".toList from rfl, e1] at hsc
  rw [show (AssocM.mk "R1".toList ⟨true, true, "Dog".toList, ["Owner_Id".toList], []⟩
      ⟨false, true, "Owner".toList, ["Id".toList], "owner's".toList⟩).tgt.kind = "Owner".toList from rfl, e2] at htc
  simp only [Option.some.injEq] at hsc htc
  exact ⟨rfl, hsc.symm, htc.symm⟩

theorem mPets_unsetSafe : UnsetSafe UC.ascii mPets := by
  apply unsetSafe_of_nullable_keys
  intro a ha sc tc hsc htc kk hkk
  obtain ⟨rfl, rfl, rfl⟩ := mPets_assoc_classes ha hsc htc
  simp only [mPets, List.head!, List.zip, List.zipWith, List.mem_singleton] at hkk; subst hkk
  exact ⟨Or.inl (by decide), Or.inl (by decide)⟩

/-- the canonical form of `mPets` is a fixed point of reading through links: the linked dog reads the id of its owner, the
    dog without owner reads `None` where the null id 0 is stored -/
theorem mPets_readsFixed : (mPets.reloaded UC.ascii mPets.assocsByIdKind).ReadsFixed UC.ascii := by
  unfold MM.ReadsFixed; decide

/-- THE DANGLING CASE IS EXCLUDED BY THE HYPOTHESIS: a dog whose Owner_Id 5 refers to no owner -- `getattr` reads `None`
    (written 0), the stored cell is 5 -- is no fixed point -/
example : ¬ (MM.ReadsFixed UC.ascii
    ⟨[⟨"Owner".toList, [("Id".toList, "UNIQUE_ID".toList)], [], [[some (.id 1)]]⟩,
      ⟨"Dog".toList, [("Tag".toList, "STRING".toList), ("Owner_Id".toList, "UNIQUE_ID".toList)], [],
       [[some (.str "rex".toList), some (.id 5)]]⟩],
     [⟨"R1".toList, ⟨true, true, "Dog".toList, ["Owner_Id".toList], []⟩, ⟨false, true, "Owner".toList, ["Id".toList], []⟩⟩]⟩) := by
  unfold MM.ReadsFixed; decide

/-- the links its keys denote: the first dog belongs to the first owner -/
example : linksOf UC.ascii mPets = [(mPets.assocs.head!, [(0, 0)])] := by decide

/-- `reload_same_spec` APPLIED: the text `serialize_database` writes for `mPets` (it exists: every cell holds a value of its
    column's type) is accepted, builds, the built metamodel is `mPets.reloaded` and its keys denote the same links -/
example : ∃ text stmts bs, printItems UC.ascii (mPets.serializeDatabase UC.ascii) = some text ∧
    classify UC.ascii text = .accepted stmts ∧ build UC.ascii stmts = .ok bs ∧
    bs.toMM UC.ascii = mPets.reloaded UC.ascii mPets.assocsByIdKind ∧
    KeysResolve UC.ascii (bs.toMM UC.ascii) (fun a => linksOfAssoc UC.ascii mPets a) := by
  cases hp : printItems UC.ascii (mPets.serializeDatabase UC.ascii) with
  | none => exact absurd hp (by decide)
  | some text =>
    obtain ⟨stmts, bs, h1, h2, h3, h4⟩ := reload_same_spec UC.ascii mPets (mPets_wf _) mPets_closed mPets_unsetSafe
      (fun a => linksOfAssoc UC.ascii mPets a) (fun _ _ _ => Iff.rfl) text hp
    exact ⟨text, stmts, bs, rfl, h1, h2, h3, h4⟩

/-- `mPets` is in the bridge domain: keys spelled as declared, both key columns UNIQUE_ID, every cell typed -/
theorem mPets_loadDom : LoadDom UC.ascii mPets := by
  refine ⟨mPets_closed, by decide, by decide, by decide, by decide, ?_⟩
  intro c hc r hr
  apply typed_of_rowTypedM
  revert r hr c hc
  decide

/-- THE BRIDGE APPLIED: builder-C's loader model accepts the statements of `mPets` and links exactly dog 0 to owner 0 -/
example : ∀ i j, LoaderLinked UC.ascii mPets mPets.assocs.head! i j ↔ (i, j) ∈ [(0, 0)] := by
  intro i j
  rw [loaderLinked_iff UC.ascii mPets mPets_loadDom _ (by decide)]
  have : linksOfAssoc UC.ascii mPets mPets.assocs.head! = [(0, 0)] := by decide
  rw [this]

/-- `reload_same` APPLIED: written, loaded and handed to the loader model again, `mPets` keeps exactly that link -/
example : ∃ text stmts bs, printItems UC.ascii (mPets.serializeDatabase UC.ascii) = some text ∧
    classify UC.ascii text = .accepted stmts ∧ build UC.ascii stmts = .ok bs ∧
    ∀ a ∈ mPets.assocs, ∀ i j, LoaderLinked UC.ascii mPets a i j ↔ LoaderLinked UC.ascii (bs.toMM UC.ascii) a i j := by
  cases hp : printItems UC.ascii (mPets.serializeDatabase UC.ascii) with
  | none => exact absurd hp (by decide)
  | some text =>
    obtain ⟨stmts, bs, h1, h2, _, h4⟩ := reload_same UC.ascii mPets (mPets_wf _) mPets_loadDom mPets_unsetSafe
      (fun a => linksOfAssoc UC.ascii mPets a)
      (fun a ha i j => (loaderLinked_iff UC.ascii mPets mPets_loadDom a ha i j).symm) text hp
    refine ⟨text, stmts, bs, rfl, h1, h2, ?_⟩
    intro a ha i j
    rw [← h4 a ha i j]
    exact loaderLinked_iff UC.ascii mPets mPets_loadDom a ha i j

/-- `reload_same_partial` and `text_fixed_point` APPLIED to `mPets`: the text is accepted and builds to the canonical form,
    whose cells are what `getattr` returns; the second text exists, is accepted, builds to the same metamodel and is
    written again unchanged -/
example : ∃ text1 text2, printItems UC.ascii (mPets.serializeDatabase UC.ascii) = some text1 ∧
    (∃ stmts bs, classify UC.ascii text1 = .accepted stmts ∧ build UC.ascii stmts = .ok bs ∧ (bs.toMM UC.ascii).ReadsFixed UC.ascii) ∧
    printItems UC.ascii ((mPets.reloaded UC.ascii mPets.assocsByIdKind).serializeDatabase UC.ascii) = some text2 ∧
    ∃ stmts2 bs2, classify UC.ascii text2 = .accepted stmts2 ∧ build UC.ascii stmts2 = .ok bs2 ∧
      printItems UC.ascii ((bs2.toMM UC.ascii).serializeDatabase UC.ascii) = some text2 := by
  cases hp : printItems UC.ascii (mPets.serializeDatabase UC.ascii) with
  | none => exact absurd hp (by decide)
  | some text1 =>
    obtain ⟨stmts, bs, h1, h2, _, h4⟩ := reload_same_partial UC.ascii mPets (mPets_wf _) mPets_closed mPets_readsFixed text1 hp
    obtain ⟨text2, g1, stmts2, bs2, g2, g3, _, g5, _⟩ := text_fixed_point UC.ascii mPets (mPets_wf _) mPets_closed mPets_readsFixed text1 hp
    exact ⟨text1, text2, rfl, ⟨stmts, bs, h1, h2, h4⟩, g1, stmts2, bs2, g2, g3, g5⟩

end PyxProps.C01
