import Proofs.OSet
import Proofs.OSetPtr
import Proofs.OSetReplace
import Proofs.OSetShape
import Proofs.OSetShapeMore

/-!
  C17 — Ordered sets behave as insertion-ordered mathematical sets.
  Property theorems only (helper lemmas live in Proofs/OSet.lean, Proofs/OSetPtr.lean).
  Model: PyxModel/OSet.lean (list level, operations composed as the CPython mixins compose
  add/discard/iteration) and PyxModel/OSetPtr.lean (cells with prev/next pointers).
-/
namespace PyxProps.C17
open Pyx.OSet

/-- every state reachable by ANY sequence of the state-changing operations is duplicate-free
    (so it denotes a mathematical set and the membership equations below apply in it) -/
theorem reachable_nodup (ops : List Op) : (run ops).Nodup :=
  nodup_run_from ops [] List.nodup_nil

/-- the set content after each operation is the mathematical set's -/
theorem mem_after_add (l : T) (k x : Nat) : x ∈ apply (.add k) l ↔ x ∈ l ∨ x = k := mem_add
theorem mem_after_discard (l : T) (h : l.Nodup) (k x : Nat) : x ∈ apply (.discard k) l ↔ x ∈ l ∧ x ≠ k :=
  mem_discard h
theorem mem_after_ior (l : T) (it : List Nat) (x : Nat) : x ∈ apply (.ior it) l ↔ x ∈ l ∨ x ∈ it := mem_ior
theorem mem_after_iand (l : T) (h : l.Nodup) (it : List Nat) (x : Nat) :
    x ∈ apply (.iand it) l ↔ x ∈ l ∧ x ∈ it := by
  simp only [apply]; rw [mem_iand h, mem_fromIter]
theorem mem_after_isub (l : T) (h : l.Nodup) (it : List Nat) (x : Nat) :
    x ∈ apply (.isub it) l ↔ x ∈ l ∧ x ∉ it := mem_foldl_discard it l h x
theorem mem_after_ixor (l : T) (h : l.Nodup) (it : List Nat) (x : Nat) :
    x ∈ apply (.ixor it) l ↔ (x ∈ l ∧ x ∉ it) ∨ (x ∉ l ∧ x ∈ it) := mem_ixor h
theorem mem_after_clear (l : T) (x : Nat) : x ∉ apply .clear l := by simp [apply, clear]

/-- remove = discard on a present key, KeyError (state unchanged) on an absent one -/
theorem remove_spec (l : T) (k : Nat) :
    (k ∈ l → remove k l = some (discard k l)) ∧ (k ∉ l → remove k l = none) := by
  unfold remove; constructor <;> intro h <;> simp [h]

/-- pops remove exactly the last / first element of the iteration order and return it;
    on the empty set they raise (none) -/
theorem popLast_spec (l : T) (h : l.Nodup) :
    (l = [] → popLast l = none) ∧
    (∀ k, l.getLast? = some k → popLast l = some (k, l.dropLast)) := by
  constructor
  · intro hl; subst hl; rfl
  · intro k hk
    unfold popLast; rw [hk]
    simp only [Option.some.injEq, Prod.mk.injEq, true_and]
    unfold Pyx.OSet.discard
    obtain ⟨l', rfl⟩ : ∃ l', l = l' ++ [k] := by
      rcases List.eq_nil_or_concat l with hl | ⟨l', b, hl⟩
      · subst hl; simp at hk
      · subst hl; simp at hk; subst hk; exact ⟨l', by simp⟩
    have hk' : k ∉ l' := by
      have := List.nodup_append.mp h
      intro hmem; exact this.2.2 k hmem k (by simp) rfl
    rw [List.erase_append_right _ hk']; simp

theorem popFirst_spec (l : T) :
    (l = [] → popFirst l = none) ∧ (∀ k t, l = k :: t → popFirst l = some (k, t)) := by
  constructor
  · intro hl; subst hl; rfl
  · intro k t hl; subst hl; unfold popFirst Pyx.OSet.discard; simp

/-- results of the non-mutating set algebra are duplicate-free and hold the mathematical result -/
theorem binop_mem (l t : T) (x : Nat) :
    (x ∈ Pyx.OSet.or l t ↔ x ∈ l ∨ x ∈ t) ∧ (x ∈ Pyx.OSet.and l t ↔ x ∈ l ∧ x ∈ t) ∧
    (x ∈ sub l t ↔ x ∈ l ∧ x ∉ t) ∧ (x ∈ xor l t ↔ (x ∈ l ∧ x ∉ t) ∨ (x ∈ t ∧ x ∉ l)) :=
  ⟨mem_or, mem_and, mem_sub, mem_xor⟩

theorem binop_nodup (l t : T) :
    (Pyx.OSet.or l t).Nodup ∧ (Pyx.OSet.and l t).Nodup ∧ (sub l t).Nodup ∧ (xor l t).Nodup :=
  ⟨nodup_fromIter _, nodup_fromIter _, nodup_fromIter _, nodup_fromIter _⟩

/-- insertion order: a single add appends iff the key is new -/
theorem order_add (l : T) (k : Nat) : (k ∉ l → add k l = l ++ [k]) ∧ (k ∈ l → add k l = l) := by
  unfold add; constructor <;> intro h <;> simp [h]

/-- in-place union keeps the receiver's order and appends the unseen elements of the argument in the
    argument's first-occurrence order; constructing from an iterable is first-occurrence de-duplication -/
theorem order_ior (l : T) (it : List Nat) :
    ior l it = l ++ (dedupFirst it).filter (fun x => !(decide (x ∈ l))) := ior_eq it l

theorem order_from_iterable (it : List Nat) : fromIter it = dedupFirst it := fromIter_eq_dedupFirst it

/-- removals keep the relative order of the remaining elements -/
theorem order_discard (l : T) (h : l.Nodup) (k : Nat) : discard k l = l.filter (fun x => x != k) :=
  discard_eq_filter h
theorem order_isub (l : T) (h : l.Nodup) (it : List Nat) :
    isub l it = l.filter (fun x => !(decide (x ∈ it))) := foldl_discard_eq_filter it l h
theorem order_iand (l t : T) (h : l.Nodup) : iand l t = l.filter (fun x => decide (x ∈ t)) := iand_eq_filter h
theorem order_or (l t : T) (h : l.Nodup) :
    Pyx.OSet.or l t = l ++ (dedupFirst t).filter (fun x => !(decide (x ∈ l))) := or_eq h

/-- `==` against a duplicate-free ordered collection is list equality -/
theorem eq_spec (l : T) (other : List Nat) (ho : other.Nodup) : eqIter l other = true ↔ l = other := by
  unfold eqIter
  rw [fromIter_of_nodup ho]
  simp only [Bool.and_eq_true, beq_iff_eq]
  constructor
  · rintro ⟨_, h⟩; exact h
  · intro h; subst h; exact ⟨rfl, rfl⟩

/-- pointer level: iterating while the consumer discards the element being visited (any predicate)
    visits exactly the keys of the ring, once each, in order — for a ring of any length -/
theorem iter_remove_current (p : Nat → Bool) (as : List Nat) (s : Pyx.OSetPtr.Store) (a : Nat)
    (hn : Pyx.OSetPtr.NextChain s a as) (hp : Pyx.OSetPtr.PrevChain s as) (hnd : as.Nodup)
    (h0 : 0 ∉ as) (hk : (as.map s.key).Nodup) (hm : Pyx.OSetPtr.MapOk s as)
    (hb : ∀ b bs, as = b :: bs → s.prev b ∉ bs) :
    (Pyx.OSetPtr.iterRem p (as.length + 1) s a).1 = as.map s.key :=
  Pyx.OSetPtr.iterRem_spec p as s a hn hp hnd h0 hk hm hb

/-- pointer level ⇒ list level.  `Repr s L`: walking `next` from the sentinel yields cells whose keys are `L`,
    `prev` is the mirror, `map` maps exactly the keys of `L` to their cells, addresses are distinct, not the
    sentinel and below the allocator.  It holds for the empty set, is preserved by `add` (the list becomes
    `L ++ [k]`, or stays `L` when `k` is present) and by `discard` (the list becomes `L.erase k`), and under it
    forward iteration yields `L` and reverse iteration `L.reverse`. -/
theorem ptr_refines :
    Pyx.OSetPtr.Repr Pyx.OSetPtr.empty [] ∧
    (∀ s L k, Pyx.OSetPtr.Repr s L → Pyx.OSetPtr.Repr (Pyx.OSetPtr.add k s) (Pyx.OSet.add k L)) ∧
    (∀ s L k, Pyx.OSetPtr.Repr s L → Pyx.OSetPtr.Repr (Pyx.OSetPtr.discard k s) (Pyx.OSet.discard k L)) ∧
    (∀ s L, Pyx.OSetPtr.Repr s L → Pyx.OSetPtr.toList s = L ∧ Pyx.OSetPtr.toListRev s = L.reverse) := by
  refine ⟨⟨[], Pyx.OSetPtr.reprA_empty⟩, ?_, ?_, ?_⟩
  · rintro s L k ⟨as, h⟩
    unfold Pyx.OSet.add
    by_cases hk : k ∈ L
    · rw [(Pyx.OSetPtr.reprA_add h k).1 hk, if_pos hk]; exact ⟨as, h⟩
    · rw [if_neg hk]; exact ⟨_, (Pyx.OSetPtr.reprA_add h k).2 hk⟩
  · rintro s L k ⟨as, h⟩
    unfold Pyx.OSet.discard
    by_cases hk : k ∈ L
    · obtain ⟨as1, a, as2, _, _, h'⟩ := (Pyx.OSetPtr.reprA_discard h k).2 hk
      exact ⟨_, h'⟩
    · rw [(Pyx.OSetPtr.reprA_discard h k).1 hk, List.erase_of_not_mem hk]; exact ⟨as, h⟩
  · rintro s L ⟨as, h⟩
    exact Pyx.OSetPtr.reprA_toList h

/-- the list-level meaning of the pointer ops is the abstract model's `add` / `discard` -/
theorem ptr_ops_are_oset_ops (k : Nat) (l : T) :
    Pyx.OSetPtr.absP (.add k) l = Pyx.OSet.add k l ∧ Pyx.OSetPtr.absP (.discard k) l = Pyx.OSet.discard k l :=
  ⟨rfl, rfl⟩

/-- every state reachable from the empty set by ANY sequence of add / discard is represented, and denotes the
    list the abstract operations compute: forward and reverse iteration agree with the list model -/
theorem ptr_reachable (ops : List Pyx.OSetPtr.POp) :
    Pyx.OSetPtr.Repr (Pyx.OSetPtr.runP ops) (Pyx.OSetPtr.absRunP ops) ∧
    Pyx.OSetPtr.toList (Pyx.OSetPtr.runP ops) = Pyx.OSetPtr.absRunP ops ∧
    Pyx.OSetPtr.toListRev (Pyx.OSetPtr.runP ops) = (Pyx.OSetPtr.absRunP ops).reverse := by
  have h : Pyx.OSetPtr.Repr (Pyx.OSetPtr.runP ops) (Pyx.OSetPtr.absRunP ops) :=
    Pyx.OSetPtr.repr_runP_from ops Pyx.OSetPtr.empty [] ⟨[], Pyx.OSetPtr.reprA_empty⟩
  obtain ⟨as, ha⟩ := h
  exact ⟨⟨as, ha⟩, Pyx.OSetPtr.reprA_toList ha⟩

/-- `Repr` implies the hypotheses of `iter_remove_current` (for the ring starting after the sentinel) -/
theorem repr_gives_iter_hypotheses (s : Pyx.OSetPtr.Store) (L : List Nat) (h : Pyx.OSetPtr.Repr s L) :
    ∃ as, Pyx.OSetPtr.NextChain s (s.next 0) as ∧ Pyx.OSetPtr.PrevChain s as ∧ as.Nodup ∧ 0 ∉ as ∧
      (as.map s.key).Nodup ∧ Pyx.OSetPtr.MapOk s as ∧ (∀ b bs, as = b :: bs → s.prev b ∉ bs) ∧
      as.map s.key = L ∧ as.length < s.fresh := by
  obtain ⟨as, ha⟩ := h
  refine ⟨as, Pyx.OSetPtr.nextChain_of_linked s as 0 ha.linked, Pyx.OSetPtr.prevChain_of_linked s as 0 ha.linked,
    ha.nodup, ha.nz, by rw [ha.keys]; exact ha.knodup, ha.mapIn, ?_, ha.keys, ha.len⟩
  intro b bs hbs
  subst hbs
  have hl := ha.linked
  simp only [List.cons_append, Pyx.OSetPtr.Linked] at hl
  rw [hl.2.1]
  exact fun hm => ha.nz (by simp [hm])

/-- hence in EVERY state reachable by add / discard sequences, iterating (as `__iter__` does, from the cell
    after the sentinel) while the consumer discards the element being visited — any predicate — visits exactly
    the elements of the set, once each, in order -/
theorem iter_remove_current_reachable (p : Nat → Bool) (ops : List Pyx.OSetPtr.POp) :
    (Pyx.OSetPtr.iterRem p (Pyx.OSetPtr.runP ops).fresh (Pyx.OSetPtr.runP ops)
      ((Pyx.OSetPtr.runP ops).next 0)).1 = Pyx.OSetPtr.absRunP ops := by
  obtain ⟨⟨as, ha⟩, _⟩ := ptr_reachable ops
  exact Pyx.OSetPtr.iterRem_of_reprA p ha

/-! non-vacuity: concrete states meeting the hypotheses -/
example : (run [.add 3, .add 1, .ior [5, 1, 7], .popFirst, .ixor [7, 2]]) = [1, 5, 2] := by decide
example : ([1, 5, 7] : T).Nodup ∧ eqIter [1, 5, 7] [1, 5, 7] = true ∧ eqIter [1, 5, 7] [5, 1, 7] = false := by decide
/-- a two-cell ring built by the pointer-level `add` meets the hypotheses of `iter_remove_current` -/
def ring2 : Pyx.OSetPtr.Store := Pyx.OSetPtr.add 8 (Pyx.OSetPtr.add 9 Pyx.OSetPtr.empty)
example : Pyx.OSetPtr.NextChain ring2 (ring2.next 0) [1, 2] ∧ Pyx.OSetPtr.PrevChain ring2 [1, 2] ∧
    ([1, 2].map ring2.key = [9, 8]) ∧ ring2.prev 1 = 0 ∧ ring2.map 9 = some 1 ∧ ring2.map 8 = some 2 := by
  simp [Pyx.OSetPtr.NextChain, Pyx.OSetPtr.PrevChain, ring2, Pyx.OSetPtr.add, Pyx.OSetPtr.empty, Pyx.OSetPtr.upd]

/-- a reachable pointer state and the list it denotes -/
example : Pyx.OSetPtr.absRunP [.add 9, .add 8, .add 9, .discard 9, .add 7, .discard 5] = [8, 7] := by decide
example : Pyx.OSetPtr.toList (Pyx.OSetPtr.runP [.add 9, .add 8, .add 9, .discard 9, .add 7, .discard 5]) = [8, 7] :=
  (ptr_reachable _).2.1

end PyxProps.C17

/-! ==========================================================================================================
  SOURCE TIE at the pointer level  (section owned by the OSetShape extension)

  translator/gen_osetshape.py reads `class OrderedSet` (xtuml/tools.py) with `ast` on every run: `add` and `discard`
  become statement lists over the `[key, prev, next]` cells, `__iter__` / `__reversed__` the start and step fields of
  their walk; `__init__`, `pop`, `__len__`, `__contains__`, `__repr__`, `__eq__` and the SET of methods the class
  defines are compared exactly (so every set-algebra operator still comes from collections.abc.MutableSet, whose
  mixins the list-level model composes).  Anything else raises (broken tie).  Proofs/OSetShape.lean defines ONE
  generic interpreter of the cell IR; the theorem states that the pointer-level model IS that interpretation of the
  IR generated from the current source — including the iteration that discards the visited element.
  ========================================================================================================== -/
namespace PyxProps.C17
open Pyx.OSetPtr Pyx.OShape Pyx.Gen.OSetShape

theorem ordered_set_cells_as_in_source (k : Nat) (s : Store) (p : Nat → Bool) (f curr : Nat) :
    Pyx.OSetPtr.add k s = iGuarded addProg k s ∧
    Pyx.OSetPtr.discard k s = iGuarded discardProg k s ∧
    toList s = iToList iterShape s ∧ toListRev s = iToList reversedShape s ∧
    iterRem p f s curr = iIterRem iterShape discardProg p f s curr :=
  ⟨add_eq k s, discard_eq k s, (toList_eq s).1, (toList_eq s).2, iterRem_eq p f s curr⟩

/-! non-vacuity: the interpreter builds, edits and walks the ring from the generated statements, and iterates while
    the visited element is discarded; a discard program without its last statement (the `next_[1] = prev` write) is a
    different function: reverse iteration would still reach the removed cell -/
example : iToList iterShape (iGuarded discardProg 9 (iGuarded addProg 7 (iGuarded addProg 8 (iGuarded addProg 9 Pyx.OSetPtr.empty)))) = [8, 7] ∧
    iToList reversedShape (iGuarded addProg 7 (iGuarded addProg 8 (iGuarded addProg 9 Pyx.OSetPtr.empty))) = [7, 8, 9] := by decide
example : (iIterRem iterShape discardProg (fun k => k == 9) 4 (iGuarded addProg 8 (iGuarded addProg 9 Pyx.OSetPtr.empty)) 1).1 = [9, 8] := by decide
example : iToList reversedShape (iGuarded { discardProg with body := discardProg.body.take 2 } 8
      (iGuarded addProg 7 (iGuarded addProg 8 (iGuarded addProg 9 Pyx.OSetPtr.empty)))) = [7, 8, 9] ∧
    iToList reversedShape (iGuarded discardProg 8
      (iGuarded addProg 7 (iGuarded addProg 8 (iGuarded addProg 9 Pyx.OSetPtr.empty)))) = [7, 9] := by decide
/-- more statement structures that are other functions: a walk that starts at `end[1]` (the last cell) but steps along
    field 2 visits one element; an `add` guarded the wrong way round (`if key in self.map`) never inserts; an `add` whose
    allocation does not write `curr[2]` leaves forward iteration empty -/
example : iToList { startField := 1, stepField := 2 } (iGuarded addProg 7 (iGuarded addProg 8 (iGuarded addProg 9 Pyx.OSetPtr.empty))) = [7] ∧
    iToList iterShape (iGuarded addProg 7 (iGuarded addProg 8 (iGuarded addProg 9 Pyx.OSetPtr.empty))) = [9, 8, 7] ∧
    iToList iterShape (iGuarded { addProg with whenPresent := true } 7 Pyx.OSetPtr.empty) = [] ∧
    iToList iterShape (iGuarded { addProg with body := [ .bind .curr (.field .endV 1),
        .allocInto (.var .curr) (.var .endV) [(.field .endV 1), .mapAtKey] ] } 7 Pyx.OSetPtr.empty) = [] := by decide

/-- SOURCE TIE, reverse iteration that discards the visited element, for EVERY predicate, fuel, store and cell: the model's
    `reversedRem` is the generic generator-with-consumer loop on the `__reversed__` shape and the `discard` program generated
    from the source now (the forward loop is the last conjunct of `ordered_set_cells_as_in_source`) -/
theorem ordered_set_reverse_removal_as_in_source (p : Nat → Bool) (f : Nat) (s : Store) (curr : Nat) :
    reversedRem p f s curr = iIterRem reversedShape discardProg p f s curr := reversedRem_eq p f s curr

/-- SOURCE TIE, the whole op language of the pointer-level model, for EVERY op, store and op sequence: `applyP` (add, discard,
    forward / reverse iteration discarding the visited elements of a list) and `runP` (any sequence from the empty set, i.e.
    every reachable store of `ptr_reachable`) are the generic interpretation of the two programs and two walk shapes generated
    from the source now -/
theorem ordered_set_ops_as_in_source (op : POp) (s : Store) (ops : List POp) :
    applyP op s = iApplyP addProg discardProg iterShape reversedShape op s ∧
    runP ops = iRunP addProg discardProg iterShape reversedShape ops := ⟨applyP_eq op s, runP_eq ops⟩

/-- SOURCE TIE, the two ends (`next(iter(s), None)` / `QuerySet.first`, `next(reversed(s), None)` / `QuerySet.last`): the
    model's `ptrFirst` / `ptrLast` are the first key the generic walk of the generated `__iter__` / `__reversed__` shape yields.
    Hypothesis: the allocator is not 0 (the walk's fuel; it is 1 in the empty set and only grows) -/
theorem ordered_set_ends_as_in_source (s : Store) (h : 0 < s.fresh) :
    ptrFirst s = iFirst iterShape s ∧ ptrLast s = iFirst reversedShape s := ⟨ptrFirst_eq s h, ptrLast_eq s h⟩

/-- … the hypothesis holds in every represented, hence every reachable, store -/
theorem ordered_set_ends_as_in_source_reachable (ops : List POp) :
    ptrFirst (runP ops) = iFirst iterShape (runP ops) ∧ ptrLast (runP ops) = iFirst reversedShape (runP ops) := by
  obtain ⟨as, ha⟩ := (PyxProps.C17.ptr_reachable ops).1
  exact ordered_set_ends_as_in_source _ (by have := ha.len; omega)

/-- SOURCE TIE, `pop(last=True / False)`: in every represented store the list-level model's `popLast` / `popFirst` is what the
    cell-level `pop` does (`iPop`, Proofs/OSetShapeMore.lean: KeyError on the empty set, else the key is read off the sentinel's
    `prev` / `next` cell and the GENERATED `discard` program is run on it): KeyError exactly together, and otherwise the same
    key is returned and the store left behind represents the list the model returns (its forward walk IS that list) -/
theorem pop_as_in_source (s : Store) (L : List Nat) (h : Repr s L) (last : Bool) :
    let popL := if last then Pyx.OSet.popLast L else Pyx.OSet.popFirst L
    (popL = none → iPop discardProg last s = none) ∧
    (∀ k L', popL = some (k, L') →
      ∃ s', iPop discardProg last s = some (k, s') ∧ s' = iGuarded discardProg k s ∧ Repr s' L' ∧ toList s' = L') := by
  obtain ⟨h0, h1⟩ := iPop_refines s L h last
  have key : ∀ (o : Option Nat), (if last then L.getLast? else L.head?) = o →
      (if last then Pyx.OSet.popLast L else Pyx.OSet.popFirst L) = o.map (fun k => (k, Pyx.OSet.discard k L)) := by
    intro o ho
    cases last with
    | true => simp only [↓reduceIte] at ho ⊢; unfold Pyx.OSet.popLast; rw [ho]; cases o <;> rfl
    | false => simp only [Bool.false_eq_true, ↓reduceIte] at ho ⊢; unfold Pyx.OSet.popFirst; rw [ho]; cases o <;> rfl
  intro popL
  cases ho : (if last then L.getLast? else L.head?) with
  | none =>
    have hL : L = [] := by
      cases last with
      | true => simpa using ho
      | false => simpa using ho
    refine ⟨fun _ => h0 hL, fun k L' hp => ?_⟩
    have := key none ho
    simp only [popL, this, Option.map_none] at hp
    exact absurd hp (by simp)
  | some k0 =>
    have hk := key (some k0) ho
    obtain ⟨hp0, hr⟩ := h1 k0 ho
    refine ⟨fun hn => ?_, fun k L' hp => ?_⟩
    · simp only [popL, hk, Option.map_some] at hn
      exact absurd hn (by simp)
    · simp only [popL, hk, Option.map_some, Option.some.injEq, Prod.mk.injEq] at hp
      obtain ⟨rfl, rfl⟩ := hp
      obtain ⟨as, ha⟩ := hr
      exact ⟨_, hp0, discard_eq k0 s, ⟨as, ha⟩, (Pyx.OSetPtr.reprA_toList ha).1⟩

/-! non-vacuity: `pop()` / `pop(last=False)` on the set 9, 8, 7 built by the generated `add` program return 7 / 9 and leave 9, 8 /
    8, 7; on the empty set both are KeyError; a `discard` program without its second pointer write leaves the popped key
    reachable backwards; the ends of that set are 9 and 7, read by the generic walks -/
example :
    let s := iRunP addProg discardProg iterShape reversedShape [.add 9, .add 8, .add 7]
    (iPop discardProg true s).map (fun r => (r.1, iToList iterShape r.2, iToList reversedShape r.2)) = some (7, [9, 8], [8, 9]) ∧
    (iPop discardProg false s).map (fun r => (r.1, iToList iterShape r.2, iToList reversedShape r.2)) = some (9, [8, 7], [7, 8]) ∧
    (iPop discardProg true Pyx.OSetPtr.empty).isNone = true ∧ (iPop discardProg false Pyx.OSetPtr.empty).isNone = true ∧
    (iPop { discardProg with body := discardProg.body.take 2 } true s).map (fun r => (r.1, iToList reversedShape r.2)) =
      some (7, [7, 8, 9]) ∧
    iFirst iterShape s = some 9 ∧ iFirst reversedShape s = some 7 ∧ Pyx.OSet.popLast [9, 8, 7] = some (7, [9, 8]) := by decide
/-- the op language: reverse iteration removing 8 and 7, then re-adding 8; with a `__reversed__` that stepped along field 2 only the
    last element would be visited (and removed); with a `discard` guarded the wrong way round nothing is removed -/
example : iToList iterShape (iRunP addProg discardProg iterShape reversedShape [.add 9, .add 8, .add 7, .riterRm [8, 7], .add 8]) = [9, 8] ∧
    iToList iterShape (iRunP addProg discardProg iterShape reversedShape [.add 9, .add 8, .add 7, .riterRm [8, 7]]) = [9] ∧
    iToList iterShape (iRunP addProg discardProg iterShape { startField := 1, stepField := 2 } [.add 9, .add 8, .add 7, .riterRm [8, 7]]) = [9, 8] ∧
    iToList iterShape (iRunP addProg { discardProg with whenPresent := false } iterShape reversedShape [.add 9, .add 8, .riterRm [8]]) = [9, 8] := by
  decide

end PyxProps.C17

/-! ==========================================================================================================
  AUDIT ROUND 1 REPAIRS (C17#1, #2, #3)  — appended section
  ========================================================================================================== -/
namespace PyxProps.C17
open Pyx.OSet

/-- C17#1 — iteration with removal of the visited elements, under `Repr`: it visits exactly `L` AND the store it leaves
    behind again satisfies `Repr`, denoting `L` without the removed elements (so histories may continue from it) -/
theorem iter_remove_keeps_repr (p : Nat → Bool) (s : Pyx.OSetPtr.Store) (L : List Nat) (h : Pyx.OSetPtr.Repr s L) :
    (Pyx.OSetPtr.iterRem p s.fresh s (s.next 0)).1 = L ∧
    Pyx.OSetPtr.Repr (Pyx.OSetPtr.iterRem p s.fresh s (s.next 0)).2 (L.filter (fun k => !p k)) := by
  obtain ⟨as, ha⟩ := h
  exact Pyx.OSetPtr.reprA_iterRem p ha

/-- `POp` now has a third constructor `iterRm ks` (iterate, discarding the visited element when it is in `ks`), whose
    list-level meaning is the abstract model's `iterRemove`; `ptr_reachable` above therefore covers every state reachable
    by add / discard / iterate-with-removal sequences — restated here for the record -/
theorem ptr_reachable_with_iteration (ops : List Pyx.OSetPtr.POp) (ks : List Nat) (l : T) :
    Pyx.OSetPtr.absP (.iterRm ks) l = (Pyx.OSet.iterRemove (fun k => decide (k ∈ ks)) l).2 ∧
    Pyx.OSetPtr.Repr (Pyx.OSetPtr.runP ops) (Pyx.OSetPtr.absRunP ops) ∧
    Pyx.OSetPtr.toList (Pyx.OSetPtr.runP ops) = Pyx.OSetPtr.absRunP ops :=
  ⟨rfl, (ptr_reachable ops).1, (ptr_reachable ops).2.1⟩

/-- C17#2 — the observers, read off the pointers as the code does (`self.end[2][0]`, `self.end[1][0]`, `key in self.map`,
    the length of the ring), agree with the list under `Repr`, hence in every reachable state -/
theorem ptr_observers (s : Pyx.OSetPtr.Store) (L : List Nat) (h : Pyx.OSetPtr.Repr s L) :
    Pyx.OSetPtr.ptrFirst s = L.head? ∧ Pyx.OSetPtr.ptrLast s = L.getLast? ∧
    (∀ k, Pyx.OSetPtr.ptrMem k s = true ↔ k ∈ L) ∧ Pyx.OSetPtr.len s = L.length := by
  obtain ⟨as, ha⟩ := h
  exact Pyx.OSetPtr.reprA_observers ha

theorem ptr_observers_reachable (ops : List Pyx.OSetPtr.POp) :
    Pyx.OSetPtr.ptrFirst (Pyx.OSetPtr.runP ops) = (Pyx.OSetPtr.absRunP ops).head? ∧
    Pyx.OSetPtr.ptrLast (Pyx.OSetPtr.runP ops) = (Pyx.OSetPtr.absRunP ops).getLast? ∧
    (∀ k, Pyx.OSetPtr.ptrMem k (Pyx.OSetPtr.runP ops) = true ↔ k ∈ Pyx.OSetPtr.absRunP ops) ∧
    Pyx.OSetPtr.len (Pyx.OSetPtr.runP ops) = (Pyx.OSetPtr.absRunP ops).length :=
  ptr_observers _ _ (ptr_reachable ops).1

/-- C17#3 — `==` without any hypothesis on the other collection: an ordered set equals an iterable exactly when it is
    the iterable's first-occurrence de-duplication (`OrderedSet([3,1,2]) == [3,1,2,3,1]` is True) -/
theorem eq_spec_unconditional (l : T) (other : List Nat) : eqIter l other = true ↔ l = dedupFirst other := by
  unfold eqIter
  rw [fromIter_eq_dedupFirst]
  simp only [Bool.and_eq_true, beq_iff_eq]
  constructor
  · rintro ⟨_, h⟩; exact h
  · intro h; subst h; exact ⟨rfl, rfl⟩

example : eqIter [3, 1, 2] [3, 1, 2, 3, 1] = true ∧ eqIter [3, 1, 2] [1, 3, 2] = false := by decide
example : Pyx.OSetPtr.absRunP [.add 9, .add 8, .add 7, .iterRm [9, 7], .add 5] = [8, 5] ∧
    Pyx.OSetPtr.ptrFirst (Pyx.OSetPtr.runP [.add 9, .add 8, .add 7, .iterRm [9, 7], .add 5]) = some 8 ∧
    Pyx.OSetPtr.ptrLast (Pyx.OSetPtr.runP [.add 9, .add 8, .add 7, .iterRm [9, 7], .add 5]) = some 5 ∧
    Pyx.OSetPtr.ptrMem 9 (Pyx.OSetPtr.runP [.add 9, .add 8, .add 7, .iterRm [9, 7], .add 5]) = false := by decide

end PyxProps.C17

/-! ==========================================================================================================
  REVERSE iteration with removal of the visited element (round-4 seed C17-g)  — appended section
  ========================================================================================================== -/
namespace PyxProps.C17
open Pyx.OSet

/-- "removing the element currently being visited" for `reversed(s)`: the pointer-level generator `__reversed__`
    (`curr = end[1]; while curr is not end: yield curr[0]; curr = curr[1]`, the step read after the consumer ran), whose
    consumer discards the visited element whenever `p` holds, visits exactly the elements of the set once each in REVERSE
    order, and the store it leaves again satisfies `Repr`, denoting the list without the removed elements -/
theorem reverse_iter_remove_keeps_repr (p : Nat → Bool) (s : Pyx.OSetPtr.Store) (L : List Nat) (h : Pyx.OSetPtr.Repr s L) :
    (Pyx.OSetPtr.reversedRem p s.fresh s (s.prev 0)).1 = L.reverse ∧
    Pyx.OSetPtr.Repr (Pyx.OSetPtr.reversedRem p s.fresh s (s.prev 0)).2 (L.filter (fun k => !p k)) := by
  obtain ⟨as, ha⟩ := h
  exact Pyx.OSetPtr.reprA_reversedRem p ha

/-- … hence in EVERY state reachable by add / discard / iterate-with-removal (forward or backward) sequences; and the
    backward walk is, statement by statement, the generic walk of the `__reversed__` shape read from the source with the
    `discard` program read from the source -/
theorem reverse_iter_remove_current_reachable (p : Nat → Bool) (ops : List Pyx.OSetPtr.POp) (f curr : Nat)
    (s : Pyx.OSetPtr.Store) :
    (Pyx.OSetPtr.reversedRem p (Pyx.OSetPtr.runP ops).fresh (Pyx.OSetPtr.runP ops)
      ((Pyx.OSetPtr.runP ops).prev 0)).1 = (Pyx.OSetPtr.absRunP ops).reverse ∧
    Pyx.OSetPtr.reversedRem p f s curr = Pyx.OShape.iIterRem Pyx.Gen.OSetShape.reversedShape Pyx.Gen.OSetShape.discardProg p f s curr :=
  ⟨(reverse_iter_remove_keeps_repr p _ _ (ptr_reachable ops).1).1, Pyx.OShape.reversedRem_eq p f s curr⟩

/-- applied: the ring 9, 8, 7 walked backwards while 7 and 9 are discarded visits 7, 8, 9 and leaves [8]; sequences mixing
    both directions stay represented -/
example : (Pyx.OSetPtr.reversedRem (fun k => k == 7 || k == 9) 4 (Pyx.OSetPtr.runP [.add 9, .add 8, .add 7])
      ((Pyx.OSetPtr.runP [.add 9, .add 8, .add 7]).prev 0)).1 = [7, 8, 9] ∧
    Pyx.OSetPtr.toList (Pyx.OSetPtr.runP [.add 9, .add 8, .add 7, .riterRm [7, 9], .add 5]) = [8, 5] ∧
    Pyx.OSetPtr.toListRev (Pyx.OSetPtr.runP [.add 9, .add 8, .add 7, .riterRm [7, 9], .add 5, .iterRm [8]]) = [5] ∧
    Pyx.OSetPtr.absRunP [.add 9, .add 8, .add 7, .riterRm [7, 9], .add 5, .iterRm [8]] = [5] := by decide

end PyxProps.C17

/-! APPLIED example (audit round 2, item 12): `iter_remove_keeps_repr` and its backward twin on the state reached by three
    adds — `Repr` comes from `ptr_reachable`, the predicate removes 9 and 7 -/
namespace PyxProps.C17
example : (Pyx.OSetPtr.iterRem (fun k => k == 9 || k == 7) (Pyx.OSetPtr.runP [.add 9, .add 8, .add 7]).fresh
      (Pyx.OSetPtr.runP [.add 9, .add 8, .add 7]) ((Pyx.OSetPtr.runP [.add 9, .add 8, .add 7]).next 0)).1 =
      Pyx.OSetPtr.absRunP [.add 9, .add 8, .add 7] ∧
    Pyx.OSetPtr.Repr (Pyx.OSetPtr.iterRem (fun k => k == 9 || k == 7) (Pyx.OSetPtr.runP [.add 9, .add 8, .add 7]).fresh
      (Pyx.OSetPtr.runP [.add 9, .add 8, .add 7]) ((Pyx.OSetPtr.runP [.add 9, .add 8, .add 7]).next 0)).2
      ((Pyx.OSetPtr.absRunP [.add 9, .add 8, .add 7]).filter (fun k => !(k == 9 || k == 7))) ∧
    (Pyx.OSetPtr.absRunP [.add 9, .add 8, .add 7]).filter (fun k => !(k == 9 || k == 7)) = [8] :=
  ⟨(iter_remove_keeps_repr _ _ _ (ptr_reachable [.add 9, .add 8, .add 7]).1).1,
   (iter_remove_keeps_repr _ _ _ (ptr_reachable [.add 9, .add 8, .add 7]).1).2, by decide⟩
example : (Pyx.OSetPtr.reversedRem (fun k => k == 8) (Pyx.OSetPtr.runP [.add 9, .add 8, .add 7]).fresh
      (Pyx.OSetPtr.runP [.add 9, .add 8, .add 7]) ((Pyx.OSetPtr.runP [.add 9, .add 8, .add 7]).prev 0)).1 =
      (Pyx.OSetPtr.absRunP [.add 9, .add 8, .add 7]).reverse :=
  (reverse_iter_remove_keeps_repr _ _ _ (ptr_reachable [.add 9, .add 8, .add 7]).1).1
end PyxProps.C17

/-! ==========================================================================================================
  "REPLACE the visited element": a loop body that discards the visited element AND adds a fresh one  — appended section
  ========================================================================================================== -/
namespace PyxProps.C17
open Pyx.OSetPtr

/-! Source tie of this section: the loop BODIES are `discard` and `add`, whose statements are read from the source
    (`ordered_set_cells_as_in_source`), and the walks are the `__iter__` / `__reversed__` generators of the same tie.  The LOOPS
    `iterReplace` / `reversedReplace` are the HARNESS's loops - a consumer interleaved with the library's generator - written
    in the model by hand; they are not part of the generated IR and are tied to the implementation by the correspondence runs
    only.  (`iterRem` is in `ordered_set_cells_as_in_source`; `reversedRem` is not, its tie to the generated `__reversed__`
    shape and `discard` program is the second conjunct of `reverse_iter_remove_current_reachable`.) -/

/-- FORWARD (`for x in s: if p x and fewer than limit replaced: s.discard(x); s.add(fresh + i)`), at pointer level: the
    generator holds the visited cell and reads its `next` after the body ran; the body unlinks that cell and links a fresh cell
    before the sentinel.  In every represented state, for EVERY predicate that is false on the fresh elements (the harness's
    `x in args and x < 1000`), when the fresh elements are not in the set and the fuel is `> 2·|L|`:
    * the visit list is `L` — every original element exactly once, in order — followed by fresh elements: ALL the fresh ones
      (they were linked behind the iterator), or NONE when the walk ended right after its first replacement (`lostFresh`: the
      first replaced element was the last one of the set — its stale `next` is the sentinel);
    * restricted to the elements present at the start the visit list is exactly `L`;
    * the store left behind is represented again and denotes the kept elements (old order) followed by the fresh ones. -/
theorem iter_replace_current (p : Nat → Bool) (fresh limit : Nat) (hp : ∀ j, p (fresh + j) = false)
    (s : Store) (L : List Nat) (h : Repr s L) (hfresh : ∀ j, fresh + j ∉ L) (f : Nat) (hf : 2 * L.length < f) :
    (iterReplace p fresh limit f s (s.next 0) 0).1 =
      L ++ (if lostFresh p limit L 0 = true then [] else freshFrom fresh 0 (replacedCount p limit L 0)) ∧
    Repr (iterReplace p fresh limit f s (s.next 0) 0).2 (keptBy p limit L 0 ++ freshFrom fresh 0 (replacedCount p limit L 0)) ∧
    (iterReplace p fresh limit f s (s.next 0) 0).1.filter (fun x => decide (x ∈ L)) = L := by
  obtain ⟨as, ha⟩ := h
  exact reprA_iterReplace p fresh limit hp ha hfresh f hf

/-- BACKWARD (`for x in reversed(s): …` with the same body): for ANY predicate, the visit list is exactly `L.reverse` — the
    fresh cells are linked behind the iterator and never reached — and the store left behind is represented again: the kept
    elements in their old order, then the fresh ones -/
theorem reversed_replace_current (p : Nat → Bool) (fresh limit : Nat)
    (s : Store) (L : List Nat) (h : Repr s L) (hfresh : ∀ j, fresh + j ∉ L) (f : Nat) (hf : L.length < f) :
    (reversedReplace p fresh limit f s (s.prev 0) 0).1 = L.reverse ∧
    Repr (reversedReplace p fresh limit f s (s.prev 0) 0).2
      ((keptBy p limit L.reverse 0).reverse ++ freshFrom fresh 0 (replacedCount p limit L.reverse 0)) := by
  obtain ⟨as, ha⟩ := h
  exact reprA_reversedReplace p fresh limit ha hfresh f hf

/-- the FORWARD pointer-level loop IS the list-level loop `absIterReplace` of PyxModel/OSetPtr.lean, step by step and for every
    fuel and predicate: from a represented ring `pre ++ suf` with the iterator about to visit the first cell of `suf`
    (the backward loop: `reversed_replace_loop_refines` below) -/
theorem replace_loops_refine (p : Nat → Bool) (fresh limit f : Nat) (s : Store) (pre suf L : List Nat) (added : Nat)
    (h : ReprA s (pre ++ suf) L) (hfresh : ∀ j, added ≤ j → fresh + j ∉ L) :
    (iterReplace p fresh limit f s ((suf ++ [0]).head?.getD 0) added).1 =
        (absIterReplace p fresh limit f (pre.map s.key) (suf.map s.key) added).1 ∧
    Repr (iterReplace p fresh limit f s ((suf ++ [0]).head?.getD 0) added).2
        (absIterReplace p fresh limit f (pre.map s.key) (suf.map s.key) added).2 :=
  iterReplace_refines p fresh limit f s pre suf L added h hfresh

/-- the BACKWARD pointer-level loop IS the list-level loop `absReversedReplace`: from a represented ring
    `preRev.reverse ++ tail` with the iterator about to visit the last cell of `preRev.reverse`, for every predicate and every
    fuel larger than the number of cells still ahead -/
theorem reversed_replace_loop_refines (p : Nat → Bool) (fresh limit f : Nat) (s : Store) (preRev tail L : List Nat) (added : Nat)
    (h : ReprA s (preRev.reverse ++ tail) L) (hfresh : ∀ j, added ≤ j → fresh + j ∉ L) (hf : preRev.length < f) :
    (reversedReplace p fresh limit f s ((0 :: preRev.reverse).getLast?.getD 0) added).1 =
        (absReversedReplace p fresh limit (preRev.map s.key) (tail.map s.key) added).1 ∧
    Repr (reversedReplace p fresh limit f s ((0 :: preRev.reverse).getLast?.getD 0) added).2
        (absReversedReplace p fresh limit (preRev.map s.key) (tail.map s.key) added).2 :=
  reversedReplace_refines p fresh limit preRev f s tail L added h hfresh hf

/-- the fuel the DRIVER gives the two loops (`2 * s.fresh + 1` forward, `s.fresh` backward, Driver/C17.lean) satisfies the fuel
    hypotheses of the two theorems in every represented state: the cells of the ring have distinct addresses below the
    allocator, so `|L| < s.fresh`.  Hence the driver's runs are the runs the theorems speak about. -/
theorem replace_loops_driver_fuel (p : Nat → Bool) (fresh limit : Nat) (hp : ∀ j, p (fresh + j) = false)
    (s : Store) (L : List Nat) (h : Repr s L) (hfresh : ∀ j, fresh + j ∉ L) :
    L.length < s.fresh ∧
    (iterReplace p fresh limit (2 * s.fresh + 1) s (s.next 0) 0).1.filter (fun x => decide (x ∈ L)) = L ∧
    Repr (iterReplace p fresh limit (2 * s.fresh + 1) s (s.next 0) 0).2
      (keptBy p limit L 0 ++ freshFrom fresh 0 (replacedCount p limit L 0)) ∧
    (reversedReplace p fresh limit s.fresh s (s.prev 0) 0).1 = L.reverse ∧
    Repr (reversedReplace p fresh limit s.fresh s (s.prev 0) 0).2
      ((keptBy p limit L.reverse 0).reverse ++ freshFrom fresh 0 (replacedCount p limit L.reverse 0)) := by
  have hlen : L.length < s.fresh := by
    obtain ⟨as, ha⟩ := h
    rw [← ha.keys, List.length_map]
    exact ha.len
  have hf := iter_replace_current p fresh limit hp s L h hfresh (2 * s.fresh + 1) (by omega)
  have hb := reversed_replace_current p fresh limit s L h hfresh s.fresh hlen
  exact ⟨hlen, hf.2.2, hf.2.1, hb.1, hb.2⟩

/-! applied: the ring 9, 8, 7 (built by three pointer-level adds, `Repr` from `ptr_reachable`), fresh elements 1000, 1001, …,
    at most 4 replacements.  Replacing 9 and 7: the walk visits 9 8 7 and then BOTH fresh elements; replacing only the last
    element 7: its fresh replacement is not visited; backwards no fresh element is visited. -/
def ring987 : Store := runP [.add 9, .add 8, .add 7]
private theorem ring987_repr : Repr ring987 [9, 8, 7] := (ptr_reachable [.add 9, .add 8, .add 7]).1
example : (iterReplace (fun k => k == 9 || k == 7) 1000 4 7 ring987 (ring987.next 0) 0).1 =
      [9, 8, 7] ++ (if lostFresh (fun k => k == 9 || k == 7) 4 [9, 8, 7] 0 = true then []
                    else freshFrom 1000 0 (replacedCount (fun k => k == 9 || k == 7) 4 [9, 8, 7] 0)) ∧
    (iterReplace (fun k => k == 9 || k == 7) 1000 4 7 ring987 (ring987.next 0) 0).1.filter (fun x => decide (x ∈ [9, 8, 7])) = [9, 8, 7] :=
  let h := iter_replace_current (fun k => k == 9 || k == 7) 1000 4 (by intro j; simp; omega) ring987 [9, 8, 7] ring987_repr
    (by intro j; simp; omega) 7 (by decide)
  ⟨h.1, h.2.2⟩
example : (iterReplace (fun k => k == 9 || k == 7) 1000 4 7 ring987 (ring987.next 0) 0).1 = [9, 8, 7, 1000, 1001] ∧
    toList (iterReplace (fun k => k == 9 || k == 7) 1000 4 7 ring987 (ring987.next 0) 0).2 = [8, 1000, 1001] ∧
    (iterReplace (fun k => k == 7) 1000 4 7 ring987 (ring987.next 0) 0).1 = [9, 8, 7] ∧
    toList (iterReplace (fun k => k == 7) 1000 4 7 ring987 (ring987.next 0) 0).2 = [9, 8, 1000] ∧
    lostFresh (fun k => k == 7) 4 [9, 8, 7] 0 = true ∧
    (reversedReplace (fun k => k == 9 || k == 7) 1000 4 4 ring987 (ring987.prev 0) 0).1 = [7, 8, 9] ∧
    toList (reversedReplace (fun k => k == 9 || k == 7) 1000 4 4 ring987 (ring987.prev 0) 0).2 = [8, 1000, 1001] ∧
    toListRev (reversedReplace (fun k => k == 9 || k == 7) 1000 1 4 ring987 (ring987.prev 0) 0).2 = [1000, 8, 9] := by decide
example : (reversedReplace (fun k => k == 9 || k == 7) 1000 4 4 ring987 (ring987.prev 0) 0).1 = [9, 8, 7].reverse :=
  (reversed_replace_current (fun k => k == 9 || k == 7) 1000 4 ring987 [9, 8, 7] ring987_repr (by intro j; simp; omega) 4
    (by decide)).1

end PyxProps.C17
