import Proofs.OSet
import Proofs.OSetPtr

/-!
  C17 — Ordered sets behave as insertion-ordered mathematical sets.
  Property theorems only (helper lemmas live in Proofs/OSet.lean, Proofs/OSetPtr.lean).
  Model: PyxModel/OSet.lean (list level, operations composed as the CPython mixins compose
  add/discard/iteration) and PyxModel/OSetPtr.lean (cells with prev/next pointers).
-/
namespace PyxProps.C17
open Pyx.OSet

/-- every state reachable by ANY sequence of the state-changing operations is duplicate-free
    (so it denotes a mathematical set and the membership equations below apply in it) -/
theorem reachable_nodup (ops : List Op) : (run ops).Nodup :=
  nodup_run_from ops [] List.nodup_nil

/-- the set content after each operation is the mathematical set's -/
theorem mem_after_add (l : T) (k x : Nat) : x ∈ apply (.add k) l ↔ x ∈ l ∨ x = k := mem_add
theorem mem_after_discard (l : T) (h : l.Nodup) (k x : Nat) : x ∈ apply (.discard k) l ↔ x ∈ l ∧ x ≠ k :=
  mem_discard h
theorem mem_after_ior (l : T) (it : List Nat) (x : Nat) : x ∈ apply (.ior it) l ↔ x ∈ l ∨ x ∈ it := mem_ior
theorem mem_after_iand (l : T) (h : l.Nodup) (it : List Nat) (x : Nat) :
    x ∈ apply (.iand it) l ↔ x ∈ l ∧ x ∈ it := by
  simp only [apply]; rw [mem_iand h, mem_fromIter]
theorem mem_after_isub (l : T) (h : l.Nodup) (it : List Nat) (x : Nat) :
    x ∈ apply (.isub it) l ↔ x ∈ l ∧ x ∉ it := mem_foldl_discard it l h x
theorem mem_after_ixor (l : T) (h : l.Nodup) (it : List Nat) (x : Nat) :
    x ∈ apply (.ixor it) l ↔ (x ∈ l ∧ x ∉ it) ∨ (x ∉ l ∧ x ∈ it) := mem_ixor h
theorem mem_after_clear (l : T) (x : Nat) : x ∉ apply .clear l := by simp [apply, clear]

/-- remove = discard on a present key, KeyError (state unchanged) on an absent one -/
theorem remove_spec (l : T) (k : Nat) :
    (k ∈ l → remove k l = some (discard k l)) ∧ (k ∉ l → remove k l = none) := by
  unfold remove; constructor <;> intro h <;> simp [h]

/-- pops remove exactly the last / first element of the iteration order and return it;
    on the empty set they raise (none) -/
theorem popLast_spec (l : T) (h : l.Nodup) :
    (l = [] → popLast l = none) ∧
    (∀ k, l.getLast? = some k → popLast l = some (k, l.dropLast)) := by
  constructor
  · intro hl; subst hl; rfl
  · intro k hk
    unfold popLast; rw [hk]
    simp only [Option.some.injEq, Prod.mk.injEq, true_and]
    unfold Pyx.OSet.discard
    obtain ⟨l', rfl⟩ : ∃ l', l = l' ++ [k] := by
      rcases List.eq_nil_or_concat l with hl | ⟨l', b, hl⟩
      · subst hl; simp at hk
      · subst hl; simp at hk; subst hk; exact ⟨l', by simp⟩
    have hk' : k ∉ l' := by
      have := List.nodup_append.mp h
      intro hmem; exact this.2.2 k hmem k (by simp) rfl
    rw [List.erase_append_right _ hk']; simp

theorem popFirst_spec (l : T) :
    (l = [] → popFirst l = none) ∧ (∀ k t, l = k :: t → popFirst l = some (k, t)) := by
  constructor
  · intro hl; subst hl; rfl
  · intro k t hl; subst hl; unfold popFirst Pyx.OSet.discard; simp

/-- results of the non-mutating set algebra are duplicate-free and hold the mathematical result -/
theorem binop_mem (l t : T) (x : Nat) :
    (x ∈ Pyx.OSet.or l t ↔ x ∈ l ∨ x ∈ t) ∧ (x ∈ Pyx.OSet.and l t ↔ x ∈ l ∧ x ∈ t) ∧
    (x ∈ sub l t ↔ x ∈ l ∧ x ∉ t) ∧ (x ∈ xor l t ↔ (x ∈ l ∧ x ∉ t) ∨ (x ∈ t ∧ x ∉ l)) :=
  ⟨mem_or, mem_and, mem_sub, mem_xor⟩

theorem binop_nodup (l t : T) :
    (Pyx.OSet.or l t).Nodup ∧ (Pyx.OSet.and l t).Nodup ∧ (sub l t).Nodup ∧ (xor l t).Nodup :=
  ⟨nodup_fromIter _, nodup_fromIter _, nodup_fromIter _, nodup_fromIter _⟩

/-- insertion order: a single add appends iff the key is new -/
theorem order_add (l : T) (k : Nat) : (k ∉ l → add k l = l ++ [k]) ∧ (k ∈ l → add k l = l) := by
  unfold add; constructor <;> intro h <;> simp [h]

/-- in-place union keeps the receiver's order and appends the unseen elements of the argument in the
    argument's first-occurrence order; constructing from an iterable is first-occurrence de-duplication -/
theorem order_ior (l : T) (it : List Nat) :
    ior l it = l ++ (dedupFirst it).filter (fun x => !(decide (x ∈ l))) := ior_eq it l

theorem order_from_iterable (it : List Nat) : fromIter it = dedupFirst it := fromIter_eq_dedupFirst it

/-- removals keep the relative order of the remaining elements -/
theorem order_discard (l : T) (h : l.Nodup) (k : Nat) : discard k l = l.filter (fun x => x != k) :=
  discard_eq_filter h
theorem order_isub (l : T) (h : l.Nodup) (it : List Nat) :
    isub l it = l.filter (fun x => !(decide (x ∈ it))) := foldl_discard_eq_filter it l h
theorem order_iand (l t : T) (h : l.Nodup) : iand l t = l.filter (fun x => decide (x ∈ t)) := iand_eq_filter h
theorem order_or (l t : T) (h : l.Nodup) :
    Pyx.OSet.or l t = l ++ (dedupFirst t).filter (fun x => !(decide (x ∈ l))) := or_eq h

/-- `==` against a duplicate-free ordered collection is list equality -/
theorem eq_spec (l : T) (other : List Nat) (ho : other.Nodup) : eqIter l other = true ↔ l = other := by
  unfold eqIter
  rw [fromIter_of_nodup ho]
  simp only [Bool.and_eq_true, beq_iff_eq]
  constructor
  · rintro ⟨_, h⟩; exact h
  · intro h; subst h; exact ⟨rfl, rfl⟩

/-- pointer level: iterating while the consumer discards the element being visited (any predicate)
    visits exactly the keys of the ring, once each, in order — for a ring of any length -/
theorem iter_remove_current (p : Nat → Bool) (as : List Nat) (s : Pyx.OSetPtr.Store) (a : Nat)
    (hn : Pyx.OSetPtr.NextChain s a as) (hp : Pyx.OSetPtr.PrevChain s as) (hnd : as.Nodup)
    (h0 : 0 ∉ as) (hk : (as.map s.key).Nodup) (hm : Pyx.OSetPtr.MapOk s as)
    (hb : ∀ b bs, as = b :: bs → s.prev b ∉ bs) :
    (Pyx.OSetPtr.iterRem p (as.length + 1) s a).1 = as.map s.key :=
  Pyx.OSetPtr.iterRem_spec p as s a hn hp hnd h0 hk hm hb

/-! non-vacuity: concrete states meeting the hypotheses -/
example : (run [.add 3, .add 1, .ior [5, 1, 7], .popFirst, .ixor [7, 2]]) = [1, 5, 2] := by decide
example : ([1, 5, 7] : T).Nodup ∧ eqIter [1, 5, 7] [1, 5, 7] = true ∧ eqIter [1, 5, 7] [5, 1, 7] = false := by decide
/-- a two-cell ring built by the pointer-level `add` meets the hypotheses of `iter_remove_current` -/
def ring2 : Pyx.OSetPtr.Store := Pyx.OSetPtr.add 8 (Pyx.OSetPtr.add 9 Pyx.OSetPtr.empty)
example : Pyx.OSetPtr.NextChain ring2 (ring2.next 0) [1, 2] ∧ Pyx.OSetPtr.PrevChain ring2 [1, 2] ∧
    ([1, 2].map ring2.key = [9, 8]) ∧ ring2.prev 1 = 0 ∧ ring2.map 9 = some 1 ∧ ring2.map 8 = some 2 := by
  simp [Pyx.OSetPtr.NextChain, Pyx.OSetPtr.PrevChain, ring2, Pyx.OSetPtr.add, Pyx.OSetPtr.empty, Pyx.OSetPtr.upd]

end PyxProps.C17
