import Proofs.Check
import Proofs.Query
import Gen.CheckCond
import Proofs.CheckShape

/-!
  C11 — The consistency check reports exactly the violations present.
  Property theorems only.  Model: PyxModel/Check.lean (xtuml/consistency_check.py over an explicit state:
  pools, the two link maps of every association, an attribute valuation).
-/
namespace PyxProps.C11
open Pyx.Meta Pyx.Check

/-- an (instance, end) pair is counted exactly when the partner count lies outside the end's
    multiplicity and conditionality: below 1 on an unconditional end, above 1 on a single-valued end -/
theorem end_violation_iff (cond many : Bool) (n : Nat) :
    violates cond many n = true ↔ ¬ ((if cond then 0 else 1) ≤ n ∧ (many = true ∨ n ≤ 1)) := violates_iff cond many n

/-- per direction, the number reported is the number of instances of the link's FROM class whose partner
    list violates the bounds of the far end -/
theorem link_count (w : World) (i : Nat) :
    checkLink w i true = ((w.pool (specAt w.sch i).tgtKind).filter
      (fun x => violates (specAt w.sch i).srcCond (specAt w.sch i).srcMany ((w.links i).src x).length)).length ∧
    checkLink w i false = ((w.pool (specAt w.sch i).srcKind).filter
      (fun x => violates (specAt w.sch i).tgtCond (specAt w.sch i).tgtMany ((w.links i).tgt x).length)).length := by
  unfold checkLink
  simp [List.countP_eq_length_filter]

/-- the association check sums both ends of every association (unrestricted), resp. of exactly the
    associations carrying the given number (restricted) -/
theorem assoc_count (w : World) (rel : Option String) :
    checkAssoc w rel = ((List.range w.sch.length).map (fun j =>
      if rel = none ∨ rel = some (w.sch.getD j (specAt [] 0)).rel then checkLink w j true + checkLink w j false
      else 0)).sum := by
  unfold checkAssoc
  rw [checkAssocFrom_eq]
  simp

/-- the identifier check of a class (identifier names are dict keys, hence distinct): the number of null
    identifying values plus, per identifier, the number of instances repeating an earlier instance's key -/
theorem uniq_count (w : World) (k : Kind) (ci : ClassInfo) (hk : w.classes[k]? = some ci)
    (hnd : (ci.idents.map (·.1)).Nodup) :
    checkUniq w (some k) =
      ((w.pool k).map (nullCount ci w.val)).sum +
      (ci.idents.map (fun idn => repeatsSpec (fun x => identKey w.val x idn.2) (w.pool k) [])).sum := by
  simp only [checkUniq, checkUniqClass, hk]
  rw [uniqLoop_eq ci w.val hnd]
  rfl

/-- `uniq_count` with the repetition count in DECLARATIVE form: per identifier, the number of pool positions whose
    key tuple also occurs at an EARLIER position of the pool (no seen-list, no recursion: `repeatsDecl` counts
    positions `j` with `key l[j] ∈ keys of l[0..j)`) -/
theorem uniq_count_declarative (w : World) (k : Kind) (ci : ClassInfo) (hk : w.classes[k]? = some ci)
    (hnd : (ci.idents.map (·.1)).Nodup) :
    checkUniq w (some k) =
      ((w.pool k).map (nullCount ci w.val)).sum +
      (ci.idents.map (fun idn => repeatsDecl (fun x => identKey w.val x idn.2) (w.pool k) [])).sum := by
  rw [uniq_count w k ci hk hnd]
  congr 2
  exact List.map_congr_left (fun idn _ => repeatsSpec_eq_decl _ _ _)

/-- a value is null when it is unset, or the zero id in a column typed UNIQUE_ID in any letter case
    (the empty string is not counted, as the tool documents) -/
theorem null_iff (v : Option Int) (isUid : Bool) : isNull v isUid = true ↔ v = none ∨ (isUid = true ∧ v = some 0) := by
  unfold isNull
  cases v <;> cases isUid <;> simp

/-- the unrestricted identifier check is the sum over all classes; restricted = that class only -/
theorem uniq_all (w : World) : checkUniq w none = ((List.range w.classes.length).map (fun k => checkUniq w (some k))).sum := rfl

/-- the model is reported consistent exactly when both counts are zero -/
theorem consistent_iff (w : World) : isConsistent w = true ↔ checkAssoc w none = 0 ∧ checkUniq w none = 0 := by
  unfold isConsistent
  by_cases h : checkAssoc w none = 0 <;> simp [h]

/-- command line: the error sum is positive exactly when some selected part reports a violation, and
    the exit status is non-zero exactly then -/
theorem exit_iff (w : World) (rels : List String) (kinds : List Kind) :
    exitStatus w rels kinds ≠ 0 ↔ 0 < mainErrors w rels kinds := by
  unfold exitStatus; split <;> simp_all

theorem main_positive_iff (w : World) (rels : List String) (kinds : List Kind) (hr : rels ≠ []) (hk : kinds ≠ []) :
    0 < mainErrors w rels kinds ↔ (∃ r ∈ rels, 0 < checkAssoc w (some r)) ∨ (∃ k ∈ kinds, 0 < checkUniq w (some k)) := by
  unfold mainErrors
  have h1 : rels.isEmpty = false := by cases rels <;> simp_all
  have h2 : kinds.isEmpty = false := by cases kinds <;> simp_all
  simp only [h1, h2, Bool.false_eq_true, ↓reduceIte]
  rw [← sum_pos_iff, ← sum_pos_iff]; omega

theorem main_unrestricted (w : World) : mainErrors w [] [] = checkAssoc w none + checkUniq w none := by
  simp [mainErrors]

/-- no false positive: when every end of every association is within its bounds the association check
    reports nothing; when identifying values are non-null and the keys of every identifier pairwise
    distinct the identifier check reports nothing -/
theorem no_false_positive_assoc (w : World)
    (h : ∀ i, (∀ x ∈ w.pool (specAt w.sch i).tgtKind,
          violates (specAt w.sch i).srcCond (specAt w.sch i).srcMany ((w.links i).src x).length = false) ∧
        (∀ x ∈ w.pool (specAt w.sch i).srcKind,
          violates (specAt w.sch i).tgtCond (specAt w.sch i).tgtMany ((w.links i).tgt x).length = false)) :
    checkAssoc w none = 0 := by
  rw [assoc_count, sum_eq_zero_iff]
  intro j _
  have hj := h j
  simp only [true_or, ↓reduceIte]
  have h1 : checkLink w j true = 0 := by
    unfold checkLink; simp only [↓reduceIte]
    rw [List.countP_eq_zero]; intro x hx; simp [hj.1 x hx]
  have h2 : checkLink w j false = 0 := by
    unfold checkLink; simp only [Bool.false_eq_true, ↓reduceIte]
    rw [List.countP_eq_zero]; intro x hx; simp [hj.2 x hx]
  omega

theorem no_false_positive_uniq (w : World) (k : Kind) (ci : ClassInfo) (hk : w.classes[k]? = some ci)
    (hnd : (ci.idents.map (·.1)).Nodup)
    (hnull : ∀ x ∈ w.pool k, nullCount ci w.val x = 0)
    (hdist : ∀ idn ∈ ci.idents, ((w.pool k).map (fun x => identKey w.val x idn.2)).Nodup) :
    checkUniq w (some k) = 0 := by
  rw [uniq_count w k ci hk hnd]
  have h1 : ((w.pool k).map (nullCount ci w.val)).sum = 0 := (sum_eq_zero_iff _ _).2 hnull
  have h2 : (ci.idents.map (fun idn => repeatsSpec (fun x => identKey w.val x idn.2) (w.pool k) [])).sum = 0 := by
    rw [sum_eq_zero_iff]
    intro idn hidn
    exact repeatsSpec_zero _ _ [] (hdist idn hidn) (fun _ _ => by simp)
  omega

/-- tie to the source: the three decisions as TRANSLATED from xtuml/consistency_check.py on this run
    (lean/Gen/CheckCond.lean: the counting condition of check_link_integrity, the null test of
    check_uniqueness_constraint, the exit status expression) are the ones the model uses — for all
    arguments.  A change of any of these expressions in the code changes the generated file and this
    theorem is re-checked against it. -/
theorem decisions_as_in_source :
    (∀ cond many n, Pyx.Gen.CheckCond.violates cond many n = violates cond many n) ∧
    (∀ v isUid, Pyx.Gen.CheckCond.isNull v isUid = isNull v isUid) ∧
    (∀ (w : World) rels kinds, Pyx.Gen.CheckCond.exitNonZero (mainErrors w rels kinds) = decide (exitStatus w rels kinds ≠ 0)) := by
  refine ⟨?_, ?_, ?_⟩
  · intro cond many n
    unfold Pyx.Gen.CheckCond.violates violates
    cases cond <;> cases many <;> simp
  · intro v isUid
    unfold Pyx.Gen.CheckCond.isNull isNull
    cases v with
    | none => simp
    | some x =>
      cases isUid <;> simp
      by_cases hx : x = 0 <;> simp [hx]
  · intro w rels kinds
    unfold Pyx.Gen.CheckCond.exitNonZero exitStatus
    by_cases h : mainErrors w rels kinds > 0 <;> simp [h]

/-- what one accumulation statement of `main` adds to `error` (generic interpretation of the IR emitted by
    translator/gen_checkcond.py from the tail of `main` of BOTH command-line tools) -/
def iMainStmt (w : World) (rels : List String) (kinds : List Kind) : Pyx.Gen.CheckCond.MainStmt → Nat
  | .forRels => (rels.map (fun r => checkAssoc w (some r))).sum
  | .ifNoRels => if rels.isEmpty then checkAssoc w none else 0
  | .forKinds => (kinds.map (fun k => checkUniq w (some k))).sum
  | .ifNoKinds => if kinds.isEmpty then checkUniq w none else 0

/-- `error = 0; <statements>; return error` -/
def iMain (w : World) (rels : List String) (kinds : List Kind) (prog : List Pyx.Gen.CheckCond.MainStmt) : Nat :=
  (prog.map (iMainStmt w rels kinds)).sum

/-- SOURCE TIE of the two `main` functions: the model's `mainErrors` is the interpretation of the statement list read
    from xtuml/consistency_check.py AND of the one read from bridgepoint/consistency_check.py on this run, and both
    tools' exit expression is the model's — for every population and every option list.  Dropping, duplicating or
    re-guarding one of the four statements in either tool changes the generated list and this theorem fails. -/
theorem mains_as_in_source (w : World) (rels : List String) (kinds : List Kind) :
    mainErrors w rels kinds = iMain w rels kinds Pyx.Gen.CheckCond.mainXtuml ∧
    mainErrors w rels kinds = iMain w rels kinds Pyx.Gen.CheckCond.mainBridgepoint ∧
    Pyx.Gen.CheckCond.exitNonZeroBp (mainErrors w rels kinds) = decide (exitStatus w rels kinds ≠ 0) := by
  refine ⟨?_, ?_, ?_⟩
  · unfold mainErrors iMain Pyx.Gen.CheckCond.mainXtuml
    simp only [List.map_cons, List.map_nil, List.sum_cons, List.sum_nil, iMainStmt]
    cases hr : rels.isEmpty <;> cases hk : kinds.isEmpty <;>
      simp_all [List.isEmpty_iff]
  · unfold mainErrors iMain Pyx.Gen.CheckCond.mainBridgepoint
    simp only [List.map_cons, List.map_nil, List.sum_cons, List.sum_nil, iMainStmt]
    cases hr : rels.isEmpty <;> cases hk : kinds.isEmpty <;>
      simp_all [List.isEmpty_iff]
  · unfold Pyx.Gen.CheckCond.exitNonZeroBp exitStatus
    by_cases h : mainErrors w rels kinds > 0 <;> simp [h]

/-! non-vacuity: a 1:1 unconditional association with one unlinked target instance, one class with a
    duplicated identifier and a null id -/
def w0 : World :=
  { sch := [{ rel := "R1", srcKind := 0, srcKeys := ["B_Id"], srcMany := false, srcCond := false, srcPhrase := "",
              tgtKind := 1, tgtKeys := ["Id"], tgtMany := false, tgtCond := true, tgtPhrase := "" }],
    classes := [{ attrs := [("Id", true), ("B_Id", true)], idents := [("I1", ["Id"])], identifying := ["Id"] },
                { attrs := [("Id", true)], idents := [("I1", ["Id"])], identifying := ["Id"] }],
    pool := fun k => if k = 0 then [0, 1] else [2, 3],
    links := fun _ => { src := fun x => if x = 2 then [0] else [], tgt := fun x => if x = 0 then [2] else [] },
    val := fun x n => if n = "Id" then (if x = 3 then some 0 else some 7) else none,
    kindOf := fun x => if x < 2 then 0 else 1, count := 4 }
example : checkAssoc w0 none = 1 ∧ checkAssoc w0 (some "R9") = 0 ∧ checkUniq w0 (some 0) = 1 ∧ checkUniq w0 (some 1) = 1 ∧
    isConsistent w0 = false ∧ exitStatus w0 [] [] = 1 := by decide

/-- non-vacuity of `mains_as_in_source`: on `w0` the interpreted statement lists give the counts of the parts selected, and a
    `main` that lost its unrestricted uniqueness fall-back (a different list) is a different function -/
example : iMain w0 [] [] Pyx.Gen.CheckCond.mainBridgepoint = 3 ∧ iMain w0 ["R9"] [] Pyx.Gen.CheckCond.mainXtuml = 2 ∧
    iMain w0 ["R1"] [0] Pyx.Gen.CheckCond.mainBridgepoint = 2 ∧
    iMain w0 [] [] [.forRels, .ifNoRels, .forKinds] = 1 := by decide

/-- `check_subtype_integrity(m, super_kind, rel)`: when no navigation raises (every link key of the supertype class
    with the rel id can be navigated from every pool instance), the count is exactly the number of instances of
    the class for which EVERY link key with that rel id has an empty partner list — the model's `navSubtype`
    (C09 `nav_subtype_spec`: first key that yields an instance, else nothing) says "nothing" for exactly those -/
theorem subtype_count (w : World) (k : Kind) (rel : String) (hkind : ∀ x ∈ w.pool k, w.kindOf x = k)
    (hnav : ∀ x ∈ w.pool k, ∀ e ∈ Pyx.Query.linkDict w.sch k, e.rel = rel →
      ∃ l, Pyx.Query.navigate w.sch w.toState x e.toKind rel "" = some l) :
    checkSubtype w k rel = (w.pool k).countP (fun x => noSubtype w.sch w.toState x rel (Pyx.Query.linkDict w.sch k)) := by
  unfold checkSubtype
  apply countP_congr'
  intro x hx
  have hk : w.toState.kindOf x = k := hkind x hx
  unfold Pyx.Query.navSubtype
  rw [hk]
  exact navSubtypeFrom_nothing_iff w.sch w.toState x rel _ (hnav x hx)

/-- in terms of the links themselves: when the link keys of the supertype class are pairwise distinct and its
    links with the rel id carry the empty phrase (as subtype associations do), no navigation raises, and the count
    is the number of instances that have no partner over ANY of the class's links with that rel id -/
theorem subtype_count_links (w : World) (k : Kind) (rel : String) (hkind : ∀ x ∈ w.pool k, w.kindOf x = k)
    (hd : Pyx.Query.KeysDistinct (Pyx.Query.linkEntriesFrom k 0 w.sch))
    (hph : ∀ e ∈ Pyx.Query.linkEntriesFrom k 0 w.sch, e.rel = rel → e.phrase = "") :
    checkSubtype w k rel = (w.pool k).countP (fun x =>
      (Pyx.Query.linkEntriesFrom k 0 w.sch).all (fun e => !(e.rel == rel) || (Pyx.Query.followEntry w.toState e x).isEmpty)) := by
  have hdict := Pyx.Query.linkDict_distinct w.sch k hd
  have hnavE : ∀ x ∈ w.pool k, ∀ e ∈ Pyx.Query.linkEntriesFrom k 0 w.sch, e.rel = rel →
      Pyx.Query.navigate w.sch w.toState x e.toKind rel "" = some (Pyx.Query.followEntry w.toState e x) := by
    intro x hx e he hr
    apply Pyx.Query.navigate_direct'
    have hk : w.toState.kindOf x = k := hkind x hx
    rw [hk, hdict]
    have := Pyx.Query.lookupKey_of_mem _ e hd he
    rw [hr, hph e he hr] at this
    exact this
  rw [subtype_count w k rel hkind (by
    intro x hx e he hr
    rw [hdict] at he
    exact ⟨_, hnavE x hx e he hr⟩)]
  apply countP_congr'
  intro x hx
  unfold noSubtype
  rw [hdict]
  apply all_congr_mem
  intro e he
  by_cases hr : e.rel = rel
  · simp only [hr, beq_self_eq_true, Bool.not_true, Bool.false_or, keyEmpty]
    rw [hnavE x hx e he hr]
  · have hb : (e.rel == rel) = false := by simpa using hr
    simp [hb]

/-! non-vacuity: supertype class 0 with subtypes 1 and 2 over R3; instance 0 has a subtype of class 2, instance 1 none -/
def wSub : World :=
  { sch := [{ rel := "R3", srcKind := 1, srcKeys := ["Id"], srcMany := false, srcCond := true, srcPhrase := "",
              tgtKind := 0, tgtKeys := ["Id"], tgtMany := false, tgtCond := true, tgtPhrase := "" },
            { rel := "R3", srcKind := 2, srcKeys := ["Id"], srcMany := false, srcCond := true, srcPhrase := "",
              tgtKind := 0, tgtKeys := ["Id"], tgtMany := false, tgtCond := true, tgtPhrase := "" }],
    classes := [],
    pool := fun k => if k = 0 then [0, 1] else if k = 2 then [7] else [],
    links := fun i => if i = 1 then { src := fun x => if x = 0 then [7] else [], tgt := fun x => if x = 7 then [0] else [] }
                      else emptyLinks,
    val := fun _ _ => none,
    kindOf := fun x => if x = 7 then 2 else 0, count := 8 }
example : Pyx.Query.KeysDistinct (Pyx.Query.linkEntriesFrom 0 0 wSub.sch) ∧
    (∀ e ∈ Pyx.Query.linkEntriesFrom 0 0 wSub.sch, e.rel = "R3" → e.phrase = "") ∧ (∀ x ∈ wSub.pool 0, wSub.kindOf x = 0) := by
  unfold Pyx.Query.KeysDistinct; decide
example : checkSubtype wSub 0 "R3" = 1 ∧
    (wSub.pool 0).countP (fun x => (Pyx.Query.linkEntriesFrom 0 0 wSub.sch).all
      (fun e => !(e.rel == "R3") || (Pyx.Query.followEntry wSub.toState e x).isEmpty)) = 1 := by decide

section SourceShape
open Pyx.CShape Pyx.Gen.CheckShape

/-! ### the loop structure of xtuml/consistency_check.py (`Gen/CheckShape.lean`, regenerated from the source on every run)

  `interp w f args` (Proofs/CheckShape.lean) is the generic interpretation of the IR of the function `f` over the world `w`:
  the collections the loops range over, navigations, conditions, counters, dictionaries and `continue` mean what they mean for
  ANY IR value; the counting condition / the null test are the functions gen_checkcond.py translates from the same
  statements; a call of check_link_integrity means what the model says it returns.  Each theorem: the function, as it stands
  in the source now, returns the model's count — for every world. -/

/-- check_subtype_integrity: for every instance of `m.select_many(super_kind)`, counted iff `not xtuml.navigate_subtype(inst,
    rel_id)` (no navigation raising: an UnknownLinkException would leave the function, the model counts it) -/
theorem subtype_integrity_as_in_source (w : World) (k : Kind) (rel : String)
    (hnav : ∀ x ∈ w.pool k, Pyx.Query.navSubtype w.sch w.toState x rel ≠ none) :
    interp w check_subtype_integrity [.model, .cls k, .str rel] = some (.nat (checkSubtype w k rel)) :=
  check_subtype_eq w k rel hnav

/-- check_link_integrity: for every instance of `link.from_metaclass.select_many()`, `q_set = list(link.navigate(inst))`,
    counted iff the counting condition (Gen.CheckCond.violates) holds of len(q_set), link.conditional, link.many -/
theorem link_integrity_as_in_source (w : World) (i : Nat) (isSrc : Bool) :
    interp w check_link_integrity [.model, .link i isSrc] = some (.nat (checkLink w i isSrc)) :=
  check_link_eq w i isSrc

/-- check_association_integrity: for every association of `m.associations` with `rel_id in [ass.rel_id, None]`, source_link
    then target_link, summed -/
theorem association_integrity_as_in_source (w : World) (rel : Option String) :
    interp w check_association_integrity [.model, relV rel] = some (.nat (checkAssoc w rel)) :=
  check_association_eq w rel

/-! non-vacuity: applied to wSub, and hand-MUTATED IRs (the rewrites of seeds C11-o / C11-r are outside the fragment: the
    generator raises; these stay inside it) that give another count -/

def natOf : Option V → Option Nat
  | some (.nat n) => some n
  | _ => none

example : interp wSub check_subtype_integrity [.model, .cls 0, .str "R3"] = some (.nat 1) :=
  (subtype_integrity_as_in_source wSub 0 "R3" (by decide)).trans (congrArg (fun n => some (V.nat n)) (by decide))

/-- MUTATION: the branches swapped — the OTHER instance (the one with a subtype) is counted; counting in both branches: 2 -/
example : natOf (interp wSub { check_subtype_integrity with body :=
    [ .normRel "rel_id", .assign "res" (.nat 0),
      .forIn ["inst"] (.selectMany "m" "super_kind") [
        .ifC (.notE (.navigateSubtype "inst" "rel_id")) [] [ .incr "res", .log ] ],
      .ret "res" ] } [.model, .cls 0, .str "R3"]) = some 1 ∧ checkSubtype wSub 0 "R3" = 1 ∧
    natOf (interp wSub { check_subtype_integrity with body :=
    [ .normRel "rel_id", .assign "res" (.nat 0),
      .forIn ["inst"] (.selectMany "m" "super_kind") [
        .ifC (.notE (.navigateSubtype "inst" "rel_id")) [ .incr "res", .log ] [ .incr "res" ] ],
      .ret "res" ] } [.model, .cls 0, .str "R3"]) = some 2 := by decide +kernel

/-- one association 0 --R1--> 1, unconditional single-valued at both ends; instance 0 of class 0 has no partner -/
def wLink : World :=
  { sch := [{ rel := "R1", srcKind := 0, srcKeys := ["Id"], srcMany := false, srcCond := false, srcPhrase := "",
              tgtKind := 1, tgtKeys := ["Id"], tgtMany := false, tgtCond := false, tgtPhrase := "" }],
    classes := [], pool := fun k => if k = 0 then [0, 1] else if k = 1 then [5] else [],
    links := fun _ => { src := fun x => if x = 5 then [1] else [], tgt := fun x => if x = 1 then [5] else [] },
    val := fun _ _ => none, kindOf := fun x => if x = 5 then 1 else 0, count := 6 }

example : interp wLink check_association_integrity [.model, relV none] = some (.nat 1) ∧
    interp wLink check_association_integrity [.model, relV (some "R9")] = some (.nat 0) :=
  ⟨(association_integrity_as_in_source wLink none).trans (congrArg (fun n => some (V.nat n)) (by decide)),
   (association_integrity_as_in_source wLink (some "R9")).trans (congrArg (fun n => some (V.nat n)) (by decide))⟩

/-- MUTATION: only the source_link is checked — the unrelated instance (seen from the target_link) is missed -/
example : natOf (interp wLink { check_association_integrity with body :=
    [ .normRel "rel_id", .assign "res" (.nat 0),
      .forIn ["ass"] (.field "m" "associations") [
        .ifC (.inList "rel_id" [(.field "ass" "rel_id"), .none]) [
          .addTo "res" (.callOn "check_link_integrity" "m" "ass" "source_link") ] [] ],
      .ret "res" ] } [.model, relV none]) = some 0 := by decide +kernel

/-- sample world for check_uniqueness_constraint: two identifiers, a repeated attribute name in one, a non-identifying
    attribute, nulls (used by the kernel-evaluated samples and by the application of `uniqueness_as_in_source` below) -/
def wU : World :=
  { sch := [],
    classes := [{ attrs := [("a", false), ("b", true), ("c", false)], idents := [("I1", ["a", "b", "a"]), ("I2", ["b"])],
                  identifying := ["a", "b"] }],
    pool := fun k => if k = 0 then [0, 1, 2] else [],
    links := fun _ => emptyLinks,
    val := fun x n => if x = 2 then (if n = "b" then some 0 else none) else if n = "a" then some 1 else if n = "b" then some 2 else none,
    kindOf := fun _ => 0, count := 3 }

example : natOf (interp w0 check_uniqueness_constraint [.model, .cls 0]) = some (checkUniq w0 (some 0)) ∧
    natOf (interp w0 check_uniqueness_constraint [.model, .cls 1]) = some (checkUniq w0 (some 1)) ∧
    natOf (interp w0 check_uniqueness_constraint [.model, .none]) = some (checkUniq w0 none) ∧
    natOf (interp wU check_uniqueness_constraint [.model, .cls 0]) = some (checkUniq wU (some 0)) ∧
    natOf (interp wU check_uniqueness_constraint [.model, .none]) = some 4 ∧ checkUniq wU none = 4 := by decide

/-- check_uniqueness_constraint, for EVERY world: the interpretation of the generated loop nest — `metaclasses` by `kind is
    None`; per class: id_map initialised per identifier of `metaclass.indices`, `identifying` = the upper-cased
    identifying_attributes; per instance of `metaclass.select_many()`: the loop over `metaclass.attributes` with its `continue`
    for `name.upper() not in identifying`, `getattr`, the null test, `res += 1`; then per identifier: the kwargs dictionary over
    `metaclass.indices[identifier]`, `frozenset(kwargs.items())`, the membership test in `id_map[identifier]` BEFORE the key is
    stored, `res += 1` — returns the model's `checkUniq w kind`.  Hypotheses, exactly:
      * a restricting `kind` names a class of the world (`find_metaclass` raises otherwise; the model returns 0);
      * `UniqOK ci` for every class: (1) the identifier names are distinct (they are the keys of the dict `metaclass.indices`),
        (2) LETTER-CASE AGREEMENT: for every declared attribute `a`, `a.upper()` is among the upper-cased identifying
        attribute names exactly when `a` itself is among the identifying attribute names as the model lists them.  (2) is
        what the repair of seed dfbbd44 is about: the source compares UPPER-CASED names (an identifier may have been defined
        with another spelling than the class), the model compares the names as given — they agree when the spellings agree up
        to what `upper` identifies, e.g. when `identifying` is listed in the spelling of the class (as the harness does). -/
theorem uniqueness_as_in_source (w : World) (kind : Option Kind) (hk : ∀ k, kind = some k → k < w.classes.length)
    (hok : ∀ ci ∈ w.classes,
      (ci.idents.map (·.1)).Nodup ∧
      ∀ a ∈ ci.attrs, (ci.identifying.map up).contains (up a.1) = ci.identifying.contains a.1) :
    interp w check_uniqueness_constraint [.model, kindV kind] = some (.nat (checkUniq w kind)) :=
  check_uniqueness_eq w kind hk hok

/-- the hypotheses are satisfiable: on `wU` and on `w0`; `uniqueness_as_in_source` applied -/
example : (∀ ci ∈ wU.classes, (ci.idents.map (·.1)).Nodup ∧
      ∀ a ∈ ci.attrs, (ci.identifying.map up).contains (up a.1) = ci.identifying.contains a.1) ∧
    (∀ ci ∈ w0.classes, (ci.idents.map (·.1)).Nodup ∧
      ∀ a ∈ ci.attrs, (ci.identifying.map up).contains (up a.1) = ci.identifying.contains a.1) := by decide

example : interp wU check_uniqueness_constraint [.model, .none] = some (.nat 4) ∧
    interp wU check_uniqueness_constraint [.model, .cls 0] = some (.nat 4) :=
  ⟨(uniqueness_as_in_source wU none (by intro k h; cases h) (by decide)).trans (congrArg (fun n => some (V.nat n)) (by decide)),
   (uniqueness_as_in_source wU (some 0) (by intro k h; cases h; decide) (by decide)).trans
     (congrArg (fun n => some (V.nat n)) (by decide))⟩

/-- the second hypothesis is needed: identifying attribute "ID" for the declared attribute "Id" (another spelling) — the source
    (upper-cased comparison) counts the null, the model (names as given) does not -/
example :
    let w : World := { wU with classes := [{ attrs := [("Id", false)], idents := [], identifying := ["ID"] }] }
    natOf (interp w check_uniqueness_constraint [.model, .none]) = some 3 ∧ checkUniq w none = 0 := by decide

end SourceShape

end PyxProps.C11
