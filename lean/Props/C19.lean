import Proofs.NewInst
import Proofs.NewShape
import Proofs.NewShapeMore

/-!
  C19 — New instances get typed defaults and fresh non-null identifiers.
  Property theorems only (helper lemmas: Proofs/NewInst.lean, Proofs/Attr.lean; model: PyxModel/NewInst.lean
  on top of PyxModel/Attr.lean, written from `MetaClass.default_value/new` and `IdGenerator/IntegerGenerator`;
  the type→default table is GENERATED from the source: Gen/MetaDefaults.lean).
-/
namespace PyxProps.C19
open Pyx.Attr Pyx.NewInst Pyx.Gen.MetaDefaults

/-- over the generated table: whatever the letter case of the type name, BOOLEAN/INTEGER/REAL/STRING default to
    false / 0 / 0.0 / '' without touching the generator, UNIQUE_ID takes `next(id_generator)`, and every other
    type name is rejected (MetaException) -/
theorem defaults_typed (stream : Nat → Int) (ty : Name) (pos : Nat) :
    (fold ty = ['B', 'O', 'O', 'L', 'E', 'A', 'N'] → typedDefault stream ty pos = some (.bool false, pos)) ∧
    (fold ty = ['I', 'N', 'T', 'E', 'G', 'E', 'R'] → typedDefault stream ty pos = some (.int 0, pos)) ∧
    (fold ty = ['R', 'E', 'A', 'L'] → typedDefault stream ty pos = some (.real ['0', '.', '0'], pos)) ∧
    (fold ty = ['S', 'T', 'R', 'I', 'N', 'G'] → typedDefault stream ty pos = some (.str [], pos)) ∧
    (fold ty = ['U', 'N', 'I', 'Q', 'U', 'E', '_', 'I', 'D'] →
      typedDefault stream ty pos = some (.int (stream pos), pos + 1)) ∧
    (fold ty ∉ [['B', 'O', 'O', 'L', 'E', 'A', 'N'], ['I', 'N', 'T', 'E', 'G', 'E', 'R'], ['R', 'E', 'A', 'L'],
        ['S', 'T', 'R', 'I', 'N', 'G'], ['U', 'N', 'I', 'Q', 'U', 'E', '_', 'I', 'D']] →
      typedDefault stream ty pos = none) ∧
    unknownRaises = ['M', 'e', 't', 'a', 'E', 'x', 'c', 'e', 'p', 't', 'i', 'o', 'n'] := by
  refine ⟨?_, ?_, ?_, ?_, ?_, ?_, by decide⟩
  · intro h; simp [typedDefault, h, tableGet, table]
  · intro h; simp [typedDefault, h, tableGet, table]
  · intro h; simp [typedDefault, h, tableGet, table]
  · intro h; simp [typedDefault, h, tableGet, table]
  · intro h; simp [typedDefault, h, tableGet, table]
  · intro h
    simp only [List.mem_cons, List.not_mem_nil, or_false, not_or] at h
    obtain ⟨h1, h2, h3, h4, h5⟩ := h
    simp [typedDefault, tableGet, table, h1, h2, h3, h4, h5]

/-- a class with a non-referential attribute of unknown type cannot be instantiated: the constructor raises -/
theorem unknown_type_rejected (stream : Nat → Int) (call : Call) (pos : Nat) (a ty : Name)
    (hm : (a, ty) ∈ call.cls.attrs) (hr : a ∉ call.cls.refs)
    (hty : fold ty ∉ [['B', 'O', 'O', 'L', 'E', 'A', 'N'], ['I', 'N', 'T', 'E', 'G', 'E', 'R'], ['R', 'E', 'A', 'L'],
        ['S', 'T', 'R', 'I', 'N', 'G'], ['U', 'N', 'I', 'Q', 'U', 'E', '_', 'I', 'D']]) :
    (newOne stream call pos).1.ok = false := by
  have hfail := computeDefaults_fail (typedDefault stream) call.cls call.cls.attrs pos a ty hm hr
    (fun p => (defaults_typed stream ty p).2.2.2.2.2.1 hty)
  unfold newOne
  simp [hfail]

/-- argument order.  For a class whose declared names are distinct after case folding, with every type known and
    ANY keyword names (a spelling of a declared attribute, referential or not, in any letter case is resolved to
    the declared name first): the constructor succeeds, and every non-referential attribute `a` holds — and reads under every
    spelling — the keyword value if one was given (the last one, if several spellings were given), else the
    positional value paired with it by `zip(attributes, args)`, else its default; that default is the typed
    default of its declared type. -/
theorem arg_order (stream : Nat → Int) (call : Call) (pos : Nat) (hwf : WF call.cls)
    (hok : (computeDefaults (typedDefault stream) call.cls call.cls.attrs pos).2.2 = true) :
    (newOne stream call pos).1.ok = true ∧
    ∀ a ∈ call.cls.names, a ∉ call.cls.refs →
      (∀ sp, fold sp = fold a → getattr call.cls (newOne stream call pos).1.dict sp =
        cellRead ((lastGiven (fold a) call.kwargs).or ((lastGiven (fold a) (call.cls.names.zip call.args)).or
          (lastGiven (fold a) (newOne stream call pos).1.defs)))) ∧
      ∃ ty v p p', (a, ty) ∈ call.cls.attrs ∧ typedDefault stream ty p = some (v, p') ∧
        lastGiven (fold a) (newOne stream call pos).1.defs = some v := by
  obtain ⟨h1, hdefs, _, hall⟩ := newOne_spec stream call pos hwf hok
  refine ⟨h1, ?_⟩
  intro a ha hr
  refine ⟨(hall a ha).2 hr, ?_⟩
  rw [hdefs]
  have hnames := computeDefaults_names (typedDefault stream) call.cls call.cls.attrs pos hok
  obtain ⟨⟨a', ty⟩, hm, rfl⟩ := List.mem_map.mp ha
  have hmem : a' ∈ (computeDefaults (typedDefault stream) call.cls call.cls.attrs pos).1.map (·.1) := by
    rw [hnames]
    exact List.mem_map.mpr ⟨(a', ty), List.mem_filter.mpr ⟨hm, by simpa using hr⟩, rfl⟩
  obtain ⟨⟨a'', v⟩, hv, rfl⟩ := List.mem_map.mp hmem
  obtain ⟨_, ty', p, p', hm', hd⟩ := computeDefaults_mem _ _ _ _ _ v hv
  exact ⟨ty', v, p, p', hm', hd, lastGiven_of_mem _ _ v (defs_nodup hwf _ pos hok) hv⟩

/-- `IntegerGenerator`: for ANY interleaving of peek / next, the values returned are those of a counter that
    starts at 1 and is advanced by `next` only — so `next` yields 1, 2, 3, …, and `peek` returns what the next
    `next` returns and never advances -/
theorem intgen_seq (ops : List GOp) :
    (IntGen.run ops IntGen.init).1 = specRun ops 1 ∧
    (IntGen.run ops IntGen.init).2.current = ((1 + countNext ops : Nat) : Int) ∧
    (∀ g : IntGen, g.peek = g.next.1) ∧
    (∀ (g : IntGen) (r : List GOp), IntGen.run (.peek :: r) g = (g.peek :: (IntGen.run r g).1, (IntGen.run r g).2)) := by
  have h := intGen_run ops 1
  have hi : IntGen.init = { current := ((1 : Nat) : Int) } := by simp [IntGen.init, IntGen.readfunc]
  rw [hi, h]
  exact ⟨rfl, rfl, fun _ => rfl, fun _ _ => rfl⟩

/-- consecutive `next` calls yield 1, 2, 3, … -/
theorem intgen_counts (n : Nat) :
    (IntGen.run (List.replicate n .next) IntGen.init).1 = (List.range' 1 n).map fun (k : Nat) => (k : Int) := by
  rw [(intgen_seq _).1]
  have h : ∀ (n s : Nat), specRun (List.replicate n .next) s = (List.range' s n).map fun (k : Nat) => (k : Int) := by
    intro n
    induction n with
    | zero => intro s; rfl
    | succ n ih => intro s; simp [List.replicate_succ, specRun, List.range'_succ, ih]
  exact h n 1

/-- seen from outside, `IntegerGenerator` is the generator whose k-th value is k + 1 (same answers to every
    interleaving of peek / next); that stream is injective and never the null id 0 -/
theorem intgen_stream (ops : List GOp) :
    (IntGen.run ops IntGen.init).1 = (IdGen.run ops { stream := intStream, pos := 0 }).1 ∧
    (∀ i j, intStream i = intStream j → i = j) ∧ (∀ i, intStream i ≠ 0) := by
  refine ⟨?_, intStream_inj, intStream_ne_zero⟩
  rw [(intgen_seq ops).1, idGen_run, specRunS_int]

/-- fresh ids.  For ANY generator whose stream is injective and never null, any sequence of constructor calls
    on one metamodel (any classes with case-distinct declared names, any mix of positional / keyword / omitted
    arguments, including calls that fail on an unknown type, and calls that supply ids explicitly — those
    still consume a generator value): the unique ids left to their default, over all created instances, are
    integers, none is the null id 0, and no two of them are equal. -/
theorem ids_fresh (stream : Nat → Int) (hinj : ∀ i j, stream i = stream j → i = j) (hnn : ∀ i, stream i ≠ 0)
    (calls : List Call) (pos : Nat)
    (hc : ∀ call ∈ calls, WF call.cls) :
    (allDefaultedIds calls (newMany stream calls pos).1).Nodup ∧
    ∀ x ∈ allDefaultedIds calls (newMany stream calls pos).1, ∃ i : Int, x = some (.int i) ∧ i ≠ 0 := by
  obtain ⟨_, hs⟩ := newMany_ids stream calls pos hc
  constructor
  · apply hs.nodup
    apply nodup_map_inj
    · intro a b h
      simp only [Option.some.injEq, Val.int.injEq] at h
      exact hinj a b h
    · exact List.nodup_range' 1
  · intro x hx
    obtain ⟨p, _, rfl⟩ := List.mem_map.mp (hs.subset hx)
    exact ⟨stream p, rfl, hnn p⟩

/-- … in particular with the integer generator -/
theorem ids_fresh_integer (calls : List Call) (pos : Nat)
    (hc : ∀ call ∈ calls, WF call.cls) :
    (allDefaultedIds calls (newMany intStream calls pos).1).Nodup ∧
    ∀ x ∈ allDefaultedIds calls (newMany intStream calls pos).1, ∃ i : Int, x = some (.int i) ∧ i ≠ 0 :=
  ids_fresh intStream intStream_inj intStream_ne_zero calls pos hc

/-- … and with a user-supplied counting generator `start, start + step, …` (positive start and step); the
    integer generator is the instance `start = step = 1` -/
theorem ids_fresh_counting (start step : Int) (hs : 0 < start) (ht : 0 < step) (calls : List Call) (pos : Nat)
    (hc : ∀ call ∈ calls, WF call.cls) :
    (allDefaultedIds calls (newMany (linStream start step) calls pos).1).Nodup ∧
    ∀ x ∈ allDefaultedIds calls (newMany (linStream start step) calls pos).1, ∃ i : Int, x = some (.int i) ∧ i ≠ 0 := by
  apply ids_fresh _ _ _ calls pos hc
  · intro i j h
    unfold linStream at h
    have h' : step * (i : Int) = step * (j : Int) := by omega
    have := Int.eq_of_mul_eq_mul_left (Int.ne_of_gt ht) h'
    omega
  · intro i
    unfold linStream
    have : 0 ≤ step * (i : Int) := Int.mul_nonneg (Int.le_of_lt ht) (Int.natCast_nonneg i)
    omega

theorem lin_one_one : linStream 1 1 = intStream := by
  funext k
  simp only [linStream, intStream]
  omega

/-! non-vacuity -/

def cA : Cls :=
  { kind := ['A']
    attrs := [(['I', 'd'], ['u', 'n', 'i', 'q', 'u', 'e', '_', 'I', 'D']), (['N', 'm'], ['S', 't', 'r', 'i', 'n', 'g']),
              (['O', 'k'], ['b', 'o', 'o', 'l', 'e', 'a', 'n']), (['I', 'd', '2'], ['U', 'N', 'I', 'Q', 'U', 'E', '_', 'I', 'D']),
              (['R'], ['r', 'e', 'a', 'l'])]
    refs := [] }
def call1 : Call := { cls := cA, args := [], kwargs := [(['n', 'M'], .str ['x'])] }
def call2 : Call := { cls := cA, args := [.int 77], kwargs := [(['O', 'K'], .bool true)] }

example : WF cA := by unfold WF; decide
example : fold ['b', 'O', 'o', 'l', 'e', 'a', 'N'] = ['B', 'O', 'O', 'L', 'E', 'A', 'N'] := by decide
/-- two calls with the integer generator: the explicit id 77 still consumed the value 3; defaulted ids 1, 2, 4 -/
example : ((newMany intStream [call1, call2] 0).1.map (·.dict)) =
    [[(['I', 'd'], .int 1), (['N', 'm'], .str ['x']), (['O', 'k'], .bool false), (['I', 'd', '2'], .int 2), (['R'], .real ['0', '.', '0'])],
     [(['I', 'd'], .int 77), (['N', 'm'], .str []), (['O', 'k'], .bool true), (['I', 'd', '2'], .int 4), (['R'], .real ['0', '.', '0'])]] := by
  decide
example : allDefaultedIds [call1, call2] (newMany intStream [call1, call2] 0).1 =
    [some (.int 1), some (.int 2), some (.int 4)] := by decide
example : (IntGen.run [.peek, .next, .peek, .peek, .next, .next] IntGen.init).1 = [1, 1, 2, 2, 2, 3] := by decide

end PyxProps.C19

/-! ==========================================================================================================
  SOURCE TIE of instance creation and the id generators

  translator/gen_newshape.py reads the three assignment loops of `MetaClass.new` and the classes IdGenerator,
  IntegerGenerator, UUIDGenerator with `ast` on every run and emits their statement structure as IR
  (lean/Gen/NewShape.lean); anything outside the expected shape raises (broken tie) — in particular a
  `UUIDGenerator.readfunc` that is not exactly `uuid.uuid4().int`, or an `import random` next to the generators.
  Proofs/NewShape.lean defines ONE generic, statement-by-statement interpreter of that IR.  The theorems state
  that the model of PyxModel/NewInst.lean IS the interpretation of the IR generated from the current source.
  ========================================================================================================== -/
namespace PyxProps.C19
open Pyx.Attr Pyx.NewInst Pyx.NShape Pyx.Gen.NewShape

/-- `MetaClass.new`: a default for every non-referential attribute in declared order (computed, and its id drawn, when
    its statement is executed), then the positional arguments zipped over ALL declared attributes (surplus arguments
    are dropped by `zip`; a referential position goes to the local dictionary), then the keyword arguments, each
    resolved to the declared spelling first; an exception stops everything that follows -/
theorem new_loops_as_in_source (stream : Nat → Int) (call : Call) (pos : Nat) (hwf : WF call.cls) :
    newOne stream call pos = iNewOne newLoops stream call pos :=
  newOne_eq stream call pos hwf

/-- IdGenerator / IntegerGenerator: `__init__` draws the first value, `peek` returns the current value and changes
    nothing, `next` saves the current value, draws the next one and returns the saved one; the integer generator
    starts from the class attribute and adds the increment read from the source; UUIDGenerator.readfunc is
    `uuid.uuid4().int`, and the metamodel's generator is bound in MetaModel.__init__ only — no other statement of the
    library assigns an `id_generator` attribute (both checked by the generator on every run) -/
theorem generators_as_in_source (g : IntGen) :
    IntGen.init = { current := (iGRun (fun cur => cur + intIncrement) genInit intStart).current } ∧
    (iGRun (fun cur => cur + intIncrement) genPeek g.current).ret = some (IntGen.peek g) ∧
    (iGRun (fun cur => cur + intIncrement) genPeek g.current).current = g.current ∧
    (iGRun (fun cur => cur + intIncrement) genNext g.current).ret = some (IntGen.next g).1 ∧
    (IntGen.next g).2 = { current := (iGRun (fun cur => cur + intIncrement) genNext g.current).current } ∧
    uuidReadfuncIsUuid4 = true ∧ idGeneratorBoundOnlyInInit = true :=
  ⟨(intGen_eq g).1, (intGen_eq g).2.1, (intGen_eq g).2.2.1, (intGen_eq g).2.2.2.1, (intGen_eq g).2.2.2.2, rfl, rfl⟩

/-! non-vacuity: the interpreter runs the generated loops; loops in another order are another function -/
example : ((iNewOne newLoops intStream call2 2).1.dict) =
    [(['I', 'd'], .int 77), (['N', 'm'], .str []), (['O', 'k'], .bool true), (['I', 'd', '2'], .int 4), (['R'], .real ['0', '.', '0'])] := by
  decide
def call3 : Call := { cls := cA, args := [.int 77], kwargs := [(['i', 'D'], .int 5)] }
example : dget (iNewOne newLoops intStream call3 0).1.dict ['I', 'd'] = some (.int 5) ∧
    dget (iNewOne (newLoops.take 1 ++ (newLoops.drop 2) ++ (newLoops.drop 1).take 1) intStream call3 0).1.dict ['I', 'd'] = some (.int 77) := by decide
example : (iGRun (fun cur => cur + intIncrement) genNext 4).ret = some 4 ∧
    (iGRun (fun cur => cur + intIncrement) genNext 4).current = 5 := by decide
/-- other statement lists are other methods: a `return` placed before the draw ends `next` without advancing the generator
    (every call returns the same value - the ids 1, 1, 1 of the audit), a `next` without a return statement returns no value, a
    `return val` before `val` is bound returns none, and an `__init__` that does not draw starts one value early -/
example : (iGRun (fun cur => cur + intIncrement) [.saveCurrent, .returnSaved, .drawCurrent] 4).current = 4 ∧
    (iGRun (fun cur => cur + intIncrement) [.saveCurrent, .returnSaved, .drawCurrent] 4).ret = some 4 ∧
    (iGRun (fun cur => cur + intIncrement) [.saveCurrent, .drawCurrent] 4).ret = none ∧
    (iGRun (fun cur => cur + intIncrement) [.returnSaved, .saveCurrent, .drawCurrent] 4).ret = none ∧
    (iGRun (fun cur => cur + intIncrement) [.drawCurrent, .returnCurrent] 4).ret = some 5 ∧
    (iGRun (fun cur => cur + intIncrement) [] intStart).current ≠ IntGen.init.current := by decide

/-- the GENERIC generator of the model (`IdGen`: any `readfunc`, seen as the stream of the values it returns — the
    integer and the uuid generator alike): position `pos` stands for "`pos + 1` calls of `readfunc` made,
    `_current = stream pos`"; `__init__` makes call 0, `peek` returns `_current` and calls nothing, `next` returns the
    OLD `_current` and makes exactly one call — each the statement list read from the source, run on registers that
    count the calls -/
theorem id_generator_as_in_source (g : IdGen) (c0 : Int) :
    (iSRun g.stream genInit 0 c0).current = IdGen.peek { g with pos := 0 } ∧
    (iSRun g.stream genInit 0 c0).calls = 1 ∧
    (iSRun g.stream genPeek (g.pos + 1) g.peek).ret = some g.peek ∧
    (iSRun g.stream genPeek (g.pos + 1) g.peek).current = g.peek ∧
    (iSRun g.stream genPeek (g.pos + 1) g.peek).calls = g.pos + 1 ∧
    (iSRun g.stream genNext (g.pos + 1) g.peek).ret = some g.next.1 ∧
    (iSRun g.stream genNext (g.pos + 1) g.peek).current = g.next.2.peek ∧
    (iSRun g.stream genNext (g.pos + 1) g.peek).calls = g.next.2.pos + 1 ∧
    g.next.2.stream = g.stream :=
  idGen_eq g c0

/-- ANY interleaving of `peek` and `next`, on the integer generator and on the generic one: the values the model hands
    out (every call returns a value) and the generator it ends in are those of the interpreted method bodies, call
    after call -/
theorem generator_runs_as_in_source (ops : List GOp) (g : IntGen) (stream : Nat → Int) (pos : Nat) :
    (IntGen.run ops g).1.map some = (iGOps (fun cur => cur + intIncrement) genPeek genNext ops g.current).1 ∧
    (IntGen.run ops g).2.current = (iGOps (fun cur => cur + intIncrement) genPeek genNext ops g.current).2 ∧
    (IdGen.run ops ⟨stream, pos⟩).1.map some = (iSOps stream genPeek genNext ops pos).1 ∧
    (IdGen.run ops ⟨stream, pos⟩).2.pos = (iSOps stream genPeek genNext ops pos).2 ∧
    (IdGen.run ops ⟨stream, pos⟩).2.stream = stream :=
  ⟨(intGen_run_eq ops g).1, (intGen_run_eq ops g).2, (idGen_run_eq stream ops pos).1, (idGen_run_eq stream ops pos).2.1,
   (idGen_run_eq stream ops pos).2.2⟩

/-- SEQUENCES of constructor calls on one metamodel (`newMany`, the object of `ids_fresh`) and histories of creations
    interleaved with the user's own `next()` / `peek()` (`runHist`): every call runs the interpreted loops of
    `MetaClass.new` at the position the previous one left, the user's calls run the interpreted generator methods.
    Hypothesis as for a single call (`new_loops_as_in_source`): the classes' declared names are distinct after case
    folding and their referential names are declared (`WF`; discharged for the example class below) -/
theorem new_sequences_as_in_source (stream : Nat → Int) (calls : List Call) (h : List HOp) (pos : Nat)
    (hc : ∀ call ∈ calls, WF call.cls) (hh : ∀ c, HOp.create c ∈ h → WF c.cls) :
    newMany stream calls pos = iNewMany newLoops stream calls pos ∧
    runHist stream h pos = iRunHist newLoops genPeek genNext stream h pos :=
  ⟨newMany_eq stream calls pos hc, runHist_eq stream h pos hh⟩

/-! non-vacuity: the hypotheses hold for the two example calls; the interpreted sequence hands out the ids 1, 2 and 4
    (the explicit 77 consumed 3), a user `next()` in between moves them on; a `next` that returned before drawing
    would hand every instance after it the value the user already got -/
example : ∀ call ∈ [call1, call2], WF call.cls := by
  intro c hc
  simp only [List.mem_cons, List.not_mem_nil, or_false] at hc
  rcases hc with rfl | rfl <;> (unfold WF; decide)
example : allDefaultedIds [call1, call2] (iNewMany newLoops intStream [call1, call2] 0).1 =
      [some (.int 1), some (.int 2), some (.int 4)] ∧
    histDefaultedIds (iRunHist newLoops genPeek genNext intStream [.create call1, .next, .peek, .create call2] 0).1 =
      [some (.int 1), some (.int 2), some (.int 5)] ∧
    histDefaultedIds (iRunHist newLoops genPeek [.saveCurrent, .returnSaved, .drawCurrent] intStream
      [.create call1, .next, .peek, .create call2] 0).1 = [some (.int 1), some (.int 2), some (.int 4)] ∧
    (iGOps (fun cur => cur + intIncrement) genPeek genNext [.peek, .next, .peek, .peek, .next, .next] 1).1 =
      [some 1, some 1, some 2, some 2, some 2, some 3] ∧
    (iSOps (linStream 10 5) genPeek genNext [.next, .peek, .next] 0) = ([some 10, some 15, some 15], 2) := by decide

end PyxProps.C19

/-! ==========================================================================================================
  AUDIT ROUND 1 REPAIRS (C19#1, #2, #3, #4)
  ========================================================================================================== -/
namespace PyxProps.C19
open Pyx.Attr Pyx.NewInst

/-- C19#1 — the function the driver runs (`NewInst.newInst` = `Attr.newInstWith (typedDefault stream)`, the world-level
    `MetaModel.new`) is built on the function the theorems are about: `newOne` IS its creation part `Attr.newDict`; the
    instance the driver's `new` appends to the storage holds `newOne`'s dictionary, the generator ends at `newOne`'s
    position, and a failed `newOne` is reported as MetaException.  (The batch relate that follows only touches links.) -/
theorem driver_new_is_newOne (stream : Nat → Int) (w : World) (kind : Name) (args : List Val) (kwargs : List (Name × Val))
    (c : Cls) (hc : findMetaclass w.classes kind = some c) :
    newOne stream ⟨c, args, kwargs⟩ w.nextId =
      ({ dict := (newDict (typedDefault stream) c args kwargs w.nextId).1.dict,
         defs := (newDict (typedDefault stream) c args kwargs w.nextId).2.1,
         ok := (newDict (typedDefault stream) c args kwargs w.nextId).2.2.2 },
       (newDict (typedDefault stream) c args kwargs w.nextId).2.2.1) ∧
    (newInst stream w kind args kwargs).1.insts =
      w.insts ++ [{ cls := fold kind, dict := (newOne stream ⟨c, args, kwargs⟩ w.nextId).1.dict }] ∧
    (newInst stream w kind args kwargs).1.nextId = (newOne stream ⟨c, args, kwargs⟩ w.nextId).2 ∧
    ((newOne stream ⟨c, args, kwargs⟩ w.nextId).1.ok = false → (newInst stream w kind args kwargs).2 = some .metaE) :=
  ⟨newOne_eq_newDict stream ⟨c, args, kwargs⟩ w.nextId, newInst_is_newOne stream w kind args kwargs c hc⟩

/-- C19#3 — histories in which creations are interleaved with the user's own `next()` and `peek()` on the
    metamodel's generator (the quantifier of the property): for any injective, never-null stream the ids left to their
    default are non-null and pairwise distinct; a user's `next()` consumes a value that no instance receives, `peek()`
    consumes nothing -/
theorem ids_fresh_history (stream : Nat → Int) (hinj : ∀ i j, stream i = stream j → i = j) (hnn : ∀ i, stream i ≠ 0)
    (h : List HOp) (pos : Nat) (hwf : ∀ c, HOp.create c ∈ h → WF c.cls) :
    (histDefaultedIds (runHist stream h pos).1).Nodup ∧
    ∀ x ∈ histDefaultedIds (runHist stream h pos).1, ∃ p : Nat, pos ≤ p ∧ x = some (.int (stream p)) ∧ stream p ≠ 0 := by
  obtain ⟨_, hs⟩ := runHist_ids stream h pos hwf
  constructor
  · apply hs.nodup
    apply nodup_map_inj
    · intro a b hab
      simp only [Option.some.injEq, Val.int.injEq] at hab
      exact hinj a b hab
    · exact List.nodup_range' 1
  · intro x hx
    obtain ⟨p, hp, rfl⟩ := List.mem_map.mp (hs.subset hx)
    exact ⟨p, (List.mem_range'_1.mp hp).1, rfl, hnn p⟩

/-- C19#2 — what freshness does and does not cover.  `ids_fresh` / `ids_fresh_history` are about ids LEFT TO THEIR
    DEFAULT: they never repeat among themselves.  An id supplied EXPLICITLY by the caller is not drawn from the generator
    and can coincide with a defaulted one (IntegerGenerator: `new('A', Id=2); new('A')` gives two instances with Id 2 —
    see the example below).  What can be said: a defaulted id is always a value of the generator's stream, so it differs
    from every explicit id that is not such a value — for the integer generator: from every explicit id ≤ 0, and from
    every explicit id larger than the number of values drawn so far -/
theorem ids_fresh_vs_explicit (stream : Nat → Int) (h : List HOp) (pos : Nat) (hwf : ∀ c, HOp.create c ∈ h → WF c.cls)
    (v : Int) :
    ((∀ k, stream k ≠ v) → ∀ x ∈ histDefaultedIds (runHist stream h pos).1, x ≠ some (.int v)) ∧
    ((∀ k, pos ≤ k → k < (runHist stream h pos).2 → stream k ≠ v) →
      ∀ x ∈ histDefaultedIds (runHist stream h pos).1, x ≠ some (.int v)) := by
  obtain ⟨_, hs⟩ := runHist_ids stream h pos hwf
  constructor
  · intro hv x hx he
    obtain ⟨p, _, rfl⟩ := List.mem_map.mp (hs.subset hx)
    simp only [Option.some.injEq, Val.int.injEq] at he
    exact hv p he
  · intro hv x hx he
    obtain ⟨p, hp, rfl⟩ := List.mem_map.mp (hs.subset hx)
    simp only [Option.some.injEq, Val.int.injEq] at he
    have := List.mem_range'_1.mp hp
    exact hv p this.1 (by omega) he

theorem integer_ids_vs_explicit (h : List HOp) (hwf : ∀ c, HOp.create c ∈ h → WF c.cls) (v : Int)
    (hv : v ≤ 0 ∨ ((runHist intStream h 0).2 : Int) < v) :
    ∀ x ∈ histDefaultedIds (runHist intStream h 0).1, x ≠ some (.int v) := by
  apply (ids_fresh_vs_explicit intStream h 0 hwf v).2
  intro k _ hk
  unfold intStream
  omega

/-! examples (C19#2: the disclosed collision; C19#3: a history with next/peek; C19#4: an unknown type and a class
    with a referential attribute) -/
def cId : Cls := { kind := ['A'], attrs := [(['I', 'd'], ['u', 'n', 'i', 'q', 'u', 'e', '_', 'i', 'd'])], refs := [] }
/-- `new('A', Id=2); new('A')` with the integer generator: the explicit 2 and the defaulted 2 coincide — and the
    defaulted ids alone ([2]) are still pairwise distinct -/
example : ((runHist intStream [.create ⟨cId, [], [(['I', 'D'], .int 2)]⟩, .create ⟨cId, [], []⟩] 0).1.map (·.2.dict)) =
      [[(['I', 'd'], .int 2)], [(['I', 'd'], .int 2)]] ∧
    histDefaultedIds (runHist intStream [.create ⟨cId, [], [(['I', 'D'], .int 2)]⟩, .create ⟨cId, [], []⟩] 0).1 = [some (.int 2)] := by
  decide
example : histDefaultedIds (runHist intStream [.create ⟨cId, [], []⟩, .next, .peek, .create ⟨cId, [], []⟩, .next, .create call1] 0).1 =
    [some (.int 1), some (.int 3), some (.int 5), some (.int 6)] := by decide
def cBad : Cls := { kind := ['B'], attrs := [(['I', 'd'], ['U', 'N', 'I', 'Q', 'U', 'E', '_', 'I', 'D']), (['x'], ['f', 'o', 'o']), (['y'], ['i', 'n', 't', 'e', 'g', 'e', 'r'])], refs := [] }
example : (newOne intStream ⟨cBad, [], []⟩ 0).1.dict = [(['I', 'd'], .int 1)] ∧ (newOne intStream ⟨cBad, [], []⟩ 0).1.ok = false ∧
    (newOne intStream ⟨cBad, [], []⟩ 0).2 = 1 := by decide
def cRef : Cls := { kind := ['C'], attrs := [(['I', 'd'], ['u', 'n', 'i', 'q', 'u', 'e', '_', 'i', 'd']), (['A', '_', 'I', 'd'], ['u', 'n', 'i', 'q', 'u', 'e', '_', 'i', 'd'])], refs := [['A', '_', 'I', 'd']] }
example : WF cRef ∧ ((newOne intStream ⟨cRef, [], [(['a', '_', 'i', 'D'], .int 7)]⟩ 0).1.dict = [(['I', 'd'], .int 1)] ∧
    (newOne intStream ⟨cRef, [], [(['a', '_', 'i', 'D'], .int 7)]⟩ 0).1.ok = true) ∧
    defaultedIdAttrs ⟨cRef, [], [(['a', '_', 'i', 'D'], .int 7)]⟩ = [['I', 'd']] := by
  refine ⟨by unfold WF; decide, by decide, by decide⟩

end PyxProps.C19

/-! ==========================================================================================================
  APPLIED examples (audit round 2, item 12)
  ========================================================================================================== -/
namespace PyxProps.C19
open Pyx.Attr Pyx.NewInst

theorem cId_wf : WF cId := by unfold WF; decide
def histEx : List HOp := [.create ⟨cId, [], []⟩, .next, .peek, .create ⟨cId, [], [(['I', 'D'], .int 9)]⟩, .create ⟨cId, [], []⟩]
theorem histEx_wf : ∀ c, HOp.create c ∈ histEx → WF c.cls := by
  intro c hc
  simp only [histEx, List.mem_cons, HOp.create.injEq, List.not_mem_nil, or_false, reduceCtorEq, false_or] at hc
  rcases hc with rfl | rfl | rfl <;> exact cId_wf

/-- `ids_fresh_history` applied to the integer stream and a history with a user's `next` / `peek` and an explicit id: the
    defaulted ids (1 and 4: the user's `next` took 2, the explicit creation consumed 3) are distinct, non-null values of
    the stream -/
example : (histDefaultedIds (runHist intStream histEx 0).1).Nodup ∧
    (∀ x ∈ histDefaultedIds (runHist intStream histEx 0).1, ∃ p : Nat, 0 ≤ p ∧ x = some (.int (intStream p)) ∧ intStream p ≠ 0) ∧
    histDefaultedIds (runHist intStream histEx 0).1 = [some (.int 1), some (.int 4)] :=
  ⟨(ids_fresh_history intStream intStream_inj intStream_ne_zero histEx 0 histEx_wf).1,
   (ids_fresh_history intStream intStream_inj intStream_ne_zero histEx 0 histEx_wf).2, by decide⟩

/-- `driver_new_is_newOne` applied to the world the driver reaches after `define A (Id unique_id)`: the instance that
    `new('a')` appends holds `newOne`'s dictionary ([Id ↦ 1]) and the generator moves to `newOne`'s position -/
def wA : World := { World.empty with classes := [(['A'], cId)], nextId := 0 }
example : (newInst intStream wA ['a'] [] []).1.insts = [{ cls := ['A'], dict := [(['I', 'd'], .int 1)] }] ∧
    (newInst intStream wA ['a'] [] []).1.nextId = 1 :=
  let h := driver_new_is_newOne intStream wA ['a'] [] [] cId rfl
  ⟨by rw [h.2.1]; rfl, by rw [h.2.2.1]; rfl⟩

end PyxProps.C19
