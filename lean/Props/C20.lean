import Proofs.XsdScript
import Proofs.XsdText
import Proofs.XsdRel
import Proofs.ExtractPkgRef
import Proofs.XsdShape
import Proofs.XsdClosed

/-!
  C20 — XSD generation mirrors the component's classes and data types.
  Property theorems only (helper lemmas: Proofs/Xsd*.lean).

  Model: PyxModel/Extract/Xsd.lean — `xsd d comp = render (xsdSpec d comp)`: the XML tree
  `gen_xsd_schema.build_schema(m, c_c)` must return for the class diagram `d` (PyxModel/Extract/
  Diagram.lean) and the component with Id `comp`.  `XmlTree = node tag attributes children`;
  `classNodes`, `attributeNodes`, `simpleTypeNodes`, `restrictionBases`, `enumerationValues`,
  `XmlTree.attr` read a tree the way an XML consumer would.
-/

namespace PyxProps.C20
open Pyx.Extract

/-! ### xsd_complete: nothing missing, nothing extra -/

/-- the declared class elements are exactly the classes contained in the component (list equality,
    modeled order), named by their key letters -/
theorem xsd_complete (d : ClassDiagram) (comp : Nat) :
    (classNodes (xsd d comp)).map (·.attr "name") =
      (d.classes.filter (fun c => containedIn d.containers d.pkgrefs comp c.parent)).map (fun c => some c.kl) := by
  unfold xsd
  rw [classNodes_render]
  show (((d.classes.filter (fun c => containedIn d.containers d.pkgrefs comp c.parent)).map (xclassAll d)).map renderClass).map _ = _
  simp only [List.map_map]
  apply List.map_congr_left
  intro c _
  simp only [Function.comp, renderClass_name]
  rfl

/-- per class, the declared attributes (name, type) are exactly `xattr` of ALL its attributes related across R102:
    those off the R103 chain (`looseOf`, R103 is conditional) and those on it, the latter in modeled order -/
theorem xsd_complete_attributes (d : ClassDiagram) (comp : Nat) :
    (classNodes (xsd d comp)).map (fun n => (attributeNodes n).map (fun a => (a.attr "name", a.attr "type"))) =
      (d.classes.filter (fun c => containedIn d.containers d.pkgrefs comp c.parent)).map
        (fun c => ((looseOf d c.id ++ c.attrs).filterMap (xattr d)).map (fun a => (some a.name, some a.ty))) := by
  unfold xsd
  rw [classNodes_render]
  show (((d.classes.filter (fun c => containedIn d.containers d.pkgrefs comp c.parent)).map (xclassAll d)).map renderClass).map _ = _
  simp only [List.map_map]
  apply List.map_congr_left
  intro c _
  simp only [Function.comp, attributeNodes_renderClass, List.map_map, xclassAll, xclassOf, List.filterMap_append]
  apply List.map_congr_left
  intro a _
  simp only [Function.comp, renderAttr_name, renderAttr_type]

/-- … where an attribute is declared iff it is not derived and its (for a referential attribute: the
    referred base attribute's) data type, after following user types, is a core type 1..5 or an
    enumeration; it is named as modeled and typed by that data type's name -/
theorem xsd_attribute_rule (d : ClassDiagram) (a : Attr) (x : XAttr) :
    xattr d a = some x ↔
      a.isDerived = false ∧ x.name = a.name ∧ ∃ dt, attrDt d a = some dt ∧ baseTypeName d.dts dt = some x.ty :=
  xattr_eq_some

/-- the declared simple types (name, restriction base, enumerators in order) are exactly `xtypeOf` of the
    global data types followed by the data types contained in the component that are not global (a data type of a global
    package referred to from the component is both: first loop only) -/
theorem xsd_complete_types (d : ClassDiagram) (comp : Nat) :
    (simpleTypeNodes (xsd d comp)).map (fun n => (n.attr "name", restrictionBases n, enumerationValues n)) =
      ((d.dts.filter (fun t => isGlobal d.containers t.parent)) ++
        (d.dts.filter (fun t => containedIn d.containers d.pkgrefs comp t.parent && !isGlobal d.containers t.parent))).filterMap
        (fun t => (xtypeOf d.dts t).map (fun x => (some x.name, [some x.base], x.values.map some))) := by
  unfold xsd
  rw [simpleTypeNodes_render]
  show ((((d.dts.filter (fun t => isGlobal d.containers t.parent)).filterMap (xtypeOf d.dts)) ++
    ((d.dts.filter (fun t => containedIn d.containers d.pkgrefs comp t.parent && !isGlobal d.containers t.parent)).filterMap (xtypeOf d.dts))).map renderType).map _ = _
  rw [← List.filterMap_append, List.map_map, List.map_filterMap]
  apply filterMap_congr'
  intro t _
  cases xtypeOf d.dts t with
  | none => rfl
  | some x => simp only [Option.map_some, Function.comp, renderType_name, renderType_bases, renderType_values]

/-! ### counting: one declaration per class, one per supported attribute; referential attributes -/

/-- EXACTLY ONE element per class of the component: where key letters identify the classes (`WF.kls`; `define_class` rejects a
    second class with the same key letters), a class of the diagram is named by exactly one class element of the schema if it
    is contained in the component and by none otherwise; and there are no further class elements (their number is the number
    of contained classes — this part needs no hypothesis) -/
theorem xsd_one_element_per_class (d : ClassDiagram) (comp : Nat) :
    (classNodes (xsd d comp)).length =
      (d.classes.filter (fun c => containedIn d.containers d.pkgrefs comp c.parent)).length ∧
    ((d.classes.map (·.kl)).Nodup → ∀ c ∈ d.classes,
      ((classNodes (xsd d comp)).map (·.attr "name")).count (some c.kl) =
        if containedIn d.containers d.pkgrefs comp c.parent = true then 1 else 0) := by
  constructor
  · have h := congrArg List.length (xsd_complete d comp)
    simpa only [List.length_map] using h
  · intro hkl c hc
    rw [xsd_complete]
    exact Pyx.XShape.count_names_filter (fun c => c.kl) _ d.classes hkl c hc

/-- ONE xs:attribute per attribute of a supported type: the number of attribute declarations of each class element is the
    number of its attributes across R102 (off the R103 chain and on it) for which `xattr` yields a declaration
    (`xsd_attribute_rule`: not derived, base type with a name) -/
theorem xsd_one_attribute_per_supported (d : ClassDiagram) (comp : Nat) :
    (classNodes (xsd d comp)).map (fun n => (attributeNodes n).length) =
      (d.classes.filter (fun c => containedIn d.containers d.pkgrefs comp c.parent)).map
        (fun c => (looseOf d c.id ++ c.attrs).countP (fun a => (xattr d a).isSome)) := by
  have h := congrArg (List.map List.length) (xsd_complete_attributes d comp)
  simp only [List.map_map] at h
  rw [show (fun n => (attributeNodes n).length) = (List.length ∘ fun n => (attributeNodes n).map (fun a => (a.attr "name", a.attr "type"))) from by
    funext n; simp only [Function.comp, List.length_map]]
  rw [h]
  apply List.map_congr_left
  intro c _
  simp only [Function.comp, List.length_map, List.length_filterMap_eq_countP]

/-- a REFERENTIAL attribute is typed as the attribute it refers to: when R113 leads to the base attribute `ba`, the declaration
    of `a` is `a`'s own name with the base type name of `ba`'s data type (never omitted for being derived: a referential
    attribute has no O_DBATTR row) — in particular the same `type=` as `ba`'s own declaration when `ba` is not derived (a
    derived `ba` is omitted itself, the attribute referring to it is still declared: Python tests O_DBATTR of `o_attr` only) -/
theorem xsd_referential_typed_as_referred (d : ClassDiagram) (a ba : Attr) (c b : Nat) (hk : a.kind = .ref c b)
    (hl : (findClass d c).bind (fun k => k.findAttr b) = some ba) (hb : ∀ c' b', ba.kind ≠ .ref c' b') :
    xattr d a = ((attrDt d ba).bind (baseTypeName d.dts)).map (fun n => { name := a.name, ty := n }) ∧
    (ba.isDerived = false → (xattr d a).map (·.ty) = (xattr d ba).map (·.ty)) := by
  have hd : attrDt d a = attrDt d ba := by
    unfold attrDt
    simp only [hk, hl]
    cases hbk : ba.kind with
    | ref c' b' => exact absurd hbk (hb c' b')
    | base dt => rfl
    | derived dt => rfl
  have hnd : a.isDerived = false := by simp [Attr.isDerived, hk]
  constructor
  · simp [xattr, hnd, hd]
  · intro h
    simp only [xattr, hnd, h, hd, Bool.false_eq_true, ↓reduceIte]
    cases (attrDt d ba).bind (baseTypeName d.dts) <;> rfl

/-- … and the other ending: a referential attribute whose R113 leads nowhere (no such class / attribute) or to another
    referential attribute (which has no O_BATTR row: `get_refered_attribute` returns the attribute itself, whose own type is
    same_as<Base_Attribute>) is OMITTED -/
theorem xsd_referential_dangling_omitted (d : ClassDiagram) (a : Attr) (c b : Nat) (hk : a.kind = .ref c b)
    (h : ∀ ba, (findClass d c).bind (fun k => k.findAttr b) = some ba → ∃ c' b', ba.kind = .ref c' b') : xattr d a = none := by
  have hd : attrDt d a = none := by
    unfold attrDt
    simp only [hk]
    cases hl : (findClass d c).bind (fun k => k.findAttr b) with
    | none => rfl
    | some ba =>
      obtain ⟨c', b', hb⟩ := h ba hl
      simp only [hb]
  simp [xattr, hd]

/-- which data types are declared: a core type iff its NAME is boolean / integer / real / string /
    unique_id (void and the other core types are omitted); every enumeration, with its enumerators in
    modeled (R56) order; a user type iff its base is a core type 1..5, an enumeration or a user type, as a
    restriction of that base; nothing else -/
theorem xsd_type_rule (dts : List DataType) (t : DataType) :
    (∀ n, t.kind = .core n → xtypeOf dts t = (coreXs t.name).map (fun b => .restriction t.name b)) ∧
    (∀ es, t.kind = .enum es → xtypeOf dts t = some (.enumeration t.name es)) ∧
    (∀ b, t.kind = .user b → xtypeOf dts t = (typeNameOf dts b).map (fun bn => .restriction t.name bn)) ∧
    (t.kind = .other → xtypeOf dts t = none) := by
  unfold xtypeOf
  refine ⟨?_, ?_, ?_, ?_⟩
  · intro n h; simp only [h]
  · intro es h; simp only [h]
  · intro b h; simp only [h]
  · intro h; simp only [h]

/-- the core-type table of `build_core_type` -/
theorem xsd_core_table :
    coreXs "boolean" = some "xs:boolean" ∧ coreXs "integer" = some "xs:integer" ∧ coreXs "real" = some "xs:decimal" ∧
    coreXs "string" = some "xs:string" ∧ coreXs "unique_id" = some "xs:integer" ∧ coreXs "void" = none ∧
    coreXs "state<State_Model>" = none ∧ coreXs "inst_ref<Object>" = none := by
  decide

/-- `coreXs` IS the if/elif chain of the source (`Gen.XsdCore`, regenerated from gen_xsd_schema.py on every run):
    every listed name maps to its listed base, every other name to none; and the two truthiness tests and the
    range of supported core types the model assumes are the ones the source has -/
theorem xsd_core_table_generated :
    (∀ p ∈ Gen.XsdCore.table, coreXs p.1 = p.2) ∧
    (∀ n, (∀ p ∈ Gen.XsdCore.table, p.1 ≠ n) → coreXs n = none) ∧
    Gen.XsdCore.elseIsNone = true ∧ Gen.XsdCore.attrNeedsTruthyTypeName = true ∧
    Gen.XsdCore.userNeedsTruthyBaseName = true ∧ Gen.XsdCore.coreLo = 1 ∧ Gen.XsdCore.coreHi = 5 := by
  refine ⟨by decide, ?_, rfl, rfl, rfl, rfl, rfl⟩
  intro n h
  unfold coreXs
  have : Gen.XsdCore.table.find? (fun p => p.1 == n) = none := by
    apply List.find?_eq_none.mpr
    intro p hp
    simpa using h p hp
  rw [this]

/-! ### the same against a relational specification

  `Reaches cs rf comp p` — the containment chain PE_PE -> EP_PKG | C_C -> … of `p`, continued from a package over every
  EP_PKGREF row `rf` that refers to it at the PE_PE of the referring package, reaches the component;
  `InComp cs p` — some C_C row lies on the OWN containment chain (so `¬ InComp` = global: `is_global` follows no reference); `BaseName dts dt n` — following user types
  over R18 from `dt` ends at a core type 1..5 or an enumeration with the NON-EMPTY name `n`.  Under `XWF` (acyclic
  containment + reference graph and user-type chains; there Python terminates and the fuel of the model is never exhausted) the functions
  of the model decide exactly these relations. -/

/-- what the scope functions and the type walk of the model mean; an element inside the component has a component on its
    own chain when no reference is used (4th clause: then it is not global) — with references it may be global as well
    (5th clause: only if some EP_PKGREF row with both packages existing is there) -/
theorem xsd_spec_meaning {d : ClassDiagram} (xwf : XWF d) (comp : Nat) :
    (∀ p, containedIn d.containers d.pkgrefs comp p = true ↔ Reaches d.containers d.pkgrefs comp p) ∧
    (∀ p, isGlobal d.containers p = true ↔ ¬ InComp d.containers p) ∧
    (∀ dt n, baseTypeName d.dts dt = some n ↔ BaseName d.dts dt n) ∧
    (∀ p, Reaches d.containers [] comp p → InComp d.containers p) ∧
    (∀ p, Reaches d.containers d.pkgrefs comp p → InComp d.containers p ∨
      ∃ r ∈ d.pkgrefs, (findContainer d.containers false r.referring).isSome ∧ (findContainer d.containers false r.referred).isSome) :=
  ⟨fun p => contained_iff xwf.tree comp p, fun p => global_iff xwf.tree p, fun dt n => baseTypeName_iff xwf.chain dt n,
   fun _ h => reaches_inComp h, fun _ h => reaches_inComp_or_ref h⟩

/-- class elements: exactly the classes whose containment chain (continued over package references) reaches the component -/
theorem xsd_complete_rel {d : ClassDiagram} (xwf : XWF d) (comp : Nat) (xc : XClass) :
    xc ∈ (xsdSpec d comp).classes ↔ ∃ c ∈ d.classes, Reaches d.containers d.pkgrefs comp c.parent ∧ xc = xclassAll d c :=
  xsd_classes_rel xwf.tree comp xc

/-- attributes: declared iff not derived and the data type of the attribute (for a referential one: of the base
    attribute it refers to over R113) has a base name; an attribute whose base data type has the EMPTY name is not
    declared (Python: `if type_name and …`) -/
theorem xsd_attribute_rule_rel {d : ClassDiagram} (xwf : XWF d) (a : Attr) (x : XAttr) :
    xattr d a = some x ↔
      a.isDerived = false ∧ x.name = a.name ∧ ∃ dt, attrDt d a = some dt ∧ BaseName d.dts dt x.ty :=
  xattr_rel xwf.chain a x

/-- simple types: the declarable data types that are global (no component on their chain) or whose chain (continued over
    package references) reaches the component; a user type is declarable iff its base is a core type 1..5, an enumeration or a user type with a
    NON-EMPTY name (`if base_name:`) -/
theorem xsd_types_rule_rel {d : ClassDiagram} (xwf : XWF d) (comp : Nat) :
    (∀ x, x ∈ (xsdSpec d comp).types ↔
      ∃ t ∈ d.dts, (¬ InComp d.containers t.parent ∨ Reaches d.containers d.pkgrefs comp t.parent) ∧ xtypeOf d.dts t = some x) ∧
    (∀ b n, typeNameOf d.dts b = some n ↔
      ∃ t, findDt d.dts b = some t ∧ t.name = n ∧ n ≠ "" ∧
        ((∃ k, t.kind = .core k ∧ 1 ≤ k ∧ k ≤ 5) ∨ (∃ es, t.kind = .enum es) ∨ (∃ b', t.kind = .user b'))) :=
  ⟨fun x => xsd_types_rel xwf.tree comp x, fun b n => typeNameOf_rel d.dts b n⟩

/-! ### xsd_edit_commutes -/

/-- for every edit (rename / retype / add attribute, add / permute enumerators, add user type, move a class
    between containers) applicable to a well-formed diagram, the declarations of the edited diagram are the
    predicted edit of the declarations before -/
theorem xsd_edit_commutes {d : ClassDiagram} (xwf : XWF d) (e : XEdit) (ok : XEditOk d e) (comp : Nat) :
    xsdSpec (applyXEdit e d) comp = specEdit (xresolve d comp e) (xsdSpec d comp) :=
  xedit_commutes_all xwf e ok comp

/-- … hence so is the XML tree -/
theorem xsd_edit_commutes_tree {d : ClassDiagram} (xwf : XWF d) (e : XEdit) (ok : XEditOk d e) (comp : Nat) :
    xsd (applyXEdit e d) comp = render (specEdit (xresolve d comp e) (xsdSpec d comp)) := by
  unfold xsd; rw [xedit_commutes_all xwf e ok comp]

theorem xsd_edit_keeps_wellformed {d : ClassDiagram} (xwf : XWF d) (e : XEdit) (ok : XEditOk d e) :
    XWF (applyXEdit e d) :=
  applyXEdit_xwf xwf e ok

/-- edit scripts of any length -/
theorem xsd_edit_script_commutes {d : ClassDiagram} (xwf : XWF d) (es : List XEdit) (ok : XScriptOk d es) (comp : Nat) :
    xsd (applyXEdits es d) comp = render (specEdits (xresolveAll d comp es) (xsdSpec d comp)) := by
  unfold xsd; rw [xscript_commutes xwf es ok comp]

/-- frame: each declaration edit touches only its part (types / classes / the named class) -/
theorem xsd_edit_frame (s : XsdSpec) :
    (∀ kl old new, (specEdit (.renameAttr kl old new) s).types = s.types ∧
      (specEdit (.renameAttr kl old new) s).classes.map (fun c => (c.kl, c.attrs.map (·.ty))) =
        s.classes.map (fun c => (c.kl, c.attrs.map (·.ty)))) ∧
    (∀ sites ty, (specEdit (.retype sites ty) s).types = s.types ∧
      (specEdit (.retype sites ty) s).classes.map (fun c => (c.kl, c.attrs.map (·.name))) =
        s.classes.map (fun c => (c.kl, c.attrs.map (·.name)))) ∧
    (∀ kl x, (specEdit (.appendAttr kl x) s).types = s.types ∧
      (∀ c ∈ s.classes, c.kl ≠ kl → c ∈ (specEdit (.appendAttr kl x) s).classes)) ∧
    (∀ name vs, (specEdit (.setEnum name vs) s).classes = s.classes ∧
      (specEdit (.setEnum name vs) s).types.map (·.name) = s.types.map (·.name)) ∧
    (∀ pos x, (specEdit (.insertType pos x) s).classes = s.classes ∧
      (specEdit (.insertType pos x) s).types.Perm (x :: s.types)) ∧
    (∀ kl, (specEdit (.dropClass kl) s).types = s.types ∧
      (specEdit (.dropClass kl) s).classes = s.classes.filter (fun c => c.kl != kl)) ∧
    (∀ pos c, (specEdit (.insertClass pos c) s).types = s.types ∧
      (specEdit (.insertClass pos c) s).classes.Perm (c :: s.classes)) := by
  refine ⟨?_, ?_, ?_, ?_, ?_, ?_, ?_⟩
  · intro kl old new
    refine ⟨rfl, ?_⟩
    simp only [specEdit, List.map_map]
    apply List.map_congr_left
    intro c _
    simp only [Function.comp]
    split
    · simp [List.map_map, Function.comp]
    · rfl
  · intro sites ty
    refine ⟨rfl, ?_⟩
    simp only [specEdit, List.map_map]
    apply List.map_congr_left
    intro c _
    simp only [Function.comp, List.map_map, Prod.mk.injEq, true_and]
    apply List.map_congr_left
    intro a _
    simp only [Function.comp]
    split <;> rfl
  · intro kl x
    refine ⟨rfl, ?_⟩
    intro c hc hne
    simp only [specEdit]
    apply List.mem_map.mpr
    refine ⟨c, hc, ?_⟩
    have : (c.kl == kl) = false := by simp [hne]
    simp [this]
  · intro name vs
    refine ⟨rfl, ?_⟩
    simp only [specEdit, List.map_map]
    apply List.map_congr_left
    intro x _
    simp only [Function.comp]
    cases x with
    | restriction n b => rfl
    | enumeration n es => simp only [XType.setEnum]; split <;> rfl
  · intro pos x
    refine ⟨rfl, ?_⟩
    simp only [specEdit, insertAt]
    have h1 : (List.take pos s.types ++ x :: List.drop pos s.types).Perm
        (x :: (List.take pos s.types ++ List.drop pos s.types)) := List.perm_middle
    rw [List.take_append_drop] at h1
    exact h1
  · intro kl; exact ⟨rfl, rfl⟩
  · intro pos c
    refine ⟨rfl, ?_⟩
    simp only [specEdit, insertAt]
    have h1 : (List.take pos s.classes ++ c :: List.drop pos s.classes).Perm
        (c :: (List.take pos s.classes ++ List.drop pos s.classes)) := List.perm_middle
    rw [List.take_append_drop] at h1
    exact h1

/-- frame, continued: what each declaration edit leaves UNCHANGED.  rename: the component name, every class with
    other key letters, and in the named class the attribute types and their order; retype: the component name,
    attribute names and order of every class, and the type of every attribute outside the listed sites; append
    attribute: the existing attributes of the class stay, in place, before the new one; set enumerators: the component
    name and every restriction and every enumeration with another name -/
theorem xsd_edit_frame_unchanged (s : XsdSpec) :
    (∀ kl old new, (specEdit (.renameAttr kl old new) s).comp = s.comp ∧
      (∀ c ∈ s.classes, c.kl ≠ kl → c ∈ (specEdit (.renameAttr kl old new) s).classes)) ∧
    (∀ sites ty, (specEdit (.retype sites ty) s).comp = s.comp ∧
      ∀ c ∈ (specEdit (.retype sites ty) s).classes, ∀ a ∈ c.attrs, (c.kl, a.name) ∉ sites →
        ∃ c' ∈ s.classes, c'.kl = c.kl ∧ a ∈ c'.attrs) ∧
    (∀ kl x, (specEdit (.appendAttr kl x) s).comp = s.comp ∧
      (specEdit (.appendAttr kl x) s).classes.map (·.kl) = s.classes.map (·.kl) ∧
      ∀ c ∈ s.classes, c.kl = kl → { c with attrs := c.attrs ++ [x] } ∈ (specEdit (.appendAttr kl x) s).classes) ∧
    (∀ name vs, (specEdit (.setEnum name vs) s).comp = s.comp ∧
      (∀ n b, XType.restriction n b ∈ s.types → XType.restriction n b ∈ (specEdit (.setEnum name vs) s).types) ∧
      (∀ n es, n ≠ name → XType.enumeration n es ∈ s.types →
        XType.enumeration n es ∈ (specEdit (.setEnum name vs) s).types)) := by
  refine ⟨?_, ?_, ?_, ?_⟩
  · intro kl old new
    refine ⟨rfl, ?_⟩
    intro c hc hne
    simp only [specEdit]
    apply List.mem_map.mpr
    refine ⟨c, hc, ?_⟩
    have : (c.kl == kl) = false := by simp [hne]
    simp [this]
  · intro sites ty
    refine ⟨rfl, ?_⟩
    intro c hc a ha hns
    simp only [specEdit] at hc
    obtain ⟨c', hc', rfl⟩ := List.mem_map.mp hc
    refine ⟨c', hc', rfl, ?_⟩
    simp only at ha hns
    obtain ⟨a', ha', rfl⟩ := List.mem_map.mp ha
    by_cases hin : sites.contains (c'.kl, a'.name) = true
    · simp only [hin, if_true] at hns
      exact absurd (by simpa using hin) hns
    · simp only [hin]
      exact ha'
  · intro kl x
    refine ⟨rfl, ?_, ?_⟩
    · simp only [specEdit, List.map_map]
      apply List.map_congr_left
      intro c _
      simp only [Function.comp]
      split <;> rfl
    · intro c hc hk
      simp only [specEdit]
      apply List.mem_map.mpr
      refine ⟨c, hc, ?_⟩
      have : (c.kl == kl) = true := by simp [hk]
      simp [this]
  · intro name vs
    refine ⟨rfl, ?_, ?_⟩
    · intro n b h
      simp only [specEdit]
      exact List.mem_map.mpr ⟨_, h, rfl⟩
    · intro n es hne h
      simp only [specEdit]
      apply List.mem_map.mpr
      refine ⟨_, h, ?_⟩
      have : (n == name) = false := by simp [hne]
      simp [XType.setEnum, this]

/-! ### xml_wellformed_tree -/

/-- the output is a tree whose tags and attribute keys come from the fixed vocabulary and whose attribute
    VALUES are constants of the generator or names of the model (how they are escaped in the file is
    ElementTree's / minidom's business and only validated) -/
theorem xml_wellformed_tree (d : ClassDiagram) (comp : Nat) :
    WellFormed (fun v => v ∈ (xsdSpec d comp).strings) (xsd d comp) :=
  render_wellFormed (xsdSpec d comp)

/-! ### the written text: escaping is sound -/

/-- whatever characters a model name contains (`& < > "`, look-alikes of references such as `&amp;`, `]]>`,
    non-ASCII letters; control characters are outside the domain), the attribute value written for it by
    `toprettyxml` (a) contains no `<`, `>` or `"` — it cannot end its quotes or open a tag — and (b) reads back,
    references expanded, to exactly the name -/
theorem xml_escape_sound (s : List Char) :
    (∀ c ∈ escAttr s, c ≠ '<' ∧ c ≠ '>' ∧ c ≠ '\x22') ∧ unescAttr (escAttr s) = s :=
  ⟨escAttr_no_delims s, unesc_esc s⟩

/-- every element of the written file is `indent <tag`, its attribute list, then `/>` or `>`; reading the
    attribute list back (key up to `=`, value between the quotes, references expanded) returns the attributes of
    the tree, i.e. the model names, and stops exactly at the end of the start tag -/
theorem xml_start_tag_reads_back (indent : List Char) (tag : String) (attrs : List (String × String))
    (children : List XmlTree) (hkeys : ∀ p ∈ attrs, '=' ∉ p.1.toList) :
    ∃ tail, nodeText indent (.node tag attrs children) = indent ++ '<' :: tag.toList ++ (attrsText attrs ++ tail) ∧
      (tail.head? = some '/' ∨ tail.head? = some '>') ∧
      readAttrs attrs.length (attrsText attrs ++ tail) = some (attrs.map (fun p => (p.1.toList, p.2.toList)), tail) := by
  cases children with
  | nil =>
    refine ⟨"/>\n".toList, ?_, Or.inl rfl, ?_⟩
    · simp [nodeText, List.append_assoc]
    · exact readAttrs_attrsText attrs _ _ hkeys (by decide) (Nat.le_refl _)
  | cons c cs =>
    refine ⟨">\n".toList ++ nodesText ("    ".toList ++ indent) (c :: cs) ++ indent ++ '<' :: '/' :: tag.toList ++ ">\n".toList,
      ?_, Or.inr rfl, ?_⟩
    · simp [nodeText, List.append_assoc]
    · exact readAttrs_attrsText attrs _ _ hkeys (by simp) (Nat.le_refl _)

/-- the attribute keys of the generator's vocabulary contain no `=` (so the theorem above applies to every
    element of every generated schema, see `xml_wellformed_tree`) -/
theorem xml_keys_plain : ∀ k ∈ keyVocab, '=' ∉ k.toList := by decide

/-- `main -c NAME`: an unknown component name produces no tree (exit status 1) -/
theorem xsd_unknown_component (d : ClassDiagram) (name : String)
    (h : d.containers.find? (fun k => k.isComp && k.name == name) = none) : xsdByName d name = none := by
  unfold xsdByName; rw [h]; rfl

/-- `build_schema` declares the global data types and then those contained in the component THAT ARE NOT GLOBAL
    (`is_contained_in(s_dt, c_c) and not is_global(s_dt)`): no data type row is taken by both loops, and the rows taken are
    exactly the global-or-contained ones.  WITHOUT package references a contained data type is never global, the second
    condition filters nothing and nothing is global and contained (the statement the reference-free model had, now under
    its hypothesis `d.pkgrefs = []`). -/
theorem xsd_type_loops_disjoint (d : ClassDiagram) (comp : Nat) :
    (∀ t, ¬ (t ∈ d.dts.filter (fun t => isGlobal d.containers t.parent) ∧
             t ∈ d.dts.filter (fun t => containedIn d.containers d.pkgrefs comp t.parent && !isGlobal d.containers t.parent))) ∧
    (∀ t, t ∈ declaredDts d comp ↔
      t ∈ d.dts ∧ (isGlobal d.containers t.parent = true ∨ containedIn d.containers d.pkgrefs comp t.parent = true)) ∧
    (d.pkgrefs = [] →
      d.dts.filter (fun t => containedIn d.containers d.pkgrefs comp t.parent && !isGlobal d.containers t.parent) =
        d.dts.filter (fun t => containedIn d.containers d.pkgrefs comp t.parent) ∧
      ∀ t ∈ d.dts, ¬ (isGlobal d.containers t.parent = true ∧ containedIn d.containers d.pkgrefs comp t.parent = true)) := by
  refine ⟨?_, fun t => declaredDts_mem, ?_⟩
  · rintro t ⟨h1, h2⟩
    have g1 := (List.mem_filter.mp h1).2
    have g2 := (List.mem_filter.mp h2).2
    simp only [Bool.and_eq_true, Bool.not_eq_true'] at g2
    rw [g2.2] at g1; cases g1
  · intro h
    rw [h]
    constructor
    · apply List.filter_congr
      intro t _
      cases h : containedIn d.containers [] comp t.parent with
      | false => rfl
      | true => simp [contained_not_global_plain _ _ _ h]
    · rintro t _ ⟨hg, hc⟩
      rw [contained_not_global_plain _ _ _ hc] at hg
      cases hg

/-- THE STATEMENT OF FIX 6208c4e: a declarable data type that is global AND contained in the component (a data type of a
    global package that a package of the component refers to via EP_PKGREF) is declared exactly once — as is every other
    declarable data type in scope (data type names distinct, `XWF`) -/
theorem xsd_global_contained_declared_once {d : ClassDiagram} (xwf : XWF d) (comp : Nat) {t : DataType} {x : XType}
    (ht : t ∈ d.dts) (hg : isGlobal d.containers t.parent = true)
    (_hc : containedIn d.containers d.pkgrefs comp t.parent = true) (hx : xtypeOf d.dts t = some x) :
    ((xsdSpec d comp).types.map XType.name).count t.name = 1 ∧ x ∈ (xsdSpec d comp).types :=
  xsd_declared_once comp xwf.dtNames ht (Or.inl hg) hx

/-- … the general form: global or contained (or both) -> exactly one `xs:simpleType` of that name -/
theorem xsd_declared_exactly_once {d : ClassDiagram} (xwf : XWF d) (comp : Nat) {t : DataType} {x : XType}
    (ht : t ∈ d.dts)
    (hs : isGlobal d.containers t.parent = true ∨ containedIn d.containers d.pkgrefs comp t.parent = true)
    (hx : xtypeOf d.dts t = some x) :
    ((xsdSpec d comp).types.map XType.name).count t.name = 1 ∧ x ∈ (xsdSpec d comp).types :=
  xsd_declared_once comp xwf.dtNames ht hs hx

/-- WHAT A REFERENCE ADDS to the schema: package `r.referring` lies inside the component and refers to `r.referred` —
    every class of `r.referred` gets its element, every declarable data type of `r.referred` its simple type -/
theorem xsd_reference_declared {d : ClassDiagram} (xwf : XWF d) (comp : Nat) {r : PkgRef} {kp kq : Container}
    (hr : r ∈ d.pkgrefs) (hp : findContainer d.containers false r.referred = some kp)
    (hq : findContainer d.containers false r.referring = some kq)
    (hc : containedIn d.containers d.pkgrefs comp kq.parent = true) :
    (∀ c ∈ d.classes, c.parent = .pkg r.referred → xclassAll d c ∈ (xsdSpec d comp).classes) ∧
    (∀ t ∈ d.dts, t.parent = .pkg r.referred → ∀ x, xtypeOf d.dts t = some x →
      x ∈ (xsdSpec d comp).types ∧ ((xsdSpec d comp).types.map XType.name).count t.name = 1) := by
  have hin : containedIn d.containers d.pkgrefs comp (.pkg r.referred) = true :=
    contained_of_reference xwf.tree hr hp hq hc
  constructor
  · intro c hcm hpar
    exact (xsd_classes_rel xwf.tree comp _).mpr ⟨c, hcm, hpar ▸ (contained_iff xwf.tree comp _).mp hin, rfl⟩
  · intro t ht hpar x hx
    have := xsd_declared_once comp xwf.dtNames ht (Or.inr (hpar ▸ hin)) hx
    exact ⟨this.2, this.1⟩

/-- CONSERVATIVE EXTENSION: a diagram without EP_PKGREF rows gives the schema of the reference-free model — global types,
    then the types whose plain containment walk (`containedFuelPlain`) reaches the component; the classes likewise -/
theorem xsd_no_pkgref (d : ClassDiagram) (comp : Nat) (h : d.pkgrefs = []) :
    (xsdSpec d comp).types =
      (d.dts.filter (fun t => isGlobal d.containers t.parent)).filterMap (xtypeOf d.dts) ++
      (d.dts.filter (fun t => containedFuelPlain d.containers comp (d.containers.length + 1) t.parent)).filterMap (xtypeOf d.dts) ∧
    (xsdSpec d comp).classes =
      (d.classes.filter (fun c => containedFuelPlain d.containers comp (d.containers.length + 1) c.parent)).map (xclassAll d) :=
  xsdSpec_no_pkgref d comp h

/-! ### non-vacuity -/

/-- Owner (id, name, derived age) / Dog (tag : MyInt, color : Color, owner_id -> Owner.id) / Leash in package
    Pkg inside component Comp; global core types; Weekday (user type of Color) in package Other outside -/
def d1 : ClassDiagram :=
  { containers := [⟨false, 5, "Pkg", .comp 6⟩, ⟨true, 6, "Comp", .none⟩, ⟨false, 7, "Other", .none⟩],
    dts := [⟨101, "boolean", .core 1, .none⟩, ⟨100, "void", .core 0, .none⟩,
            ⟨102, "integer", .core 2, .none⟩, ⟨104, "string", .core 4, .none⟩, ⟨107, "same_as<Base_Attribute>", .core 7, .none⟩,
            ⟨50, "Color", .enum ["red", "green"], .pkg 5⟩, ⟨51, "MyInt", .user 102, .pkg 5⟩,
            ⟨52, "Weekday", .user 50, .pkg 7⟩],
    classes := [
      ⟨1, "OWN", [⟨11, "id", .base 102⟩, ⟨12, "name", .base 104⟩, ⟨13, "age", .derived 102⟩], [⟨0, [11]⟩], .pkg 5⟩,
      ⟨2, "DOG", [⟨21, "tag", .base 51⟩, ⟨22, "color", .base 50⟩, ⟨23, "owner_id", .ref 1 11⟩], [⟨0, [21]⟩, ⟨1, []⟩], .pkg 5⟩,
      ⟨3, "LSH", [⟨31, "front", .ref 2 21⟩, ⟨32, "back", .ref 2 21⟩], [⟨0, [31, 32]⟩], .pkg 5⟩],
    rels := [
      ⟨41, 1, .simple ⟨2, true, true, "is owned by"⟩ ⟨1, false, false, "owns"⟩ [⟨23, 11⟩], .pkg 5⟩] }

theorem d1_xwf : XWF d1 := by
  refine ⟨?_, by decide, by decide, ?_, ?_, rfl⟩
  · constructor <;> decide
  · exact ⟨⟨fun p => match p with
        | .none => 0 | .comp 6 => 1 | .pkg 5 => 2 | .pkg 7 => 1 | _ => 0,
      by decide, (fun r hr => by cases hr), by intro p; simp only [d1, List.length_cons, List.length_nil]; split <;> omega⟩⟩
  · refine ⟨⟨fun i => if i = 51 then 1 else if i = 52 then 1 else 0, ?_,
      by intro i; simp only [d1, List.length_cons, List.length_nil]; split <;> (try split) <;> omega⟩⟩
    intro t ht b hk
    simp only [d1, List.mem_cons, List.not_mem_nil, or_false] at ht
    rcases ht with rfl | rfl | rfl | rfl | rfl | rfl | rfl | rfl <;> simp at hk <;> subst hk <;> decide

example : (classNodes (xsd d1 6)).map (·.attr "name") = [some "OWN", some "DOG", some "LSH"] := by
  rw [xsd_complete]; decide

/-- Owner.age (derived) is not declared; Dog.tag : MyInt (user type of integer) is typed `integer`,
    Dog.color : Color (enumeration) is typed `Color`, the referential Dog.owner_id is typed like Owner.id -/
example : (d1.classes.map (fun c => (c.attrs.filterMap (xattr d1)).map (fun a => (a.name, a.ty)))) =
    [[("id", "integer"), ("name", "string")],
     [("tag", "integer"), ("color", "Color"), ("owner_id", "integer")],
     [("front", "integer"), ("back", "integer")]] := by decide

/-- global types first (void and same_as<Base_Attribute> omitted; Weekday lives in package Other outside every
    component, so it is global), then the component's -/
example : (xsdSpec d1 6).types =
    [.restriction "boolean" "xs:boolean", .restriction "integer" "xs:integer", .restriction "string" "xs:string",
     .restriction "Weekday" "Color", .enumeration "Color" ["red", "green"], .restriction "MyInt" "integer"] := by decide

example : XScriptOk d1 [.addEnum 50 "blue", .permEnums 50 [2, 0, 1], .moveClass 1 (.pkg 7), .renameAttr 2 21 "chip"] := by
  refine ⟨trivial, ?_, trivial, ?_, trivial⟩
  · intro x es hf hk
    have h : findDt (applyXEdit (.addEnum 50 "blue") d1).dts 50 =
        some ⟨50, "Color", .enum ["red", "green", "blue"], .pkg 5⟩ := by decide
    rw [h] at hf
    cases hf
    cases hk
    decide
  intro kc hc x hx hn
  have h : findClass (applyXEdit (.moveClass 1 (.pkg 7)) (applyXEdit (.permEnums 50 [2, 0, 1]) (applyXEdit (.addEnum 50 "blue") d1))) 2 =
      some ⟨2, "DOG", [⟨21, "tag", .base 51⟩, ⟨22, "color", .base 50⟩, ⟨23, "owner_id", .ref 1 11⟩], [⟨0, [21]⟩, ⟨1, []⟩], .pkg 5⟩ := by
    decide
  rw [h] at hc
  cases hc
  simp only [List.mem_cons, List.not_mem_nil, or_false] at hx
  rcases hx with rfl | rfl | rfl <;> simp at hn

/-- the edits are visible: a new enumerator at the end, then permuted; Owner leaves the component -/
example : (xsdSpec (applyXEdits [.addEnum 50 "blue", .permEnums 50 [2, 0, 1], .moveClass 1 (.pkg 7)] d1) 6).types.getLast? =
    some (.restriction "MyInt" "integer") ∧
    (xsdSpec (applyXEdits [.addEnum 50 "blue", .permEnums 50 [2, 0, 1], .moveClass 1 (.pkg 7)] d1) 6).types[4]? =
      some (.enumeration "Color" ["blue", "red", "green"]) ∧
    (xsdSpec (applyXEdits [.addEnum 50 "blue", .permEnums 50 [2, 0, 1], .moveClass 1 (.pkg 7)] d1) 6).classes.map (·.kl) =
      ["DOG", "LSH"] := by decide

/-- a fresh user type of the enumeration inside the component is applicable and declared last -/
example : XEditOk d1 (.addType ⟨60, "Shade", .user 50, .pkg 5⟩) := by
  refine ⟨⟨by decide, by decide, by decide, by decide⟩, by decide⟩

example : (xsdSpec (applyXEdit (.addType ⟨60, "Shade", .user 50, .pkg 5⟩) d1) 6).types.getLast? =
    some (.restriction "Shade" "Color") := by decide

/-- the EMPTY data type name: enumeration "" (declared, `build_enum_type` does not test the name), user type U of it
    (omitted: `if base_name:`), class K with x : "" and y : U (both omitted: `if type_name and …`) -/
example :
    let d : ClassDiagram :=
      { containers := [⟨true, 6, "Comp", .none⟩],
        dts := [⟨50, "", .enum ["a"], .comp 6⟩, ⟨51, "U", .user 50, .comp 6⟩],
        classes := [⟨1, "K", [⟨11, "x", .base 50⟩, ⟨12, "y", .base 51⟩], [], .comp 6⟩],
        rels := [] }
    xsdSpec d 6 = ⟨[.enumeration "" ["a"]], "Comp", [⟨"K", []⟩]⟩ := by decide

/-- attributes off the R103 chain (R103 is conditional): `build_class` iterates R102 and declares them too -/
example :
    let d : ClassDiagram :=
      { containers := [⟨true, 6, "Comp", .none⟩], dts := [⟨102, "integer", .core 2, .none⟩],
        classes := [⟨1, "K", [⟨11, "first", .base 102⟩], [], .comp 6⟩], rels := [],
        loose := [(1, ⟨12, "unchained", .base 102⟩), (9, ⟨13, "elsewhere", .base 102⟩)] }
    (xsdSpec d 6).classes = [⟨"K", [⟨"unchained", "integer"⟩, ⟨"first", "integer"⟩]⟩] := by decide

/-- names with XML-special characters survive the file: `a&b<c>"d` is written `a&amp;b&lt;c&gt;&quot;d` -/
example : escAttr "a&b<c>\"d".toList = "a&amp;b&lt;c&gt;&quot;d".toList ∧
    unescAttr "a&amp;b&lt;c&gt;&quot;d".toList = "a&b<c>\"d".toList ∧
    escAttr "&amp;".toList = "&amp;amp;".toList := by decide

/-- one element per line, four blanks per level, `/>` for an element without children -/
example : nodeText [] (.node "a" [("k", "x&y"), ("m", "")] [.node "b" [("v", "<")] []]) =
    "<a k=\"x&amp;y\" m=\"\">\n    <b v=\"&lt;\"/>\n</a>\n".toList := by decide


/-- the type loops on d1 (no package reference): Color and MyInt (package Pkg of the component) come from the second loop
    only, the core types from the first only; nothing is global and contained -/
example : (d1.dts.filter (fun t => containedIn d1.containers d1.pkgrefs 6 t.parent && !isGlobal d1.containers t.parent)).map (·.name) =
    ["Color", "MyInt"] ∧
    ∀ t ∈ d1.dts, ¬ (isGlobal d1.containers t.parent = true ∧ containedIn d1.containers d1.pkgrefs 6 t.parent = true) :=
  ⟨by rw [((xsd_type_loops_disjoint d1 6).2.2 rfl).1]; decide, ((xsd_type_loops_disjoint d1 6).2.2 rfl).2⟩

example : (xsdSpec d1 6).types =
    (d1.dts.filter (fun t => isGlobal d1.containers t.parent)).filterMap (xtypeOf d1.dts) ++
    (d1.dts.filter (fun t => containedFuelPlain d1.containers 6 (d1.containers.length + 1) t.parent)).filterMap (xtypeOf d1.dts) :=
  (xsd_no_pkgref d1 6 rfl).1

/-! ### non-vacuity with a PACKAGE REFERENCE -/

/-- d1 plus: package Ref (8) inside component Comp REFERS to the global package Other (7), which holds the user type
    Weekday and now also the class CAT (whose `mood` is a Weekday) — the situation of fix 6208c4e: Weekday is global AND
    contained in Comp -/
def d1Ref : ClassDiagram :=
  { d1 with
    containers := d1.containers ++ [⟨false, 8, "Ref", .comp 6⟩],
    classes := d1.classes ++ [⟨4, "CAT", [⟨41, "id", .base 102⟩, ⟨42, "mood", .base 52⟩], [⟨0, [41]⟩], .pkg 7⟩],
    pkgrefs := [⟨8, 7⟩] }

theorem d1Ref_xwf : XWF d1Ref := by
  refine ⟨?_, by decide, by decide, ?_, ?_, rfl⟩
  · constructor <;> decide
  · exact TreeOk.of_rank (fun p => match p with
        | .none => 0 | .comp 6 => 1 | .pkg 5 => 2 | .pkg 7 => 2 | .pkg 8 => 2 | _ => 0)
      (by decide) (by decide)
      (by intro p; simp only [d1Ref, d1, List.length_append, List.length_cons, List.length_nil]; split <;> omega)
  · refine ⟨⟨fun i => if i = 51 then 1 else if i = 52 then 1 else 0, ?_,
      by intro i; simp only [d1Ref, d1, List.length_cons, List.length_nil]; split <;> (try split) <;> omega⟩⟩
    intro t ht b hk
    simp only [d1Ref, d1, List.mem_cons, List.not_mem_nil, or_false] at ht
    rcases ht with rfl | rfl | rfl | rfl | rfl | rfl | rfl | rfl <;> simp at hk <;> subst hk <;> decide

/-- the model computes it: CAT is an element of Comp, Weekday is declared once (by the first loop), and without the
    reference row CAT is not there -/
example : (xsdSpec d1Ref 6).classes.map (·.kl) = ["OWN", "DOG", "LSH", "CAT"] ∧
    (xsdSpec d1Ref 6).types.map XType.name = ["boolean", "integer", "string", "Weekday", "Color", "MyInt"] ∧
    (xsdSpec { d1Ref with pkgrefs := [] } 6).classes.map (·.kl) = ["OWN", "DOG", "LSH"] ∧
    ((xsdSpec d1Ref 6).classes.map (fun c => c.attrs.map (fun a => (a.name, a.ty)))).getLast? =
      some [("id", "integer"), ("mood", "Color")] := by decide

/-- `xsd_global_contained_declared_once` applied: Weekday is global AND contained in Comp, and has one declaration -/
example : ((xsdSpec d1Ref 6).types.map XType.name).count "Weekday" = 1 ∧
    XType.restriction "Weekday" "Color" ∈ (xsdSpec d1Ref 6).types :=
  xsd_global_contained_declared_once d1Ref_xwf 6 (t := ⟨52, "Weekday", .user 50, .pkg 7⟩) (by decide) (by decide) (by decide)
    (by decide)

/-- `xsd_type_loops_disjoint` on d1Ref: Weekday satisfies BOTH conditions of `build_schema`, and is in the first list only -/
example : (isGlobal d1Ref.containers (.pkg 7) = true ∧ containedIn d1Ref.containers d1Ref.pkgrefs 6 (.pkg 7) = true) ∧
    ¬ ((⟨52, "Weekday", .user 50, .pkg 7⟩ : DataType) ∈ d1Ref.dts.filter (fun t => isGlobal d1Ref.containers t.parent) ∧
       (⟨52, "Weekday", .user 50, .pkg 7⟩ : DataType) ∈ d1Ref.dts.filter
         (fun t => containedIn d1Ref.containers d1Ref.pkgrefs 6 t.parent && !isGlobal d1Ref.containers t.parent)) :=
  ⟨by decide, (xsd_type_loops_disjoint d1Ref 6).1 _⟩

/-- `xsd_reference_declared` applied to the row 8 -> 7: CAT gets its element, Weekday its simple type (once) -/
example : xclassAll d1Ref ⟨4, "CAT", [⟨41, "id", .base 102⟩, ⟨42, "mood", .base 52⟩], [⟨0, [41]⟩], .pkg 7⟩ ∈ (xsdSpec d1Ref 6).classes ∧
    XType.restriction "Weekday" "Color" ∈ (xsdSpec d1Ref 6).types :=
  have h := xsd_reference_declared d1Ref_xwf 6 (r := ⟨8, 7⟩) (kp := ⟨false, 7, "Other", .none⟩)
    (kq := ⟨false, 8, "Ref", .comp 6⟩) (by decide) (by decide) (by decide) (by decide)
  ⟨h.1 _ (by decide) rfl, (h.2 ⟨52, "Weekday", .user 50, .pkg 7⟩ (by decide) rfl _ (by decide)).1⟩

/-- `xsd_complete_rel` / `xsd_types_rule_rel` on d1Ref: from membership to a chain with a reference step and back -/
example : ∃ c ∈ d1Ref.classes, Reaches d1Ref.containers d1Ref.pkgrefs 6 c.parent ∧ c.kl = "CAT" := by
  have h : xclassAll d1Ref ⟨4, "CAT", [⟨41, "id", .base 102⟩, ⟨42, "mood", .base 52⟩], [⟨0, [41]⟩], .pkg 7⟩ ∈
      (xsdSpec d1Ref 6).classes := by decide
  obtain ⟨c, hc, hr, he⟩ := (xsd_complete_rel d1Ref_xwf 6 _).mp h
  refine ⟨c, hc, hr, ?_⟩
  have := congrArg XClass.kl he
  simpa [xclassAll] using this.symm

example : XType.restriction "Weekday" "Color" ∈ (xsdSpec d1Ref 6).types :=
  ((xsd_types_rule_rel d1Ref_xwf 6).1 _).mpr ⟨⟨52, "Weekday", .user 50, .pkg 7⟩, by decide,
    Or.inr (.ref (k := ⟨false, 7, "Other", .none⟩) (r := ⟨8, 7⟩) (kq := ⟨false, 8, "Ref", .comp 6⟩) (by decide) (by decide) rfl
      (by decide) (.here (k := ⟨true, 6, "Comp", .none⟩) (by decide))), by decide⟩

/-- the edit theorems on a diagram with a reference (`xsd_edit_commutes` applied): a new data type in the referred GLOBAL
    package is applicable and is inserted at the end of the FIRST loop's declarations (position 4, before Color), although
    it is contained in the component as well; moving CAT out of the referred package drops its element -/
example : xsdSpec (applyXEdit (.addType ⟨60, "Shade", .user 50, .pkg 7⟩) d1Ref) 6 =
    specEdit (xresolve d1Ref 6 (.addType ⟨60, "Shade", .user 50, .pkg 7⟩)) (xsdSpec d1Ref 6) :=
  xsd_edit_commutes d1Ref_xwf (.addType ⟨60, "Shade", .user 50, .pkg 7⟩)
    (show FreshType d1Ref _ ∧ _ from ⟨⟨by decide, by decide, by decide, by decide⟩, by decide⟩) 6

example : (xsdSpec (applyXEdit (.addType ⟨60, "Shade", .user 50, .pkg 7⟩) d1Ref) 6).types.map XType.name =
    ["boolean", "integer", "string", "Weekday", "Shade", "Color", "MyInt"] ∧
    (xsdSpec (applyXEdit (.moveClass 4 .none) d1Ref) 6).classes.map (·.kl) = ["OWN", "DOG", "LSH"] := by decide

section SourceShape
open Pyx.XShape Pyx.Gen.XsdShape

/-! ### the statement structure of gen_xsd_schema.py (`Gen/XsdShape.lean`, regenerated from the source on every run)

  `interp d fuel f args` (Proofs/XsdShape.lean) is the generic interpretation of the IR of the function `f` over the diagram `d`:
  navigations, selections, filters, loops, conditionals and ElementTree calls mean what they mean for ANY IR value; a call of
  another function of the module (or of ooaofooa.is_global / is_contained_in) means what the MODEL says that function returns
  (`oracle`).  Each theorem: the body of the function, as it stands in the source now, returns what the model says for the
  function itself — for every diagram.  `many(...)` / `select_many`: the interpreter iterates in MODELED order (d.dts,
  d.classes, R102 = off-chain attributes then the R103 chain); the real order is row order, the harness canonicalises. -/

/-- get_type_name: core types 1..5, enumerations and user types return the name (S_SDT and the rest: None; navigating from
    None: None); the model's `typeNameOf` is that name tested for truthiness, as every caller does -/
theorem get_type_name_as_in_source (d : ClassDiagram) (fuel : Nat) :
    (∀ t, interp d fuel get_type_name [.ent (.sdt t)] = some (optStr (rawTypeName t))) ∧
    interp d fuel get_type_name [.none] = some .none ∧
    (∀ b, typeNameOf d.dts b = ((findDt d.dts b).bind rawTypeName).filter (fun s => s != "")) :=
  ⟨get_type_name_eq d fuel, get_type_name_none_eq d fuel, typeNameOf_raw d.dts⟩

/-- get_refered_attribute: O_RATTR[106].O_BATTR[113].O_ATTR[106], recursively (the recursive call read by the oracle:
    `referred` satisfies the equation of the source); the model's `attrDt` is the R114 type of that attribute -/
theorem get_refered_attribute_as_in_source (d : ClassDiagram) (fuel : Nat) (a : Attr) :
    interp d fuel get_refered_attribute [.ent (.attr a)] = some (.ent (.attr (referred d a))) ∧
    (attrDt d a).bind (findDt d.dts) = dtOfAttr d (referred d a) :=
  ⟨get_refered_attribute_eq d fuel a, cur0_eq d a⟩

/-- build_core_type: the if/elif chain on the NAME (the IR has it statement by statement; `coreXs` reads Gen.XsdCore.table),
    `if type_name:`, simpleType name= / restriction base= -/
theorem build_core_type_as_in_source (d : ClassDiagram) (fuel : Nat) (t : DataType) :
    interp d fuel build_core_type [.ent (.cdt t)] =
      some (optTree ((coreXs t.name).map (fun b => renderType (.restriction t.name b)))) :=
  build_core_type_eq d fuel t

/-- build_enum_type: starts at the enumerator that succeeds none (R56), follows 'precedes', one xs:enumeration value= per
    enumerator inside restriction base="xs:string"; the name is NOT tested.  Fuel: one unit per test of `while s_enum`. -/
theorem build_enum_type_as_in_source (d : ClassDiagram) (fuel : Nat) (t : DataType) (hfuel : (enumsOf t).length < fuel) :
    interp d fuel build_enum_type [.ent (.edt t)] = some (.tree (renderType (.enumeration t.name (enumsOf t)))) :=
  build_enum_type_eq d fuel t hfuel

/-- build_user_type: R17 for the name, R18 for the base, `if base_name:` -/
theorem build_user_type_as_in_source (d : ClassDiagram) (fuel : Nat) (t : DataType) (b : Nat) (hk : t.kind = .user b) :
    interp d fuel build_user_type [.ent (.udt t)] =
      some (optTree ((typeNameOf d.dts b).map (fun bn => renderType (.restriction t.name bn)))) :=
  build_user_type_eq d fuel t b hk

/-- build_type: S_CDT, then S_EDT, then S_UDT over R17; anything else (S_SDT: the call is commented out) yields None -/
theorem build_type_as_in_source (d : ClassDiagram) (fuel : Nat) (t : DataType) :
    interp d fuel build_type [.ent (.sdt t)] = some (optTree ((xtypeOf d.dts t).map renderType)) :=
  build_type_eq d fuel t

/-- build_class: xs:element name=Key_Lett minOccurs maxOccurs / xs:complexType / per attribute across R102: the referred
    attribute's R114 type, the `while S_UDT` walk, get_type_name, `if type_name and not …O_DBATTR[107]`, xs:attribute
    name= type=.  Fuel of the walk = the model's (`baseTypeName`), never exhausted on acyclic user-type chains (XWF). -/
theorem build_class_as_in_source {d : ClassDiagram} (xwf : XWF d) (c : Class) :
    interp d (d.dts.length + 1) build_class [.ent (.obj c)] = some (.tree (renderClass (xclassAll d c))) :=
  build_class_eq d xwf.chain c

/-- build_component: xs:element name= / complexType / sequence; the classes selected by is_contained_in(·, c_c), each
    appended in order -/
theorem build_component_as_in_source (d : ClassDiagram) (fuel : Nat) (k : Container) :
    interp d fuel build_component [.model, .ent (.cc k)] =
      some (.tree (renderComp k.name ((d.classes.filter (fun c => containedIn d.containers d.pkgrefs k.id c.parent)).map (xclassAll d)))) :=
  build_component_eq d fuel k

/-- build_schema IS `xsd`: xs:schema with xmlns:xs; loop 1 over the data types with is_global; loop 2 over those with
    `is_contained_in(·, c_c) and not is_global(·)` (fix 6208c4e); `is not None` before each append; the component last -/
theorem build_schema_as_in_source (d : ClassDiagram) (fuel : Nat) (comp : Nat) (k : Container)
    (hk : findContainer d.containers true comp = some k) :
    interp d fuel build_schema [.model, .ent (.cc k)] = some (.tree (xsd d comp)) := by
  have hid : k.id = comp := by
    have := List.find?_some hk
    simp only [Bool.and_eq_true, beq_iff_eq] at this
    exact this.2
  rw [build_schema_eq d fuel k, hid]
  unfold xsd xsdSpec compName
  rw [hk]
  rfl

/-- what main / prettify select: the first C_C whose Name is the option, build_schema(m, c_c), exit status 1 without one, four
    blanks of indent -/
theorem main_as_in_source :
    mainShape = { selectFn := "select_any", selectClass := "C_C", selectField := "name", buildArgs := ["m", "c_c"],
                  missingExit := 1, indent := "    " } := by decide

/-- get_refered_attribute with its recursion EXECUTED by the interpreter instead of read by the oracle (`selfRec`: every call
    of the function's own name runs the generated body again, `n` nested activations allowed, any other call and any deeper one
    is stuck): for EVERY attribute and every depth >= 2 the result is the model's `referred`.  Two activations always suffice:
    R113 ends at an O_BATTR row, and the O_ATTR of an O_BATTR row has no O_RATTR row — chains over R113 have length one in
    every population of the metamodel; a `.ref` attribute pointing at another `.ref` attribute reaches nothing (no O_BATTR row)
    and is returned as it is (then omitted, `xsd_referential_dangling_omitted`). -/
theorem get_refered_attribute_recursion_as_in_source (d : ClassDiagram) (fuel n : Nat) (a : Attr) :
    selfRec d fuel get_refered_attribute (n + 2) "get_refered_attribute" [.ent (.attr a)] =
      some (.ent (.attr (referred d a))) :=
  get_refered_attribute_rec_eq d fuel n a

/-- the CALL GRAPH of the module as it stands in the source (the names the oracle is asked for by each body): acyclic apart
    from the self-call of get_refered_attribute (tied by execution above) — the modular reading of the `*_as_in_source` theorems is
    well-founded; and build_struct_type is called by NO function (its call in build_type is commented out), so that S_SDT
    types are never declared whatever build_struct_type would do -/
theorem call_graph_as_in_source :
    functions.map (fun f => (f.name, calleesOf f)) =
      [("get_type_name", []), ("get_refered_attribute", ["get_refered_attribute"]), ("build_core_type", []),
       ("build_enum_type", []), ("build_struct_type", ["get_type_name"]), ("build_user_type", ["get_type_name"]),
       ("build_type", ["build_core_type", "build_enum_type", "build_user_type"]),
       ("build_class", ["get_refered_attribute", "get_type_name"]),
       ("build_component", ["ooaofooa.is_contained_in", "build_class"]),
       ("build_schema", ["ooaofooa.is_global", "build_type", "ooaofooa.is_contained_in", "build_component"])] ∧
    ∀ f ∈ functions, "build_struct_type" ∉ calleesOf f := by decide

/-- main: the FIRST C_C whose Name equals the option (select_any over C_C with `inst.Name == opts.component`), build_schema(m,
    c_c) on it — the tree `xsdByName` gives — and exit status 1 without one.  Hypothesis: the selected component is the first
    one with its Id (component Ids identify components; `xsd d id` looks the component up by Id again). -/
theorem main_select_as_in_source (d : ClassDiagram) (fuel : Nat) (name : String)
    (hid : ∀ k, d.containers.find? (fun k => k.isComp && k.name == name) = some k →
      findContainer d.containers true k.id = some k) :
    interpMain d fuel mainShape name =
      some (match xsdByName d name with | some t => .written t | none => .exit 1) := by
  unfold interpMain xsdByName
  simp only [mainShape, and_self, ↓reduceIte]
  rw [interpMain_find]
  cases hf : d.containers.find? (fun k => k.isComp && k.name == name) with
  | none => rfl
  | some k =>
    simp only [Option.map_some, lookupAll, List.lookup, String.reduceBEq]
    rw [build_schema_as_in_source d fuel k.id k (hid k hf)]

/-- main / prettify, the pretty-printing decision: each level of the written text is indented by the `indent=` argument of
    `toprettyxml` as it stands in the source (the model's `nodeText` writes the children of every element that has some one
    `mainShape.indent` deeper, between `>` newline and the end tag at the element's own indent) -/
theorem main_indent_as_in_source (indent : List Char) (tag : String) (attrs : List (String × String)) (c : XmlTree)
    (cs : List XmlTree) :
    nodeText indent (.node tag attrs (c :: cs)) =
      indent ++ '<' :: tag.toList ++ attrsText attrs ++ (">\n".toList ++ nodesText (mainShape.indent.toList ++ indent) (c :: cs) ++
        indent ++ '<' :: '/' :: tag.toList ++ ">\n".toList) := by
  rw [nodeText]
  rfl

/-! non-vacuity: the theorems applied to d1 / d1Ref, and hand-MUTATED IRs that give another tree -/

/-- the text of the tree a call returned (trees are compared as the written text) -/
def outText : Option V → Option (List Char)
  | some (.tree t) => some (nodeText [] t)
  | _ => none

def compK : Container := ⟨true, 6, "Comp", .none⟩

/-- `build_schema_as_in_source` applied: the interpretation of the generated IR on d1Ref is the model's tree -/
example : interp d1Ref 9 build_schema [.model, .ent (.cc compK)] = some (.tree (xsd d1Ref 6)) :=
  build_schema_as_in_source d1Ref 9 6 compK (by decide)

/-- `build_class_as_in_source` applied to Dog (user type walked to its base, enumeration, referential attribute) and to
    Owner (the derived attribute is skipped) -/
example : interp d1 9 build_class [.ent (.obj ⟨2, "DOG", [⟨21, "tag", .base 51⟩, ⟨22, "color", .base 50⟩, ⟨23, "owner_id", .ref 1 11⟩], [⟨0, [21]⟩, ⟨1, []⟩], .pkg 5⟩)] =
    some (.tree (renderClass ⟨"DOG", [⟨"tag", "integer"⟩, ⟨"color", "Color"⟩, ⟨"owner_id", "integer"⟩]⟩)) :=
  (build_class_as_in_source d1_xwf _).trans (congrArg (fun x => some (V.tree (renderClass x))) (by decide))

example : outText (interp d1 9 build_class [.ent (.obj ⟨1, "OWN", [⟨11, "id", .base 102⟩, ⟨12, "name", .base 104⟩, ⟨13, "age", .derived 102⟩], [⟨0, [11]⟩], .pkg 5⟩)]) =
    some (nodeText [] (renderClass ⟨"OWN", [⟨"id", "integer"⟩, ⟨"name", "string"⟩]⟩)) :=
  (congrArg outText (build_class_as_in_source d1_xwf _)).trans (by decide +kernel)

/-- `build_enum_type_as_in_source` / `build_user_type_as_in_source` applied -/
example : interp d1 3 build_enum_type [.ent (.edt ⟨50, "Color", .enum ["red", "green"], .pkg 5⟩)] =
    some (.tree (renderType (.enumeration "Color" ["red", "green"]))) :=
  build_enum_type_as_in_source d1 3 _ (by decide)

example : interp d1 0 build_user_type [.ent (.udt ⟨52, "Weekday", .user 50, .pkg 7⟩)] =
    some (.tree (renderType (.restriction "Weekday" "Color"))) :=
  (build_user_type_as_in_source d1 0 _ 50 rfl).trans
    (congrArg (fun o => some (optTree (o.map (fun bn => renderType (.restriction "Weekday" bn))))) (show typeNameOf d1.dts 50 = some "Color" by decide))

/-- MUTATION 1 (derived attributes no longer skipped: `if type_name:`): Owner.age appears — another tree -/
def build_class_mut : Fn :=
  { build_class with body :=
    [ .element "cls" "xs:element" [("name", (.field "o_obj" "key_lett")), ("minOccurs", (.str "0")), ("maxOccurs", (.str "unbounded"))],
      .subElement (some "attributes") "cls" "xs:complexType" [],
      .forIn "o_attr" (.nav .many "o_obj" [⟨"O_ATTR", 102, ""⟩] none) [
        .assign "o_attr_ref" (.call "get_refered_attribute" ["o_attr"]),
        .assign "s_dt" (.nav .any "o_attr_ref" [⟨"S_DT", 114, ""⟩] none),
        .whileDo (.nav .any "s_dt" [⟨"S_UDT", 17, ""⟩] none) [
          .assign "s_dt" (.nav .any "s_dt" [⟨"S_UDT", 17, ""⟩, ⟨"S_DT", 18, ""⟩] none) ],
        .assign "type_name" (.call "get_type_name" ["s_dt"]),
        .ifThen (.var "type_name") [
          .subElement none "attributes" "xs:attribute" [("name", (.field "o_attr" "name")), ("type", (.var "type_name"))] ] [
          .log "warning" ] ],
      .ret (.var "cls") ] }

example : outText (interp d1 9 build_class_mut [.ent (.obj ⟨1, "OWN", [⟨11, "id", .base 102⟩, ⟨12, "name", .base 104⟩, ⟨13, "age", .derived 102⟩], [⟨0, [11]⟩], .pkg 5⟩)]) =
    some (nodeText [] (renderClass ⟨"OWN", [⟨"id", "integer"⟩, ⟨"name", "string"⟩, ⟨"age", "integer"⟩]⟩)) := by decide +kernel

/-- MUTATION 2 (fix 6208c4e reverted: the second loop takes every contained data type): on d1Ref Weekday, global AND
    contained, is declared twice — the tree differs from the model's -/
def build_schema_mut : Fn :=
  { build_schema with body :=
    [ .element "schema" "xs:schema" [],
      .setAttr "schema" "xmlns:xs" (.str "http://www.w3.org/2001/XMLSchema"),
      .lambda "global_filter" "selected" (.call "ooaofooa.is_global" ["selected"]),
      .forIn "s_dt" (.selectMany "m" "S_DT" (some "global_filter")) [
        .assign "datatype" (.call "build_type" ["s_dt"]),
        .ifThen (.isNotNone (.var "datatype")) [ .append "schema" (.var "datatype") ] [] ],
      .lambda "scope_filter" "selected" (.call "ooaofooa.is_contained_in" ["selected", "c_c"]),
      .forIn "s_dt" (.selectMany "m" "S_DT" (some "scope_filter")) [
        .assign "datatype" (.call "build_type" ["s_dt"]),
        .ifThen (.isNotNone (.var "datatype")) [ .append "schema" (.var "datatype") ] [] ],
      .assign "component" (.call "build_component" ["m", "c_c"]),
      .append "schema" (.var "component"),
      .ret (.var "schema") ] }

def outTypeNames : Option V → List (Option String)
  | some (.tree t) => (simpleTypeNodes t).map (·.attr "name")
  | _ => []

example : outTypeNames (interp d1Ref 9 build_schema_mut [.model, .ent (.cc compK)]) =
      [some "boolean", some "integer", some "string", some "Weekday", some "Color", some "MyInt", some "Weekday"] ∧
    outTypeNames (interp d1Ref 9 build_schema [.model, .ent (.cc compK)]) =
      [some "boolean", some "integer", some "string", some "Weekday", some "Color", some "MyInt"] ∧
    outText (interp d1 9 build_schema_mut [.model, .ent (.cc compK)]) = outText (some (.tree (xsd d1 6))) := by decide +kernel

/-- MUTATION 3 (the enumerator loop follows 'succeeds' instead of 'precedes'): only the first enumerator is written -/
def build_enum_type_mut : Fn :=
  { build_enum_type with body :=
    [ .assign "s_dt" (.nav .any "s_edt" [⟨"S_DT", 17, ""⟩] none),
      .element "enum" "xs:simpleType" [("name", (.field "s_dt" "name"))],
      .subElement (some "enum_list") "enum" "xs:restriction" [("base", (.str "xs:string"))],
      .lambda "first_filter" "selected" (.not_ (.nav .any "selected" [⟨"S_ENUM", 56, "succeeds"⟩] none)),
      .assign "s_enum" (.nav .any "s_edt" [⟨"S_ENUM", 27, ""⟩] (some "first_filter")),
      .whileDo (.var "s_enum") [
        .subElement none "enum_list" "xs:enumeration" [("value", (.field "s_enum" "name"))],
        .assign "s_enum" (.nav .any "s_enum" [⟨"S_ENUM", 56, "succeeds"⟩] none) ],
      .ret (.var "enum") ] }

example : outText (interp d1 3 build_enum_type_mut [.ent (.edt ⟨50, "Color", .enum ["red", "green"], .pkg 5⟩)]) =
    some (nodeText [] (renderType (.enumeration "Color" ["red"]))) := by decide +kernel

/-- MUTATION 4 (another association number in get_refered_attribute: R114 for R113): the interpretation reaches nothing,
    a referential attribute is returned as it is -/
example : interp d1 0 { get_refered_attribute with body :=
      [ .assign "o_attr_ref" (.nav .any "o_attr" [⟨"O_RATTR", 106, ""⟩, ⟨"O_BATTR", 114, ""⟩, ⟨"O_ATTR", 106, ""⟩] none),
        .ifThen (.var "o_attr_ref") [ .ret (.call "get_refered_attribute" ["o_attr_ref"]) ] [ .ret (.var "o_attr") ] ] }
      [.ent (.attr ⟨23, "owner_id", .ref 1 11⟩)] = some (.ent (.attr ⟨23, "owner_id", .ref 1 11⟩)) ∧
    referred d1 ⟨23, "owner_id", .ref 1 11⟩ = ⟨11, "id", .base 102⟩ := by
  constructor
  · rfl
  · decide

/-! non-vacuity of the counting / referential / recursion / main theorems -/

/-- `xsd_one_element_per_class` applied (key letters of d1Ref distinct): DOG has exactly one element in Comp; without the
    reference row CAT (package Other) has none -/
example : ((classNodes (xsd d1Ref 6)).map (·.attr "name")).count (some "DOG") = 1 ∧
    ((classNodes (xsd { d1Ref with pkgrefs := [] } 6)).map (·.attr "name")).count (some "CAT") = 0 :=
  ⟨((xsd_one_element_per_class d1Ref 6).2 (by decide)
      ⟨2, "DOG", [⟨21, "tag", .base 51⟩, ⟨22, "color", .base 50⟩, ⟨23, "owner_id", .ref 1 11⟩], [⟨0, [21]⟩, ⟨1, []⟩], .pkg 5⟩ (by decide)).trans (by decide),
   ((xsd_one_element_per_class { d1Ref with pkgrefs := [] } 6).2 (by decide)
      ⟨4, "CAT", [⟨41, "id", .base 102⟩, ⟨42, "mood", .base 52⟩], [⟨0, [41]⟩], .pkg 7⟩ (by decide)).trans (by decide)⟩

/-- `xsd_one_attribute_per_supported` applied: Owner declares 2 of its 3 attributes (age is derived) -/
example : (classNodes (xsd d1 6)).map (fun n => (attributeNodes n).length) = [2, 3, 2] :=
  (xsd_one_attribute_per_supported d1 6).trans (by decide)

/-- `xsd_referential_typed_as_referred` applied: Dog.owner_id -> Owner.id is declared under its own name with Owner.id's type -/
example : xattr d1 ⟨23, "owner_id", .ref 1 11⟩ = some ⟨"owner_id", "integer"⟩ ∧
    (xattr d1 ⟨23, "owner_id", .ref 1 11⟩).map (·.ty) = (xattr d1 ⟨11, "id", .base 102⟩).map (·.ty) :=
  have h := xsd_referential_typed_as_referred d1 ⟨23, "owner_id", .ref 1 11⟩ ⟨11, "id", .base 102⟩ 1 11 rfl (by decide)
    (by intro c b h; cases h)
  ⟨h.1.trans (by decide), h.2 rfl⟩

/-- `xsd_referential_dangling_omitted` applied: Leash.front2 -> Dog.owner_id (itself referential) is omitted -/
example : xattr d1 ⟨33, "front2", .ref 2 23⟩ = none :=
  xsd_referential_dangling_omitted d1 _ 2 23 rfl (by
    intro ba h
    have h' : (findClass d1 2).bind (fun k => k.findAttr 23) = some ⟨23, "owner_id", .ref 1 11⟩ := by decide
    rw [h'] at h; cases h; exact ⟨1, 11, rfl⟩)

/-- the recursion is really executed: with ONE activation allowed the call for Dog.owner_id is stuck (the body calls itself
    for Owner.id), with two it returns Owner.id -/
example : (selfRec d1 0 get_refered_attribute 1 "get_refered_attribute" [.ent (.attr ⟨23, "owner_id", .ref 1 11⟩)]).isNone = true ∧
    selfRec d1 0 get_refered_attribute 2 "get_refered_attribute" [.ent (.attr ⟨23, "owner_id", .ref 1 11⟩)] =
      some (.ent (.attr ⟨11, "id", .base 102⟩)) :=
  ⟨by decide, (get_refered_attribute_recursion_as_in_source d1 0 0 _).trans (by
    have : referred d1 ⟨23, "owner_id", .ref 1 11⟩ = ⟨11, "id", .base 102⟩ := by decide
    rw [this])⟩

/-- `main_select_as_in_source` applied: `-c Comp` writes the model's tree, `-c Nope` exits with status 1; a MUTATED shape
    (select_many for select_any) means nothing -/
example : interpMain d1 9 mainShape "Comp" = some (.written (xsd d1 6)) ∧
    interpMain d1 9 mainShape "Nope" = some (.exit 1) ∧
    (interpMain d1 9 { mainShape with selectFn := "select_many" } "Comp").isNone = true := by
  refine ⟨?_, ?_, by decide⟩
  · refine (main_select_as_in_source d1 9 "Comp" ?_).trans ?_
    · intro k hk
      have h : d1.containers.find? (fun k => k.isComp && k.name == "Comp") = some compK := by decide
      rw [h] at hk; cases hk; decide
    · have h : xsdByName d1 "Comp" = some (xsd d1 6) := by
        unfold xsdByName
        have h : d1.containers.find? (fun k => k.isComp && k.name == "Comp") = some compK := by decide
        rw [h]; rfl
      rw [h]
  · refine (main_select_as_in_source d1 9 "Nope" ?_).trans ?_
    · intro k hk
      have h : d1.containers.find? (fun k => k.isComp && k.name == "Nope") = none := by decide
      rw [h] at hk; cases hk
    · rw [xsd_unknown_component d1 "Nope" (by decide)]

end SourceShape

end PyxProps.C20
