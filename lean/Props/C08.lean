import Proofs.OalLex
import Proofs.OalParseCase
import Proofs.OalBridge
import Proofs.OalKwCase
import PyxModel.Oal.LexGen
import Gen.OalPrec

/-!
  C08 — OAL keywords are case-insensitive in parsing, execution and prebuild.
  Property theorems only (helper lemmas: Proofs/OalLex.lean).

  What is proved here is the lexical half and the table obligations:
    * the token stream of a text does not depend on the letter case of its keyword occurrences
      (`lex_case`, for every text and every re-spelling), so any parser that is a function of the token stream
      (kind, lexeme) sees the same input up to the spelling of keyword lexemes (`parse_case`);
    * every reader of the tree fields that carry a keyword's source spelling (`cardinality`, `operator`,
      `BooleanNode.value`) in the interpreter, the prebuilder and the `many` accessors normalises the case where
      it reads the field (`consumers_normalise`, over the table regenerated from the source).
  That these three are the ONLY spelling-carrying fields, and that interpretation / prebuilding give equal
  results, is validated on the implementation by the harness (D), not proved.

  A re-spelling of `text` is any `text'` with the same characters up to ASCII letter case
  (`text'.map lowerAscii = text.map lowerAscii`) that leaves every non-keyword token of `text` untouched.
-/
namespace PyxProps.C08
open Pyx.OalLex

/-- keyword recognition cannot be influenced by letter case in the generated table: `t_ID` compares the
    UPPER-CASED lexeme with the keyword table, no literal rule and no ignored character is a letter -/
theorem table_case_ok : caseOk Gen.OalLex.cfg = true := by decide

theorem table_lines_ok : linesOk Gen.OalLex.cfg = true := by decide

/-- lex_case (kinds and positions), any table: texts that differ only in ASCII letter case - anywhere - are
    cut into tokens at the same offsets, by the same rules, with the same kinds and lines -/
theorem lex_case_shape_table (cfg : LexCfg) (hc : caseOk cfg = true) (text text' : List Char)
    (hcase : text'.map lowerAscii = text.map lowerAscii) :
    (lexWith cfg text').map lowTok = (lexWith cfg text).map lowTok := by
  rw [← lexWith_map_lower cfg (caseOk_spec hc), ← lexWith_map_lower cfg (caseOk_spec hc), hcase]

/-- lex_case, any table with sound bookkeeping: re-spelling the keyword occurrences of a text (identifiers,
    literals and all other non-keyword tokens untouched) gives the same token stream up to the spelling of the
    keyword lexemes -/
theorem lex_case_table (cfg : LexCfg) (hc : caseOk cfg = true) (hok : linesOk cfg = true)
    (text text' : List Char) (hcase : text'.map lowerAscii = text.map lowerAscii)
    (hid : ∀ u ∈ lexWith cfg text, isKwKind cfg u.kind = false →
      slice text' u.start u.stop = slice text u.start u.stop) :
    (lexWith cfg text').map (normTok cfg) = (lexWith cfg text).map (normTok cfg) := by
  apply map_normTok_eq cfg _ _ (lex_case_shape_table cfg hc text text' hcase)
  intro t ht t' ht' hlow hkw
  have h := (lexRun_ok cfg hok text.length [] text t (by simpa [lexWith, countNl] using ht)).1
  have h' := (lexRun_ok cfg hok text'.length [] text' t' (by simpa [lexWith, countNl] using ht')).1
  simp only [List.nil_append] at h h'
  have hs : t'.start = t.start := by have := congrArg Tok.start hlow; simpa [lowTok] using this
  have he : t'.stop = t.stop := by have := congrArg Tok.stop hlow; simpa [lowTok] using this
  rw [h'.lexeme, h.lexeme, hs, he]
  exact hid t ht hkw

/-- lex_case for the tables the source has now -/
theorem lex_case (text text' : List Char) (hcase : text'.map lowerAscii = text.map lowerAscii)
    (hid : ∀ u ∈ lex text, isKwKind Gen.OalLex.cfg u.kind = false →
      slice text' u.start u.stop = slice text u.start u.stop) :
    (lex text').map (normTok Gen.OalLex.cfg) = (lex text).map (normTok Gen.OalLex.cfg) :=
  lex_case_table Gen.OalLex.cfg table_case_ok table_lines_ok text text' hcase hid

/-- in particular the token KINDS (what the grammar sees) and all recorded positions are equal -/
theorem lex_case_kinds (text text' : List Char) (hcase : text'.map lowerAscii = text.map lowerAscii) :
    (lex text').map (fun t => (t.kind, t.start, t.stop, t.line, t.endLine)) =
    (lex text).map (fun t => (t.kind, t.start, t.stop, t.line, t.endLine)) := by
  have h := lex_case_shape_table Gen.OalLex.cfg table_case_ok text text' hcase
  have := congrArg (List.map (fun t : Tok => (t.kind, t.start, t.stop, t.line, t.endLine))) h
  simpa [List.map_map, Function.comp_def, lowTok, lex] using this

/-- parse_case: whatever is computed from the token stream modulo keyword spelling - a syntax tree whose only
    keyword-lexeme-valued fields are compared modulo case - is the same for a text and its re-spelling -/
theorem parse_case {α : Type} (parse : List Tok → α) (text text' : List Char)
    (hcase : text'.map lowerAscii = text.map lowerAscii)
    (hid : ∀ u ∈ lex text, isKwKind Gen.OalLex.cfg u.kind = false →
      slice text' u.start u.stop = slice text u.start u.stop) :
    parse ((lex text').map (normTok Gen.OalLex.cfg)) = parse ((lex text).map (normTok Gen.OalLex.cfg)) := by
  rw [lex_case text text' hcase hid]

/-- normalising the spelling twice is normalising it once -/
theorem norm_case_idempotent (cfg : LexCfg) (t : Tok) : normTok cfg (normTok cfg t) = normTok cfg t := by
  unfold normTok
  cases h : isKwKind cfg t.kind with
  | true =>
    simp only [if_true, h, List.map_map]
    congr 1
    apply List.map_congr_left
    intro c _
    exact lower_idem c
  | false => simp only [Bool.false_eq_true, if_false, h]

/-- consumers_normalise: every place in interpret.py / prebuild.py / the `many` accessors of oal.py that reads
    `node.cardinality`, `node.operator` or a BooleanNode's `node.value` reads it through `.lower()` / `.upper()`
    (or through the normalising accessor `node.many`); every place that reads an instance-name field the grammar
    may fill with the keyword `self` in its source spelling (from_/to_/using_variable_name of relate / unrelate,
    variable_name of delete - the fourth spelling-carrying field) hands it to a `find_symbol` that maps every
    spelling of `self` to the instance.  The translator refuses to emit the table when one of the expected readers
    (gen_oallex.REQUIRED: operator / boolean / cardinality / instance-name readers of both interpret.py and
    prebuild.py) is missing. -/
theorem consumers_normalise :
    (Gen.OalLex.consumers.all fun c => c.normalised) = true ∧ Gen.OalLex.consumers.length ≥ 30 := by decide

/-- keyword_any_case_as_in_source (one lexer step): for EVERY entry `k` of the reserved-word table generated from
    `OALParser.keywords` and EVERY spelling `s` of it (any mix of upper and lower case: `s` and `k` agree after ASCII
    lower-casing), followed by the end of the text or by layout, the first rule of the generated rule table that
    matches is `t_ID` (rule 8), it matches exactly `s`, and the token type the model assigns is `k` - not `ID`.
    Proved by induction over the characters of the spelling; what is decided about the table is only the shape of
    its entries (`gen_kwTableOk`: upper-case words `[A-Z_][0-9A-Z_]*`, none of them `END`). -/
theorem keyword_any_case_as_in_source (k : List Char) (hk : k ∈ Gen.OalLex.keywords) (s : List Char)
    (hs : s.map lowerAscii = k.map lowerAscii) (t : List Char) (ht : TailOk t) :
    firstMatch Gen.OalLex.rules (s ++ t) = some (R 8, s.length) ∧ kindOf Gen.OalLex.cfg (R 8) s = k :=
  keyword_step k hk s hs t ht

/-- keywords_any_case_lexed_as_in_source (the whole lexer): any sequence of entries of the generated reserved-word
    table, each written in any letter case, with any layout between them (`KwItemsOk`), is returned by `lex` as
    exactly the sequence of keyword tokens of those entries, each with its lexeme as written -/
theorem keywords_any_case_lexed_as_in_source (sep0 : List Char) (items : List (List Char × List Char × List Char))
    (h0 : Layout0 sep0) (h : KwItemsOk items) :
    (lex (sep0 ++ render items)).map (fun t => (t.kind, t.lexeme)) = items.map (fun i => (i.1, i.2.1)) :=
  keywords_lexed sep0 items h0 h

/-- every case variant of every table entry is, conversely, outside the identifiers: the kind is never `ID` -/
theorem keyword_never_identifier (k : List Char) (hk : k ∈ Gen.OalLex.keywords) (s : List Char)
    (hs : s.map lowerAscii = k.map lowerAscii) : kindOf Gen.OalLex.cfg (R 8) s ≠ idName := by
  rw [(keyword_step k hk s hs [] .nil).2]
  intro h
  rw [h] at hk
  revert hk; decide

/-! non-vacuity -/

def lowerText : List Char := "select many xs from A; if (not empty xs) x = true; end if;".toList
def mixedText : List Char := "SELECT Many xs fRoM A; If (NOT Empty xs) x = TRUE; END iF;".toList

example : mixedText.map lowerAscii = lowerText.map lowerAscii := by decide +kernel
example : (lex mixedText).map (normTok Gen.OalLex.cfg) = (lex lowerText).map (normTok Gen.OalLex.cfg) := by
  decide +kernel
example : ((lex mixedText).map (fun t => String.ofList t.kind)).take 6 = ["SELECT", "MANY", "ID", "FROM", "ID", "SEMICOLON"] := by
  decide +kernel
/-- the class name `A` and the variable `xs` are not keywords: re-spelling them changes the stream -/
example : (lex "x = A;".toList).map (normTok Gen.OalLex.cfg) ≠ (lex "x = a;".toList).map (normTok Gen.OalLex.cfg) := by
  decide


/-- keyword_any_case_as_in_source / keywords_any_case_lexed_as_in_source applied: `sElEcT`, then a block comment,
    `MaNy`, a line break, `not_EMPTY` -/
private def kwItems : List (List Char × List Char × List Char) :=
  [("SELECT".toList, "sElEcT".toList, "/* c */".toList), ("MANY".toList, "MaNy".toList, "\n".toList),
   ("NOT_EMPTY".toList, "not_EMPTY".toList, [])]
private theorem kwItems_ok : KwItemsOk kwItems :=
  .cons _ _ _ _ (by decide) (by decide) (.comment " c */".toList [] (by decide) .nil) (by decide)
    (.cons _ _ _ _ (by decide) (by decide) (.ws '\n' [] (by decide) .nil) (by decide)
      (.cons _ _ _ _ (by decide) (by decide) .nil (fun _ => rfl) .nil))
example : (lex (" ".toList ++ render kwItems)).map (fun t => (t.kind, t.lexeme)) =
    [("SELECT".toList, "sElEcT".toList), ("MANY".toList, "MaNy".toList), ("NOT_EMPTY".toList, "not_EMPTY".toList)] :=
  keywords_any_case_lexed_as_in_source _ kwItems (.ws ' ' [] (by decide) .nil) kwItems_ok
example := keyword_any_case_as_in_source "WHILE".toList (by decide) "wHiLe".toList (by decide) " x".toList
  (.cons ' ' _ (Or.inl rfl))
/-- a word that is no case variant of an entry stays an identifier -/
example : kindOf Gen.OalLex.cfg (R 8) "selects".toList = idName := by decide

/-! parser level (model: the token-level statement / expression parser of C07, PyxModel/Oal/{Expr,Stmt}.lean, for
    ANY precedence table): two token streams that differ only in the spelling of keyword lexemes parse to
    trees that are equal after lower-casing exactly the spelling-carrying fields — select cardinality, unary /
    binary operator, boolean literal, and the `self` keyword where it is used as an instance name —, they are
    equal FIELD BY FIELD everywhere else (identifiers, literals, phrases, relationship ids are untouched),
    and one is rejected exactly when the other is. -/

theorem parser_case_respelling (t : Pyx.Oal.Tbl) (ts ts' : List Pyx.Oal.Tok) (h : Pyx.Oal.Respelling ts ts') :
    (Pyx.Oal.parseStmts t ts').map Pyx.Oal.normCase = (Pyx.Oal.parseStmts t ts).map Pyx.Oal.normCase :=
  Pyx.Oal.parseStmts_respelling t h

theorem parser_case_fields (t : Pyx.Oal.Tbl) (ts ts' : List Pyx.Oal.Tok) (h : Pyx.Oal.SameButKeywords ts ts') :
    (Pyx.Oal.parseStmts t ts').map Pyx.Oal.eraseCase = (Pyx.Oal.parseStmts t ts).map Pyx.Oal.eraseCase :=
  Pyx.Oal.parseStmts_sameButKeywords t h

theorem parser_case_reject_iff (t : Pyx.Oal.Tbl) (ts ts' : List Pyx.Oal.Tok) (h : Pyx.Oal.SameButKeywords ts ts') :
    Pyx.Oal.parseStmts t ts' = none ↔ Pyx.Oal.parseStmts t ts = none :=
  Pyx.Oal.parseStmts_reject_iff t h

/-- the parser commutes with ANY re-spelling function that leaves non-keyword lexemes alone -/
theorem parser_case_natural (t : Pyx.Oal.Tbl) (g : Pyx.Oal.Kind → String → String) (hg : Pyx.Oal.KwOnly g)
    (ts : List Pyx.Oal.Tok) :
    Pyx.Oal.parseStmts t (ts.map (Pyx.Oal.mapTok g)) = (Pyx.Oal.parseStmts t ts).map (Pyx.Oal.Block.mapKw g) :=
  Pyx.Oal.parseStmts_mapTok t g hg ts


/-- concrete instance next to the parser-level theorems: the two spellings of one statement list are a
    `Respelling`, both parse (generated precedence table), and to trees that differ exactly in the recorded
    spellings -/
example :
    (Pyx.Oal.parseStmts Pyx.Gen.OalPrec.table (Pyx.OalLex.toParserToks (lex lowerText))).isSome = true ∧
    (Pyx.Oal.parseStmts Pyx.Gen.OalPrec.table (Pyx.OalLex.toParserToks (lex mixedText))).isSome = true ∧
    (Pyx.OalLex.toParserToks (lex mixedText)).map (·.lex) ≠ (Pyx.OalLex.toParserToks (lex lowerText)).map (·.lex) := by
  decide +kernel

example :
    (Pyx.Oal.parseStmts Pyx.Gen.OalPrec.table (Pyx.OalLex.toParserToks (lex mixedText))).map Pyx.Oal.normCase =
      (Pyx.Oal.parseStmts Pyx.Gen.OalPrec.table (Pyx.OalLex.toParserToks (lex lowerText))).map Pyx.Oal.normCase :=
  (Pyx.OalLex.text_case_of_lex _ lowerText mixedText (by decide +kernel)).1

/-! ## lexer half and parser half composed (Proofs/OalBridge.lean) -/

/-- kw_tables_agree: the parser model's hand-written `Kind.isKeyword` and the keyword table generated from oal.py
    (`isKwKind Gen.OalLex.cfg`: keywords ∪ END_FOR / END_IF / END_WHILE) agree on every token kind -/
theorem kw_tables_agree :
    (Pyx.OalLex.kindNames.all fun p => p.1.isKeyword == isKwKind Gen.OalLex.cfg p.2) = true :=
  Pyx.OalLex.kw_tables_agree

/-- every token type the generated lexer table can return has a parser token kind -/
theorem lexer_kinds_covered :
    ((Gen.OalLex.rules.filter (·.returnsTok)).all fun r => (Pyx.OalLex.kindOfChars r.name).isSome) = true ∧
    (Gen.OalLex.keywords.all fun k => (Pyx.OalLex.kindOfChars k).isSome) = true :=
  Pyx.OalLex.lexer_kinds_covered

/-- text_case: two TEXTS that differ only in the letter case of keyword occurrences (same characters up to ASCII
    case, every non-keyword token untouched) - lexed by the character-level lexer model of the generated rule table,
    converted, parsed by the token-level parser model under any precedence table - give trees that are equal
    after lower-casing the spelling-carrying fields, and one text is rejected exactly when the other is -/
theorem text_case (tbl : Pyx.Oal.Tbl) (text text' : List Char)
    (hcase : text'.map lowerAscii = text.map lowerAscii)
    (hid : ∀ u ∈ lex text, isKwKind Gen.OalLex.cfg u.kind = false →
      slice text' u.start u.stop = slice text u.start u.stop) :
    (Pyx.Oal.parseStmts tbl (Pyx.OalLex.toParserToks (lex text'))).map Pyx.Oal.normCase =
      (Pyx.Oal.parseStmts tbl (Pyx.OalLex.toParserToks (lex text))).map Pyx.Oal.normCase ∧
    (Pyx.Oal.parseStmts tbl (Pyx.OalLex.toParserToks (lex text')) = none ↔
      Pyx.Oal.parseStmts tbl (Pyx.OalLex.toParserToks (lex text)) = none) :=
  Pyx.OalLex.text_case_of_lex tbl text text' (lex_case text text' hcase hid)

end PyxProps.C08
