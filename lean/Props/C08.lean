import Proofs.OalLex
import Proofs.OalParseCase
import Proofs.OalBridge
import PyxModel.Oal.LexGen
import Gen.OalPrec

/-!
  C08 — OAL keywords are case-insensitive in parsing, execution and prebuild.
  Property theorems only (helper lemmas: Proofs/OalLex.lean).

  What is proved here is the lexical half and the table obligations:
    * the token stream of a text does not depend on the letter case of its keyword occurrences
      (`lex_case`, for every text and every re-spelling), so any parser that is a function of the token stream
      (kind, lexeme) sees the same input up to the spelling of keyword lexemes (`parse_case`);
    * every reader of the tree fields that carry a keyword's source spelling (`cardinality`, `operator`,
      `BooleanNode.value`) in the interpreter, the prebuilder and the `many` accessors normalises the case where
      it reads the field (`consumers_normalise`, over the table regenerated from the source).
  That these three are the ONLY spelling-carrying fields, and that interpretation / prebuilding give equal
  results, is validated on the implementation by the harness (D), not proved.

  A re-spelling of `text` is any `text'` with the same characters up to ASCII letter case
  (`text'.map lowerAscii = text.map lowerAscii`) that leaves every non-keyword token of `text` untouched.
-/
namespace PyxProps.C08
open Pyx.OalLex

/-- keyword recognition cannot be influenced by letter case in the generated table: `t_ID` compares the
    UPPER-CASED lexeme with the keyword table, no literal rule and no ignored character is a letter -/
theorem table_case_ok : caseOk Gen.OalLex.cfg = true := by decide

theorem table_lines_ok : linesOk Gen.OalLex.cfg = true := by decide

/-- lex_case (kinds and positions), any table: texts that differ only in ASCII letter case - anywhere - are
    cut into tokens at the same offsets, by the same rules, with the same kinds and lines -/
theorem lex_case_shape_table (cfg : LexCfg) (hc : caseOk cfg = true) (text text' : List Char)
    (hcase : text'.map lowerAscii = text.map lowerAscii) :
    (lexWith cfg text').map lowTok = (lexWith cfg text).map lowTok := by
  rw [← lexWith_map_lower cfg (caseOk_spec hc), ← lexWith_map_lower cfg (caseOk_spec hc), hcase]

/-- lex_case, any table with sound bookkeeping: re-spelling the keyword occurrences of a text (identifiers,
    literals and all other non-keyword tokens untouched) gives the same token stream up to the spelling of the
    keyword lexemes -/
theorem lex_case_table (cfg : LexCfg) (hc : caseOk cfg = true) (hok : linesOk cfg = true)
    (text text' : List Char) (hcase : text'.map lowerAscii = text.map lowerAscii)
    (hid : ∀ u ∈ lexWith cfg text, isKwKind cfg u.kind = false →
      slice text' u.start u.stop = slice text u.start u.stop) :
    (lexWith cfg text').map (normTok cfg) = (lexWith cfg text).map (normTok cfg) := by
  apply map_normTok_eq cfg _ _ (lex_case_shape_table cfg hc text text' hcase)
  intro t ht t' ht' hlow hkw
  have h := (lexRun_ok cfg hok text.length [] text t (by simpa [lexWith, countNl] using ht)).1
  have h' := (lexRun_ok cfg hok text'.length [] text' t' (by simpa [lexWith, countNl] using ht')).1
  simp only [List.nil_append] at h h'
  have hs : t'.start = t.start := by have := congrArg Tok.start hlow; simpa [lowTok] using this
  have he : t'.stop = t.stop := by have := congrArg Tok.stop hlow; simpa [lowTok] using this
  rw [h'.lexeme, h.lexeme, hs, he]
  exact hid t ht hkw

/-- lex_case for the tables the source has now -/
theorem lex_case (text text' : List Char) (hcase : text'.map lowerAscii = text.map lowerAscii)
    (hid : ∀ u ∈ lex text, isKwKind Gen.OalLex.cfg u.kind = false →
      slice text' u.start u.stop = slice text u.start u.stop) :
    (lex text').map (normTok Gen.OalLex.cfg) = (lex text).map (normTok Gen.OalLex.cfg) :=
  lex_case_table Gen.OalLex.cfg table_case_ok table_lines_ok text text' hcase hid

/-- in particular the token KINDS (what the grammar sees) and all recorded positions are equal -/
theorem lex_case_kinds (text text' : List Char) (hcase : text'.map lowerAscii = text.map lowerAscii) :
    (lex text').map (fun t => (t.kind, t.start, t.stop, t.line, t.endLine)) =
    (lex text).map (fun t => (t.kind, t.start, t.stop, t.line, t.endLine)) := by
  have h := lex_case_shape_table Gen.OalLex.cfg table_case_ok text text' hcase
  have := congrArg (List.map (fun t : Tok => (t.kind, t.start, t.stop, t.line, t.endLine))) h
  simpa [List.map_map, Function.comp_def, lowTok, lex] using this

/-- parse_case: whatever is computed from the token stream modulo keyword spelling - a syntax tree whose only
    keyword-lexeme-valued fields are compared modulo case - is the same for a text and its re-spelling -/
theorem parse_case {α : Type} (parse : List Tok → α) (text text' : List Char)
    (hcase : text'.map lowerAscii = text.map lowerAscii)
    (hid : ∀ u ∈ lex text, isKwKind Gen.OalLex.cfg u.kind = false →
      slice text' u.start u.stop = slice text u.start u.stop) :
    parse ((lex text').map (normTok Gen.OalLex.cfg)) = parse ((lex text).map (normTok Gen.OalLex.cfg)) := by
  rw [lex_case text text' hcase hid]

/-- normalising the spelling twice is normalising it once -/
theorem norm_case_idempotent (cfg : LexCfg) (t : Tok) : normTok cfg (normTok cfg t) = normTok cfg t := by
  unfold normTok
  cases h : isKwKind cfg t.kind with
  | true =>
    simp only [if_true, h, List.map_map]
    congr 1
    apply List.map_congr_left
    intro c _
    exact lower_idem c
  | false => simp only [Bool.false_eq_true, if_false, h]

/-- consumers_normalise: every place in interpret.py / prebuild.py / the `many` accessors of oal.py that reads
    `node.cardinality`, `node.operator` or a BooleanNode's `node.value` reads it through `.lower()` / `.upper()`
    (or through the normalising accessor `node.many`); every place that reads an instance-name field the grammar
    may fill with the keyword `self` in its source spelling (from_/to_/using_variable_name of relate / unrelate,
    variable_name of delete - the fourth spelling-carrying field) hands it to a `find_symbol` that maps every
    spelling of `self` to the instance.  The translator refuses to emit the table when one of the expected readers
    (gen_oallex.REQUIRED: operator / boolean / cardinality / instance-name readers of both interpret.py and
    prebuild.py) is missing. -/
theorem consumers_normalise :
    (Gen.OalLex.consumers.all fun c => c.normalised) = true ∧ Gen.OalLex.consumers.length ≥ 30 := by decide

/-! non-vacuity -/

def lowerText : List Char := "select many xs from A; if (not empty xs) x = true; end if;".toList
def mixedText : List Char := "SELECT Many xs fRoM A; If (NOT Empty xs) x = TRUE; END iF;".toList

example : mixedText.map lowerAscii = lowerText.map lowerAscii := by decide +kernel
example : (lex mixedText).map (normTok Gen.OalLex.cfg) = (lex lowerText).map (normTok Gen.OalLex.cfg) := by
  decide +kernel
example : ((lex mixedText).map (fun t => String.ofList t.kind)).take 6 = ["SELECT", "MANY", "ID", "FROM", "ID", "SEMICOLON"] := by
  decide +kernel
/-- the class name `A` and the variable `xs` are not keywords: re-spelling them changes the stream -/
example : (lex "x = A;".toList).map (normTok Gen.OalLex.cfg) ≠ (lex "x = a;".toList).map (normTok Gen.OalLex.cfg) := by
  decide


/-! parser level (model: the token-level statement / expression parser of C07, PyxModel/Oal/{Expr,Stmt}.lean, for
    ANY precedence table): two token streams that differ only in the spelling of keyword lexemes parse to
    trees that are equal after lower-casing exactly the spelling-carrying fields — select cardinality, unary /
    binary operator, boolean literal, and the `self` keyword where it is used as an instance name —, they are
    equal FIELD BY FIELD everywhere else (identifiers, literals, phrases, relationship ids are untouched),
    and one is rejected exactly when the other is. -/

theorem parser_case_respelling (t : Pyx.Oal.Tbl) (ts ts' : List Pyx.Oal.Tok) (h : Pyx.Oal.Respelling ts ts') :
    (Pyx.Oal.parseStmts t ts').map Pyx.Oal.normCase = (Pyx.Oal.parseStmts t ts).map Pyx.Oal.normCase :=
  Pyx.Oal.parseStmts_respelling t h

theorem parser_case_fields (t : Pyx.Oal.Tbl) (ts ts' : List Pyx.Oal.Tok) (h : Pyx.Oal.SameButKeywords ts ts') :
    (Pyx.Oal.parseStmts t ts').map Pyx.Oal.eraseCase = (Pyx.Oal.parseStmts t ts).map Pyx.Oal.eraseCase :=
  Pyx.Oal.parseStmts_sameButKeywords t h

theorem parser_case_reject_iff (t : Pyx.Oal.Tbl) (ts ts' : List Pyx.Oal.Tok) (h : Pyx.Oal.SameButKeywords ts ts') :
    Pyx.Oal.parseStmts t ts' = none ↔ Pyx.Oal.parseStmts t ts = none :=
  Pyx.Oal.parseStmts_reject_iff t h

/-- the parser commutes with ANY re-spelling function that leaves non-keyword lexemes alone -/
theorem parser_case_natural (t : Pyx.Oal.Tbl) (g : Pyx.Oal.Kind → String → String) (hg : Pyx.Oal.KwOnly g)
    (ts : List Pyx.Oal.Tok) :
    Pyx.Oal.parseStmts t (ts.map (Pyx.Oal.mapTok g)) = (Pyx.Oal.parseStmts t ts).map (Pyx.Oal.Block.mapKw g) :=
  Pyx.Oal.parseStmts_mapTok t g hg ts


/-- concrete instance next to the parser-level theorems: the two spellings of one statement list are a
    `Respelling`, both parse (generated precedence table), and to trees that differ exactly in the recorded
    spellings -/
example :
    (Pyx.Oal.parseStmts Pyx.Gen.OalPrec.table (Pyx.OalLex.toParserToks (lex lowerText))).isSome = true ∧
    (Pyx.Oal.parseStmts Pyx.Gen.OalPrec.table (Pyx.OalLex.toParserToks (lex mixedText))).isSome = true ∧
    (Pyx.OalLex.toParserToks (lex mixedText)).map (·.lex) ≠ (Pyx.OalLex.toParserToks (lex lowerText)).map (·.lex) := by
  decide +kernel

example :
    (Pyx.Oal.parseStmts Pyx.Gen.OalPrec.table (Pyx.OalLex.toParserToks (lex mixedText))).map Pyx.Oal.normCase =
      (Pyx.Oal.parseStmts Pyx.Gen.OalPrec.table (Pyx.OalLex.toParserToks (lex lowerText))).map Pyx.Oal.normCase :=
  (Pyx.OalLex.text_case_of_lex _ lowerText mixedText (by decide +kernel)).1

/-! ## lexer half and parser half composed (Proofs/OalBridge.lean) -/

/-- kw_tables_agree: the parser model's hand-written `Kind.isKeyword` and the keyword table generated from oal.py
    (`isKwKind Gen.OalLex.cfg`: keywords ∪ END_FOR / END_IF / END_WHILE) agree on every token kind -/
theorem kw_tables_agree :
    (Pyx.OalLex.kindNames.all fun p => p.1.isKeyword == isKwKind Gen.OalLex.cfg p.2) = true :=
  Pyx.OalLex.kw_tables_agree

/-- every token type the generated lexer table can return has a parser token kind -/
theorem lexer_kinds_covered :
    ((Gen.OalLex.rules.filter (·.returnsTok)).all fun r => (Pyx.OalLex.kindOfChars r.name).isSome) = true ∧
    (Gen.OalLex.keywords.all fun k => (Pyx.OalLex.kindOfChars k).isSome) = true :=
  Pyx.OalLex.lexer_kinds_covered

/-- text_case: two TEXTS that differ only in the letter case of keyword occurrences (same characters up to ASCII
    case, every non-keyword token untouched) - lexed by the character-level lexer model of the generated rule table,
    converted, parsed by the token-level parser model under any precedence table - give trees that are equal
    after lower-casing the spelling-carrying fields, and one text is rejected exactly when the other is -/
theorem text_case (tbl : Pyx.Oal.Tbl) (text text' : List Char)
    (hcase : text'.map lowerAscii = text.map lowerAscii)
    (hid : ∀ u ∈ lex text, isKwKind Gen.OalLex.cfg u.kind = false →
      slice text' u.start u.stop = slice text u.start u.stop) :
    (Pyx.Oal.parseStmts tbl (Pyx.OalLex.toParserToks (lex text'))).map Pyx.Oal.normCase =
      (Pyx.Oal.parseStmts tbl (Pyx.OalLex.toParserToks (lex text))).map Pyx.Oal.normCase ∧
    (Pyx.Oal.parseStmts tbl (Pyx.OalLex.toParserToks (lex text')) = none ↔
      Pyx.Oal.parseStmts tbl (Pyx.OalLex.toParserToks (lex text)) = none) :=
  Pyx.OalLex.text_case_of_lex tbl text text' (lex_case text text' hcase hid)

end PyxProps.C08
