import Proofs.InterpMono
import Proofs.InterpLaws
import Proofs.InterpScope
import Proofs.InterpCalls
import Proofs.InterpEnum

/-!
  C15 — Callable model elements behave as their OAL bodies specify.
  Property theorems only (helper lemmas: Proofs/InterpScope.lean, Proofs/InterpCalls.lean, Proofs/InterpEnum.lean).

  Model: `Spec` (PyxModel/Interp/Spec.lean) with the callable table of `Ctx` (functions, bridges, class- and
  instance-based operations, derived attributes): `invoke` runs the callee's body in a NEW frame (`mkFrame`: fresh
  scope, parameters bound by name, `self` = the receiver, return register = none) and hands back the register;
  `PyxModel/Interp/Model.lean` models `mk_enum` / `mk_constant` on the rows of the model files.
  That the implementation delivers what `Spec` delivers is decided on every run by harness/prop_C15.py.
-/
namespace PyxProps.C15
open Pyx.Interp

/-! ## isolation -/

/-- evaluating ANY expression — with calls of functions, bridges, operations, derived attributes in it, nested to any
    depth, self-recursive or mutually recursive — leaves the caller's frame (its variables in every block, its
    parameters, its self, its return register) exactly as it was.  By induction on the fuel, for every fuel. -/
theorem call_isolated (C : Ctx) (n : Nat) (e : Expr) (c c' : Cfg) (v : Val)
    (h : (run C n).eval e c = some (.ok (v, c'))) : c'.fr = c.fr :=
  rfr_run C n e c v c' h

/-- the same for an invocation used as a statement -/
theorem call_isolated_stmt (C : Ctx) (n : Nat) (e : Expr) (c c' : Cfg) (o : Out)
    (h : (run C (n + 1)).exec (.invoke e) c = some (.ok (o, c'))) : c'.fr = c.fr ∧ o = .normal := by
  have h' : execStep C (run C n) (.invoke e) c = some (.ok (o, c')) := h
  simp only [execStep] at h'
  obtain ⟨v, c1, h1, h2⟩ := bind_ok_inv h'
  have hf := rfr_run C n e c v c1 h1
  have : M.ret' Out.normal c1 = some (.ok (o, c')) := h2
  simp [M.ret'] at this
  obtain ⟨rfl, rfl⟩ := this
  exact ⟨hf, rfl⟩

/-- the callee does not see the caller's variables either: it starts in a fresh scope, whatever the caller's frame -/
theorem callee_starts_fresh (rec : Oracle) (kind : WalkerKind) (body : Block) (kw : List (String × Val)) (self : Val)
    (c1 c2 : Cfg) (hst : c1.st = c2.st) :
    (invoke rec kind body kw self c1).map (fun r => r.map (fun p => (p.1, p.2.st))) =
    (invoke rec kind body kw self c2).map (fun r => r.map (fun p => (p.1, p.2.st))) ∧
    (mkFrame kind kw self).env = [[]] ∧ (mkFrame kind kw self).ret = .none :=
  ⟨invoke_state_only rec kind body kw self c1 c2 hst, rfl, rfl⟩

/-! ## parameters -/

/-- parameters are bound by name: the result of an invocation is invariant under permutation of the argument list
    (distinct names), and `param.x` reads the argument named `x` -/
theorem params_by_name (C : Ctx) (rec : Oracle) (kind : WalkerKind) (body : Block) (kw kw' : List (String × Val))
    (self : Val) (hp : kw.Perm kw') (hnd : (kw.map Prod.fst).Nodup) :
    invoke rec kind body kw self = invoke rec kind body kw' self ∧
    (∀ x v, (x, v) ∈ kw → (mkFrame kind kw self).params x = some v) ∧
    (∀ x v st, (x, v) ∈ kw → (∀ i a, kind ≠ .derived i a) →
        evalStep C rec (.param x) { fr := mkFrame kind kw self, st := st } =
          some (.ok (v, { fr := mkFrame kind kw self, st := st }))) := by
  refine ⟨invoke_perm rec kind body self hp hnd, fun x v h => paramsOf_mem hnd h, ?_⟩
  intro x v st hx hk
  exact eval_param (c := { fr := mkFrame kind kw self, st := st }) hk (paramsOf_mem hnd hx)

/-! ## self -/

/-- in an operation and in a derived attribute `self` is the receiver the walker was created with; an instance-based
    operation `h.op(…)` and a derived attribute read `h.attr` create it with the instance `h` denotes, a class-based
    operation with the empty handle; in a function or bridge `self` is unbound -/
theorem self_bound (C : Ctx) (rec : Oracle) :
    (∀ c, c.fr.kind ≠ .function → evalStep C rec .self c = some (.ok (c.fr.self, c))) ∧
    (∀ c, c.fr.kind = .function → ∃ e, evalStep C rec .self c = some (.error e)) ∧
    (∀ h name args c c1 c2 i f kw, rec.eval h c = some (.ok (.inst i, c1)) →
        findCallable C (fun f => f.kind = .instOp i.cls ∧ f.name = name) = some f →
        evalArgs rec args c1 = some (.ok (kw, c2)) →
        evalStep C rec (.callInst h name args) c = invoke rec .operation f.body kw (.inst i) c2) ∧
    (∀ i name f c, regHit c.fr i name = false → findDerived C i.cls name = some f →
        readField C rec i name c = invoke rec (.derived i name) f.body [] (.inst i) c) ∧
    (∀ kind kw self, (mkFrame kind kw self).self = self) :=
  ⟨fun _ h => eval_self h, fun _ h => eval_self_function h,
   fun _ _ _ _ _ _ _ _ _ h1 h2 h3 => callInst_runs_with_self h1 h2 h3,
   fun _ _ _ _ h1 h2 => derived_read h1 h2, fun _ _ _ => rfl⟩

/-! ## the result -/

/-- an invocation delivers the callee's return register at the end of its body — and nothing else of the callee's
    frame survives; `return e` stores the value of `e` there and ends every enclosing list, block and loop at once
    (the statements after it do not run); a body that ends without `return <expr>` (falls through, bare `return;`,
    `control stop`) delivers nothing -/
theorem return_value (C : Ctx) (n : Nat) :
    (∀ kind body kw self c v c2, invoke (run C n) kind body kw self c = some (.ok (v, c2)) →
        ∃ c', runBody (run C n) body { fr := mkFrame kind kw self, st := c.st } = some (.ok ((), c')) ∧
          v = c'.fr.ret ∧ c2 = { fr := c.fr, st := c'.st }) ∧
    (∀ e cfg c1 v, Evals C e cfg (.ok (v, c1)) →
        Execs C (.ret (some e)) cfg (.ok (.ret, { c1 with fr := { c1.fr with ret := v } }))) ∧
    (∀ s rest cfg c1, Execs C s cfg (.ok (.ret, c1)) → ListExecs C (s :: rest) cfg (.ok (.ret, c1))) ∧
    (∀ cfg, Execs C (.ret none) cfg (.ok (.ret, cfg))) ∧
    (∀ kind body kw self c c' o, NotDerived kind →
        execBlock (run C n) body { fr := mkFrame kind kw self, st := c.st } = some (.ok (o, c')) →
        (o = .normal ∨ o = .stop) →
        invoke (run C n) kind body kw self c = some (.ok (.none, { fr := c.fr, st := c'.st }))) :=
  ⟨fun _ _ _ _ _ _ _ h => invoke_ok_inv h, fun _ _ _ _ h => exec_return_value h,
   fun _ _ _ _ h => list_cons_abrupt h (by simp), fun _ => exec_return_bare,
   fun _ _ _ _ _ _ _ hk hb ho => invoke_without_return_value hk hb ho⟩

/-- outside derived attributes the return register is written by `return <expr>` only: a statement that does not
    complete by `return` leaves it as it was (whatever it calls, creates, selects or loops over) -/
theorem return_register_untouched (C : Ctx) (n : Nat) (s : Stmt) (c c' : Cfg) (o : Out)
    (h : (run C n).exec s c = some (.ok (o, c'))) (hk : NotDerived c.fr.kind) :
    c'.fr.kind = c.fr.kind ∧ (o ≠ .ret → c'.fr.ret = c.fr.ret) :=
  presRet_run C n s c o c' h hk

/-! ## derived attributes -/

/-- a derived attribute is recomputed on every read: the read IS the invocation of its body in the state of the
    moment (the configuration has no cache to remember an earlier value in), so two reads with a state change in
    between deliver the body's value in the respective states -/
theorem derived_recomputed (C : Ctx) (rec : Oracle) (i : Inst) (name : String) (f : Callable) (c1 c2 : Cfg)
    (h1 : regHit c1.fr i name = false) (h2 : regHit c2.fr i name = false)
    (hf : findDerived C i.cls name = some f) :
    readField C rec i name c1 = invoke rec (.derived i name) f.body [] (.inst i) c1 ∧
    readField C rec i name c2 = invoke rec (.derived i name) f.body [] (.inst i) c2 ∧
    (c1.st = c2.st →
      (readField C rec i name c1).map (fun r => r.map (fun p => (p.1, p.2.st))) =
      (readField C rec i name c2).map (fun r => r.map (fun p => (p.1, p.2.st)))) := by
  refine ⟨derived_read h1 hf, derived_read h2 hf, fun hst => ?_⟩
  rw [derived_read h1 hf, derived_read h2 hf]
  exact invoke_state_only rec _ _ _ _ c1 c2 hst

/-- derived attributes whose action NAVIGATES (or reads other instances): a read that follows a change of the link store
    or of any attribute — `relate`, `unrelate`, `x.attr = v`, any store transformer `g` that succeeds — is the
    evaluation of the body in the CHANGED store; nothing of an earlier evaluation is used -/
theorem derived_after_store_change (C : Ctx) (rec : Oracle) (i : Inst) (name : String) (f : Callable)
    (g : State → Except Err State) (c : Cfg) (st' : State)
    (hreg : regHit c.fr i name = false) (hf : findDerived C i.cls name = some f) (hg : g c.st = .ok st') :
    (do M.modifySt g; readField C rec i name) c =
      invoke rec (.derived i name) f.body [] (.inst i) { c with st := st' } := by
  have hm : M.modifySt g c = some (.ok ((), { c with st := st' })) := by
    unfold M.modifySt; rw [hg]
  rw [bind_ok hm]
  exact derived_read (c := { c with st := st' }) hreg hf

/-- … in particular after the three statements that change what a navigation or a partner read delivers -/
theorem derived_after_relate_unrelate_assign (C : Ctx) (rec : Oracle) (i : Inst) (name : String) (f : Callable) (c : Cfg)
    (hreg : regHit c.fr i name = false) (hf : findDerived C i.cls name = some f) (x y : Inst) (rel ph attr : String)
    (v : Val) (st' : State) :
    (relate C x y rel ph c.st = .ok st' →
      (do M.modifySt (relate C x y rel ph); readField C rec i name) c =
        invoke rec (.derived i name) f.body [] (.inst i) { c with st := st' }) ∧
    (unrelate C x y rel ph c.st = .ok st' →
      (do M.modifySt (unrelate C x y rel ph); readField C rec i name) c =
        invoke rec (.derived i name) f.body [] (.inst i) { c with st := st' }) ∧
    (setAttr C x attr v c.st = .ok st' →
      (do M.modifySt (setAttr C x attr v); readField C rec i name) c =
        invoke rec (.derived i name) f.body [] (.inst i) { c with st := st' }) :=
  ⟨fun h => derived_after_store_change C rec i name f _ c st' hreg hf h,
   fun h => derived_after_store_change C rec i name f _ c st' hreg hf h,
   fun h => derived_after_store_change C rec i name f _ c st' hreg hf h⟩

/-! ## enumerations and constants -/

/-- `mk_enum` numbers the enumerators in their MODELED order (the R56 chain), whatever the order of the S_ENUM rows
    in the model files: for every permutation `rows` of the rows that encode the enumerators `L` (distinct non-null
    ids), the order is `L`'s; and an enumerator reads as its position in that order -/
theorem enum_positions (L : List (Nat × String)) (hnd : (0 :: L.map Prod.fst).Nodup) (rows : List EnumRow)
    (hperm : rows.Perm (mkRows 0 L)) :
    enumOrder rows = L.map Prod.snd ∧
    ((L.map Prod.snd).Nodup → ∀ (k : Nat) (h : k < (L.map Prod.snd).length),
        posOf (L.map Prod.snd)[k] (enumOrder rows) = some k) := by
  have h := enumOrder_perm L hnd rows hperm
  refine ⟨h, fun hn k hk => ?_⟩
  rw [h]; exact posOf_getElem _ hn k hk

/-- `Enum::name` evaluates to that position -/
theorem enum_value (C : Ctx) (rec : Oracle) (ns name : String) (d : EnumDecl) (k : Nat) (c : Cfg)
    (hd : C.enums.find? (fun d => d.name = ns) = some d) (hk : posOf name d.enumerators = some k) :
    evalStep C rec (.enumOrConst ns name) c = some (.ok (.int k, c)) := by
  simp only [evalStep, hd, hk]; rfl

/-- a named constant reads as its modeled value converted by its data type, whatever the order of the CNST rows -/
theorem constants (rows rows' : List ConstRow) (hp : rows.Perm rows') (hnd : (rows.map ConstRow.name).Nodup) :
    (∀ x, (constTable rows).lookup x = (constTable rows').lookup x) ∧
    (∀ r ∈ rows, ∀ v, constVal r.tyName r.text = some v → (constTable rows').lookup r.name = some v) := by
  refine ⟨constTable_lookup_perm hp hnd, ?_⟩
  intro r hr v hv
  rw [← constTable_lookup_perm hp hnd]
  exact constTable_lookup hnd hr hv

/-- the conversions of `mk_constant` -/
theorem constants_conversion :
    constVal "integer" "42" = some (.int 42) ∧ constVal "integer" "-3" = some (.int (-3)) ∧
    constVal "boolean" "TRUE" = some (.bool true) ∧ constVal "boolean" "false" = some (.bool false) ∧
    constVal "boolean" "yes" = some (.bool false) ∧ constVal "string" "x y" = some (.str "x y") ∧
    constVal "real" "1.5" = none := by
  decide +kernel

/-! ## non-vacuity -/

/-- `g`: `x = 99; y = 5; return x + y;`      `f`: `x = 1; y = ::g(); return x * 1000 + y;`
    `fact(cnt)`: `if (param.cnt > 0) return param.cnt * ::fact(cnt: param.cnt - 1); end if; return 1;`
    class A: `twice` (derived) `self.twice = self.n * 2;`, instance operation `bump(d)`: `self.n = self.n + param.d; return self.n;` -/
def C1 : Ctx :=
  { classes := [⟨"A", [⟨"n", .integer, false⟩]⟩],
    callables := [
      ⟨.function, "g", [.assignVar "x" (.int 99), .assignVar "y" (.int 5), .ret (some (.bin .add (.var "x") (.var "y")))]⟩,
      ⟨.function, "f", [.assignVar "x" (.int 1), .assignVar "y" (.call .function "g" []),
                        .ret (some (.bin .add (.bin .mul (.var "x") (.int 1000)) (.var "y")))]⟩,
      ⟨.function, "fact", [.ifS (.bin .gt (.param "cnt") (.int 0))
                              [.ret (some (.bin .mul (.param "cnt")
                                (.call .function "fact" [("cnt", .bin .sub (.param "cnt") (.int 1))])))] [] none,
                           .ret (some (.int 1))]⟩,
      ⟨.derived "A", "twice", [.assignField .self "twice" (.bin .mul (.field .self "n") (.int 2))]⟩,
      ⟨.instOp "A", "bump", [.assignField .self "n" (.bin .add (.field .self "n") (.param "d")),
                             .ret (some (.field .self "n"))]⟩,
      ⟨.function, "nothing", [.assignVar "x" (.int 1), .ret none, .assignVar "x" (.int 2)]⟩ ],
    enums := [⟨"Color", enumOrder [⟨12, "blue", 11⟩, ⟨10, "red", 0⟩, ⟨11, "green", 10⟩]⟩],
    consts := constTable [⟨"K", "integer", "42"⟩] }

def st1 : State :=
  { live := fun c => if c = "A" then [0] else [], next := fun c => if c = "A" then 1 else 0,
    attr := fun _ _ => .int 3, links := fun _ => [], nextId := 1 }

def valOf (r : Option (Except Err (Val × State))) : Option Val :=
  match r with | some (.ok (v, _)) => some v | _ => none

/-- the callee's `x = 99` does not reach the caller's `x` -/
example : valOf (runFunction C1 12 [.ret (some (.call .function "f" []))] [] st1) = some (.int 1104) := by
  decide +kernel
/-- self-recursion: 4! -/
example : valOf (runFunction C1 40 [.ret (some (.call .function "fact" [("cnt", .int 4)]))] [] st1) = some (.int 24) := by
  decide +kernel
/-- a derived attribute read, a state change through an instance operation, the derived attribute again: 6, then 16;
    enumerator positions follow the chain red, green, blue although the rows are permuted; the constant reads 42 -/
example : valOf (runFunction C1 20 [
      .selectFrom false "a" "A" none,
      .assignVar "before" (.field (.var "a") "twice"),
      .invoke (.callInst (.var "a") "bump" [("d", .int 5)]),
      .ret (some (.bin .add (.bin .mul (.var "before") (.int 100))
              (.bin .add (.field (.var "a") "twice")
                (.bin .add (.bin .mul (.enumOrConst "Color" "blue") (.int 10000)) (.bin .mul (.var "K") (.int 100000))))))]
    [] st1) = some (.int (6 * 100 + 16 + 2 * 10000 + 42 * 100000)) := by
  decide +kernel
/-- a bare return delivers nothing, and the statement after it does not run -/
example : valOf (runFunction C1 12 [.ret (some (.call .function "nothing" []))] [] st1) = some .none := by
  decide +kernel
example : enumOrder [⟨12, "blue", 11⟩, ⟨10, "red", 0⟩, ⟨11, "green", 10⟩] = ["red", "green", "blue"] := by
  decide +kernel
/-- the hypotheses of `enum_positions` are satisfiable: these rows are a permutation of the modeled chain -/
example : ([⟨12, "blue", 11⟩, ⟨10, "red", 0⟩, ⟨11, "green", 10⟩] : List EnumRow).Perm
    (mkRows 0 [(10, "red"), (11, "green"), (12, "blue")]) := by
  decide +kernel

/-- a derived attribute whose action navigates: `B.d`:
    `select one a related by self->A[R1]; self.d = 0; if (not_empty a) self.d = a.n * 2; end if;`
    read before any link (0), after `relate` (2·3), after an assignment to the partner (2·7), after `unrelate` (0) -/
def C2 : Ctx :=
  { classes := [⟨"A", [⟨"n", .integer, false⟩]⟩, ⟨"B", [⟨"n", .integer, false⟩, ⟨"A_ID", .uniqueId, true⟩]⟩],
    assocs := [{ rel := "R1", src := "B", tgt := "A", srcPhrase := "", tgtPhrase := "", srcMany := true, tgtMany := false,
                 srcKeys := ["A_ID"], tgtKeys := ["ID"] }],
    callables := [
      ⟨.derived "B", "d", [.selectRelated false "a" .self [⟨"A", "R1", ""⟩] none,
                           .assignField .self "d" (.int 0),
                           .ifS (.un .notEmpty (.var "a"))
                             [.assignField .self "d" (.bin .mul (.field (.var "a") "n") (.int 2))] [] none]⟩ ] }

def st2 : State :=
  { live := fun c => if c = "A" ∨ c = "B" then [0] else [], next := fun c => if c = "A" ∨ c = "B" then 1 else 0,
    attr := fun _ _ => .int 3, links := fun _ => [], nextId := 1 }

example : valOf (runFunction C2 20 [
      .selectFrom false "b" "B" none, .selectFrom false "a" "A" none,
      .assignVar "x1" (.field (.var "b") "d"),
      .relate "b" "a" "R1" "",
      .assignVar "x2" (.field (.var "b") "d"),
      .assignField (.var "a") "n" (.int 7),
      .assignVar "x3" (.field (.var "b") "d"),
      .unrelate "b" "a" "R1" "",
      .assignVar "x4" (.field (.var "b") "d"),
      .ret (some (.bin .add (.bin .add (.bin .mul (.var "x1") (.int 1000000)) (.bin .mul (.var "x2") (.int 10000)))
                            (.bin .add (.bin .mul (.var "x3") (.int 100)) (.var "x4"))))]
    [] st2) = some (.int (0 * 1000000 + 6 * 10000 + 14 * 100 + 0)) := by
  decide +kernel

end PyxProps.C15
