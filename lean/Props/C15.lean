import Proofs.InterpMono
import Proofs.InterpLaws
import Proofs.InterpScope
import Proofs.InterpCalls
import Proofs.InterpEnum
import Proofs.InterpReturn
import Proofs.CallShape
import Proofs.CallShapeMore
import Proofs.CallShapeTotal

/-!
  C15 — Callable model elements behave as their OAL bodies specify.
  Property theorems only (helper lemmas: Proofs/InterpScope.lean, Proofs/InterpCalls.lean, Proofs/InterpReturn.lean,
  Proofs/InterpEnum.lean).

  Model: `Spec` (PyxModel/Interp/Spec.lean) with the callable table of `Ctx` (functions, bridges, class- and
  instance-based operations, derived attributes): `invoke` runs the callee's body in a NEW frame (`mkFrame`: fresh
  scope, parameters bound by name, `self` = the receiver, return register = none) and hands back the register;
  `PyxModel/Interp/Model.lean` models `mk_enum` / `mk_constant` on the rows of the model files.
  That the implementation delivers what `Spec` delivers is decided on every run by harness/prop_C15.py.
  Name spaces: `Spec` keeps functions, bridges / external entities, operations, enumerations and constants in separate
  tables (OAL tells them apart by syntax).  The implementation kept them in ONE dictionary: a constant, enumeration or
  external entity named like a function, and a function named like a class, hid one another — found by this check,
  repaired in /repo dc771e3 and 51d2937 (KNOWN_FINDINGS.txt), and generated since as ordinary cases (family `clash`).
-/
namespace PyxProps.C15
open Pyx.Interp

/-! ## isolation -/

/-- evaluating ANY expression — with calls of functions, bridges, operations, derived attributes in it, nested to any
    depth, self-recursive or mutually recursive — leaves the caller's frame (its variables in every block, its
    parameters, its self, its return register) exactly as it was.  By induction on the fuel, for every fuel. -/
theorem call_isolated (C : Ctx) (n : Nat) (e : Expr) (c c' : Cfg) (v : Val)
    (h : (run C n).eval e c = some (.ok (v, c'))) : c'.fr = c.fr :=
  rfr_run C n e c v c' h

/-- the same for an invocation used as a statement -/
theorem call_isolated_stmt (C : Ctx) (n : Nat) (e : Expr) (c c' : Cfg) (o : Out)
    (h : (run C (n + 1)).exec (.invoke e) c = some (.ok (o, c'))) : c'.fr = c.fr ∧ o = .normal := by
  have h' : execStep C (run C n) (.invoke e) c = some (.ok (o, c')) := h
  simp only [execStep] at h'
  obtain ⟨v, c1, h1, h2⟩ := bind_ok_inv h'
  have hf := rfr_run C n e c v c1 h1
  have : M.ret' Out.normal c1 = some (.ok (o, c')) := h2
  simp [M.ret'] at this
  obtain ⟨rfl, rfl⟩ := this
  exact ⟨hf, rfl⟩

/-- the callee does not see the caller's variables either: it starts in a fresh scope, whatever the caller's frame -/
theorem callee_starts_fresh (rec : Oracle) (kind : WalkerKind) (body : Block) (kw : List (String × Val)) (self : Val)
    (c1 c2 : Cfg) (hst : c1.st = c2.st) :
    (invoke rec kind body kw self c1).map (fun r => r.map (fun p => (p.1, p.2.st))) =
    (invoke rec kind body kw self c2).map (fun r => r.map (fun p => (p.1, p.2.st))) ∧
    (mkFrame kind kw self).env = [[]] ∧ (mkFrame kind kw self).ret = .none :=
  ⟨invoke_state_only rec kind body kw self c1 c2 hst, rfl, rfl⟩

/-! ## parameters -/

/-- parameters are bound by name: the result of an invocation is invariant under permutation of the argument list
    (distinct names), and `param.x` reads the argument named `x` -/
theorem params_by_name (C : Ctx) (rec : Oracle) (kind : WalkerKind) (body : Block) (kw kw' : List (String × Val))
    (self : Val) (hp : kw.Perm kw') (hnd : (kw.map Prod.fst).Nodup) :
    invoke rec kind body kw self = invoke rec kind body kw' self ∧
    (∀ x v, (x, v) ∈ kw → (mkFrame kind kw self).params x = some v) ∧
    (∀ x v st, (x, v) ∈ kw → (∀ i a, kind ≠ .derived i a) →
        evalStep C rec (.param x) { fr := mkFrame kind kw self, st := st } =
          some (.ok (v, { fr := mkFrame kind kw self, st := st }))) := by
  refine ⟨invoke_perm rec kind body self hp hnd, fun x v h => paramsOf_mem hnd h, ?_⟩
  intro x v st hx hk
  exact eval_param (c := { fr := mkFrame kind kw self, st := st }) hk (paramsOf_mem hnd hx)

/-! ## self -/

/-- in an operation and in a derived attribute `self` is the receiver the walker was created with; an instance-based
    operation `h.op(…)` and a derived attribute read `h.attr` create it with the instance `h` denotes; a class-based
    operation `NS::op(…)` runs in an operation walker whose receiver is the empty handle (so `self` reads as the
    empty handle there); a function `::f(…)` and a bridge `NS::b(…)` run in a function walker, where `self` is unbound -/
theorem self_bound (C : Ctx) (rec : Oracle) :
    (∀ c, c.fr.kind ≠ .function → evalStep C rec .self c = some (.ok (c.fr.self, c))) ∧
    (∀ c, c.fr.kind = .function → ∃ e, evalStep C rec .self c = some (.error e)) ∧
    (∀ h name args c c1 c2 i f kw, rec.eval h c = some (.ok (.inst i, c1)) →
        findCallable C (fun f => f.kind = .instOp i.cls ∧ f.name = name) = some f →
        evalArgs rec args c1 = some (.ok (kw, c2)) →
        evalStep C rec (.callInst h name args) c = invoke rec .operation f.body kw (.inst i) c2) ∧
    (∀ i name f c, regHit c.fr i name = false → findDerived C i.cls name = some f →
        readField C rec i name c = invoke rec (.derived i name) f.body [] (.inst i) c) ∧
    (∀ kind kw self, (mkFrame kind kw self).self = self) ∧
    -- class-based operation / bridge: `NS::name(args)`
    (∀ k ns name args c c2 f kw, (k = .implicit ns ∨ k = .bridge ns) →
        evalArgs rec args c = some (.ok (kw, c2)) → resolveNs C ns name = some f →
        evalStep C rec (.call k name args) c =
          invoke rec (match f.kind with | .bridge _ => .function | _ => .operation) f.body kw .none c2) ∧
    -- `transform KL::name(args)`: the class-based operation of the class KL only
    (∀ ns name args c c2 f kw, evalArgs rec args c = some (.ok (kw, c2)) →
        findCallable C (fun f => f.kind = .classOp ns ∧ f.name = name) = some f →
        evalStep C rec (.call (.classOp ns) name args) c = invoke rec .operation f.body kw .none c2) ∧
    (∀ kw st, evalStep C rec .self { fr := mkFrame .operation kw .none, st := st }
        = some (.ok (.none, { fr := mkFrame .operation kw .none, st := st }))) ∧
    -- function: `::name(args)`
    (∀ name args c c2 f kw, evalArgs rec args c = some (.ok (kw, c2)) →
        findCallable C (fun f => f.kind = .function ∧ f.name = name) = some f →
        evalStep C rec (.call .function name args) c = invoke rec .function f.body kw .none c2) ∧
    (∀ kw self st, ∃ e, evalStep C rec .self { fr := mkFrame .function kw self, st := st } = some (.error e)) :=
  ⟨fun _ h => eval_self h, fun _ h => eval_self_function h,
   fun _ _ _ _ _ _ _ _ _ h1 h2 h3 => callInst_runs_with_self h1 h2 h3,
   fun _ _ _ _ h1 h2 => derived_read h1 h2, fun _ _ _ => rfl,
   fun _ _ _ _ _ _ _ _ hk ha hf => call_ns_runs hk ha hf,
   fun _ _ _ _ _ _ _ ha hf => call_classOp_runs ha hf,
   fun kw st => eval_self_classOp C rec kw st,
   fun _ _ _ _ _ _ ha hf => call_function_runs_unbound ha hf,
   fun _ _ _ => eval_self_function rfl⟩

/-- the NAME `self` (any letter case) used where a variable is expected — `relate self to …`, `unrelate self from …`,
    `delete object instance self`, `select … related by self->…`, `for each … in self` — denotes the receiver in an
    operation and a derived attribute; in a function it is an ordinary variable name -/
theorem self_name (C : Ctx) (x : String) (c : Cfg) :
    (selfHit c.fr x = true → lookupVar C x c = some (.ok (c.fr.self, c))) ∧
    (∀ v, selfHit c.fr x = false → envLookup c.fr.env x = some v → lookupVar C x c = some (.ok (v, c))) ∧
    (c.fr.kind = .function → selfHit c.fr x = false) ∧
    (c.fr.kind ≠ .function → selfHit c.fr x = (x.map Char.toLower == "self")) :=
  ⟨lookupVar_self, fun _ h1 h2 => lookupVar_env h1 h2, fun h => by simp [selfHit, h],
   fun h => by cases hk : c.fr.kind <;> simp_all [selfHit, isSelfName]⟩

/-! ## the result -/

/-- an invocation delivers the callee's return register at the end of its body — and nothing else of the callee's
    frame survives; `return e` stores the value of `e` there and ends every enclosing list, block and loop at once
    (the statements after it do not run); a body that ends without `return <expr>` (falls through, bare `return;`,
    `control stop`) delivers nothing -/
theorem return_value (C : Ctx) (n : Nat) :
    (∀ kind body kw self c v c2, invoke (run C n) kind body kw self c = some (.ok (v, c2)) →
        ∃ c', runBody (run C n) body { fr := mkFrame kind kw self, st := c.st } = some (.ok ((), c')) ∧
          v = c'.fr.ret ∧ c2 = { fr := c.fr, st := c'.st }) ∧
    (∀ e cfg c1 v, Evals C e cfg (.ok (v, c1)) →
        Execs C (.ret (some e)) cfg (.ok (.ret, { c1 with fr := { c1.fr with ret := v } }))) ∧
    (∀ s rest cfg c1, Execs C s cfg (.ok (.ret, c1)) → ListExecs C (s :: rest) cfg (.ok (.ret, c1))) ∧
    (∀ cfg, Execs C (.ret none) cfg (.ok (.retBare, cfg))) ∧
    (∀ kind body kw self c c' o, NotDerived kind →
        execBlock (run C n) body { fr := mkFrame kind kw self, st := c.st } = some (.ok (o, c')) →
        (o = .normal ∨ o = .stop ∨ o = .retBare) →
        invoke (run C n) kind body kw self c = some (.ok (.none, { fr := c.fr, st := c'.st }))) :=
  ⟨fun _ _ _ _ _ _ _ h => invoke_ok_inv h, fun _ _ _ _ h => exec_return_value h,
   fun _ _ _ _ h => list_cons_abrupt h (by simp), fun _ => exec_return_bare,
   fun _ _ _ _ _ _ _ hk hb ho => invoke_without_return_value hk hb ho⟩

/-- outside derived attributes the return register is written by `return <expr>` only: a statement that does not
    complete by `return` leaves it as it was (whatever it calls, creates, selects or loops over) -/
theorem return_register_untouched (C : Ctx) (n : Nat) (s : Stmt) (c c' : Cfg) (o : Out)
    (h : (run C n).exec s c = some (.ok (o, c'))) (hk : NotDerived c.fr.kind) :
    c'.fr.kind = c.fr.kind ∧ (o ≠ .ret → c'.fr.ret = c.fr.ret) :=
  presRet_run C n s c o c' h hk

/-- **the value of the executed return**, with the witness tied to the body: an invocation (function, bridge,
    operation) that delivers `v` either ended its body without a value return (fell through, bare `return;`,
    `control stop`) and `v` is nothing, or there is a statement `return e` OCCURRING IN THE BODY (`OccB`: at any depth
    of blocks, `if` / `elif` / `else`, `while`, `for each`) whose expression `e` was evaluated — in a configuration `c0`
    of the callee's own activation (its walker kind, its parameters bound by name, its `self`) whose state is reached
    from the state at the call by a history of state operations — to exactly `v`; the body ended by `return`, and after
    that evaluation nothing but unwinding happened (the state the caller gets back is the state right after the
    evaluation).  A value other than nothing therefore is the value of a return statement of this body, evaluated in
    this activation. -/
theorem return_value_executed (C : Ctx) (n : Nat) (kind : WalkerKind) (body : Block) (kw : List (String × Val))
    (self : Val) (c c2 : Cfg) (v : Val) (hk : NotDerived kind)
    (h : invoke (run C n) kind body kw self c = some (.ok (v, c2))) :
    ((v = .none ∧ ∃ o c', execBlock (run C n) body { fr := mkFrame kind kw self, st := c.st } = some (.ok (o, c')) ∧ o ≠ .ret) ∨
     (∃ e c0 cE c', OccB (.ret (some e)) body ∧
        c0.fr.kind = kind ∧ c0.fr.params = paramsOf kw ∧ c0.fr.self = self ∧ Reach C c.st c0.st ∧
        (run C n).eval e c0 = some (.ok (v, cE)) ∧
        execBlock (run C n) body { fr := mkFrame kind kw self, st := c.st } = some (.ok (.ret, c')) ∧
        c'.st = cE.st ∧ c2.st = cE.st)) ∧
    (v ≠ .none → ∃ c', execBlock (run C n) body { fr := mkFrame kind kw self, st := c.st } = some (.ok (.ret, c')) ∧
        v = c'.fr.ret) :=
  ⟨invoke_delivers_executed_return hk h, invoke_value_needs_return hk h⟩

/-- a statement `s` completes with the outcome `ret` only through a return statement OCCURRING IN `s` (`Occ`: `s`
    itself or a statement nested in its blocks): its expression was evaluated to `v` in a configuration of the same
    activation (same kind, parameters, self) whose state is reached from the state `s` started in, `v` is in the
    register, and the final state is the state right after that evaluation — for every statement, at every nesting
    depth, for every fuel -/
theorem return_outcome_has_event (C : Ctx) (n : Nat) (s : Stmt) (c c' : Cfg)
    (h : (run C n).exec s c = some (.ok (.ret, c'))) :
    ∃ e c0 v cE, Occ (.ret (some e)) s ∧
      (c0.fr.kind = c.fr.kind ∧ c0.fr.params = c.fr.params ∧ c0.fr.self = c.fr.self) ∧ Reach C c.st c0.st ∧
      (run C n).eval e c0 = some (.ok (v, cE)) ∧ c'.st = cE.st ∧ c'.fr.ret = v := by
  obtain ⟨_, hev⟩ := retInv_run C n s c .ret c' h
  obtain ⟨e, c0, v, cE, hin, hl, he, hs1, hs2⟩ := hev rfl
  exact ⟨e, c0, v, cE, hin, hl.1, hl.2, he, hs1, hs2⟩

/-! ## derived attributes -/

/-- a derived attribute is recomputed on every read: the read IS the invocation of its body in the state of the
    moment (the configuration has no cache to remember an earlier value in), so two reads with a state change in
    between deliver the body's value in the respective states -/
theorem derived_recomputed (C : Ctx) (rec : Oracle) (i : Inst) (name : String) (f : Callable) (c1 c2 : Cfg)
    (h1 : regHit c1.fr i name = false) (h2 : regHit c2.fr i name = false)
    (hf : findDerived C i.cls name = some f) :
    readField C rec i name c1 = invoke rec (.derived i name) f.body [] (.inst i) c1 ∧
    readField C rec i name c2 = invoke rec (.derived i name) f.body [] (.inst i) c2 ∧
    (c1.st = c2.st →
      (readField C rec i name c1).map (fun r => r.map (fun p => (p.1, p.2.st))) =
      (readField C rec i name c2).map (fun r => r.map (fun p => (p.1, p.2.st)))) := by
  refine ⟨derived_read h1 hf, derived_read h2 hf, fun hst => ?_⟩
  rw [derived_read h1 hf, derived_read h2 hf]
  exact invoke_state_only rec _ _ _ _ c1 c2 hst

/-- derived attributes whose action NAVIGATES (or reads other instances): a read that follows a change of the link store
    or of any attribute — `relate`, `unrelate`, `x.attr = v`, any store transformer `g` that succeeds — is the
    evaluation of the body in the CHANGED store; nothing of an earlier evaluation is used -/
theorem derived_after_store_change (C : Ctx) (rec : Oracle) (i : Inst) (name : String) (f : Callable)
    (g : State → Except Err State) (c : Cfg) (st' : State)
    (hreg : regHit c.fr i name = false) (hf : findDerived C i.cls name = some f) (hg : g c.st = .ok st') :
    (do M.modifySt g; readField C rec i name) c =
      invoke rec (.derived i name) f.body [] (.inst i) { c with st := st' } := by
  have hm : M.modifySt g c = some (.ok ((), { c with st := st' })) := by
    unfold M.modifySt; rw [hg]
  rw [bind_ok hm]
  exact derived_read (c := { c with st := st' }) hreg hf

/-- … in particular after the three statements that change what a navigation or a partner read delivers -/
theorem derived_after_relate_unrelate_assign (C : Ctx) (rec : Oracle) (i : Inst) (name : String) (f : Callable) (c : Cfg)
    (hreg : regHit c.fr i name = false) (hf : findDerived C i.cls name = some f) (x y : Inst) (rel ph attr : String)
    (v : Val) (st' : State) :
    (relate C x y rel ph c.st = .ok st' →
      (do M.modifySt (relate C x y rel ph); readField C rec i name) c =
        invoke rec (.derived i name) f.body [] (.inst i) { c with st := st' }) ∧
    (unrelate C x y rel ph c.st = .ok st' →
      (do M.modifySt (unrelate C x y rel ph); readField C rec i name) c =
        invoke rec (.derived i name) f.body [] (.inst i) { c with st := st' }) ∧
    (setAttr C x attr v c.st = .ok st' →
      (do M.modifySt (setAttr C x attr v); readField C rec i name) c =
        invoke rec (.derived i name) f.body [] (.inst i) { c with st := st' }) :=
  ⟨fun h => derived_after_store_change C rec i name f _ c st' hreg hf h,
   fun h => derived_after_store_change C rec i name f _ c st' hreg hf h,
   fun h => derived_after_store_change C rec i name f _ c st' hreg hf h⟩

/-! ## enumerations and constants -/

/-- `mk_enum` numbers the enumerators in their MODELED order (the R56 chain), whatever the order of the S_ENUM rows
    in the model files: for every permutation `rows` of the rows that encode the enumerators `L` (distinct non-null
    ids), the order is `L`'s; and an enumerator reads as its position in that order -/
theorem enum_positions (L : List (Nat × String)) (hnd : (0 :: L.map Prod.fst).Nodup) (rows : List EnumRow)
    (hperm : rows.Perm (mkRows 0 L)) :
    enumOrder rows = L.map Prod.snd ∧
    ((L.map Prod.snd).Nodup → ∀ (k : Nat) (h : k < (L.map Prod.snd).length),
        posOf (L.map Prod.snd)[k] (enumOrder rows) = some k) := by
  have h := enumOrder_perm L hnd rows hperm
  refine ⟨h, fun hn k hk => ?_⟩
  rw [h]; exact posOf_getElem _ hn k hk

/-- `Enum::name` evaluates to that position -/
theorem enum_value (C : Ctx) (rec : Oracle) (ns name : String) (d : EnumDecl) (k : Nat) (c : Cfg)
    (hd : C.enums.find? (fun d => d.name = ns) = some d) (hk : posOf name d.enumerators = some k) :
    evalStep C rec (.enumOrConst ns name) c = some (.ok (.int k, c)) := by
  simp only [evalStep, hd, hk]; rfl

/-- a named constant reads as its modeled value converted by its data type, whatever the order of the CNST rows -/
theorem constants (rows rows' : List ConstRow) (hp : rows.Perm rows') (hnd : (rows.map ConstRow.name).Nodup) :
    (∀ x, (constTable rows).lookup x = (constTable rows').lookup x) ∧
    (∀ r ∈ rows, ∀ v, constVal r.tyName r.text = some v → (constTable rows').lookup r.name = some v) := by
  refine ⟨constTable_lookup_perm hp hnd, ?_⟩
  intro r hr v hv
  rw [← constTable_lookup_perm hp hnd]
  exact constTable_lookup hnd hr hv

/-- the conversions of `mk_constant`, for EVERY text: a string constant is its text; a boolean is whether the text
    spelled in lower case is `true`; an integer is the number its decimal numeral denotes — for every integer; any
    other type name yields no constant -/
theorem constants_conversion :
    (∀ t, constVal "string" t = some (.str t)) ∧
    (∀ t, constVal "boolean" t = some (.bool (t.map Char.toLower == "true"))) ∧
    (∀ n : Nat, constVal "integer" (Nat.repr n) = some (.int n)) ∧
    (∀ n : Nat, constVal "integer" ("-" ++ Nat.repr (n + 1)) = some (.int (-((n + 1 : Nat) : Int)))) ∧
    (∀ ty t, ty ≠ "boolean" → ty ≠ "integer" → ty ≠ "string" → constVal ty t = none) :=
  constVal_universal

/-- the tables reach the interpreter: where the context carries `constTable rows'` (any permutation of the CNST rows),
    the NAME of a constant — not hidden by a local variable, not `self` — evaluates to its converted value, and a local
    variable of that name hides it; where the context carries `mk_enum`'s order of the (permuted) S_ENUM rows of `E`,
    `E::name` evaluates to the modeled position of `name` -/
theorem tables_reach_interpreter (C : Ctx) (rec : Oracle) :
    (∀ (rows rows' : List ConstRow) (r : ConstRow) (v : Val) (c : Cfg), C.consts = constTable rows' → rows.Perm rows' → (rows.map ConstRow.name).Nodup → r ∈ rows →
        constVal r.tyName r.text = some v → selfHit c.fr r.name = false → envLookup c.fr.env r.name = none →
        evalStep C rec (.var r.name) c = some (.ok (v, c))) ∧
    (∀ (x : String) (c : Cfg) (w : Val), selfHit c.fr x = false → envLookup c.fr.env x = some w →
        evalStep C rec (.var x) c = some (.ok (w, c))) ∧
    (∀ (ns : String) (rows : List EnumRow) (L : List (Nat × String)) (k : Nat) (hk : k < (L.map Prod.snd).length) (c : Cfg),
        C.enums.find? (fun d => d.name = ns) = some ⟨ns, enumOrder rows⟩ →
        (0 :: L.map Prod.fst).Nodup → rows.Perm (mkRows 0 L) → (L.map Prod.snd).Nodup →
        evalStep C rec (.enumOrConst ns (L.map Prod.snd)[k]) c = some (.ok (.int k, c))) :=
  ⟨fun _ _ _ _ _ hC hp hnd hr hv hs he => const_read hC hp hnd hr hv hs he,
   fun _ _ _ hs he => const_hidden hs he,
   fun _ _ _ k hk c hC hnd hp hn => enum_read hC hnd hp hn k hk c⟩

/-! ## non-vacuity -/

/-- `g`: `x = 99; y = 5; return x + y;`      `f`: `x = 1; y = ::g(); return x * 1000 + y;`
    `fact(cnt)`: `if (param.cnt > 0) return param.cnt * ::fact(cnt: param.cnt - 1); end if; return 1;`
    class A: `twice` (derived) `self.twice = self.n * 2;`, instance operation `bump(d)`: `self.n = self.n + param.d; return self.n;` -/
def C1 : Ctx :=
  { classes := [⟨"A", [⟨"n", .integer, false⟩]⟩],
    callables := [
      ⟨.function, "g", [.assignVar "x" (.int 99), .assignVar "y" (.int 5), .ret (some (.bin .add (.var "x") (.var "y")))]⟩,
      ⟨.function, "f", [.assignVar "x" (.int 1), .assignVar "y" (.call .function "g" []),
                        .ret (some (.bin .add (.bin .mul (.var "x") (.int 1000)) (.var "y")))]⟩,
      ⟨.function, "fact", [.ifS (.bin .gt (.param "cnt") (.int 0))
                              [.ret (some (.bin .mul (.param "cnt")
                                (.call .function "fact" [("cnt", .bin .sub (.param "cnt") (.int 1))])))] [] none,
                           .ret (some (.int 1))]⟩,
      ⟨.derived "A", "twice", [.assignField .self "twice" (.bin .mul (.field .self "n") (.int 2))]⟩,
      ⟨.instOp "A", "bump", [.assignField .self "n" (.bin .add (.field .self "n") (.param "d")),
                             .ret (some (.field .self "n"))]⟩,
      ⟨.function, "nothing", [.assignVar "x" (.int 1), .ret none, .assignVar "x" (.int 2)]⟩,
      -- `sub2(a, b)`: `return param.a - param.b;`
      ⟨.function, "sub2", [.ret (some (.bin .sub (.param "a") (.param "b")))]⟩,
      -- `deep(a, b)`: `i = 0; while (true) i = i + 1; if (i > param.a) if (param.b > 0) return i * param.b; end if; return; end if; end while; return 0 - 1;`
      ⟨.function, "deep", [.assignVar "i" (.int 0),
                           .whileS (.bool true) [
                             .assignVar "i" (.bin .add (.var "i") (.int 1)),
                             .ifS (.bin .gt (.var "i") (.param "a"))
                               [.ifS (.bin .gt (.param "b") (.int 0)) [.ret (some (.bin .mul (.var "i") (.param "b")))] [] none,
                                .ret none] [] none],
                           .ret (some (.int (-1)))]⟩,
      -- class-based operation `A::whoami()`: `if (empty self) return 1; end if; return 0;`
      ⟨.classOp "A", "whoami", [.ifS (.un .empty .self) [.ret (some (.int 1))] [] none, .ret (some (.int 0))]⟩ ],
    enums := [⟨"Color", enumOrder [⟨12, "blue", 11⟩, ⟨10, "red", 0⟩, ⟨11, "green", 10⟩]⟩],
    consts := constTable [⟨"K", "integer", "42"⟩] }

def st1 : State :=
  { live := fun c => if c = "A" then [0] else [], next := fun c => if c = "A" then 1 else 0,
    attr := fun _ _ => .int 3, links := fun _ => [], nextId := 1 }

def valOf (r : Option (Except Err (Val × State))) : Option Val :=
  match r with | some (.ok (v, _)) => some v | _ => none

/-- the callee's `x = 99` does not reach the caller's `x` -/
example : valOf (runFunction C1 12 [.ret (some (.call .function "f" []))] [] st1) = some (.int 1104) := by
  decide +kernel
/-- self-recursion: 4! -/
example : valOf (runFunction C1 40 [.ret (some (.call .function "fact" [("cnt", .int 4)]))] [] st1) = some (.int 24) := by
  decide +kernel
/-- a derived attribute read, a state change through an instance operation, the derived attribute again: 6, then 16;
    enumerator positions follow the chain red, green, blue although the rows are permuted; the constant reads 42 -/
example : valOf (runFunction C1 20 [
      .selectFrom false "a" "A" none,
      .assignVar "before" (.field (.var "a") "twice"),
      .invoke (.callInst (.var "a") "bump" [("d", .int 5)]),
      .ret (some (.bin .add (.bin .mul (.var "before") (.int 100))
              (.bin .add (.field (.var "a") "twice")
                (.bin .add (.bin .mul (.enumOrConst "Color" "blue") (.int 10000)) (.bin .mul (.var "K") (.int 100000))))))]
    [] st1) = some (.int (6 * 100 + 16 + 2 * 10000 + 42 * 100000)) := by
  decide +kernel
/-- a bare return delivers nothing, and the statement after it does not run -/
example : valOf (runFunction C1 12 [.ret (some (.call .function "nothing" []))] [] st1) = some .none := by
  decide +kernel
example : enumOrder [⟨12, "blue", 11⟩, ⟨10, "red", 0⟩, ⟨11, "green", 10⟩] = ["red", "green", "blue"] := by
  decide +kernel
/-- the hypotheses of `enum_positions` are satisfiable: these rows are a permutation of the modeled chain -/
example : ([⟨12, "blue", 11⟩, ⟨10, "red", 0⟩, ⟨11, "green", 10⟩] : List EnumRow).Perm
    (mkRows 0 [(10, "red"), (11, "green"), (12, "blue")]) := by
  decide +kernel

/-! ### the hypotheses of the main theorems are satisfiable — and what the theorems then say

  (`valOfR`, `ok_of_valOfR` in Proofs/InterpReturn.lean: `valOfR` projects the value out of a result; `ok_of_valOfR` turns a decided projection into the hypothesis shape
  `… = some (.ok (v, c'))` the theorems ask for) -/

def cfg1 : Cfg := { fr := mkFrame .function [] .none, st := st1 }

/-- a call with two parameters, arguments in either order: `sub2(a: 10, b: 3)` = `sub2(b: 3, a: 10)` = 7 -/
example : valOfR ((run C1 6).eval (.call .function "sub2" [("a", .int 10), ("b", .int 3)]) cfg1) = some (.int 7) ∧
          valOfR ((run C1 6).eval (.call .function "sub2" [("b", .int 3), ("a", .int 10)]) cfg1) = some (.int 7) := by
  decide +kernel

/-- `params_by_name` applied: its hypotheses (a permutation of an argument list with distinct names) hold here -/
example (rec : Oracle) (body : Block) :
    invoke rec .function body [("a", .int 10), ("b", .int 3)] .none =
    invoke rec .function body [("b", .int 3), ("a", .int 10)] .none :=
  (params_by_name C1 rec .function body _ _ .none (List.Perm.swap _ _ _) (by decide)).1

/-- `call_isolated` applied to an actual call: the evaluation succeeds with 1104, and the frame is the caller's -/
example : ∃ c', (run C1 12).eval (.call .function "f" []) cfg1 = some (.ok (.int 1104, c')) ∧ c'.fr = cfg1.fr := by
  obtain ⟨c', h⟩ := ok_of_valOfR (r := (run C1 12).eval (.call .function "f" []) cfg1) (v := .int 1104) (by decide +kernel)
  exact ⟨c', h, call_isolated C1 12 _ _ _ _ h⟩

/-- `return_value_executed` applied to a return nested in `while` / `if` / `if`: `deep(a: 2, b: 5)` delivers 15, a value
    other than nothing, so (second conjunct) the body ended by `return` and 15 is the register it left -/
example : ∃ c2, invoke (run C1 30) .function
      ((C1.callables.find? (fun f => f.name = "deep")).map Callable.body |>.getD [])
      [("a", .int 2), ("b", .int 5)] .none cfg1 = some (.ok (.int 15, c2)) ∧
    ∃ c', execBlock (run C1 30) ((C1.callables.find? (fun f => f.name = "deep")).map Callable.body |>.getD [])
      { fr := mkFrame .function [("a", .int 2), ("b", .int 5)] .none, st := cfg1.st } = some (.ok (.ret, c')) ∧
      Val.int 15 = c'.fr.ret := by
  obtain ⟨c2, h⟩ := ok_of_valOfR (r := invoke (run C1 30) .function
      ((C1.callables.find? (fun f => f.name = "deep")).map Callable.body |>.getD [])
      [("a", .int 2), ("b", .int 5)] .none cfg1) (v := .int 15) (by decide +kernel)
  exact ⟨c2, h, (return_value_executed C1 30 _ _ _ _ _ _ _ (by simp [NotDerived]) h).2 (by simp)⟩

/-- … and (first conjunct) 15 is the value of a `return e` statement that OCCURS in the body of `deep`, evaluated in an
    activation with `deep`'s parameters: the "nothing" alternative is excluded by the value -/
example : ∃ e c0 cE, OccB (.ret (some e)) ((C1.callables.find? (fun f => f.name = "deep")).map Callable.body |>.getD []) ∧
    c0.fr.params = paramsOf [("a", .int 2), ("b", .int 5)] ∧ (run C1 30).eval e c0 = some (.ok (.int 15, cE)) := by
  obtain ⟨c2, h⟩ := ok_of_valOfR (r := invoke (run C1 30) .function
      ((C1.callables.find? (fun f => f.name = "deep")).map Callable.body |>.getD [])
      [("a", .int 2), ("b", .int 5)] .none cfg1) (v := .int 15) (by decide +kernel)
  rcases (return_value_executed C1 30 _ _ _ _ _ _ _ (by simp [NotDerived]) h).1 with ⟨hv, _⟩ | ⟨e, c0, cE, c', hin, _, hp, _, _, hev, _⟩
  · cases hv
  · exact ⟨e, c0, cE, hin, hp, hev⟩

/-- the bare `return;` nested at the same place delivers nothing: `deep(a: 2, b: 0)` -/
example : valOfR ((run C1 30).eval (.call .function "deep" [("a", .int 2), ("b", .int 0)]) cfg1) = some .none := by
  decide +kernel

/-- in a class-based operation `self` is the empty handle; in a function reading `self` is an error -/
example : valOfR ((run C1 10).eval (.call (.classOp "A") "whoami" []) cfg1) = some (.int 1) ∧
          valOfR ((run C1 10).eval .self cfg1) = none := by
  decide +kernel

/-- a derived attribute whose action navigates: `B.d`:
    `select one a related by self->A[R1]; self.d = 0; if (not_empty a) self.d = a.n * 2; end if;`
    read before any link (0), after `relate` (2·3), after an assignment to the partner (2·7), after `unrelate` (0) -/
def C2 : Ctx :=
  { classes := [⟨"A", [⟨"n", .integer, false⟩]⟩, ⟨"B", [⟨"n", .integer, false⟩, ⟨"A_ID", .uniqueId, true⟩]⟩],
    assocs := [{ rel := "R1", src := "B", tgt := "A", srcPhrase := "", tgtPhrase := "", srcMany := true, tgtMany := false,
                 srcKeys := ["A_ID"], tgtKeys := ["ID"] }],
    callables := [
      ⟨.derived "B", "d", [.selectRelated false "a" .self [⟨"A", "R1", ""⟩] none,
                           .assignField .self "d" (.int 0),
                           .ifS (.un .notEmpty (.var "a"))
                             [.assignField .self "d" (.bin .mul (.field (.var "a") "n") (.int 2))] [] none]⟩ ] }

def st2 : State :=
  { live := fun c => if c = "A" ∨ c = "B" then [0] else [], next := fun c => if c = "A" ∨ c = "B" then 1 else 0,
    attr := fun _ _ => .int 3, links := fun _ => [], nextId := 1 }

example : valOf (runFunction C2 20 [
      .selectFrom false "b" "B" none, .selectFrom false "a" "A" none,
      .assignVar "x1" (.field (.var "b") "d"),
      .relate "b" "a" "R1" "",
      .assignVar "x2" (.field (.var "b") "d"),
      .assignField (.var "a") "n" (.int 7),
      .assignVar "x3" (.field (.var "b") "d"),
      .unrelate "b" "a" "R1" "",
      .assignVar "x4" (.field (.var "b") "d"),
      .ret (some (.bin .add (.bin .add (.bin .mul (.var "x1") (.int 1000000)) (.bin .mul (.var "x2") (.int 10000)))
                            (.bin .add (.bin .mul (.var "x3") (.int 100)) (.var "x4"))))]
    [] st2) = some (.int (0 * 1000000 + 6 * 10000 + 14 * 100 + 0)) := by
  decide +kernel

end PyxProps.C15

/-! ==========================================================================================================
  SOURCE TIE OF THE CALL PATH'S STATEMENT STRUCTURE (builder call-shape) — appended section
  translator/gen_callshape.py re-reads, with `ast`, everything between an OAL invocation and the body it runs — in
  bridgepoint/interpret.py: accept_ParameterListNode, the five accept_*InvocationNode handlers, accept_EnumOrNamedConstantNode,
  accept_ParamAccessNode / accept_SelfAccessNode, the walkers' `__init__`, run_function / run_operation / run_derived_attribute,
  InstanceSymbolTable.find_symbol; in bridgepoint/ooaofooa.py: Domain.add_symbol / find_symbol, mk_function / mk_bridge /
  mk_operation / mk_derived_attribute / mk_external_entity / mk_enum / mk_constant, the add_symbol calls of mk_component — into
  Gen/CallShape.lean.  Proofs/CallShape.lean defines ONE generic interpreter of that IR over Spec's configurations
  (`Pyx.CShape`, for any IR value).  The theorems below state that the clauses of `Spec` / `Model` ARE the interpretation of the
  IR generated from the current source — for every context, oracle (= every sub-result, every amount of fuel, calls nested to
  any depth in the actual parameters), configuration and EVERY content `u` of the untyped dictionary `Domain.symbols` — so
  collecting the parameters anywhere but in the local dict, storing one under another key, asking find_symbol for another kind
  or kinds in another order, looking an enumerator up among the constants, fetching the operation from something else than the
  handle's class, calling it without the instance, binding `self` of a class-based operation to the class, another walker class
  / constructor order / symbol table, returning something else than `w.return_value`, following R56 the other way or another
  type-to-conversion table changes the IR and breaks these theorems before any test runs; a statement outside the translated
  fragment makes the generator raise (broken tie).  NOT in these equations: the meaning of the atoms (listed at the head of
  Proofs/CallShape.lean: hand-modelled, digest-checked environment, validated by correspondence).  Building this tie showed
  `Spec` LOOSER than the source in one clause — `transform KL::op()` was resolved like `NS::op()` (bridge first) and its
  parameters evaluated before the look-up; `Spec` was tightened to the source (round 2, see the second appended section).
  ========================================================================================================== -/
namespace PyxProps.C15
open Pyx.Interp Pyx.CShape Pyx.Gen.CallShape

/-- actual parameters: a LOCAL dict, filled child by child in source order under the child's name with the value of its
    expression (which may contain further invocations: they have their own dict), and returned -/
theorem parameters_as_in_source (C : Ctx) (P : Parts) (D : Dom) (rec : Oracle) (args : List (String × Expr)) :
    evalArgs rec args = handlerK C P D rec { children := paramNodes rec args } accept_ParameterListNode :=
  paramList_eq C P D rec args

/-- `::f(args)`: parameters first, then `find_symbol(action_name, 'function')`, then `fn(**kwargs)` — through mk_function's
    lambda, run_function, FunctionWalker.__init__ (kwargs stored, plain symbol table), `w.accept(root)`, `return w.return_value` -/
theorem function_call_as_in_source (C : Ctx) (u : String → Option Sym) (rec : Oracle) (name : String)
    (args : List (String × Expr)) (f : Callable)
    (hf : findCallable C (fun f => f.kind = .function ∧ f.name = name) = some f) :
    evalStep C rec (.call .function name args) =
      handlerE C gen (domOf C u) rec (invNode C gen (domOf C u) rec [("action_name", name)] none args)
        accept_FunctionInvocationNode :=
  function_call_eq C u rec name args f hf

/-- name-space dispatch of `bridge EE::f()`, `NS::f()` (external entity BEFORE class) and `transform KL::op()` (class only,
    parameters after the look-up); the bridge runs as a function, the class-based operation in an operation walker with the
    empty handle as `self` -/
theorem namespace_calls_as_in_source (C : Ctx) (u : String → Option Sym) (rec : Oracle) (ns name : String)
    (args : List (String × Expr)) (f : Callable) :
    (findCallable C (fun f => f.kind = .bridge ns ∧ f.name = name) = some f →
      evalStep C rec (.call (.bridge ns) name args) =
        handlerE C gen (domOf C u) rec (invNode C gen (domOf C u) rec [("namespace", ns), ("action_name", name)] none args)
          accept_BridgeInvocationNode ∧
      evalStep C rec (.call (.implicit ns) name args) =
        handlerE C gen (domOf C u) rec (invNode C gen (domOf C u) rec [("namespace", ns), ("action_name", name)] none args)
          accept_ImplicitInvocationNode) ∧
    (hasBridges C ns = false → (findClass C ns).isSome = true →
      findCallable C (fun f => f.kind = .classOp ns ∧ f.name = name) = some f →
      evalStep C rec (.call (.implicit ns) name args) =
        handlerE C gen (domOf C u) rec (invNode C gen (domOf C u) rec [("namespace", ns), ("action_name", name)] none args)
          accept_ImplicitInvocationNode) ∧
    ((findClass C ns).isSome = true →
      findCallable C (fun f => f.kind = .classOp ns ∧ f.name = name) = some f →
      evalStep C rec (.call (.classOp ns) name args) =
        handlerE C gen (domOf C u) rec (invNode C gen (domOf C u) rec [("key_letter", ns), ("action_name", name)] none args)
          accept_ClassInvocationNode) :=
  ⟨fun hb => ⟨bridge_call_eq C u rec ns name args f hb, implicit_bridge_call_eq C u rec ns name args f hb⟩,
   fun hne hcls hc => implicit_classOp_call_eq C u rec ns name args f hne hcls hc,
   fun hcls hc => class_call_eq C u rec ns name args f hcls hc⟩

/-- `h.op(args)`: the handle, then the operation fetched from THE HANDLE'S CLASS, then the parameters, then `op(inst, **kwargs)`:
    mk_operation's instance-based lambda hands the instance to run_operation as `self` — found or not, for every handle value
    (no class-based operation carries the name: the two share one attribute of the class) -/
theorem instance_call_as_in_source (C : Ctx) (u : String → Option Sym) (rec : Oracle) (h : Expr) (name : String)
    (args : List (String × Expr))
    (hnc : ∀ kl, findCallable C (fun f => f.kind = .classOp kl ∧ f.name = name) = none) :
    evalStep C rec (.callInst h name args) =
      handlerE C gen (domOf C u) rec (invNode C gen (domOf C u) rec [("action_name", name)] (some (rec.eval h)) args)
        accept_InstanceInvocationNode :=
  instance_call_eq C u rec h name args hnc

/-- what the constructors bind: mk_function / mk_bridge run the action as a function with the call's parameters; mk_operation
    binds `self` to the instance (instance based) or to None (class based, the classmethod's `cls` is dropped); mk_derived_attribute
    runs the action in a derived-attribute walker for (instance, attribute name) without parameters — each through its run_*
    function, the walker's constructor chain and `return w.return_value` -/
theorem constructors_bind_as_in_source (rec : Oracle) (f : Callable) (kl : String) (v : Val) (i : Inst) (kw : List (String × Val)) :
    callCallee gen rec ⟨mk_function, f, none⟩ [] (some kw) = invoke rec .function f.body kw .none ∧
    callCallee gen rec ⟨mk_bridge, f, none⟩ [] (some kw) = invoke rec .function f.body kw .none ∧
    callCallee gen rec ⟨mk_operation_instance_based, f, some kl⟩ [.val v] (some kw) = invoke rec .operation f.body kw v ∧
    callCallee gen rec ⟨mk_operation_class_based, f, some kl⟩ [] (some kw) = invoke rec .operation f.body kw .none ∧
    callCallee gen rec ⟨mk_derived_attribute, f, some kl⟩ [.val (.inst i)] none = invoke rec (.derived i f.name) f.body [] (.inst i) :=
  ⟨call_function_eq rec f kw, call_bridge_eq rec f kw, call_opInst_eq rec f (some kl) v kw, call_opCls_eq rec f kl kw,
   call_derived_eq rec f (some kl) i⟩

/-- the walkers: which class with which constructor arguments each run function creates, what the constructor chain stores
    (kwargs, instance, attribute name; the symbol table assigned LAST: plain for functions, the instance table for operations
    and derived attributes) and that the result is the walker's `return_value` after `w.accept(root)` (None = nothing when no
    `return <expr>` ran: `mkFrame`'s register) -/
theorem walkers_as_in_source (rec : Oracle) (body : Block) (kw : List (String × Val)) (v : Val) (a : String) (i : Inst) :
    iRun gen rec run_function [.dom, .label, .body body, .kwargs kw] = invoke rec .function body kw .none ∧
    iRun gen rec run_operation [.dom, .label, .body body, .kwargs kw, .val v] = invoke rec .operation body kw v ∧
    iRun gen rec run_derived_attribute [.dom, .label, .body body, .str a, .val (.inst i)] =
      invoke rec (.derived i a) body [] (.inst i) ∧
    newWalker gen "FunctionWalker" [.dom, .kwargs kw] = some (mkFrame .function kw .none) ∧
    newWalker gen "OperationWalker" [.dom, .kwargs kw, .val v] = some (mkFrame .operation kw v) ∧
    newWalker gen "DerivedAttributeWalker" [.dom, .str a, .val (.inst i)] = some (mkFrame (.derived i a) [] (.inst i)) :=
  ⟨run_function_eq rec body kw, run_operation_eq rec body kw v, run_derived_eq rec body a i, newWalker_function kw,
   newWalker_operation kw v, newWalker_derived a i⟩

/-- `E::name`: `find_symbol(namespace, 'enumeration')` — the enumeration ONLY, whatever constants exist — then the field `name`
    of the namedtuple, whose value is its position (`Enum(*range(len(enums)))`) -/
theorem enumerator_as_in_source (C : Ctx) (u : String → Option Sym) (rec : Oracle) (ns name : String) (d : EnumDecl)
    (hd : C.enums.find? (fun d => d.name = ns) = some d) :
    evalStep C rec (.enumOrConst ns name) =
      handlerE C gen (domOf C u) rec { str := fun f => ([("namespace", ns), ("name", name)].lookup f).getD "" }
        accept_EnumOrNamedConstantNode :=
  enumerator_eq C u rec ns name d hd

/-- `param.x` = `self.kwargs[variable_name]` in function and operation walkers; `self` = `self.instance` in operation and
    derived-attribute walkers; the NAME self (any letter case) = InstanceSymbolTable.find_symbol, which functions do not have -/
theorem param_self_as_in_source (C : Ctx) (P : Parts) (D : Dom) (rec : Oracle) (x : String) (c : Cfg) :
    (c.fr.kind = .function → evalStep C rec (.param x) c = handlerE C P D rec (paramNode x) FunctionWalker_accept_ParamAccessNode c) ∧
    (c.fr.kind = .operation → evalStep C rec (.param x) c = handlerE C P D rec (paramNode x) OperationWalker_accept_ParamAccessNode c) ∧
    (c.fr.kind ≠ .function → evalStep C rec .self c = handlerE C P D rec {} OperationWalker_accept_SelfAccessNode c ∧
        evalStep C rec .self c = handlerE C P D rec {} DerivedAttributeWalker_accept_SelfAccessNode c) ∧
    (c.fr.kind ≠ .function → lookupVar C x c = symFindStmts C x InstanceSymbolTable_find_symbol c) ∧
    (c.fr.kind = .function → lookupVar C x c = plainFind C x c) :=
  ⟨param_function_eq C P D rec x c, param_operation_eq C P D rec x c, self_operation_eq C P D rec c, (self_name_eq C x c).1,
   (self_name_eq C x c).2⟩

/-- mk_enum: the first enumerator is the one that `succeeds` nothing, the chain follows `precedes`; mk_constant: the
    type-name-to-conversion chain in source order (a real has no value in the reference semantics) -/
theorem mk_enum_mk_constant_as_in_source (rows : List EnumRow) (tyName text : String) :
    enumOrder rows = iEnumOrder mk_enum rows ∧ constVal tyName text = iConst mk_constant tyName text :=
  ⟨enumOrder_eq rows, constVal_eq tyName text⟩

/-- the two files agree on the kinds: every kind a handler asks `find_symbol` for is the kind under which mk_component
    registers what the handler then uses (function / enumeration / external entity; the class is found by the class probe),
    constants are registered as 'constant' (what SymbolTable.find_symbol asks for), a walker class defines accept_ParamAccessNode
    / accept_SelfAccessNode exactly where `Spec`'s `param` / `self` are defined, and `return_value` starts as None -/
theorem kinds_and_walkers_as_in_source :
    (registrations.map (fun r => (r.2.1, r.2.2))) =
      [("mk_function", "function"), ("mk_enum", "enumeration"), ("mk_constant", "constant"),
       ("getattr(builtin_ee, s_ee.Key_Lett)", "external entity"), ("mk_external_entity", "external entity")] ∧
    domain = { addUntyped := true, addByKindIfKind := true, kindsInOrder := true,
               perKind := [.byKind, .classWhenKind "class"], afterKinds := [.untyped, .findClass] } ∧
    (walkers.map (fun w => (w.name, w.methods, decide ("return_value" ∈ w.noneAttrs)))) =
      [("ActionWalker", ["__init__", "accept", "default_accept"], true),
       ("FunctionWalker", ["__init__", "accept_ParamAccessNode"], true),
       ("OperationWalker", ["__init__", "accept_ParamAccessNode", "accept_SelfAccessNode"], true),
       ("DerivedAttributeWalker", ["__init__", "accept_SelfAccessNode", "accept_FieldAccessNode"], true)] ∧
    mk_external_entity.namesFrom = mk_external_entity.funcsFrom ∧ mk_external_entity.maker = "mk_bridge" := by
  decide +kernel

/-! non-vacuity: the generic interpreter RUNS the generated IR — through the parameter list, find_symbol, getattr, the lambda
    of the mk_* constructor, the run function, the walker's constructor chain, the body — and delivers the values; on statement
    structures OTHER than the generated ones (hand-mutated below) it delivers something else, so the equalities above are not
    equalities any IR would satisfy -/

def noU : String → Option Sym := fun _ => none
def errOfR {α : Type} (r : Res α) : Option String := match r with | some (.error e) => some e.msg | _ => none
def kwOfR (r : Res (List (String × Val))) : Option (List (String × Val)) := match r with | some (.ok (v, _)) => some v | _ => none

/-- two parameters: collected in source order under their names; the FIRST is evaluated first (of two failing expressions the
    first one's error shows); storing every value under one literal key, or fetching the callee before the parameters, is visible -/
example : kwOfR (handlerK C1 gen (domOf C1 noU) (run C1 0) { children := [("a", pure (.int 10)), ("b", pure (.int 3))] }
      accept_ParameterListNode cfg1) = some [("a", .int 10), ("b", .int 3)] ∧
    errOfR (handlerK C1 gen (domOf C1 noU) (run C1 0) { children := [("a", M.fail "first"), ("b", M.fail "second")] }
      accept_ParameterListNode cfg1) = some "first" ∧
    kwOfR (handlerK C1 gen (domOf C1 noU) (run C1 0) { children := [("a", pure (.int 10)), ("b", pure (.int 3))] }
      [.assign "kwargs" .newDict,
       .forChildren "child" [.assign "value" (.acceptOfFget "child" "expression"), .setItem "kwargs" (.lit "a") "value"],
       .ret (.local "kwargs")] cfg1) = some [("a", .int 10), ("a", .int 3)] ∧
    errOfR (handlerK C1 gen (domOf C1 noU) (run C1 0) { children := [("a", pure (.int 10))] }
      [.setSelf "parameters" .newDict, .forChildren "child" [.expr (.acceptLocal "child")], .ret (.selfAttr "parameters")] cfg1) =
      some "a handler stores into the walker" := by
  decide +kernel

/-- a call NESTED in the second actual parameter: `::sub2(a: 100, b: ::sub2(a: 30, b: 4))` is 74 through the interpreted source
    (the inner call has its own dict and its own walker) — and that is `Spec`'s value, by `function_call_as_in_source` -/
def nested : List (String × Expr) := [("a", .int 100), ("b", .call .function "sub2" [("a", .int 30), ("b", .int 4)])]
example : valOfR (handlerE C1 gen (domOf C1 noU) (run C1 8)
      (invNode C1 gen (domOf C1 noU) (run C1 8) [("action_name", "sub2")] none nested) accept_FunctionInvocationNode cfg1) =
      some (.int 74) := by
  decide +kernel
example : evalStep C1 (run C1 8) (.call .function "sub2" nested) =
    handlerE C1 gen (domOf C1 noU) (run C1 8) (invNode C1 gen (domOf C1 noU) (run C1 8) [("action_name", "sub2")] none nested)
      accept_FunctionInvocationNode :=
  function_call_as_in_source C1 noU (run C1 8) "sub2" nested
    ⟨.function, "sub2", [.ret (some (.bin .sub (.param "a") (.param "b")))]⟩ (by rfl)

/-- asking find_symbol for another kind finds nothing here; an instance operation called WITHOUT the instance does not run;
    the generated handler runs `a.bump(d: 5)` on the instance: 3 + 5 -/
def cfgA : Cfg := { cfg1 with fr := { cfg1.fr with env := [[("a", .inst ⟨"A", 0⟩)]] } }
example : errOfR (handlerE C1 gen (domOf C1 noU) (run C1 8)
      (invNode C1 gen (domOf C1 noU) (run C1 8) [("action_name", "sub2")] none nested)
      [.assign "kwargs" (.accept "parameter_list"), .assign "fn" (.domainFind (.field "action_name") ["constant"] false),
       .assign "value" (.callKw "fn" [] "kwargs"), .ret (.property "value")] cfg1) = some "Unknown symbol sub2" ∧
    valOfR (handlerE C1 gen (domOf C1 noU) (run C1 8)
      (invNode C1 gen (domOf C1 noU) (run C1 8) [("action_name", "bump")] (some (lookupVar C1 "a")) [("d", .int 5)])
      accept_InstanceInvocationNode cfgA) = some (.int 8) ∧
    errOfR (handlerE C1 gen (domOf C1 noU) (run C1 8)
      (invNode C1 gen (domOf C1 noU) (run C1 8) [("action_name", "bump")] (some (lookupVar C1 "a")) [("d", .int 5)])
      [.assign "inst" (.acceptFget "handle"), .assign "op" (.getattrClass "inst" (.field "action_name")),
       .assign "kwargs" (.accept "parameter_list"), .assign "value" (.callKw "op" [] "kwargs"), .ret (.property "value")] cfgA) =
      some "arguments of the call" := by
  decide +kernel

/-- `self` of a class-based operation: the generated lambda passes None (`A::whoami()` sees an empty handle: 1); a lambda that
    passed its `cls` on, or a run_operation that built a FunctionWalker, does not produce an operation frame at all -/
def whoami : Callable := ⟨.classOp "A", "whoami", [.ifS (.un .empty .self) [.ret (some (.int 1))] [] none, .ret (some (.int 0))]⟩
example : valOfR (callCallee gen (run C1 8) ⟨mk_operation_class_based, whoami, some "A"⟩ [] (some []) cfg1) = some (.int 1) ∧
    errOfR (callCallee gen (run C1 8)
      ⟨{ mk_operation_class_based with args := [.name "metaclass", .name "label", .name "action", .name "kwargs", .name "cls"] },
       whoami, some "A"⟩ [] (some []) cfg1) = some "accept" ∧
    errOfR (callCallee { gen with runs := [("run_operation",
        { run_operation with body := [.assign "w" (.construct "FunctionWalker" [.attr "metaclass" "metamodel", .name "kwargs"]),
            .assign "root" (.parse "action" "label"), .expr (.acceptOn "w" "root"), .ret (.localAttr "w" "return_value")] })] }
      (run C1 8) ⟨mk_operation_class_based, whoami, some "A"⟩ [] (some []) cfg1) = some "self in a function" := by
  decide +kernel

/-- `Color::blue` is 2 (the chain red, green, blue); looked up among the constants first it is not found as an enumeration;
    R56 followed the other way numbers the enumerators backwards; another conversion table reads the constant as a string -/
example : valOfR (handlerE C1 gen (domOf C1 noU) (run C1 0)
      { str := fun f => ([("namespace", "Color"), ("name", "blue")].lookup f).getD "" } accept_EnumOrNamedConstantNode cfg1) =
      some (.int 2) ∧
    errOfR (handlerE C1 gen (domOf C1 noU) (run C1 0)
      { str := fun f => ([("namespace", "Color"), ("name", "blue")].lookup f).getD "" }
      [.assign "item" (.domainFind (.field "name") ["constant"] false), .assign "value" (.getattr "item" (.field "name")),
       .ret (.property "value")] cfg1) = some "Unknown symbol blue" ∧
    iEnumOrder mk_enum [⟨12, "blue", 11⟩, ⟨10, "red", 0⟩, ⟨11, "green", 10⟩] = ["red", "green", "blue"] ∧
    iEnumOrder { mk_enum with firstPhrase := "precedes", stepPhrase := "succeeds" }
      [⟨12, "blue", 11⟩, ⟨10, "red", 0⟩, ⟨11, "green", 10⟩] = ["blue", "green", "red"] ∧
    iConst mk_constant "integer" "42" = some (.int 42) ∧
    iConst [("boolean", .lowerIsTrue), ("integer", .str)] "integer" "42" = some (.str "42") := by
  decide +kernel

end PyxProps.C15

/-! ==========================================================================================================
  SOURCE TIE OF THE CALL PATH, ROUND 2 (builder call-shape) — appended section (helper lemmas: Proofs/CallShapeMore.lean)
  (1) the NOT-FOUND side with the source's own fall-backs (`srcDom C`: the untyped dictionary as mk_component fills it — functions,
  enumerations, constants, external entities, last registration wins — and find_class); (2) where `Spec` and the source resolve
  `transform KL::op()` / `bridge EE::f()` differently: characterised, with witnesses; (3) both accept_FieldAccessNode handlers
  and accept_InvocationStatementNode; (4) Domain.add_symbol / find_symbol for every registration order, mk_external_entity.
  ========================================================================================================== -/
namespace PyxProps.C15
open Pyx.Interp Pyx.CShape Pyx.Gen.CallShape
open Pyx.IShape (noMsg)

/-- `::name(args)` WITHOUT a found hypothesis, against the domain as the source builds it: found — the function runs; not
    found — the parameters are evaluated, then find_symbol falls back to the untyped dictionary (a constant / enumeration /
    external entity of that name is not callable) and to the classes (none of that name: the exception).  Up to the error text. -/
theorem function_call_total_as_in_source (C : Ctx) (rec : Oracle) (name : String) (args : List (String × Expr)) (c : Cfg)
    (hcls : (findClass C name).isSome = false) :
    noMsg (evalStep C rec (.call .function name args) c) =
      noMsg (handlerE C gen (srcDom C) rec (invNode C gen (srcDom C) rec [("action_name", name)] none args)
        accept_FunctionInvocationNode c) :=
  function_call_total C rec name args c hcls

/-- the hypothesis above is needed: a body that calls a function `::A()` which does not exist, in a model with a CLASS A, is an
    error for `Spec` (outside the property's domain: the body refers to no model element) while the source finds the class
    through find_class and CALLS it (observed on /repo: `x = ::A();` delivers a detached instance, `::A(n: 3)` a TypeError) -/
theorem function_named_like_class_witness :
    errOfR (evalStep C1 (run C1 3) (.call .function "A" []) cfg1) = some "unknown function A" ∧
    errOfR (handlerE C1 gen (srcDom C1) (run C1 3) (invNode C1 gen (srcDom C1) (run C1 3) [("action_name", "A")] none [])
      accept_FunctionInvocationNode cfg1) = some "OUTSIDE THE MODEL: the class A is called" := by
  decide +kernel

/-- `transform KL::op()`: the source asks find_symbol for the CLASS only.  `Spec` resolved it like `NS::op()` (`resolveNs`: a
    bridge of an external entity KL first) until this tie was built; `resolveNs` picks the class operation EXACTLY when no
    external entity with the class's key letters has a bridge `op` — so `Spec`'s clause now looks the class operation up
    directly (and before the parameters, as the source does) -/
theorem transform_resolution_iff_as_in_source (C : Ctx) (ns name : String) (f : Callable)
    (hc : findCallable C (fun f => f.kind = .classOp ns ∧ f.name = name) = some f) :
    resolveNs C ns name = findCallable C (fun f => f.kind = .classOp ns ∧ f.name = name) ↔
      findCallable C (fun f => f.kind = .bridge ns ∧ f.name = name) = none :=
  transform_resolution_iff C ns name f hc

/-- the model that told the two apart: an external entity X with a bridge `f` (returns 1) and a class X with a class-based
    operation `f` (returns 2); `transform v = X::f();` is 2 for the interpreted source and (now) for `Spec`; `NS::f()` written
    `X::f()` is the bridge (1) for both; `resolveNs` alone would have said 1 for the transform -/
def CX : Ctx :=
  { classes := [⟨"X", []⟩],
    callables := [⟨.bridge "X", "f", [.ret (some (.int 1))]⟩, ⟨.classOp "X", "f", [.ret (some (.int 2))]⟩] }
theorem transform_prefers_class_witness :
    valOfR (evalStep CX (run CX 4) (.call (.classOp "X") "f" []) cfg1) = some (.int 2) ∧
    valOfR (handlerE CX gen (srcDom CX) (run CX 4)
      (invNode CX gen (srcDom CX) (run CX 4) [("key_letter", "X"), ("action_name", "f")] none []) accept_ClassInvocationNode cfg1) =
      some (.int 2) ∧
    valOfR (evalStep CX (run CX 4) (.call (.implicit "X") "f" []) cfg1) = some (.int 1) ∧
    (resolveNs CX "X" "f").map Callable.kind = some (.bridge "X") := by
  decide +kernel

/-- `bridge NS::op()` where NS is no external entity (and nothing else in the untyped dictionary) but a class: the source
    falls back to find_class and runs the class-based operation — exactly `Spec`'s second choice; and a `transform KL::op()`
    whose operation does not exist fails in the source BEFORE the parameters are evaluated, and in `Spec` too -/
theorem keyword_forms_fall_back_as_in_source (C : Ctx) (rec : Oracle) (ns name : String) (args : List (String × Expr))
    (f : Callable) (c : Cfg) :
    (hasBridges C ns = false → untypedOf C ns = none → (findClass C ns).isSome = true →
      findCallable C (fun f => f.kind = .classOp ns ∧ f.name = name) = some f →
      evalStep C rec (.call (.bridge ns) name args) =
        handlerE C gen (srcDom C) rec (invNode C gen (srcDom C) rec [("namespace", ns), ("action_name", name)] none args)
          accept_BridgeInvocationNode) ∧
    ((findClass C ns).isSome = true →
      findCallable C (fun f => f.kind = .classOp ns ∧ f.name = name) = none →
      findCallable C (fun f => f.kind = .instOp ns ∧ f.name = name) = none →
      noMsg (evalStep C rec (.call (.classOp ns) name args) c) =
        noMsg (handlerE C gen (srcDom C) rec (invNode C gen (srcDom C) rec [("key_letter", ns), ("action_name", name)] none args)
          accept_ClassInvocationNode c)) :=
  ⟨fun h1 h2 h3 h4 => bridge_falls_back_to_class_eq C rec ns name args f h1 h2 h3 h4,
   fun h2 h3 h4 => class_call_not_found_eq C rec ns name args c h2 h3 h4⟩

/-- attribute access: outside derived attributes ActionWalker.accept_FieldAccessNode builds the property over the attribute of
    the handle's instance (getter: the property mk_derived_attribute made, else the stored attribute; setter alike); inside the
    derived attribute `a` of `si` DerivedAttributeWalker.accept_FieldAccessNode makes `self.a` — same name AND same instance —
    the walker's return_value register, read and written, and every other access the attribute (`regHit`).  `hfr`: evaluating
    the handle leaves the frame alone (`call_isolated`, for every `run C n`). -/
theorem field_access_as_in_source (C : Ctx) (D : Dom) (rec : Oracle) (h : Expr) (name : String) (v : Val) (c : Cfg)
    (hfr : ∀ v c1, rec.eval h c = some (.ok (v, c1)) → c1.fr = c.fr) :
    ((∀ si a, c.fr.kind ≠ .derived si a) →
      evalStep C rec (.field h name) c =
        (do let l ← handlerP C gen D rec (fieldNode rec h name) accept_FieldAccessNode
            fgetP C gen rec l) c ∧
      (do let hv ← rec.eval h
          let i ← asInst hv
          writeField C i name v) c =
        (do let l ← handlerP C gen D rec (fieldNode rec h name) accept_FieldAccessNode
            fsetP C l v) c) ∧
    (∀ si a, c.fr.kind = .derived si a → c.fr.self = .inst si →
      evalStep C rec (.field h name) c =
        (do let l ← handlerP C gen D rec (fieldNode rec h name) DerivedAttributeWalker_accept_FieldAccessNode
            fgetP C gen rec l) c ∧
      (do let hv ← rec.eval h
          let i ← asInst hv
          writeField C i name v) c =
        (do let l ← handlerP C gen D rec (fieldNode rec h name) DerivedAttributeWalker_accept_FieldAccessNode
            fsetP C l v) c) :=
  ⟨fun hk => ⟨field_read_eq C D rec h name c hk hfr, field_write_eq C D rec h name v c hk hfr⟩,
   fun si a hk hs => ⟨field_read_derived_eq C D rec h name c si a hk hs hfr, field_write_derived_eq C D rec h name v c si a hk hs hfr⟩⟩

/-- an invocation used as a statement: accept_InvocationStatementNode hands the invocation's property on, nothing is stored -/
theorem invocation_statement_as_in_source (C : Ctx) (P : Parts) (D : Dom) (rec : Oracle) (e : Expr) :
    execStep C rec (.invoke e) = (do
      let _ ← handlerE C P D rec { acceptE := fun f => if f = "invocation" then some (rec.eval e) else none }
        accept_InvocationStatementNode
      pure .normal) :=
  invocation_statement_eq C P D rec e

/-- the kind-qualified second dictionary, over the generated DomainShape, for EVERY list of registrations in EVERY order: what
    `find_symbol(name, k)` delivers is the symbol registered last under (k, name) — registrations of the same name under other
    kinds (a constant, an enumeration, an external entity and a function of one name) or without a kind never hide it; and
    mk_external_entity: `getattr(ee, name)` is the bridge of that name made by mk_bridge (names and functions come from the same
    query, so field positions and values line up) -/
theorem kinds_do_not_hide_as_in_source (regs : List Reg) (k name : String) (r : Reg) (ks : List String) (C : Ctx) (ns : String)
    (h : regs.reverse.find? (fun r => decide (r.kind = some k ∧ r.name = name)) = some r) :
    (∃ s, iFind domain (regAll domain regs) name (k :: ks) = some s ∧ (regAll domain regs).byKind k name = some s) ∧
    (regAll domain regs).byKind k name = some r.sym ∧
    eeGetattr mk_external_entity (bridgesOf C ns) name =
      (findCallable C (fun f => f.kind = .bridge ns ∧ f.name = name)).map (fun f => (⟨mk_bridge, f, none⟩ : Callee)) := by
  refine ⟨find_symbol_by_kind regs k name r h ks, ?_, ee_getattr_eq C ns name⟩
  rw [regAll_byKind, h]; rfl

/-- four symbols of ONE name, registered in one order and in the reverse order: each kind finds its own; without a kind the
    last registered wins (the documented behaviour of the untyped dictionary) -/
def symTag : Option Sym → String
  | some (.fn _) => "function" | some (.ee _) => "external entity" | some (.cls _) => "class" | some (.enum _) => "enumeration"
  | some (.const _) => "constant" | none => "nothing"
def regsX : List Reg :=
  [⟨"X", .const (.int 1), some "constant"⟩, ⟨"X", .ee "X", some "external entity"⟩, ⟨"X", .enum ⟨"X", []⟩, some "enumeration"⟩,
   ⟨"X", .fn ⟨.function, "X", []⟩, some "function"⟩]
example : (["function", "constant", "enumeration", "external entity"].map
      (fun k => symTag (iFind domain (regAll domain regsX) "X" [k]))) =
      ["function", "constant", "enumeration", "external entity"] ∧
    (["function", "constant", "enumeration", "external entity"].map
      (fun k => symTag (iFind domain (regAll domain regsX.reverse) "X" [k]))) =
      ["function", "constant", "enumeration", "external entity"] ∧
    symTag (iFind domain (regAll domain regsX) "X" []) = "function" ∧
    symTag (iFind domain (regAll domain regsX.reverse) "X" []) = "constant" ∧
    -- a shape WITHOUT the second dictionary (the code before dc771e3): the function hides the three others
    symTag (iFind { domain with addByKindIfKind := false } (regAll { domain with addByKindIfKind := false } regsX) "X" ["constant"]) =
      "function" := by
  decide +kernel

/-- the theorems applied: `self.twice` inside the derived attribute `twice` of A[0] is the register (7), `self.n` the attribute -/
def cfgD : Cfg := { fr := { mkFrame (.derived ⟨"A", 0⟩ "twice") [] (.inst ⟨"A", 0⟩) with ret := .int 7 }, st := st1 }
def readVia (n : Nat) (handler : List CStmt) (name : String) : M Val := do
  let l ← handlerP C1 gen (srcDom C1) (run C1 n) (fieldNode (run C1 n) .self name) handler
  fgetP C1 gen (run C1 n) l
example : valOfR (readVia 2 DerivedAttributeWalker_accept_FieldAccessNode "twice" cfgD) = some (.int 7) ∧
    valOfR (readVia 2 DerivedAttributeWalker_accept_FieldAccessNode "n" cfgD) = some (.int 3) ∧
    -- the base class's handler instead (no register test): `self.twice` runs the derived attribute again: 2 * 3
    valOfR (readVia 8 accept_FieldAccessNode "twice" cfgD) = some (.int 6) := by
  decide +kernel

end PyxProps.C15

/-! ==========================================================================================================
  SOURCE TIE OF THE CALL PATH, ROUND 3 (builder 10) — appended section (helper lemmas: Proofs/CallShapeTotal.lean)
  Inventory of Gen/CallShape.lean before this round: every def was tied for all inputs by a theorem above EXCEPT (a) the
  not-found / fall-back side of accept_ImplicitInvocationNode and accept_BridgeInvocationNode (only the found cases and one
  fall-back were equations), (b) accept_EnumOrNamedConstantNode when the enumeration does not exist, (c) accept_ClassInvocationNode
  when the class does not exist, (d) the UNTYPED dictionary of Domain.add_symbol / find_symbol (only sampled by `decide`).  This
  section closes (a)–(d) against `srcDom C` (the domain as mk_component fills it).  Doing (a) showed `Spec` and the source
  DISAGREE on `NS::f()` / `bridge NS::f()` when NS names a symbol found BEFORE the class (an external entity without a bridge `f`;
  for the bridge form also a constant / enumeration / function NS) and a class NS has a class-based operation `f`: the theorems
  are therefore named `…_partial`, state the exact excluded case as `hsep`, and the witnesses below exhibit it.
  ========================================================================================================== -/
namespace PyxProps.C15
open Pyx.Interp Pyx.CShape Pyx.Gen.CallShape
open Pyx.IShape (noMsg)

/-- `NS::name(args)` (accept_ImplicitInvocationNode) for EVERY model, found or not: parameters first; `find_symbol(NS, ['external
    entity', 'class'])` — the external entity NS wins over the class NS, the class over the untyped dictionary (a constant /
    enumeration / function NS: no such attribute, or not callable); `getattr`; the call (an instance-based operation fetched from
    the class lacks its instance).  `hwf`: class-based operations belong to declared classes.  `hsep`: EXCLUDES the disagreement
    (`implicit_call_disagreement_witness`) — NS is an external entity without a bridge `name` and the class NS has a class-based
    operation `name`.  Up to the error text. -/
theorem implicit_call_as_in_source_partial (C : Ctx) (rec : Oracle) (ns name : String) (args : List (String × Expr)) (c : Cfg)
    (hwf : (findClass C ns).isSome = false → findCallable C (fun f => f.kind = .classOp ns ∧ f.name = name) = none)
    (hsep : hasBridges C ns = true → findCallable C (fun f => f.kind = .bridge ns ∧ f.name = name) = none →
      findCallable C (fun f => f.kind = .classOp ns ∧ f.name = name) = none) :
    noMsg (evalStep C rec (.call (.implicit ns) name args) c) =
      noMsg (handlerE C gen (srcDom C) rec (invNode C gen (srcDom C) rec [("namespace", ns), ("action_name", name)] none args)
        accept_ImplicitInvocationNode c) :=
  implicit_call_total C rec ns name args c hwf hsep

/-- `bridge NS::name(args)` (accept_BridgeInvocationNode) for EVERY model, found or not: `find_symbol(NS, 'external entity')`
    falls back to the UNTYPED dictionary first and to find_class last.  `hsep`: EXCLUDES the disagreement
    (`bridge_call_disagreement_witness`) — NS names something in the untyped dictionary that has no bridge `name` while the class
    NS has a class-based operation `name`.  Up to the error text. -/
theorem bridge_call_as_in_source_partial (C : Ctx) (rec : Oracle) (ns name : String) (args : List (String × Expr)) (c : Cfg)
    (hwf : (findClass C ns).isSome = false → findCallable C (fun f => f.kind = .classOp ns ∧ f.name = name) = none)
    (hsep : untypedOf C ns ≠ none → findCallable C (fun f => f.kind = .bridge ns ∧ f.name = name) = none →
      findCallable C (fun f => f.kind = .classOp ns ∧ f.name = name) = none) :
    noMsg (evalStep C rec (.call (.bridge ns) name args) c) =
      noMsg (handlerE C gen (srcDom C) rec (invNode C gen (srcDom C) rec [("namespace", ns), ("action_name", name)] none args)
        accept_BridgeInvocationNode c) :=
  bridge_call_total C rec ns name args c hwf hsep

/-- the DISAGREEMENT `hsep` excludes: an external entity X with a bridge `g` only, a class X with a class-based operation `f`
    (returns 2).  `X::f()` and `bridge X::f()` are 2 for `Spec` (`resolveNs`: no bridge `f`, so the class operation); the
    interpreted source finds the external entity X first and fails at `getattr(X, 'f')` (Python: AttributeError). -/
def CY : Ctx :=
  { classes := [⟨"X", []⟩],
    callables := [⟨.bridge "X", "g", [.ret (some (.int 1))]⟩, ⟨.classOp "X", "f", [.ret (some (.int 2))]⟩] }
theorem implicit_call_disagreement_witness :
    valOfR (evalStep CY (run CY 4) (.call (.implicit "X") "f" []) cfg1) = some (.int 2) ∧
    errOfR (handlerE CY gen (srcDom CY) (run CY 4)
      (invNode CY gen (srcDom CY) (run CY 4) [("namespace", "X"), ("action_name", "f")] none []) accept_ImplicitInvocationNode cfg1) =
      some "unknown X::f" := by
  decide +kernel
theorem bridge_call_disagreement_witness :
    valOfR (evalStep CY (run CY 4) (.call (.bridge "X") "f" []) cfg1) = some (.int 2) ∧
    errOfR (handlerE CY gen (srcDom CY) (run CY 4)
      (invNode CY gen (srcDom CY) (run CY 4) [("namespace", "X"), ("action_name", "f")] none []) accept_BridgeInvocationNode cfg1) =
      some "unknown X::f" := by
  decide +kernel

/-- the hypotheses hold on non-trivial models: CX (external entity X WITH the bridge `f`, class X with the operation `f`) for
    `X::f()`; CY for `X::g()` (the bridge) and for `X::h()` (found nowhere: both sides fail after the parameters); C1 for
    `A::whoami()` (class only) -/
example (rec : Oracle) (args : List (String × Expr)) (c : Cfg) :
    noMsg (evalStep CX rec (.call (.implicit "X") "f" args) c) =
      noMsg (handlerE CX gen (srcDom CX) rec (invNode CX gen (srcDom CX) rec [("namespace", "X"), ("action_name", "f")] none args)
        accept_ImplicitInvocationNode c) :=
  implicit_call_as_in_source_partial CX rec "X" "f" args c (by decide +kernel) (by decide +kernel)
example (rec : Oracle) (args : List (String × Expr)) (c : Cfg) :
    noMsg (evalStep CY rec (.call (.bridge "X") "h" args) c) =
      noMsg (handlerE CY gen (srcDom CY) rec (invNode CY gen (srcDom CY) rec [("namespace", "X"), ("action_name", "h")] none args)
        accept_BridgeInvocationNode c) :=
  bridge_call_as_in_source_partial CY rec "X" "h" args c (by decide +kernel) (by decide +kernel)
example (rec : Oracle) (args : List (String × Expr)) (c : Cfg) :
    noMsg (evalStep C1 rec (.call (.implicit "A") "whoami" args) c) =
      noMsg (handlerE C1 gen (srcDom C1) rec (invNode C1 gen (srcDom C1) rec [("namespace", "A"), ("action_name", "whoami")] none args)
        accept_ImplicitInvocationNode c) :=
  implicit_call_as_in_source_partial C1 rec "A" "whoami" args c (by decide +kernel) (by decide +kernel)
example : valOfR (handlerE CY gen (srcDom CY) (run CY 4)
      (invNode CY gen (srcDom CY) (run CY 4) [("namespace", "X"), ("action_name", "g")] none []) accept_BridgeInvocationNode cfg1) =
      some (.int 1) ∧
    valOfR (handlerE C1 gen (srcDom C1) (run C1 8)
      (invNode C1 gen (srcDom C1) (run C1 8) [("namespace", "A"), ("action_name", "whoami")] none []) accept_ImplicitInvocationNode cfg1) =
      some (.int 1) ∧
    -- `A::bump(d: 5)`: an instance-based operation fetched from the class and called without an instance
    errOfR (handlerE C1 gen (srcDom C1) (run C1 8)
      (invNode C1 gen (srcDom C1) (run C1 8) [("namespace", "A"), ("action_name", "bump")] none [("d", .int 5)])
      accept_ImplicitInvocationNode cfg1) = some "arguments of the call" ∧
    -- `K::x()`: K is a constant
    errOfR (handlerE C1 gen (srcDom C1) (run C1 8)
      (invNode C1 gen (srcDom C1) (run C1 8) [("namespace", "K"), ("action_name", "x")] none []) accept_ImplicitInvocationNode cfg1) =
      some "getattr" := by
  decide +kernel

/-- `NS::name` (accept_EnumOrNamedConstantNode) for EVERY model: the enumeration NS — the enumerator's position in R56 order;
    no enumeration NS — the source falls back to the untyped dictionary and the class NS, which have no attribute `name`, and
    raises; `Spec` reports the unknown enumeration.  The hypotheses keep NS::name from denoting a bridge / an operation (Python
    would deliver the function object as a value: outside the value domain).  The error ending IS the content of the not-found
    side; up to the error text. -/
theorem enumerator_total_as_in_source (C : Ctx) (rec : Oracle) (ns name : String) (c : Cfg)
    (hnb : findCallable C (fun f => f.kind = .bridge ns ∧ f.name = name) = none)
    (hnc : findCallable C (fun f => f.kind = .classOp ns ∧ f.name = name) = none)
    (hni : findCallable C (fun f => f.kind = .instOp ns ∧ f.name = name) = none) :
    noMsg (evalStep C rec (.enumOrConst ns name) c) =
      noMsg (handlerE C gen (srcDom C) rec (enumNode ns name) accept_EnumOrNamedConstantNode c) :=
  enumerator_total C rec ns name c hnb hnc hni

example (rec : Oracle) (c : Cfg) :
    noMsg (evalStep C1 rec (.enumOrConst "Color" "green") c) =
      noMsg (handlerE C1 gen (srcDom C1) rec (enumNode "Color" "green") accept_EnumOrNamedConstantNode c) ∧
    noMsg (evalStep C1 rec (.enumOrConst "K" "green") c) =
      noMsg (handlerE C1 gen (srcDom C1) rec (enumNode "K" "green") accept_EnumOrNamedConstantNode c) :=
  ⟨enumerator_total_as_in_source C1 rec "Color" "green" c (by decide +kernel) (by decide +kernel) (by decide +kernel),
   enumerator_total_as_in_source C1 rec "K" "green" c (by decide +kernel) (by decide +kernel) (by decide +kernel)⟩
example : valOfR (handlerE C1 gen (srcDom C1) (run C1 0) (enumNode "Color" "green") accept_EnumOrNamedConstantNode cfg1) =
      some (.int 1) ∧
    errOfR (handlerE C1 gen (srcDom C1) (run C1 0) (enumNode "K" "green") accept_EnumOrNamedConstantNode cfg1) = some "getattr" ∧
    errOfR (evalStep C1 (run C1 0) (.enumOrConst "K" "green") cfg1) = some "unknown enumeration K" ∧
    errOfR (handlerE C1 gen (srcDom C1) (run C1 0) (enumNode "Nope" "green") accept_EnumOrNamedConstantNode cfg1) =
      some "Unknown symbol Nope" := by
  decide +kernel

/-- `transform KL::op(args)` (accept_ClassInvocationNode) where the model has no class KL and nothing else named KL: the source
    raises 'Unknown symbol' BEFORE the parameters are evaluated, and so does `Spec` (the error ending, and that no parameter is
    evaluated first, is the content).  With `namespace_calls_as_in_source` (found) and `keyword_forms_fall_back_as_in_source`
    (class without the operation) the handler is covered found and not found.  `hu` is needed: `transform X::f()` on an
    external entity X with a bridge `f` and no class X RUNS the bridge in the source (untyped fall-back) and is an error for
    `Spec`. -/
theorem class_call_no_class_as_in_source (C : Ctx) (rec : Oracle) (ns name : String) (args : List (String × Expr)) (c : Cfg)
    (hcls : (findClass C ns).isSome = false) (hu : untypedOf C ns = none)
    (hwf : (findClass C ns).isSome = false → findCallable C (fun f => f.kind = .classOp ns ∧ f.name = name) = none) :
    noMsg (evalStep C rec (.call (.classOp ns) name args) c) =
      noMsg (handlerE C gen (srcDom C) rec (invNode C gen (srcDom C) rec [("key_letter", ns), ("action_name", name)] none args)
        accept_ClassInvocationNode c) :=
  class_call_no_class C rec ns name args c hcls hu hwf

/-- the hypotheses on C1 / "B"; and the case `hu` excludes, on CY without its class -/
example (rec : Oracle) (args : List (String × Expr)) (c : Cfg) :
    noMsg (evalStep C1 rec (.call (.classOp "B") "op" args) c) =
      noMsg (handlerE C1 gen (srcDom C1) rec (invNode C1 gen (srcDom C1) rec [("key_letter", "B"), ("action_name", "op")] none args)
        accept_ClassInvocationNode c) :=
  class_call_no_class_as_in_source C1 rec "B" "op" args c (by decide +kernel) (by decide +kernel) (by decide +kernel)
def CZ : Ctx := { callables := [⟨.bridge "X", "g", [.ret (some (.int 1))]⟩] }
theorem transform_on_external_entity_witness :
    errOfR (evalStep CZ (run CZ 4) (.call (.classOp "X") "g" []) cfg1) = some "unknown X::g" ∧
    valOfR (handlerE CZ gen (srcDom CZ) (run CZ 4)
      (invNode CZ gen (srcDom CZ) (run CZ 4) [("key_letter", "X"), ("action_name", "g")] none []) accept_ClassInvocationNode cfg1) =
      some (.int 1) := by
  decide +kernel

/-- Domain.add_symbol's UNTYPED dictionary over the generated DomainShape, for EVERY list of registrations in EVERY order:
    `find_symbol(name)` without a kind — and with kinds under none of which the name is registered (the kind-qualified probes
    and the class probe miss) — delivers the symbol registered LAST under the name, whatever its kind.  With
    `kinds_do_not_hide_as_in_source` (the kind-qualified dictionary) both dictionaries of add_symbol / find_symbol are tied. -/
theorem untyped_dictionary_as_in_source (regs : List Reg) (name : String) (ks : List String)
    (hks : ∀ k ∈ ks, regs.reverse.find? (fun r => decide (r.kind = some k ∧ r.name = name)) = none) :
    iFind domain (regAll domain regs) name ks = (regs.reverse.find? (fun r => decide (r.name = name))).map Reg.sym :=
  find_symbol_untyped regs name ks hks

/-- `hks` on a non-trivial value: X registered as constant, external entity, enumeration, function (in that order); asked for as
    a 'class' or 'bridge' it is the function (registered last); a shape WITHOUT the untyped registration finds nothing -/
example : symTag (iFind domain (regAll domain regsX) "X" ["class", "bridge"]) = "function" ∧
    (iFind domain (regAll domain regsX) "X" ["class", "bridge"]).isSome =
      ((regsX.reverse.find? (fun r => decide (r.name = "X"))).map Reg.sym).isSome ∧
    symTag (iFind { domain with addUntyped := false } (regAll { domain with addUntyped := false } regsX) "X" ["class"]) =
      "nothing" := by
  decide +kernel
example : symTag (iFind domain (regAll domain regsX) "X" ["class", "bridge"]) =
    symTag ((regsX.reverse.find? (fun r => decide (r.name = "X"))).map Reg.sym) := by
  rw [untyped_dictionary_as_in_source regsX "X" ["class", "bridge"] (by decide +kernel)]

end PyxProps.C15
