import Proofs.PrebuildFuel
import Proofs.PrebuildCanon
import Proofs.PrebuildFlatStmt   -- FLAT: the flat population between the two walkers

/-!
  C05 — Prebuild followed by text generation reproduces the program.
  Property theorems only (helper lemmas: Proofs/PrebuildExpr.lean, PrebuildExprRT.lean, PrebuildStmtRT.lean,
  PrebuildFuel.lean, PrebuildCanon.lean).

  Model (lean/PyxModel/Prebuild/): `Ast` = the node classes of bridgepoint/oal.py; `canon` = the normal form
  in which trees are compared; `genTokens` = the tokens of the text sourcegen.py prints for the instances
  prebuild.py creates (composition of the two walkers, written from their `accept_*` methods);
  `parseGen ctx` = a parser for that output language which classifies a bare `NS::f(…)` as `canon` does;
  `supported ctx` = the statement set covered (event statements included).  That the real prebuild.py + sourcegen.py compute
  `genTokens ∘ canon` is decided on every run by the correspondence stream (harness/prop_C05.py).
-/
namespace PyxProps.C05
open Pyx.Prebuild

/-! Classification.  CONTENT-BEARING: `regen_parses_back` (structural induction over all supported bodies) and
    `canon_idempotent`.  COROLLARIES: `regen_idempotent` (congruence of `canon_idempotent`), `regen_fixpoint`
    (one line from the two).  PRINTER SHAPE: `order_preserved*` re-express the model printer's own recursion as
    map / flatten / intercalate over the source lists; they follow the model, they say nothing about the mechanisms
    that decide order in the code (R661 walk, `sorted(by_position)`, R816 chain) — those are C06
    `chains_are_source_order` plus the direct predicate.
    `supported` is a SYNTACTIC over-approximation (statement shapes, canonical operator / cardinality / boolean
    spellings, resolution of invocations against ctx); it puts no condition on identifier / number / phrase
    strings — those are `Lexical.lexical`, not needed at token level, evaluated by the driver on every case. -/

/-- The regenerated text parses back to the (normal form of the) original tree — for every supported,
    name-resolved action body, whatever its length and nesting depth. -/
theorem regen_parses_back (ctx : Ctx) (a : Block) (h : supported ctx (canon ctx a) = true) :
    parseGen ctx (genTokens (canon ctx a)) = some (canon ctx a) :=
  parseGen_genTokens ctx (canon ctx a) h

/-- `canon` is a normal form: applying it twice changes nothing (no hypothesis on the tree). -/
theorem canon_idempotent (ctx : Ctx) (a : Block) : canon ctx (canon ctx a) = canon ctx a :=
  canonBlock_idem ctx a

/-- Regenerating from the normal form of the normal form gives the same tokens. -/
theorem regen_idempotent (ctx : Ctx) (a : Block) :
    genTokens (canon ctx (canon ctx a)) = genTokens (canon ctx a) := by
  rw [canon_idempotent]

/-- Translating the generated text again yields the same generated text: parse the regenerated tokens,
    normalise, regenerate — the tokens are unchanged. -/
theorem regen_fixpoint (ctx : Ctx) (a : Block) (h : supported ctx (canon ctx a) = true) :
    (parseGen ctx (genTokens (canon ctx a))).map (fun b => genTokens (canon ctx b)) =
      some (genTokens (canon ctx a)) := by
  rw [regen_parses_back ctx a h, Option.map_some, canon_idempotent]

/-- Order is preserved: the output is the concatenation, in source order, of the statements' own token
    sequences each followed by `;` (and `canon` maps the statement list element-wise); the same for the
    elif clauses of an `if`, the steps of a navigation chain, and (comma-separated) the parameters of an
    invocation. -/
theorem order_preserved (ctx : Ctx) (a : Block) :
    genTokens (canon ctx a) =
      ((a.toList.map (canonStmt ctx)).map (fun s => genStmt s ++ [Tok.p Pn.semi])).flatten := by
  unfold genTokens canon
  rw [genBlock_flat, canonBlock_toList]

theorem order_preserved_elifs (ctx : Ctx) (el : Elifs) :
    genElifs (canonElifs ctx el) =
      ((el.toList.map (fun x => (canonExpr ctx x.1, canonBlock ctx x.2))).map
        (fun x => [Tok.kw Kw.elif_] ++ genExpr x.1 ++ genBlock x.2)).flatten := by
  rw [genElifs_flat, canonElifs_toList]

theorem order_preserved_chain (ch : List Step) : genChain ch = (ch.map genStep).flatten :=
  genChain_flat ch

theorem order_preserved_params (ctx : Ctx) (ps : Params) :
    genParams (canonParams ctx ps) =
      ([Tok.p Pn.comma] : List Tok).intercalate
        ((ps.toList.map (fun x => (x.1, canonExpr ctx x.2))).map
          (fun x => [Tok.ident x.1, Tok.p Pn.colon] ++ genExpr x.2)) := by
  rw [genParams_inter, canonParams_toList]

/-! ### non-vacuity: a concrete body with nesting, elif/else, a two-step select chain with where clause,
    invocations of all four kinds with several parameters, written with upper-case keywords and un-resolved
    `NS::f()` forms, whose normal form is supported -/

def demoCtx : Ctx := ⟨["LOG"], ["DOG"], [("DOG1", "'bark heard'"), ("DOG2", "'fed'"), ("DOG_A1", "'tick'")]⟩

def demo : Block :=
  .cons (.selFrom "ANY" "d" "DOG")
  (.cons (.if_ (.bin (.field (.var "d") "Age") ">" (.int "3"))
      (.cons (.assign (.var "x") (.call .implicit "LOG" "level" .nil)) .nil)
      (.cons (.un "NOT" (.bool "TRUE"))
        (.cons (.invoke (.call .implicit "DOG" "reset" (.cons "val" (.un "-" (.int "1")) .nil))) .nil)
        (.cons (.bool "False") (.cons .brk .nil) .nil))
      (.some (.cons (.invoke (.icall (.var "d") "bark"
          (.cons "times" (.int "2") (.cons "loud" (.bool "true") .nil)))) .nil)))
  (.cons (.selRelW "Many" "ps" (.var "d") [⟨"PER", "R1", "'owns'"⟩, ⟨"LIC", "R3", ""⟩]
      (.bin (.field .selected "Nr") "==" (.param "pi")))
  (.cons (.invoke (.call .func "" "add" (.cons "a" (.int "1") (.cons "b" (.str "\"s\"") .nil))))
  (.cons (.ret (some (.enum "Color" "red"))) .nil))))

example : supported demoCtx (canon demoCtx demo) = true := by decide
example : parseGen demoCtx (genTokens (canon demoCtx demo)) = some (canon demoCtx demo) :=
  regen_parses_back demoCtx demo (by decide)
example : genTokens (canon demoCtx demo) ≠ genTokens demo := by decide   -- `canon` does change this tree
example : (genTokens (canon demoCtx demo)).length > 100 := by decide

/-- event statements are inside the supported set: generate to class / creator / instance, create event instance,
    generate <event variable>, with data items -/
def demoE : Block :=
  .cons (.create "d" "DOG")
  (.cons (.genEvt "DOG1" (some "'bark heard'") (.cons "count" (.bin (.int "1") "+" (.param "pi")) (.cons "who" (.str "\"x\"") .nil))
      (.inst (.var "d")))
  (.cons (.createEvt "ev" "DOG_A1" (some "'tick'") .nil (.cls "DOG"))
  (.cons (.genEvt "DOG2" (some "'fed'") .nil (.creator "DOG"))
  (.cons (.genPre (.var "ev")) .nil))))

example : supported demoCtx (canon demoCtx demoE) = true := by decide
example : parseGen demoCtx (genTokens (canon demoCtx demoE)) = some (canon demoCtx demoE) :=
  regen_parses_back demoCtx demoE (by decide)

/-! ### FLAT — the population between the two walkers (PyxModel/Prebuild/Flat.lean, Proofs/PrebuildFlat.lean)

  `Flat.prebuildFlat` is prebuild.py as a builder of ROWS of the ooaofooa classes (ACT_BLK, ACT_SMT + R603 subtypes,
  V_VAL + R801 subtypes, V_VAR + R814 subtypes), `Flat.regenFlat` is sourcegen.py navigating those rows.

  Full statement (NOT proved; decided case by case by the driver, which evaluates it on every body it dumps, and by
  the population correspondence of harness/flat_pop.py):
      theorem regen_of_prebuild (fc : FCtx) (a : Block) (h : flatOk fc (canon fc.toCtx a) = true) :
          regenFlat (prebuildFlat fc (canon fc.toCtx a)) = genTokens (canon fc.toCtx a)
  Proved: the VALUE level, for every expression of `coreE` (literals, enumerators / qualified constants, variable
  reads, `selected`, parameter and attribute reads, unary and binary operations of any nesting depth), from ANY
  builder state whose symbol table is sound, and stable under whatever the builder appends afterwards (`ext`):
  reading the rows `buildExpr` wrote with `regenVal` prints exactly `genExpr e`.  Missing: the statement / block
  level (R602 first-statement filter, R661 successor chain, R682 / R683 of elif / else). -/
section Flat
open Pyx.Prebuild.Flat

theorem regen_of_prebuild_values (fc : FCtx) (e : Expr) (st : St) (hc : coreE e = true) (hs : SymOK st)
    (ht : TSv st.pop) (hok : (buildExpr fc e st).2.ok = true) (ext : List Flat.Row) (fuel : Nat) (hf : szV e ≤ fuel) :
    regenVal ((buildExpr fc e st).2.pop ++ ext) fuel (buildExpr fc e st).1 = genExpr e :=
  (buildExpr_spec fc e st hc hs ht hok).regen ext fuel hf

def flatFc : FCtx := { ees := [], classes := ["DOG"] }

/-- a state inside the where clause of a select: the outer block, an instance handle `d`, the O_OBJ scope -/
def flatSt : St :=
  { pop := [.blk true, .var "d" 0, .vint 1 "DOG"], scopes := [⟨.obj "DOG", []⟩, ⟨.blk 0, []⟩], ok := true }

/-- `((- 2) + (param.pi * 1.5)) <= selected.Age` -/
def flatE : Expr :=
  .bin (.bin (.un "-" (.int "2")) "+" (.bin (.param "pi") "*" (.real "1.5"))) "<=" (.field .selected "Age")

theorem flatSt_symOK : SymOK flatSt := by
  intro n v h
  simp [flatSt, findSym, List.lookup] at h

theorem flatSt_tsv : TSv flatSt.pop := by
  intro i r k hi hr
  have := List.mem_of_getElem? hi
  simp [flatSt] at this
  rcases this with rfl | rfl | rfl <;> simp [Flat.Row.valOf] at hr

example : regenVal ((buildExpr flatFc flatE flatSt).2.pop ++ [Flat.Row.brk 0]) 9 (buildExpr flatFc flatE flatSt).1 = genExpr flatE :=
  regen_of_prebuild_values flatFc flatE flatSt (by decide) flatSt_symOK flatSt_tsv (by decide) _ 9 (by decide)

/-- BODY level, for the sub-subset `coreB`: statement lists (any length) of return (with / without a `coreE` value),
    assignment to a variable (first assignment declares the transient) or to an attribute with a `coreE` right-hand
    side, break, continue, control stop, create with / without variable, select any|many from instances, delete,
    relate / unrelate (+ using), with variable / instance names other than `self`: reading the population
    `prebuildFlat` builds back with `regenFlat` (outer block R666, R602 first-statement filter, R603 subtype dispatch,
    R661 successor chain to its end, variables through the symbol table) prints `genTokens`.
    `flatOk`: the builder never failed (the flag is never set back: `okAll_of_flatOk`).
    MISSING for the full `regen_of_prebuild`: select from … where, for each, while, if / elif / else
    (nested blocks: R605 / R607 / R608 / R658 / R606, R682 / R683), `self` as an instance name. -/
theorem regen_of_prebuild_partial (fc : FCtx) (a : Block) (hc : coreB a = true) (hok : flatOk fc a = true) :
    regenFlat (prebuildFlat fc a) = genTokens a :=
  regenFlat_prebuildFlat fc a hc (okAll_of_flatOk fc a hc hok)

/-- the same for a statement list accepted in ANY sound builder state (inside a body, variables declared), stable
    under rows appended later that name none of its rows (`FreshC`) -/
theorem regen_of_statement_list (fc : FCtx) (ss : Block) (prev : Option Nat) (st : St) (hc : coreB ss = true)
    (hinv : Inv st) (hprev : ∀ k, prev = some k → k < st.pop.length) (hok : okAll fc prev ss st = true)
    (ext : List Flat.Row) (fuel : Nat) (hf : FreshC st.pop.length (buildStmts fc prev ss st).pop.length ext)
    (hfuel : Flat.szB ss ≤ fuel) :
    regenChain ((buildStmts fc prev ss st).pop ++ ext) fuel (headOf st.pop.length ss) = genBlock ss :=
  (buildStmts_spec fc ss prev st hc hinv hprev hok).regen ext fuel hf hfuel

/-- `create object instance of DOG; return (1 + (- 2.5)) < param.pi; break; control stop; return;` -/
def coreBody : Block :=
  .cons (.createNV "DOG")
  (.cons (.ret (some (.bin (.bin (.int "1") "+" (.un "-" (.real "2.5"))) "<" (.param "pi"))))
  (.cons .brk (.cons .ctl (.cons (.ret none) .nil))))

example : regenFlat (prebuildFlat flatFc coreBody) = genTokens coreBody :=
  regen_of_prebuild_partial flatFc coreBody (by decide) (by decide)

/-- from the start of a body to delete / relate: `create object instance d of DOG; select many ds from instances of DOG;
    create object instance e of DOG; relate d to e across R2.'chases'; unrelate d from e across R2.'chases';
    delete object instance e; return;` -/
def coreBody2 : Block :=
  .cons (.create "d" "DOG") (.cons (.selFrom "many" "ds" "DOG") (.cons (.create "e" "DOG")
  (.cons (.relate "d" "e" "R2" "'chases'") (.cons (.unrelate "d" "e" "R2" "'chases'")
  (.cons (.delete "e") (.cons (.ret none) .nil))))))

example : regenFlat (prebuildFlat flatFc coreBody2) = genTokens coreBody2 :=
  regen_of_prebuild_partial flatFc coreBody2 (by decide) (by decide)

/-- `n = 0; create object instance d of DOG; d.Age = (n + 1) * 2; n = d.Age - n; return n;` -/
def coreBody3 : Block :=
  .cons (.assign (.var "n") (.int "0")) (.cons (.create "d" "DOG")
  (.cons (.assign (.field (.var "d") "Age") (.bin (.bin (.var "n") "+" (.int "1")) "*" (.int "2")))
  (.cons (.assign (.var "n") (.bin (.field (.var "d") "Age") "-" (.var "n")))
  (.cons (.ret (some (.var "n"))) .nil))))

example : regenFlat (prebuildFlat flatFc coreBody3) = genTokens coreBody3 :=
  regen_of_prebuild_partial flatFc coreBody3 (by decide) (by decide)

/-- a TEST of the full statement on one body (if / elif / else, while, for each, select, relate): evaluation, no proof -/
def flatBody : Block :=
  .cons (.selFrom "many" "ds" "DOG")
  (.cons (.assign (.var "n") (.int "0"))
  (.cons (.forEach "d" "ds"
      (.cons (.if_ (.bin (.field (.var "d") "Age") ">" (.int "3"))
          (.cons (.assign (.var "n") (.bin (.var "n") "+" (.int "1"))) .nil)
          (.cons (.bool "false") (.cons .brk .nil) .nil)
          (.some (.cons (.relate "d" "d" "R2" "'chases'") .nil))) .nil))
  (.cons (.while_ (.bin (.var "n") "<" (.int "10")) (.cons .cont .nil))
  (.cons (.ret (some (.var "n"))) .nil))))

set_option maxRecDepth 100000 in
example : flatOk flatFc flatBody = true := by decide
set_option maxRecDepth 100000 in
example : regenFlat (prebuildFlat flatFc flatBody) = genTokens flatBody := by decide

end Flat

end PyxProps.C05
