import Proofs.PrebuildFuel
import Proofs.PrebuildCanon
import Proofs.PrebuildFlatStmt   -- FLAT: the flat population between the two walkers
import Proofs.SgShape            -- source tie of the text generator (builder sg-shape): appended section at the end
import Proofs.SgInventory        -- inventory of the handlers, boundary of the model: last section

/-!
  C05 — Prebuild followed by text generation reproduces the program.
  Property theorems only (helper lemmas: Proofs/PrebuildExpr.lean, PrebuildExprRT.lean, PrebuildStmtRT.lean,
  PrebuildFuel.lean, PrebuildCanon.lean).

  Model (lean/PyxModel/Prebuild/): `Ast` = the node classes of bridgepoint/oal.py; `canon` = the normal form
  in which trees are compared; `genTokens` = the tokens of the text sourcegen.py prints for the instances
  prebuild.py creates (composition of the two walkers, written from their `accept_*` methods);
  `parseGen ctx` = a parser for that output language which classifies a bare `NS::f(…)` as `canon` does;
  `supported ctx` = the statement set covered (event statements included).  That the real prebuild.py + sourcegen.py compute
  `genTokens ∘ canon` is decided on every run by the correspondence stream (harness/prop_C05.py).
-/
namespace PyxProps.C05
open Pyx.Prebuild

/-! Classification.  CONTENT-BEARING: `regen_parses_back` (structural induction over all supported bodies) and
    `canon_idempotent`.  COROLLARIES: `regen_idempotent` (congruence of `canon_idempotent`), `regen_fixpoint`
    (one line from the two).  PRINTER SHAPE: `order_preserved*` re-express the model printer's own recursion as
    map / flatten / intercalate over the source lists; they follow the model, they say nothing about the mechanisms
    that decide order in the code (R661 walk, `sorted(by_position)`, R816 chain) — those are C06
    `chains_are_source_order` plus the direct predicate.
    `supported` is a SYNTACTIC over-approximation (statement shapes, canonical operator / cardinality / boolean
    spellings, resolution of invocations against ctx); it puts no condition on identifier / number / phrase
    strings — those are `Lexical.lexical`, not needed at token level, evaluated by the driver on every case. -/

/-- The regenerated text parses back to the (normal form of the) original tree — for every supported,
    name-resolved action body, whatever its length and nesting depth. -/
theorem regen_parses_back (ctx : Ctx) (a : Block) (h : supported ctx (canon ctx a) = true) :
    parseGen ctx (genTokens (canon ctx a)) = some (canon ctx a) :=
  parseGen_genTokens ctx (canon ctx a) h

/-- `canon` is a normal form: applying it twice changes nothing (no hypothesis on the tree). -/
theorem canon_idempotent (ctx : Ctx) (a : Block) : canon ctx (canon ctx a) = canon ctx a :=
  canonBlock_idem ctx a

/-- Regenerating from the normal form of the normal form gives the same tokens. -/
theorem regen_idempotent (ctx : Ctx) (a : Block) :
    genTokens (canon ctx (canon ctx a)) = genTokens (canon ctx a) := by
  rw [canon_idempotent]

/-- Translating the generated text again yields the same generated text: parse the regenerated tokens,
    normalise, regenerate — the tokens are unchanged. -/
theorem regen_fixpoint (ctx : Ctx) (a : Block) (h : supported ctx (canon ctx a) = true) :
    (parseGen ctx (genTokens (canon ctx a))).map (fun b => genTokens (canon ctx b)) =
      some (genTokens (canon ctx a)) := by
  rw [regen_parses_back ctx a h, Option.map_some, canon_idempotent]

/-- Order is preserved: the output is the concatenation, in source order, of the statements' own token
    sequences each followed by `;` (and `canon` maps the statement list element-wise); the same for the
    elif clauses of an `if`, the steps of a navigation chain, and (comma-separated) the parameters of an
    invocation. -/
theorem order_preserved (ctx : Ctx) (a : Block) :
    genTokens (canon ctx a) =
      ((a.toList.map (canonStmt ctx)).map (fun s => genStmt s ++ [Tok.p Pn.semi])).flatten := by
  unfold genTokens canon
  rw [genBlock_flat, canonBlock_toList]

theorem order_preserved_elifs (ctx : Ctx) (el : Elifs) :
    genElifs (canonElifs ctx el) =
      ((el.toList.map (fun x => (canonExpr ctx x.1, canonBlock ctx x.2))).map
        (fun x => [Tok.kw Kw.elif_] ++ genExpr x.1 ++ genBlock x.2)).flatten := by
  rw [genElifs_flat, canonElifs_toList]

theorem order_preserved_chain (ch : List Step) : genChain ch = (ch.map genStep).flatten :=
  genChain_flat ch

theorem order_preserved_params (ctx : Ctx) (ps : Params) :
    genParams (canonParams ctx ps) =
      ([Tok.p Pn.comma] : List Tok).intercalate
        ((ps.toList.map (fun x => (x.1, canonExpr ctx x.2))).map
          (fun x => [Tok.ident x.1, Tok.p Pn.colon] ++ genExpr x.2)) := by
  rw [genParams_inter, canonParams_toList]

/-! ### non-vacuity: a concrete body with nesting, elif/else, a two-step select chain with where clause,
    invocations of all four kinds with several parameters, written with upper-case keywords and un-resolved
    `NS::f()` forms, whose normal form is supported -/

def demoCtx : Ctx := ⟨["LOG"], ["DOG"], [("DOG1", "'bark heard'"), ("DOG2", "'fed'"), ("DOG_A1", "'tick'")]⟩

def demo : Block :=
  .cons (.selFrom "ANY" "d" "DOG")
  (.cons (.if_ (.bin (.field (.var "d") "Age") ">" (.int "3"))
      (.cons (.assign (.var "x") (.call .implicit "LOG" "level" .nil)) .nil)
      (.cons (.un "NOT" (.bool "TRUE"))
        (.cons (.invoke (.call .implicit "DOG" "reset" (.cons "val" (.un "-" (.int "1")) .nil))) .nil)
        (.cons (.bool "False") (.cons .brk .nil) .nil))
      (.some (.cons (.invoke (.icall (.var "d") "bark"
          (.cons "times" (.int "2") (.cons "loud" (.bool "true") .nil)))) .nil)))
  (.cons (.selRelW "Many" "ps" (.var "d") [⟨"PER", "R1", "'owns'"⟩, ⟨"LIC", "R3", ""⟩]
      (.bin (.field .selected "Nr") "==" (.param "pi")))
  (.cons (.invoke (.call .func "" "add" (.cons "a" (.int "1") (.cons "b" (.str "\"s\"") .nil))))
  (.cons (.ret (some (.enum "Color" "red"))) .nil))))

example : supported demoCtx (canon demoCtx demo) = true := by decide
example : parseGen demoCtx (genTokens (canon demoCtx demo)) = some (canon demoCtx demo) :=
  regen_parses_back demoCtx demo (by decide)
example : genTokens (canon demoCtx demo) ≠ genTokens demo := by decide   -- `canon` does change this tree
example : (genTokens (canon demoCtx demo)).length > 100 := by decide

/-- event statements are inside the supported set: generate to class / creator / instance, create event instance,
    generate <event variable>, with data items -/
def demoE : Block :=
  .cons (.create "d" "DOG")
  (.cons (.genEvt "DOG1" (some "'bark heard'") (.cons "count" (.bin (.int "1") "+" (.param "pi")) (.cons "who" (.str "\"x\"") .nil))
      (.inst (.var "d")))
  (.cons (.createEvt "ev" "DOG_A1" (some "'tick'") .nil (.cls "DOG"))
  (.cons (.genEvt "DOG2" (some "'fed'") .nil (.creator "DOG"))
  (.cons (.genPre (.var "ev")) .nil))))

example : supported demoCtx (canon demoCtx demoE) = true := by decide
example : parseGen demoCtx (genTokens (canon demoCtx demoE)) = some (canon demoCtx demoE) :=
  regen_parses_back demoCtx demoE (by decide)

/-! ### FLAT — the population between the two walkers (PyxModel/Prebuild/Flat.lean, Proofs/PrebuildFlat.lean)

  `Flat.prebuildFlat` is prebuild.py as a builder of ROWS of the ooaofooa classes (ACT_BLK, ACT_SMT + R603 subtypes,
  V_VAL + R801 subtypes, V_VAR + R814 subtypes), `Flat.regenFlat` is sourcegen.py navigating those rows.

  Full statement (NOT proved; decided case by case by the driver, which evaluates it on every body it dumps, and by
  the population correspondence of harness/flat_pop.py):
      theorem regen_of_prebuild (fc : FCtx) (a : Block) (h : flatOk fc (canon fc.toCtx a) = true) :
          regenFlat (prebuildFlat fc (canon fc.toCtx a)) = genTokens (canon fc.toCtx a)
  Proved: the VALUE level, for every expression of `coreE` (literals, enumerators / qualified constants, variable
  reads, `selected`, parameter and attribute reads, unary and binary operations of any nesting depth), from ANY
  builder state whose symbol table is sound, and stable under whatever the builder appends afterwards (`ext`):
  reading the rows `buildExpr` wrote with `regenVal` prints exactly `genExpr e`.  Missing: the statement / block
  level (R602 first-statement filter, R661 successor chain, R682 / R683 of elif / else). -/
section Flat
open Pyx.Prebuild.Flat

theorem regen_of_prebuild_values (fc : FCtx) (e : Expr) (st : St) (hc : coreE e = true) (hs : SymOK st)
    (ht : TSv st.pop) (hok : (buildExpr fc e st).2.ok = true) (ext : List Flat.Row) (fuel : Nat) (hf : szV e ≤ fuel) :
    regenVal ((buildExpr fc e st).2.pop ++ ext) fuel (buildExpr fc e st).1 = genExpr e :=
  (buildExpr_spec fc e st hc hs ht hok).regen ext fuel hf

def flatFc : FCtx := { ees := [], classes := ["DOG"] }

/-- a state inside the where clause of a select: the outer block, an instance handle `d`, the O_OBJ scope -/
def flatSt : St :=
  { pop := [.blk true, .var "d" 0, .vint 1 "DOG"], scopes := [⟨.obj "DOG", []⟩, ⟨.blk 0, []⟩], ok := true }

/-- `((- 2) + (param.pi * 1.5)) <= selected.Age` -/
def flatE : Expr :=
  .bin (.bin (.un "-" (.int "2")) "+" (.bin (.param "pi") "*" (.real "1.5"))) "<=" (.field .selected "Age")

theorem flatSt_symOK : SymOK flatSt := by
  intro n v h
  simp [flatSt, findSym, List.lookup] at h

theorem flatSt_tsv : TSv flatSt.pop := by
  intro i r k hi hr
  have := List.mem_of_getElem? hi
  simp [flatSt] at this
  rcases this with rfl | rfl | rfl <;> simp [Flat.Row.valOf] at hr

example : regenVal ((buildExpr flatFc flatE flatSt).2.pop ++ [Flat.Row.brk 0]) 9 (buildExpr flatFc flatE flatSt).1 = genExpr flatE :=
  regen_of_prebuild_values flatFc flatE flatSt (by decide) flatSt_symOK flatSt_tsv (by decide) _ 9 (by decide)

/-- BODY level, for the sub-subset `coreB`: statement lists (any length) of return (with / without a `coreX` value),
    assignment to a variable (first assignment declares the transient) or to an attribute with a `coreX` right-hand
    side, break, continue, control stop, create with / without variable, select any|many from instances (with / without a
    `coreX` where clause over `selected`, accepted in the O_OBJ scope, the variable declared after it), delete,
    relate / unrelate (+ using), and `while` loops, `for each` loops (loop variable visible or declared by the loop) and
    `if` statements WITH any number of elif clauses and an optional else clause over such lists, all heads `coreX`
    (nested to any depth: a new
    ACT_BLK per nested list, R608 / R605 / R607 / R658 / R606, its own R602 / R661 chain, an empty body included; every
    clause's own ACT_SMT lies in the block HOLDING the if, is chained nowhere and is skipped by the first-statement filter;
    R682 / R683 navigate to exactly the clauses of that `if`, in creation order).  `coreX` = `coreE` + `self` ANYWHERE in
    the expression.  `self` (in a home that has one: the
    look-up creates V_VAR + V_INT in the innermost scope the first time the name is not visible) is covered as the instance
    name of delete / relate / unrelate (+ using, any operand) and in every expression position of the subset: as a value
    (`self == d`, `not_empty self`, `return self`), as the root of an assigned / a read attribute, inside unary / binary
    operations of any depth (`self.a + 1`), in the right-hand side of an assignment to an attribute or to a (declared)
    variable (`x = self.Age * 2;` — the builder's `plainE` guard is part of `flatOk`, so `x = self;` is outside), in the
    heads of `while` / `if` / `elif` (installed in the block holding the statement) and in the where clause of a select
    (installed in the clause's O_OBJ scope and dropped with it; its V_VAR / V_INT rows stay).  It is NOT covered as a
    declared name (create / select / for each variable, the set of a for each, an assigned transient): reading the population
    `prebuildFlat` builds back with `regenFlat` (outer block R666, R602 first-statement filter, R603 subtype dispatch,
    R661 successor chain to its end, variables through the symbol table) prints `genTokens`.
    `flatOk`: the builder never failed (the flag is never set back: `okAll_of_flatOk`).
    MISSING for the full `regen_of_prebuild`: select related (chains), invocations,
    event statements. -/
theorem regen_of_prebuild_partial (fc : FCtx) (a : Block) (hc : coreB a = true) (hok : flatOk fc a = true) :
    regenFlat (prebuildFlat fc a) = genTokens a :=
  regenFlat_prebuildFlat fc a hc (okAll_of_flatOk fc a hc hok)

/-- the same for a statement list accepted in ANY sound builder state (inside a body, variables declared), stable
    under rows appended later that name none of its rows (`FreshC`) -/
theorem regen_of_statement_list (fc : FCtx) (ss : Block) (prev : Option Nat) (st : St) (hc : coreB ss = true)
    (hinv : Inv st) (hprev : ∀ k, prev = some k → k < st.pop.length) (hok : okAll fc prev ss st = true)
    (ext : List Flat.Row) (fuel : Nat) (hf : FreshC st.pop.length (buildStmts fc prev ss st).pop.length ext)
    (hfuel : Flat.szB ss ≤ fuel) :
    regenChain ((buildStmts fc prev ss st).pop ++ ext) fuel (headOf st.pop.length ss) = genBlock ss :=
  (buildStmts_spec fc ss prev st hc hinv hprev hok).regen ext fuel hf hfuel

/-- `create object instance of DOG; return (1 + (- 2.5)) < param.pi; break; control stop; return;` -/
def coreBody : Block :=
  .cons (.createNV "DOG")
  (.cons (.ret (some (.bin (.bin (.int "1") "+" (.un "-" (.real "2.5"))) "<" (.param "pi"))))
  (.cons .brk (.cons .ctl (.cons (.ret none) .nil))))

example : regenFlat (prebuildFlat flatFc coreBody) = genTokens coreBody :=
  regen_of_prebuild_partial flatFc coreBody (by decide) (by decide)

/-- from the start of a body to delete / relate: `create object instance d of DOG; select many ds from instances of DOG;
    create object instance e of DOG; relate d to e across R2.'chases'; unrelate d from e across R2.'chases';
    delete object instance e; return;` -/
def coreBody2 : Block :=
  .cons (.create "d" "DOG") (.cons (.selFrom "many" "ds" "DOG") (.cons (.create "e" "DOG")
  (.cons (.relate "d" "e" "R2" "'chases'") (.cons (.unrelate "d" "e" "R2" "'chases'")
  (.cons (.delete "e") (.cons (.ret none) .nil))))))

example : regenFlat (prebuildFlat flatFc coreBody2) = genTokens coreBody2 :=
  regen_of_prebuild_partial flatFc coreBody2 (by decide) (by decide)

/-- `n = 0; create object instance d of DOG; d.Age = (n + 1) * 2; n = d.Age - n; return n;` -/
def coreBody3 : Block :=
  .cons (.assign (.var "n") (.int "0")) (.cons (.create "d" "DOG")
  (.cons (.assign (.field (.var "d") "Age") (.bin (.bin (.var "n") "+" (.int "1")) "*" (.int "2")))
  (.cons (.assign (.var "n") (.bin (.field (.var "d") "Age") "-" (.var "n")))
  (.cons (.ret (some (.var "n"))) .nil))))

example : regenFlat (prebuildFlat flatFc coreBody3) = genTokens coreBody3 :=
  regen_of_prebuild_partial flatFc coreBody3 (by decide) (by decide)

/-- `n = 0; while (n < 10) n = n + 1; while (true) end while; break; end while; return n;` (a loop in a loop, an empty body) -/
def coreBody4 : Block :=
  .cons (.assign (.var "n") (.int "0"))
  (.cons (.while_ (.bin (.var "n") "<" (.int "10"))
      (.cons (.assign (.var "n") (.bin (.var "n") "+" (.int "1")))
      (.cons (.while_ (.bool "true") .nil) (.cons .brk .nil))))
  (.cons (.ret (some (.var "n"))) .nil))

example : regenFlat (prebuildFlat flatFc coreBody4) = genTokens coreBody4 :=
  regen_of_prebuild_partial flatFc coreBody4 (by decide) (by decide)

/-- `n = 0; if (n < 1) n = 2; while (n > 0) if (true) break; end if; end while; if (false) end if; end if; return;` -/
def coreBody5 : Block :=
  .cons (.assign (.var "n") (.int "0"))
  (.cons (.if_ (.bin (.var "n") "<" (.int "1"))
      (.cons (.assign (.var "n") (.int "2"))
      (.cons (.while_ (.bin (.var "n") ">" (.int "0")) (.cons (.if_ (.bool "true") (.cons .brk .nil) .nil .none) .nil))
      (.cons (.if_ (.bool "false") .nil .nil .none) .nil))) .nil .none)
  (.cons (.ret none) .nil))

example : regenFlat (prebuildFlat flatFc coreBody5) = genTokens coreBody5 :=
  regen_of_prebuild_partial flatFc coreBody5 (by decide) (by decide)

/-- `select many ds from instances of DOG; for each d in ds if (true) n = 1; end if; end for; for each d in ds end for; return;`
    (the second loop finds `d` visible: the loop variable lives in the block HOLDING the loop) -/
def coreBody6 : Block :=
  .cons (.selFrom "many" "ds" "DOG")
  (.cons (.forEach "d" "ds" (.cons (.if_ (.bool "true") (.cons (.assign (.var "n") (.int "1")) .nil) .nil .none) .nil))
  (.cons (.forEach "d" "ds" .nil) (.cons (.ret none) .nil)))

example : regenFlat (prebuildFlat flatFc coreBody6) = genTokens coreBody6 :=
  regen_of_prebuild_partial flatFc coreBody6 (by decide) (by decide)

/-- `select any d from instances of DOG where (selected.Age > 3); select many ds from instances of DOG where
    (selected.Age == param.pi); select any d from instances of DOG where (selected.Alive); delete object instance d; return;` -/
def coreBody7 : Block :=
  .cons (.selFromW "any" "d" "DOG" (.bin (.field .selected "Age") ">" (.int "3")))
  (.cons (.selFromW "many" "ds" "DOG" (.bin (.field .selected "Age") "==" (.param "pi")))
  (.cons (.selFromW "any" "d" "DOG" (.field .selected "Alive"))
  (.cons (.delete "d") (.cons (.ret none) .nil))))

example : regenFlat (prebuildFlat flatFc coreBody7) = genTokens coreBody7 :=
  regen_of_prebuild_partial flatFc coreBody7 (by decide) (by decide)

/-- a TEST of the full statement on one body (if / elif / else, while, for each, select, relate): evaluation, no proof -/
def flatBody : Block :=
  .cons (.selFrom "many" "ds" "DOG")
  (.cons (.assign (.var "n") (.int "0"))
  (.cons (.forEach "d" "ds"
      (.cons (.if_ (.bin (.field (.var "d") "Age") ">" (.int "3"))
          (.cons (.assign (.var "n") (.bin (.var "n") "+" (.int "1"))) .nil)
          (.cons (.bool "false") (.cons .brk .nil) .nil)
          (.some (.cons (.relate "d" "d" "R2" "'chases'") .nil))) .nil))
  (.cons (.while_ (.bin (.var "n") "<" (.int "10")) (.cons .cont .nil))
  (.cons (.ret (some (.var "n"))) .nil))))

set_option maxRecDepth 100000 in
example : flatOk flatFc flatBody = true := by decide
set_option maxRecDepth 100000 in
example : regenFlat (prebuildFlat flatFc flatBody) = genTokens flatBody := by decide

end Flat

end PyxProps.C05

/-! ==========================================================================================================
  SOURCE TIE of the text generator (builder sg-shape): `regen*` of PyxModel/Prebuild/Flat.lean = the generic interpretation
  (Proofs/SgShape.lean) of the IR that translator/gen_sgshape.py regenerates from bridgepoint/sourcegen.py on every run
  (Gen/SgShape.lean: one statement list per `ActionTextGenWalker.accept_*`) — appended section
  ========================================================================================================== -/
namespace PyxProps.C05
open Pyx.Prebuild Pyx.Prebuild.Flat Pyx.SgShape Pyx.Gen.SgShape

/-! Every theorem below holds for EVERY population (no well-formedness hypothesis): where the hand-written printer answers
    `bad` (a supertype row without subtype row, an ACT_SMT whose subtype is an elif / else clause, no outer block, a variable
    link that names no V_VAR) the equation says so in its `else` branch — the real code prints nothing there (`accept(None)`),
    or the clause; no population `prebuild.py` creates has such a row.  Recursive calls go through the accept oracle
    (`accHead`: the printer itself, one unit of fuel lower), loops through the `again` / `loop` oracles, exactly as `rec` in
    the C04 tie.  Kind: spec_equation (each is proved by unfolding both sides on every row constructor); what they add is that
    the right-hand side is REGENERATED from the source text. -/

/-- accept_V_VAR: the Name is written (the lexer makes the keyword of `self`) -/
theorem variable_as_in_source (q : FlatPop) (f v : Nat) :
    regenVar q v = if isVar q v then handler (envN q f 0) accept_V_VAR (.sup "V_VAR" v) else [Tok.bad "V_VAR"] :=
  regenVar_eq q (envN q f 0) rfl v

/-- accept_V_VAL and the handler of every value subtype Flat.lean models (V_LIN V_LRL V_LST V_LBO V_TVL V_IRF V_ISR V_UNY
    V_BIN V_SLR V_AVL V_PVL V_LEN V_SCV), dispatched by class name: `subtype(inst, 801)`; literals print Value (quoted /
    lower-cased as the source says); a unary operation is '(' Operator ' ' the R804 operand ')', a binary one '(' the R802
    operand ' ' Operator ' ' the R803 operand ')'; an attribute value is the R807 root, '.', the R806 attribute's Name;
    'param.' and the parameter's Name; data type / constant group Name '::' Name -/
theorem value_as_in_source (q : FlatPop) (f v : Nat) :
    regenVal q (f + 1) v =
      if (valSub q v).isSome then handler (envN q f 2) accept_V_VAL (.sup "V_VAL" v) else [Tok.bad "V_VAL"] :=
  regenVal_eq q f v

/-- accept_ACT_SMT (`subtype(inst, 603)`, then ';') and the handler of every statement subtype Flat.lean models: ACT_AI
    ('assign ' — no R801 V_MSV under the R609 value —, the R689 value, ' = ', the R609 value), ACT_RET, ACT_BRK, ACT_CON, ACT_CTL,
    ACT_CR (R633 variable, R671 class), ACT_CNV, ACT_DEL, ACT_REL / ACT_UNR (R615 R616 R653 / R620 R621 R655, the phrase only
    when non-empty), ACT_RU / ACT_URU (… then ' using ' and the R619 / R624 variable), ACT_FIO, ACT_FIW (+ ' where ' R610),
    ACT_FOR (R614 ' in ' R652, block R605, 'end for'), ACT_WHL, ACT_IF (R625, R607, the R682 clauses through the loop oracle,
    the R683 clause → accept_ACT_E: 'else' and its R606 block, 'end if') -/
theorem statement_as_in_source (q : FlatPop) (f s : Nat) :
    regenSmt q (f + 1) s ++ [Tok.p .semi] =
      if (smtSub q s).isSome && !isElifOrElse q s then handler (envN q f 2) accept_ACT_SMT (.sup "ACT_SMT" s)
      else [Tok.bad "ACT_SMT", Tok.p .semi] :=
  regenSmt_eq q f s

/-- the successor loop of accept_ACT_BLK, one round: `while act_smt: self.accept(act_smt); act_smt =
    one(act_smt).ACT_SMT[661, 'precedes']()`; the rounds that follow are `regenChain` one unit of fuel lower -/
theorem successor_loop_as_in_source (q : FlatPop) (f : Nat) (cur : Option Nat) :
    (whileOf accept_ACT_BLK).map (fun vb => (runStm (chainEnv q f vb.1) (.whileLoc vb.1 vb.2) [(vb.1, curPV cur)]).2) =
      some (regenChain q (f + 1) cur) :=
  regenChain_eq q f cur

/-- accept_ACT_BLK: the first statement is `one(inst).ACT_SMT[602](first_filter)` with the filter closure of the source (no
    R661 'succeeds' predecessor, no R603 ACT_EL, no R603 ACT_E) = `firstStmt`, then the successor loop; level and line breaks
    print no token -/
theorem block_as_in_source (q : FlatPop) (f b : Nat) :
    regenBlk q (f + 2) b = handler (chainEnv q f "act_smt") accept_ACT_BLK (.sup "ACT_BLK" b) ∧
    evalNav q (blkLocals b) (.one "inst" [⟨"ACT_SMT", 602, ""⟩] (some "first_filter")) = curPV (firstStmt q b) ∧
    filterOf accept_ACT_BLK = some ("first_filter", "sel", firstFilterConj) :=
  ⟨regenBlk_eq q f b, first_nav q b, rfl⟩

/-- the elif loop of accept_ACT_IF, one round: `for act_el in sorted(many(inst).ACT_EL[682](), key=by_position):
    self.accept(act_el)` → accept_ACT_EL: 'elif ', the R659 value, the R658 block; the rounds that follow are `regenElifs` one
    unit of fuel lower; the key is (LineNumber, StartPosition) of the clause's R603 ACT_SMT.  Hypothesis: the rows are ACT_EL
    rows — what `many(inst).ACT_EL[682]()` = `elifsOf` delivers (second part) -/
theorem elif_loop_as_in_source (q : FlatPop) (f s : Nat) (l : List Row) (hl : ∀ r ∈ l, ∃ a blk v i, r = Row.el a blk v i) :
    (forOf accept_ACT_IF).map (fun x => forStep (envN q f 1) x.1 x.2.2.2 [] (l.map .sub)) = some (regenElifs q (f + 1) l) ∧
    (∀ r ∈ elifsOf q s, ∃ a blk v i, r = Row.el a blk v i) ∧
    keyOf accept_ACT_IF = some ("by_position", "inst",
      [(.one "inst" [⟨"ACT_SMT", 603, ""⟩] none, "LineNumber"), (.one "inst" [⟨"ACT_SMT", 603, ""⟩] none, "StartPosition")]) :=
  ⟨regenElifs_eq q f l hl, elifsOf_isEl q s, rfl⟩

/-- accept_ACT_ACT: the R666 block; gen_text_action starts the walker at level -1 -/
theorem action_as_in_source (q : FlatPop) :
    regenFlat q = (if (outerBlk q).isSome then handler { q := q, acc := accHead q (q.length + 1) } accept_ACT_ACT .act
      else [Tok.bad "ACT_BLK"]) ∧ initialLevel = -1 :=
  ⟨regenFlat_eq q, rfl⟩

/-! non-vacuity: the generic interpreter RUNS the generated IR on a concrete population and produces the tokens; and it is no
    renaming of `regen*` — on statement structures OTHER than the generated ones (hand-made mutations) it computes other
    token lists, so the equalities above are not equalities that any IR would satisfy -/

/-- `relate a to b across R1.'p' using c; return (1 + (- 2)); if (1) elif (2) else end if;` as prebuild.py lays it out -/
def sgPop : FlatPop :=
  [.blk true, .var "a" 0, .var "b" 0, .var "c" 0,
   .smt 0 none, .ru 4 1 2 3 "R1" "'p'",
   .smt 0 (some 4), .val 0, .lin 7 "1", .val 0, .lin 9 "2", .val 0, .uny 11 "-" 9, .val 0, .bin 13 "+" 7 11, .ret 6 (some 13),
   .smt 0 (some 6), .blk false, .if_ 16 17 7, .smt 0 none, .blk false, .el 19 20 9 16, .smt 0 none, .blk false, .e 22 23 16]

example : regenFlat sgPop =
    [.kw .relate, .ident "a", .kw .to, .ident "b", .kw .across, .ident "R1", .p .dot, .phrase "'p'", .kw .using_, .ident "c",
     .p .semi, .kw .return_, .p .lpar, .num "1", .p .plus, .p .lpar, .p .minus, .num "2", .p .rpar, .p .rpar, .p .semi,
     .kw .if_, .num "1", .kw .elif_, .num "2", .kw .else_, .endIf, .p .semi] := by decide +kernel
example : (outerBlk sgPop).isSome = true ∧ (valSub sgPop 13).isSome = true ∧
    ((smtSub sgPop 4).isSome && !isElifOrElse sgPop 4) = true ∧ ((smtSub sgPop 16).isSome && !isElifOrElse sgPop 16) = true ∧
    isVar sgPop 3 = true := by decide +kernel
example : regenVal sgPop 3 13 = handler (envN sgPop 2 2) accept_V_VAL (.sup "V_VAL" 13) := by
  rw [value_as_in_source]; rfl
example : regenSmt sgPop 4 16 ++ [Tok.p .semi] = handler (envN sgPop 3 2) accept_ACT_SMT (.sup "ACT_SMT" 16) := by
  rw [statement_as_in_source]; rfl
example : regenFlat sgPop = handler { q := sgPop, acc := accHead sgPop (sgPop.length + 1) } accept_ACT_ACT .act := by
  rw [(action_as_in_source sgPop).1]; rfl
example : (forOf accept_ACT_IF).map (fun x => forStep (envN sgPop 2 1) x.1 x.2.2.2 [] ((elifsOf sgPop 16).map .sub)) =
    some (regenElifs sgPop 3 (elifsOf sgPop 16)) :=
  (elif_loop_as_in_source sgPop 2 16 _ (elifsOf_isEl sgPop 16)).1

/-- the generated handlers, interpreted: the binary operation, the relate-using statement, the if statement -/
example : handler (envN sgPop 2 1) accept_V_BIN (.sub (.bin 13 "+" 7 11)) =
      [.p .lpar, .num "1", .p .plus, .p .lpar, .p .minus, .num "2", .p .rpar, .p .rpar] ∧
    handler (envN sgPop 2 1) accept_ACT_RU (.sub (.ru 4 1 2 3 "R1" "'p'")) =
      [.kw .relate, .ident "a", .kw .to, .ident "b", .kw .across, .ident "R1", .p .dot, .phrase "'p'", .kw .using_, .ident "c"] ∧
    handler (envN sgPop 3 1) accept_ACT_IF (.sub (.if_ 16 17 7)) =
      [.kw .if_, .num "1", .kw .elif_, .num "2", .kw .else_, .endIf] := by decide +kernel

/-- hand-mutated IRs give OTHER token lists: the operands of a binary operation printed right before left; the `using` and the
    `to` variable swapped; the parentheses dropped around a unary operation; 'elif ' written by the else clause; the successor
    loop walking R661 in the other direction (the block then prints its first statement only) -/
example : handler (envN sgPop 2 1)
      [.buf [.lit "("], .accept (.one "inst" [⟨"V_VAL", 803, ""⟩] none), .buf [.lit " ", .attr "inst" "Operator", .lit " "],
       .accept (.one "inst" [⟨"V_VAL", 802, ""⟩] none), .buf [.lit ")"]] (.sub (.bin 13 "+" 7 11)) =
      [.p .lpar, .p .lpar, .p .minus, .num "2", .p .rpar, .p .plus, .num "1", .p .rpar] ∧
    handler (envN sgPop 2 1)
      [.buf [.lit "relate "], .accept (.one "inst" [⟨"V_VAR", 617, ""⟩] none), .buf [.lit " to "],
       .accept (.one "inst" [⟨"V_VAR", 619, ""⟩] none), .assign "r_rel" (.one "inst" [⟨"R_REL", 654, ""⟩] none),
       .buf [.lit " across R", .attrStr "r_rel" "Numb"],
       .ite (.attr "inst" "relationship_phrase") [.buf [.lit ".", .attr "inst" "relationship_phrase"]] [],
       .buf [.lit " using "], .accept (.one "inst" [⟨"V_VAR", 618, ""⟩] none)] (.sub (.ru 4 1 2 3 "R1" "'p'")) =
      [.kw .relate, .ident "a", .kw .to, .ident "c", .kw .across, .ident "R1", .p .dot, .phrase "'p'", .kw .using_, .ident "b"] ∧
    handler (envN sgPop 2 1)
      [.buf [.attr "inst" "Operator", .lit " "], .accept (.one "inst" [⟨"V_VAL", 804, ""⟩] none)] (.sub (.uny 11 "-" 9)) =
      [.p .minus, .num "2"] ∧
    handler (envN sgPop 2 0) [.buf [.lit "elif "], .accept (.one "inst" [⟨"ACT_BLK", 606, ""⟩] none)] (.sub (.e 22 23 16)) =
      [.kw .elif_] ∧
    handler (chainEnv sgPop 20 "act_smt")
      [.defFilter "first_filter" "sel" firstFilterConj, .assign "act_smt" (.one "inst" [⟨"ACT_SMT", 602, ""⟩] (some "first_filter")),
       .whileLoc "act_smt" [.accept (.loc "act_smt"), .assign "act_smt" (.one "act_smt" [⟨"ACT_SMT", 661, "succeeds"⟩] none)]]
      (.sup "ACT_BLK" 0) =
      [.kw .relate, .ident "a", .kw .to, .ident "b", .kw .across, .ident "R1", .p .dot, .phrase "'p'", .kw .using_, .ident "c",
       .p .semi] ∧
    handler (envN sgPop 2 0) [.buf [.lit "return"], .accept (.one "inst" [⟨"V_VAL", 668, ""⟩] none)] (.sub (.ret 6 none)) =
      [.bad "return"] := by decide +kernel

/-! ### inventory of the handlers; the boundary of the model as a checked statement -/

/-- THE LIST of the handlers `ActionTextGenWalker.accept_*` of the source, by name, in source order (83, no name twice): a
    handler added to / removed from / renamed in sourcegen.py changes the generated `handlers` and breaks this equation -/
theorem handlers_inventory_as_in_source :
    handlers.map Prod.fst =
      ["accept_S_BRG", "accept_O_TFR", "accept_S_SYNC", "accept_O_DBATTR", "accept_SM_ACT", "accept_SPR_PO", "accept_SPR_PS",
       "accept_SPR_RO", "accept_SPR_RS", "accept_ACT_ACT", "accept_ACT_BLK", "accept_ACT_SMT", "accept_ACT_RET",
       "accept_ACT_BRK", "accept_ACT_CON", "accept_ACT_CTL", "accept_ACT_CR", "accept_ACT_CNV", "accept_ACT_DEL",
       "accept_ACT_REL", "accept_ACT_RU", "accept_ACT_UNR", "accept_ACT_URU", "accept_ACT_FIO", "accept_ACT_SEL",
       "accept_ACT_SRW", "accept_ACT_FIW", "accept_ACT_LNK", "accept_ACT_AI", "accept_ACT_WHL", "accept_ACT_IF",
       "accept_ACT_EL", "accept_ACT_E", "accept_ACT_FOR", "accept_ACT_FNC", "accept_ACT_BRG", "accept_ACT_IOP",
       "accept_ACT_SGN", "accept_ACT_TFM", "accept_V_VAL", "accept_V_TVL", "accept_V_ISR", "accept_V_VAR", "accept_V_IRF",
       "accept_V_PVL", "accept_V_SLR", "accept_V_MVL", "accept_V_AVL", "accept_V_AER", "accept_V_ALV", "accept_V_LIN",
       "accept_V_LRL", "accept_V_LST", "accept_V_LBO", "accept_V_LEN", "accept_V_BIN", "accept_V_UNY", "accept_V_PAR",
       "accept_V_EDV", "accept_V_EPR", "accept_SM_EVTDI", "accept_V_FNV", "accept_V_BRV", "accept_V_TRV", "accept_V_MSV",
       "accept_V_SCV", "accept_SPR_PEP", "accept_SPR_REP", "accept_E_GPR", "accept_E_ESS", "accept_E_GES", "accept_E_CES",
       "accept_SM_EVT", "accept_E_GSME", "accept_E_GAR", "accept_E_GEC", "accept_E_CSME", "accept_E_CEA", "accept_E_CEC",
       "accept_O_TPARM", "accept_S_SPARM", "accept_S_BPARM", "accept_C_PP"] ∧
    handlers.length = 83 ∧ (handlers.map Prod.fst).Nodup ∧ default_accept = [.printClassName] := by
  refine ⟨by rfl, by rfl, by decide +kernel, by rfl⟩

/-- THE BOUNDARY of the model.  (1), (2): the 83 handlers split, in source order, into the 39 of `modelledClasses` (tied to
    `regen*` for all inputs by the seven theorems above and the three clause theorems below) and the 44 of `outsideClasses`;
    (3) the 44 are exactly: action homes (S_BRG O_TFR S_SYNC O_DBATTR SM_ACT SPR_PO SPR_PS SPR_RO SPR_RS), `select … related
    by` (ACT_SEL ACT_SRW ACT_LNK), invocation statements (ACT_FNC ACT_BRG ACT_IOP ACT_SGN ACT_TFM), value subtypes without a
    row (V_MVL V_AER V_ALV V_EDV V_FNV V_BRV V_TRV V_MSV), parameter chains and names (V_PAR V_EPR SM_EVTDI SPR_PEP SPR_REP
    O_TPARM S_SPARM C_PP), the event subsystem (E_GPR E_ESS E_GES E_CES SM_EVT E_GSME E_GAR E_GEC E_CSME E_CEA E_CEC);
    (4) no row of ANY flat population is of an outside class, and `getattr(self, 'accept_' + class)` finds a handler for every
    row but the three R814 subtypes V_INT V_INS V_TRN (which no handler navigates to) -/
theorem model_boundary_as_in_source :
    (handlers.map Prod.fst).filter (fun n => modelledClasses.any (fun c => handlerName c == n)) =
      modelledClasses.map handlerName ∧
    (handlers.map Prod.fst).filter (fun n => !modelledClasses.any (fun c => handlerName c == n)) =
      outsideClasses.map handlerName ∧
    (let groups := outsideHomes ++ outsideSelectRelated ++ outsideInvocationStatements ++ outsideValues ++
        outsideParameters ++ outsideEvents
     groups.length = outsideClasses.length ∧ groups.Nodup ∧ outsideClasses.all groups.contains = true ∧
       modelledClasses.length = 39 ∧ outsideClasses.length = 44) ∧
    (∀ r : Row, outsideClasses.contains r.cls = false ∧
      (handlers.lookup (handlerName r.cls)).isSome = !unvisitedRowClasses.contains r.cls) := by
  refine ⟨by decide +kernel, by decide +kernel, by decide +kernel, ?_⟩
  intro r
  cases r <;> (simp only [Row.cls]; exact ⟨by decide +kernel, by decide +kernel⟩)

/-- WHERE a modelled handler names a class on the other side: exactly four hops in the whole source — accept_ACT_AI asks for
    the R801 V_MSV of the R609 value ('send ' or 'assign '), accept_V_PVL accepts the R832 S_SPARM, the R833 O_TPARM and the
    R843 C_PP next to the R831 S_BPARM.  For EVERY population and EVERY instance these four navigations find nothing (so
    'assign ' is written, and `accept(None)` prints nothing): Flat.lean records the parameter of a V_PVL, whatever its class,
    under R831 — and the four parameter-name handlers of the source are the same statement list, `buf(inst.Name)` -/
theorem boundary_crossings_as_in_source :
    boundaryCrossings =
      [("accept_ACT_AI", ⟨"V_MSV", 801, ""⟩), ("accept_V_PVL", ⟨"S_SPARM", 832, ""⟩), ("accept_V_PVL", ⟨"O_TPARM", 833, ""⟩),
       ("accept_V_PVL", ⟨"C_PP", 843, ""⟩)] ∧
    (∀ (q : FlatPop) (x : Inst), hopMany q x ⟨"V_MSV", 801, ""⟩ = [] ∧ hopMany q x ⟨"S_SPARM", 832, ""⟩ = [] ∧
      hopMany q x ⟨"O_TPARM", 833, ""⟩ = [] ∧ hopMany q x ⟨"C_PP", 843, ""⟩ = []) ∧
    accept_S_SPARM = accept_S_BPARM ∧ accept_O_TPARM = accept_S_BPARM ∧ accept_C_PP = accept_S_BPARM ∧
    accept_S_BPARM = [.buf [.attr "inst" "Name"]] := by
  refine ⟨by decide +kernel, fun q x => ⟨hopMany_msv q x, hopMany_foreign q x _ _ (by simp), hopMany_foreign q x _ _ (by simp),
    hopMany_foreign q x _ _ (by simp)⟩, rfl, rfl, rfl, rfl⟩

/-- accept_ACT_E on its own (inside `statement_as_in_source` it is reached through accept_ACT_IF): 'else', the R606 block -/
theorem else_clause_as_in_source (q : FlatPop) (f n a eb s : Nat) :
    handler (envN q f n) accept_ACT_E (.sub (.e a eb s)) = [Tok.kw .else_] ++ regenBlk q f eb :=
  accept_ACT_E_eq q f n a eb s

/-- accept_ACT_EL on its own (one clause of `regenElifs`): 'elif ', the R659 value, the R658 block -/
theorem elif_clause_as_in_source (q : FlatPop) (f n a blk v i : Nat) :
    handler (envN q f n) accept_ACT_EL (.sub (.el a blk v i)) = [Tok.kw .elif_] ++ regenVal q f v ++ regenBlk q f blk :=
  accept_ACT_EL_eq q f n a blk v i

/-- accept_S_BPARM on its own, under any oracles: the parameter's Name; it is the last token of the V_PVL clause of `regenVal`.
    Hypothesis of the second part: the R801 subtype row of the value is that V_PVL row (discharged below on a population) -/
theorem parameter_name_as_in_source (E : Env) (v : Nat) (name : String) :
    handler E accept_S_BPARM (.elem "S_BPARM" (.pvl v name)) = [Tok.ident name] ∧
    (∀ (f w : Nat), valSub E.q w = some (.pvl v name) →
      regenVal E.q (f + 1) w = [Tok.kw .param, Tok.p .dot] ++ handler E accept_S_BPARM (.elem "S_BPARM" (.pvl v name))) := by
  refine ⟨accept_S_BPARM_eq E v name, fun f w h => ?_⟩
  rw [regenVal, h, accept_S_BPARM_eq]; rfl

/-- non-vacuity: the two clause handlers on the clauses of `sgPop`; a mutated inventory is a different list -/
example : handler (envN sgPop 3 0) accept_ACT_E (.sub (.e 22 23 16)) = [.kw .else_] ∧
    handler (envN sgPop 3 0) accept_ACT_EL (.sub (.el 19 20 9 16)) = [.kw .elif_, .num "2"] ∧
    valSub [.val 0, .pvl 0 "x"] 0 = some (.pvl 0 "x") ∧
    regenVal [.val 0, .pvl 0 "x"] 1 0 = [.kw .param, .p .dot, .ident "x"] := by decide +kernel
example : ((handlers.map Prod.fst).erase "accept_V_SCV").length = 82 ∧
    boundaryCrossings.length = 4 ∧ (handlers.lookup (handlerName (Row.vtrn 0).cls)).isSome = false := by decide +kernel

end PyxProps.C05
