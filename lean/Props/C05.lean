import Proofs.PrebuildFuel
import Proofs.PrebuildCanon

/-!
  C05 — Prebuild followed by text generation reproduces the program.
  Property theorems only (helper lemmas: Proofs/PrebuildExpr.lean, PrebuildExprRT.lean, PrebuildStmtRT.lean,
  PrebuildFuel.lean, PrebuildCanon.lean).

  Model (lean/PyxModel/Prebuild/): `Ast` = the node classes of bridgepoint/oal.py; `canon` = the normal form
  in which trees are compared; `genTokens` = the tokens of the text sourcegen.py prints for the instances
  prebuild.py creates (composition of the two walkers, written from their `accept_*` methods);
  `parseGen ctx` = a parser for that output language which classifies a bare `NS::f(…)` as `canon` does;
  `supported ctx` = the statement set covered (event statements included).  That the real prebuild.py + sourcegen.py compute
  `genTokens ∘ canon` is decided on every run by the correspondence stream (harness/prop_C05.py).
-/
namespace PyxProps.C05
open Pyx.Prebuild

/-! Classification.  CONTENT-BEARING: `regen_parses_back` (structural induction over all supported bodies) and
    `canon_idempotent`.  COROLLARIES: `regen_idempotent` (congruence of `canon_idempotent`), `regen_fixpoint`
    (one line from the two).  PRINTER SHAPE: `order_preserved*` re-express the model printer's own recursion as
    map / flatten / intercalate over the source lists; they follow the model, they say nothing about the mechanisms
    that decide order in the code (R661 walk, `sorted(by_position)`, R816 chain) — those are C06
    `chains_are_source_order` plus the direct predicate.
    `supported` is a SYNTACTIC over-approximation (statement shapes, canonical operator / cardinality / boolean
    spellings, resolution of invocations against ctx); it puts no condition on identifier / number / phrase
    strings — those are `Lexical.lexical`, not needed at token level, evaluated by the driver on every case. -/

/-- The regenerated text parses back to the (normal form of the) original tree — for every supported,
    name-resolved action body, whatever its length and nesting depth. -/
theorem regen_parses_back (ctx : Ctx) (a : Block) (h : supported ctx (canon ctx a) = true) :
    parseGen ctx (genTokens (canon ctx a)) = some (canon ctx a) :=
  parseGen_genTokens ctx (canon ctx a) h

/-- `canon` is a normal form: applying it twice changes nothing (no hypothesis on the tree). -/
theorem canon_idempotent (ctx : Ctx) (a : Block) : canon ctx (canon ctx a) = canon ctx a :=
  canonBlock_idem ctx a

/-- Regenerating from the normal form of the normal form gives the same tokens. -/
theorem regen_idempotent (ctx : Ctx) (a : Block) :
    genTokens (canon ctx (canon ctx a)) = genTokens (canon ctx a) := by
  rw [canon_idempotent]

/-- Translating the generated text again yields the same generated text: parse the regenerated tokens,
    normalise, regenerate — the tokens are unchanged. -/
theorem regen_fixpoint (ctx : Ctx) (a : Block) (h : supported ctx (canon ctx a) = true) :
    (parseGen ctx (genTokens (canon ctx a))).map (fun b => genTokens (canon ctx b)) =
      some (genTokens (canon ctx a)) := by
  rw [regen_parses_back ctx a h, Option.map_some, canon_idempotent]

/-- Order is preserved: the output is the concatenation, in source order, of the statements' own token
    sequences each followed by `;` (and `canon` maps the statement list element-wise); the same for the
    elif clauses of an `if`, the steps of a navigation chain, and (comma-separated) the parameters of an
    invocation. -/
theorem order_preserved (ctx : Ctx) (a : Block) :
    genTokens (canon ctx a) =
      ((a.toList.map (canonStmt ctx)).map (fun s => genStmt s ++ [Tok.p Pn.semi])).flatten := by
  unfold genTokens canon
  rw [genBlock_flat, canonBlock_toList]

theorem order_preserved_elifs (ctx : Ctx) (el : Elifs) :
    genElifs (canonElifs ctx el) =
      ((el.toList.map (fun x => (canonExpr ctx x.1, canonBlock ctx x.2))).map
        (fun x => [Tok.kw Kw.elif_] ++ genExpr x.1 ++ genBlock x.2)).flatten := by
  rw [genElifs_flat, canonElifs_toList]

theorem order_preserved_chain (ch : List Step) : genChain ch = (ch.map genStep).flatten :=
  genChain_flat ch

theorem order_preserved_params (ctx : Ctx) (ps : Params) :
    genParams (canonParams ctx ps) =
      ([Tok.p Pn.comma] : List Tok).intercalate
        ((ps.toList.map (fun x => (x.1, canonExpr ctx x.2))).map
          (fun x => [Tok.ident x.1, Tok.p Pn.colon] ++ genExpr x.2)) := by
  rw [genParams_inter, canonParams_toList]

/-! ### non-vacuity: a concrete body with nesting, elif/else, a two-step select chain with where clause,
    invocations of all four kinds with several parameters, written with upper-case keywords and un-resolved
    `NS::f()` forms, whose normal form is supported -/

def demoCtx : Ctx := ⟨["LOG"], ["DOG"], [("DOG1", "'bark heard'"), ("DOG2", "'fed'"), ("DOG_A1", "'tick'")]⟩

def demo : Block :=
  .cons (.selFrom "ANY" "d" "DOG")
  (.cons (.if_ (.bin (.field (.var "d") "Age") ">" (.int "3"))
      (.cons (.assign (.var "x") (.call .implicit "LOG" "level" .nil)) .nil)
      (.cons (.un "NOT" (.bool "TRUE"))
        (.cons (.invoke (.call .implicit "DOG" "reset" (.cons "val" (.un "-" (.int "1")) .nil))) .nil)
        (.cons (.bool "False") (.cons .brk .nil) .nil))
      (.some (.cons (.invoke (.icall (.var "d") "bark"
          (.cons "times" (.int "2") (.cons "loud" (.bool "true") .nil)))) .nil)))
  (.cons (.selRelW "Many" "ps" (.var "d") [⟨"PER", "R1", "'owns'"⟩, ⟨"LIC", "R3", ""⟩]
      (.bin (.field .selected "Nr") "==" (.param "pi")))
  (.cons (.invoke (.call .func "" "add" (.cons "a" (.int "1") (.cons "b" (.str "\"s\"") .nil))))
  (.cons (.ret (some (.enum "Color" "red"))) .nil))))

example : supported demoCtx (canon demoCtx demo) = true := by decide
example : parseGen demoCtx (genTokens (canon demoCtx demo)) = some (canon demoCtx demo) :=
  regen_parses_back demoCtx demo (by decide)
example : genTokens (canon demoCtx demo) ≠ genTokens demo := by decide   -- `canon` does change this tree
example : (genTokens (canon demoCtx demo)).length > 100 := by decide

/-- event statements are inside the supported set: generate to class / creator / instance, create event instance,
    generate <event variable>, with data items -/
def demoE : Block :=
  .cons (.create "d" "DOG")
  (.cons (.genEvt "DOG1" (some "'bark heard'") (.cons "count" (.bin (.int "1") "+" (.param "pi")) (.cons "who" (.str "\"x\"") .nil))
      (.inst (.var "d")))
  (.cons (.createEvt "ev" "DOG_A1" (some "'tick'") .nil (.cls "DOG"))
  (.cons (.genEvt "DOG2" (some "'fed'") .nil (.creator "DOG"))
  (.cons (.genPre (.var "ev")) .nil))))

example : supported demoCtx (canon demoCtx demoE) = true := by decide
example : parseGen demoCtx (genTokens (canon demoCtx demoE)) = some (canon demoCtx demoE) :=
  regen_parses_back demoCtx demoE (by decide)

end PyxProps.C05
