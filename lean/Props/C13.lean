import Proofs.OalLex
import Proofs.OalTrack
import Proofs.OalRegex
import PyxModel.Oal.LexGen
import Gen.OalTrack

/-!
  C13 — OAL parsing is total and its source positions are exact.
  Property theorems only (helper lemmas: Proofs/OalLex.lean).
  Model: PyxModel/Oal/Lex.lean (character-level PLY lexer of bridgepoint/oal.py), PyxModel/Oal/Pos.lean
  (find_column / set_positional_info arithmetic), tables: Gen/OalLex.lean (regenerated from the source).

  Specifications used in the statements (PyxModel/Oal/Pos.lean):
    lineOf text off = 1 + number of '\n' in text[0:off)          (1-based line of the character at `off`)
    colOf  text off = column reached by a writing cursor after text[0:off), tab = 1 column, '\n' resets to 1
    slice  text a b = text[a:b)
  A node built from the tokens i..j records (`spanOf`, `streamOf`) start_stream = lexpos of token i, start_line =
  its lineno, start_column = find_column(start_stream), end_stream = endlexpos of token j, end_line = its endlineno
  (its lineno when the rule does not set one), end_column = find_column(end_stream) - 1, character_stream =
  lexdata[start_stream:end_stream].  (A symbol of an empty production has no end position and is skipped by
  set_positional_info, so i..j are always real tokens; a parenthesised expression is re-stamped with the span of
  `(` .. `)`.)
-/
namespace PyxProps.C13
open Pyx.OalLex

/-- every non-literal rule of the table has a regex the model has a scanner for (the tie between the
    hand-modelled scanners and the regex SOURCE in the rule docstrings) -/
theorem rules_known : rulesKnown Gen.OalLex.rules = true := by decide

/-- the line bookkeeping of the generated table is sound: every rule whose regex can match a newline (by the
    translator's regex analysis or by the model) counts its newlines, sets `endlineno` after counting when it
    returns a token, every returned token sets `endlexpos`, a lone newline is matched by some rule, and
    `t_ignore` contains no newline -/
theorem table_lines_ok : linesOk Gen.OalLex.cfg = true := by decide

/-- line_exact, for ANY rule table with sound bookkeeping, any text and any token the lexer returns:
    the recorded start line is 1 + the number of newlines before the token, the recorded end line is the line
    of the token's last character, the recorded offsets delimit exactly the lexeme -/
theorem line_exact_table (cfg : LexCfg) (hok : linesOk cfg = true) (text : List Char) :
    ∀ t ∈ lexWith cfg text,
      t.line = lineOf text t.start ∧ t.endLine = lineOf text (t.stop - 1) ∧
      t.start < t.stop ∧ t.stop ≤ text.length ∧ t.lexeme = slice text t.start t.stop := by
  intro t ht
  have h := (lexRun_ok cfg hok text.length [] text t (by simpa [lexWith, countNl] using ht)).1
  simp only [List.nil_append] at h
  refine ⟨h.line, ?_, h.nonempty, h.bound, h.lexeme⟩
  rw [h.endLine]
  have hlast := h.lastNotNl
  rw [h.lexeme, slice_getLast text t.start t.stop h.nonempty h.bound] at hlast
  unfold lineOf
  rw [take_pred text t.stop (by have := h.nonempty; omega) h.bound, countNl_append, countNl_singleton, if_neg]
  · rfl
  · intro e; exact hlast (by rw [e])

/-- line_exact for the table the source has now -/
theorem line_exact (text : List Char) :
    ∀ t ∈ lex text, t.line = lineOf text t.start ∧ t.endLine = lineOf text (t.stop - 1) :=
  fun t ht => let h := line_exact_table Gen.OalLex.cfg table_lines_ok text t ht; ⟨h.1, h.2.1⟩

/-- column_exact: `find_column(text, off)` = `off - text.rfind('\n', 0, off)` is the 1-based column of the
    character at `off` (distance from the last newline before it; a tab counts one) -/
theorem column_exact (text : List Char) (off : Nat) (h : off ≤ text.length) :
    findColumn text off = (colOf text off : Int) := findColumn_eq_colOf text off h

/-- the same in closed form: the characters of the current line before `off`, plus one -/
theorem column_exact_line (text : List Char) (off : Nat) (h : off ≤ text.length) (pre line : List Char)
    (hsplit : text.take off = pre ++ line) (hpre : pre = [] ∨ ∃ p, pre = p ++ ['\n']) (hline : '\n' ∉ line) :
    findColumn text off = (line.length : Int) + 1 := by
  have hl : (text.take off).length = off := by rw [List.length_take]; omega
  unfold findColumn rfindNl
  rw [hsplit] at hl ⊢
  rcases hpre with rfl | ⟨p, rfl⟩
  · simp only [List.nil_append] at hl ⊢
    rw [rfindNlGo_noNl _ _ _ hline]; omega
  · rw [List.append_assoc, List.singleton_append, rfindNlGo_append p line 0 (-1) hline]
    simp only [List.length_append, List.length_cons, List.length_nil] at hl
    omega

/-- span_exact: a node built from the tokens `a` .. `b` of the text records the offset, line and column of the
    first character of `a`, the offset after / the line and column of the last character of `b`, and
    `character_stream` is exactly the text between them, which starts with `a`'s lexeme and ends with `b`'s -/
theorem span_exact_table (cfg : LexCfg) (hok : linesOk cfg = true) (text : List Char) (a b : Tok)
    (ha : a ∈ lexWith cfg text) (hb : b ∈ lexWith cfg text) :
    (spanOf text a b).startStream = a.start ∧
    (spanOf text a b).startLine = lineOf text a.start ∧
    (spanOf text a b).startColumn = (colOf text a.start : Int) ∧
    (spanOf text a b).endStream = b.stop ∧
    (spanOf text a b).endLine = lineOf text (b.stop - 1) ∧
    (spanOf text a b).endColumn = (colOf text (b.stop - 1) : Int) ∧
    streamOf text a b = slice text a.start b.stop ∧
    a.lexeme = slice text a.start a.stop ∧ b.lexeme = slice text b.start b.stop := by
  have hA := line_exact_table cfg hok text a ha
  have hB := line_exact_table cfg hok text b hb
  have hBok := (lexRun_ok cfg hok text.length [] text b (by simpa [lexWith, countNl] using hb)).1
  simp only [List.nil_append] at hBok
  refine ⟨rfl, hA.1, ?_, rfl, hB.2.1, ?_, rfl, hA.2.2.2.2, hB.2.2.2.2⟩
  · exact findColumn_eq_colOf text a.start (by omega)
  · simp only [spanOf]
    rw [findColumn_eq_colOf text b.stop hB.2.2.2.1]
    have hlast := hBok.lastNotNl
    rw [hBok.lexeme, slice_getLast text b.start b.stop hBok.nonempty hBok.bound] at hlast
    unfold colOf
    rw [take_pred text b.stop (by have := hBok.nonempty; omega) hBok.bound, colAfter_append]
    simp only [colAfter]
    rw [if_neg (fun e => hlast (by rw [e]))]
    omega

theorem span_exact (text : List Char) (a b : Tok) (ha : a ∈ lex text) (hb : b ∈ lex text) :
    (spanOf text a b).startStream = a.start ∧
    (spanOf text a b).startLine = lineOf text a.start ∧
    (spanOf text a b).startColumn = (colOf text a.start : Int) ∧
    (spanOf text a b).endStream = b.stop ∧
    (spanOf text a b).endLine = lineOf text (b.stop - 1) ∧
    (spanOf text a b).endColumn = (colOf text (b.stop - 1) : Int) ∧
    streamOf text a b = slice text a.start b.stop ∧
    a.lexeme = slice text a.start a.stop ∧ b.lexeme = slice text b.start b.stop :=
  span_exact_table Gen.OalLex.cfg table_lines_ok text a b ha hb

/-- every returned token is a non-empty piece of the text -/
theorem tokens_within (cfg : LexCfg) (hok : linesOk cfg = true) (text : List Char) :
    ∀ t ∈ lexWith cfg text, t.start < t.stop ∧ t.stop ≤ text.length :=
  fun t ht => let h := line_exact_table cfg hok text t ht; ⟨h.2.2.1, h.2.2.2.1⟩

/-- the token list is in text order and the tokens do not overlap: every token ends at or before the start of
    every later token (with `tokens_within`: start < stop, so `a` before `b` gives a.start < a.stop ≤ b.start < b.stop;
    in `span_exact` a node's first token precedes its last token, hence start_stream < end_stream) -/
theorem tokens_ordered_table (cfg : LexCfg) (hok : linesOk cfg = true) (text : List Char) :
    (lexWith cfg text).Pairwise (fun a b => a.stop ≤ b.start) := by
  have := lexRun_sorted cfg hok text.length [] text
  simpa [lexWith, countNl] using this

theorem tokens_ordered (text : List Char) : (lex text).Pairwise (fun a b => a.stop ≤ b.start) :=
  tokens_ordered_table Gen.OalLex.cfg table_lines_ok text

/-- lexer_total: for every rule table and every input the lexer model, run with fuel = length of the input,
    consumes the whole input (no input is rejected: an illegal character is skipped by `t_error`) -/
theorem lexer_total (cfg : LexCfg) (text : List Char) : (lexRun cfg text.length text 0 1).2 = [] :=
  lexRun_rest cfg text.length text 0 1 (Nat.le_refl _)

/-- comment_regex_unambiguous: the alternatives inside the repetition of the COMMENT rule are pairwise disjoint
    on their first character, so the regex engine never has two ways to continue (the old rule
    `([^*]|[\r\n]|(\*+([^*/]|[\r\n])))*` violated this and backtracked exponentially) -/
theorem comment_regex_unambiguous :
    pairwiseDisjoint Gen.OalLex.commentAlts = true ∧ Gen.OalLex.commentAlts.length ≥ 2 := by decide

/-! non-vacuity: concrete texts meeting the hypotheses, with the values the theorems predict -/

/-- `end` / `if` split over two lines, a ticked phrase containing a newline, a comment with a newline -/
def sample : List Char := "if x\nend\n if; /*\n*/ y = 'a\nb';".toList

example : (lex sample).map (fun t => (String.ofList t.kind, t.start, t.stop, t.line, t.endLine)) =
    [("IF", 0, 2, 1, 1), ("ID", 3, 4, 1, 1), ("END_IF", 5, 12, 2, 3), ("SEMICOLON", 12, 13, 3, 3),
     ("ID", 20, 21, 4, 4), ("EQUAL", 22, 23, 4, 4), ("TICKED_PHRASE", 24, 29, 4, 5), ("SEMICOLON", 29, 30, 5, 5)] := by
  decide

/-- the `if` statement built from tokens 0..2 spans lines 1-3; its last character is in column 3 of line 3 -/
example : (match lex sample with
    | a :: _ :: b :: _ => some (spanOf sample a b, String.ofList (streamOf sample a b))
    | _ => none) =
    some ({ startStream := 0, startLine := 1, startColumn := 1, endStream := 12, endLine := 3, endColumn := 3 },
          "if x\nend\n if") := by
  decide

example : findColumn sample 9 = 1 ∧ colOf sample 9 = 1 ∧ lineOf sample 9 = 3 ∧ findColumn sample 4 = 5 := by decide

/-- an illegal character is skipped, an unterminated comment falls apart into DIV TIMES ..., nothing is rejected -/
example : (lex "x $ /* y".toList).map (fun t => String.ofList t.kind) = ["ID", "DIV", "TIMES", "ID"] := by decide


/-! ## the hand-written scanners ARE the regexes of the rule docstrings

  `Pyx.Regex.Regex.matchPrefix` (PyxModel/Regex.lean) is a generic backtracking matcher with Python's `re` semantics
  (leftmost, ordered alternation, greedy / lazy repetition giving characters back, look-ahead); `Gen.OalLex.rx_<RULE>`
  is the AST Python's own regex parser gives for the rule's SOURCE regex (translator/regex_ast.py; a construct outside
  the AST breaks the translator).  `ScannerIsRegex "R"`: the table has a rule R and, on EVERY input, the scanner the
  proved lexer model uses for R returns what `matchPrefix` returns on `rx_R`.  Proved for every rule of the table, so
  the lexer model of `line_exact`, `lexer_total`, `lex_case` and the layout theorems is, on every text, the lexer that
  takes its lexemes from the generic matcher (`lexer_is_regex`).  What stays validated (K, on every case and on random
  regexes against `re.match`): that `matchPrefix` is Python's matcher, and PLY's master-regex discipline. -/

/-- `[a-zA-Z_][0-9a-zA-Z_]*|[a-zA-Z][0-9a-zA-Z_]*[0-9a-zA-Z_]+` (the second alternative is dead) -/
theorem scanner_is_regex_ID : ScannerIsRegex "ID" := scannerIsRegex_of _ _ rfl

/-- `\d+` (`\d` = str.isdecimal, Unicode 15 table) -/
theorem scanner_is_regex_NUMBER : ScannerIsRegex "NUMBER" := scannerIsRegex_of _ _ rfl

/-- `(((\d*\.\d+)|(\d+\.)([eE][-+]?\d+)?)|(\d+([eE][-+]?\d+)))[FfLl]?` -/
theorem scanner_is_regex_FRACTION : ScannerIsRegex "FRACTION" := scannerIsRegex_of _ _ rfl

/-- `([0-9a-zA-Z_])+(?=::)` -/
theorem scanner_is_regex_NAMESPACE : ScannerIsRegex "NAMESPACE" := scannerIsRegex_of _ _ rfl

/-- `"[^"\n]*"` -/
theorem scanner_is_regex_STRING : ScannerIsRegex "STRING" := scannerIsRegex_of _ _ rfl

/-- `\'[^\']*\'` -/
theorem scanner_is_regex_TICKED_PHRASE : ScannerIsRegex "TICKED_PHRASE" := scannerIsRegex_of _ _ rfl

/-- `\/\/.*\n` -/
theorem scanner_is_regex_SL_STRING : ScannerIsRegex "SL_STRING" := scannerIsRegex_of _ _ rfl

/-- `/\*([^*]|(\*+[^*/]))*\*+/` - a repetition of an alternation against the hand automaton `commentBody` -/
theorem scanner_is_regex_COMMENT : ScannerIsRegex "COMMENT" := scannerIsRegex_of _ _ rfl

/-- `[Ee][Nn][Dd][\s]+[Ff][Oo][Rr]` -/
theorem scanner_is_regex_END_FOR : ScannerIsRegex "END_FOR" := scannerIsRegex_of _ _ rfl

/-- `[Ee][Nn][Dd][\s]+[Ii][Ff]` -/
theorem scanner_is_regex_END_IF : ScannerIsRegex "END_IF" := scannerIsRegex_of _ _ rfl

/-- `[Ee][Nn][Dd][\s]+[Ww][Hh][Ii][Ll][Ee]` -/
theorem scanner_is_regex_END_WHILE : ScannerIsRegex "END_WHILE" := scannerIsRegex_of _ _ rfl

/-- `\n+` -/
theorem scanner_is_regex_newline : ScannerIsRegex "newline" := scannerIsRegex_of _ _ rfl

/-- every rule of the generated table (the 26 fixed-string rules included: their AST spells the literal the scanner
    compares with), paired with the generated AST of its regex -/
theorem scanner_is_regex (p : Rule × Pyx.Regex.Regex) (hp : p ∈ List.zip Gen.OalLex.rules Gen.OalLex.rx)
    (cs : List Char) : scanOf p.1 cs = Pyx.Regex.Regex.matchPrefix p.2 cs :=
  Pyx.OalLex.scanner_is_regex p hp cs

/-- the table pairs every rule with an AST (same length), and the fixed-string rules are all there -/
theorem scanner_is_regex_literals :
    Gen.OalLex.rules.length = Gen.OalLex.rx.length ∧
    ∀ p ∈ List.zip Gen.OalLex.rules Gen.OalLex.rx, ∀ s, p.1.lit = some s →
      ∀ cs, scanLit s cs = Pyx.Regex.Regex.matchPrefix p.2 cs := by
  refine ⟨table_tied.2, ?_⟩
  intro p hp s hs cs
  have := Pyx.OalLex.scanner_is_regex p hp cs
  simpa only [scanOf, hs] using this

/-- lexer_is_regex: on every text, the proved lexer model returns the token stream of the lexer that runs the generic
    regex matcher on the generated ASTs under PLY's discipline (rules in definition order, first non-empty match) -/
theorem lexer_is_regex (text : List Char) : lexRx text = lex text := lexRx_eq_lex text

/-- non-vacuity: the matcher backtracks where the regex needs it (`\d+\.` after `\d*\.\d+` failed; the exponent is
    given back when no digit follows), and the named rules exist with non-trivial ASTs -/
example : Pyx.Regex.Regex.matchPrefix Gen.OalLex.rx_FRACTION "12.e+x".toList = some 3 ∧
    Pyx.Regex.Regex.matchPrefix Gen.OalLex.rx_FRACTION "12.e+5L;".toList = some 7 ∧
    Pyx.Regex.Regex.matchPrefix Gen.OalLex.rx_COMMENT "/* a ** / **/ x */".toList = some 13 ∧
    Pyx.Regex.Regex.matchPrefix Gen.OalLex.rx_NAMESPACE "ab::c".toList = some 2 ∧
    Pyx.Regex.Regex.matchPrefix Gen.OalLex.rx_NAMESPACE "ab:c".toList = none := by decide

example : (ruleRx "FRACTION").map (fun p => String.ofList p.1.regex) =
    some "(((\\d*\\.\\d+)|(\\d+\\.)([eE][-+]?\\d+)?)|(\\d+([eE][-+]?\\d+)))[FfLl]?" := by decide

example : (lexRx sample).length = 8 := by decide

/-! ## which tokens a node is stamped from: the production table of the parser (Gen/OalTrack.lean)

  Model: PyxModel/Oal/Track.lean - yacc's position attributes (`tracking=1`) on the stack symbols and what
  `track_production` / `set_positional_info` record from them.  A symbol reduced by an EMPTY production carries
  `lexer.lexpos` / `lexer.lineno` of wherever the lexer is (past the look-ahead) and no end attributes; a production
  that begins with such a symbol, or takes its end from one, would record a position outside its own tokens. -/

open Pyx.OalTrack in
/-- the nonterminal sets of the generated table are closed: every production of a `startSolid` (`endSolid`)
    nonterminal is non-empty and begins (ends) with a token or a nonterminal of the same set; every production
    of an `endOk` nonterminal is empty or ends that way; the nullable set is closed under the grammar -/
theorem grammar_sets_ok : setsOk Gen.OalTrack.grammar = true := by decide +kernel

open Pyx.OalTrack in
/-- productions_tracked: every production function whose `p[0]` can be a statement / expression node carries
    `@track_production` (unless it only passes its single symbol through) -/
theorem productions_tracked : trackedOk Gen.OalTrack.grammar = true := by decide +kernel

open Pyx.OalTrack in
/-- every tracked production that returns a statement / expression node is non-empty, begins with a token or a
    `startSolid` nonterminal, and - scanning back over symbols that may be empty, as `set_positional_info` does -
    reaches a token or an `endSolid` nonterminal -/
theorem productions_stamp_ok : stampsOk Gen.OalTrack.grammar = true := by decide +kernel

open Pyx.OalTrack in
/-- the invariant of the parser stack, for ANY table whose sets are closed: whatever sequence of shifts of exact
    tokens and reductions by productions of the table produced a stack symbol, a symbol without end position
    covers no token, a `startSolid` symbol records the start of its first token, an `endSolid` symbol the end of its
    last token, an `endOk` symbol either has no end position or records the end of its last token -/
theorem stack_invariant (g : Grammar) (hs : setsOk g = true) (i : Inst) (h : Reach g i) : Valid g i :=
  reach_valid g hs i h

open Pyx.OalTrack in
/-- stamp_exact, any table: for every tracked production of the table whose result can be a statement /
    expression node and every parse that reduces by it, the span `set_positional_info` stamps on the node is the
    span of the tokens the production covers - offset and line of the first token's first character, offset after
    and line of the last token's last character (columns and `character_stream` then follow by `span_exact`) -/
theorem stamp_exact_table (g : Grammar) (hs : setsOk g = true) (hst : stampsOk g = true) (p : Prod)
    (hp : p ∈ g.prods) (ht : p.tracked = true) (hc : p.carries = true) (kids : List Inst)
    (hk : kids.map (·.sym) = p.rhs) (hr : ∀ k ∈ kids, Reach g k) :
    ∃ s, stamp g.walkBack kids = some s ∧ joinTruth (kids.map (·.truth)) = some s := by
  have hpo : prodStampOk g p = true := by
    have := List.all_eq_true.mp hst p hp
    simpa [ht, hc] using this
  exact stamp_kids g p hpo kids hk (fun k hkm => reach_valid g hs k (hr k hkm))

open Pyx.OalTrack in
/-- stamp_exact for the grammar the source has now -/
theorem stamp_exact (p : Prod) (hp : p ∈ Gen.OalTrack.grammar.prods) (ht : p.tracked = true)
    (hc : p.carries = true) (kids : List Inst) (hk : kids.map (·.sym) = p.rhs)
    (hr : ∀ k ∈ kids, Reach Gen.OalTrack.grammar k) :
    ∃ s, stamp Gen.OalTrack.grammar.walkBack kids = some s ∧ joinTruth (kids.map (·.truth)) = some s :=
  stamp_exact_table Gen.OalTrack.grammar grammar_sets_ok productions_stamp_ok p hp ht hc kids hk hr

/-! non-vacuity: `else` (token at 6..10, line 2) followed by an EMPTY block, reduced while the lexer already
    stands at offset 19, line 3 (behind `end if`): the ElseNode is stamped 6..10 on line 2, not ..19 -/
open Pyx.OalTrack in
example : stamp true [tokInst ⟨6, 10, 2, 2⟩, { sym := .n 2, attr := yaccAttr (19, 3) [], truth := joinTruth [] }]
    = some ⟨6, 10, 2, 2⟩ ∧
    stamp false [tokInst ⟨6, 10, 2, 2⟩, { sym := .n 2, attr := yaccAttr (19, 3) [], truth := joinTruth [] }]
    = some ⟨6, 19, 2, 3⟩ := by decide

open Pyx.OalTrack in
example : (Gen.OalTrack.prods.filter fun p => p.tracked && p.carries).length > 0 := by decide +kernel


end PyxProps.C13
