import Proofs.LoadHeapRun
import PyxModel.LoadSharing
import Gen.Sharing

/-!
# C18 — One loader builds independent metamodels

The model (PyxModel/LoadHeap.lean) makes sharing explicit: the loader's statement list is the heap of
loader-owned list objects; a list-valued field of a built metamodel is either the metamodel's own copy or a
pointer to the statement's list; `Sharing` says which fields `build_metamodel` stores by reference, and the
value describing the code is GENERATED from the source (`Gen/Sharing.lean`: `byRef`, `buildReturnsFresh`,
`mutatorWrites`, by translator/gen_sharing.py).  Histories (`Op`) interleave `input`, `build` and mutations of
built metamodels in any way and at any length.
-/

namespace PyxProps.C18
open Pyx.Load Pyx.Heap

/-- **mutators_footprint**: each listed mutation (create — also `new` with referential arguments and its batch
    relate, `Mut.newArgs` — / delete / modify instance, relate / unrelate,
    append / insert / delete_attribute, define_unique_identifier) leaves every group of mutable objects of the
    metamodel outside its write set `Mut.writes` unchanged, never changes the class kinds, and writes a
    loader-owned object (a statement) only if it edits an attribute list that some class holds by reference. -/
theorem mutators_footprint (stmts : List Stmt) (o : HMeta) (μ : Mut) :
    (∀ f, f ∉ μ.writes → Unchanged f o (applyMut stmts o μ).1) ∧
    (applyMut stmts o μ).1.classes.map (·.kind) = o.classes.map (·.kind) ∧
    ((applyMut stmts o μ).2.1 = stmts ∨
      (Field.clsAttributes ∈ μ.writes ∧ ∃ c ∈ o.classes, ∃ idx, c.attrs = .stmt idx)) := by
  refine ⟨?_, applyMut_kinds stmts o μ, ?_⟩
  · intro f hf
    unfold applyMut
    by_cases h : μ.isAttrEdit
    · simp only [h, if_true]
      apply applyAttrEdit_frame
      intro hfe
      apply hf
      rw [writes_of_attrEdit μ h, hfe]
      exact List.mem_singleton.mpr rfl
    · simp only [h, Bool.false_eq_true, if_false]
      exact applyOwn_frame _ o μ (by simpa using h) f hf
  · unfold applyMut
    by_cases h : μ.isAttrEdit
    · simp only [h, if_true]
      unfold applyAttrEdit
      cases hc : findHCls o.classes μ.attrKind with
      | none => exact Or.inl rfl
      | some c =>
        cases hr : c.attrs with
        | own v => left; simp [setAttrs, hr]
        | stmt idx =>
          right
          refine ⟨?_, c, findHCls_mem hc, idx, hr⟩
          rw [writes_of_attrEdit μ h]
          exact List.mem_singleton.mpr rfl
    · simp only [h, Bool.false_eq_true, if_false]
      exact Or.inl (by first | rfl | trivial)

/-- **no_shared_write** (over the generated tables): the build returns a fresh metamodel object; the only
    statement-owned lists a built metamodel keeps by reference are the associations' key lists; no listed
    mutator writes an object through which a metamodel reaches a loader-owned list; and the write sets the
    model uses cover the write sets read off the source for every listed mutation. -/
theorem no_shared_write :
    Pyx.Gen.Sharing.buildReturnsFresh = true ∧
    genSharing.classAttrsByRef = false ∧
    genByRef "CreateUniqueStmt" "attributes" = [] ∧
    genByRef "CreateInstanceStmt" "values" = [] ∧
    genByRef "CreateInstanceStmt" "names" = [] ∧
    genByRef "CreateAssociationStmt" "source_keys" ⊆ ["Association.source_keys"] ∧
    genByRef "CreateAssociationStmt" "target_keys" ⊆ ["Association.target_keys"] ∧
    (∀ μ : Mut, ∀ f ∈ μ.writes, f ∉ genSharing.sharedFields) ∧
    (∀ μ : Mut, ∃ ws, Pyx.Gen.Sharing.mutatorWrites.lookup μ.name = some ws ∧
        ∀ n ∈ ws, n ∈ μ.writes.flatMap Field.names) := by
  refine ⟨by decide, by decide, by decide, by decide, by decide, by decide, by decide, ?_, ?_⟩
  · intro μ f hf
    cases μ <;> simp only [Mut.writes, List.mem_cons, List.mem_nil_iff, or_false] at hf <;>
      rcases hf with rfl | rfl | rfl | rfl <;> decide
  · intro μ
    cases μ <;> exact ⟨_, by rfl, by simp only [Mut.writes]; decide⟩

/-- **noninterference**: whenever no class attribute list is stored by reference, then for every interleaving
    of inputs, builds and mutations, of any length, what is observable of the k-th built metamodel (its classes,
    attributes, identifiers, instances, key lists, links, id generator — with all pointers followed) is what the
    history restricted to the inputs accepted before its build, its build, and the mutations applied to itself
    produces. -/
theorem noninterference (sh : Sharing) (hs : sh.classAttrsByRef = false) (ops : List Op) (k : Nat) :
    observe (run sh ops) k = observe (run sh (project k 0 ops)) 0 := by
  obtain ⟨n', h⟩ := rel_run sh hs k ops 0 World.init World.init (rel_init k)
  exact observe_of_rel h

/-- ... in particular for the sharing relation the code has now -/
theorem noninterference_gen (ops : List Op) (k : Nat) :
    observe (run genSharing ops) k = observe (run genSharing (project k 0 ops)) 0 :=
  noninterference genSharing no_shared_write.2.1 ops k

/-- **later_builds_fresh**: the loader's statements are never changed by what happens to built metamodels, so a
    build at any point of any history yields what a fresh loader fed the same inputs yields. -/
theorem later_builds_fresh (sh : Sharing) (hs : sh.classAttrsByRef = false) (ops : List Op) :
    (run sh ops).stmts = inputsOf ops ∧
    (run sh (ops ++ [.build])).metas = (run sh ops).metas ++ [hbuild sh (inputsOf ops)] := by
  have h := good_runFrom sh hs ops World.init (by intro j o hj; simp [World.init] at hj)
  have hst : (run sh ops).stmts = inputsOf ops := by
    have := h.2
    simpa [run, runFrom, World.init] using this
  refine ⟨hst, ?_⟩
  simp only [run, List.foldl_append, List.foldl_cons, List.foldl_nil, step]
  have : (List.foldl (step sh) World.init ops).stmts = inputsOf ops := hst
  rw [this]

/-- **clone_writes_target_only**: `m_k.clone(instance of m_j)` (model: read every attribute of the instance through
    the chain of referential properties, then `new` on `m_k` with the values read) writes nothing but `m_k`: the
    loader's statements and every other metamodel — the source `m_j` included when `j ≠ k` — are as before, in
    every state a history can reach. -/
theorem clone_writes_target_only (sh : Sharing) (hs : sh.classAttrsByRef = false) (ops : List OpC)
    (k j : Nat) (kind : String) (id : Nat) :
    (stepC sh (runC sh ops) (.cloneInto k j kind id)).stmts = (runC sh ops).stmts ∧
    ∀ i, i ≠ k → (stepC sh (runC sh ops) (.cloneInto k j kind id)).metas[i]? = (runC sh ops).metas[i]? :=
  Pyx.Heap.clone_writes_target_only sh (runC sh ops) (good_runC sh hs ops) k j kind id

/-- **noninterference_clone**: histories may also clone instances from one built metamodel into another.  A clone
    into `m_k` is, for `m_k`, a `new` with the values read from the source at that moment (`resolveAll` makes this
    replacement along the history); with that reading, what is observable of `m_k` again depends only on the inputs
    accepted before its build, its build, and the mutations — clones into it included — applied to itself. -/
theorem noninterference_clone (sh : Sharing) (hs : sh.classAttrsByRef = false) (ops : List OpC) (k : Nat) :
    observe (runC sh ops) k = observe (run sh (project k 0 (resolveAll sh World.init ops))) 0 := by
  rw [runC_eq_run]
  exact noninterference sh hs _ k

/-! ## non-vacuity and necessity -/

def exSchema : List Stmt :=
  [ .cls "A" [("Id", .integer), ("B_Id", .integer)], .cls "B" [("Id", .integer), ("U", .uniqueId)],
    .assoc ⟨"R1", "A", true, true, ["B_Id"], "", "B", false, true, ["Id"], ""⟩,
    .insert "B" none [.int 7, .id 3], .insert "A" none [.int 1, .int 7] ]

def exOps : List Op :=
  [ .input exSchema, .build, .mutate 0 (.appendAttr "B" "z" .string), .mutate 0 (.new "B"),
    .input [.insert "B" none [.int 8, .id 4]], .build, .mutate 1 (.delete "A" 0), .mutate 0 (.relate 0 0 1) ]

/-- the history builds two metamodels and its projection onto the second one keeps 4 of the 8 operations -/
example : (run genSharing exOps).metas.length = 2 := by decide
example : (project 1 0 exOps).length = 4 := by decide
example : ((observe (run genSharing exOps) 1).map (fun o => o.classes.map (fun c => (c.kind, c.rows.length)))) =
    some [("A", 0), ("B", 2)] := by decide
example : ((observe (run genSharing exOps) 0).map (fun o => o.classes.map (fun c => (c.kind, c.attrs.length, c.rows.length)))) =
    some [("A", 2, 1), ("B", 3, 2)] := by decide

/-- `new` with a referential argument relates the new row (B_Id = 7 finds the B row with Id 7), and a clone of
    the A row of the first metamodel into the second one links there as well, leaving the first untouched -/
example :
    let ops : List OpC := [.op (.input exSchema), .op .build, .op .build,
      .op (.mutate 0 (.newArgs "A" [.int 2, .int 7])), .cloneInto 1 0 "A" 1]
    ((observe (runC genSharing ops) 0).map (fun o => o.assocs.map (fun a => (a.links.src 0)))) = some [[0, 1]] ∧
    ((observe (runC genSharing ops) 1).map (fun o => o.assocs.map (fun a => (a.links.src 0)))) = some [[0, 1]] := by
  decide

/-- necessity of the guard: if `define_class` kept the statement's attribute list, appending an attribute to a
    class of the first metamodel would show in the second one -/
example :
    let sh : Sharing := ⟨true, true⟩
    let ops : List Op := [.input exSchema, .build, .build, .mutate 0 (.appendAttr "B" "z" .string)]
    ((observe (run sh ops) 1).map (fun o => o.classes.map (fun c => c.attrs.length))) = some [2, 3] ∧
    ((observe (run sh (project 1 0 ops)) 0).map (fun o => o.classes.map (fun c => c.attrs.length))) = some [2, 2] := by
  decide

end PyxProps.C18
