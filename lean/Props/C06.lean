import Proofs.PrebuildChain
import Proofs.PrebuildTyping
import Proofs.PrebuildMech
import PyxModel.Prebuild.Recipe
import Proofs.PbShape          -- PBSHAPE: source tie of the flat builder
import Proofs.PbShapeMore      -- PBSHAPE, continued: relate / unrelate, return with a value, more values, while / if
import Proofs.PbShapeMore2     -- PBSHAPE, continued: the whole if chain with the handlers as oracles, `self`, create / select
import Proofs.PbShapeDecl      -- PBSHAPE, continued: v_var / v_int / v_ins = newVar, create / select from for ALL states
import Proofs.PrebuildFlatStmt   -- FLAT: the flat population model

/-!
  C06 — Prebuilt instances form a well-formed, correctly typed population.
  Property theorems only (helper lemmas: Proofs/PrebuildChain.lean, Proofs/PrebuildTyping.lean).

  Model (lean/PyxModel/Prebuild/): `Chain` = the three chaining loops of prebuild.py as functions from the list
  of created instances to the persisted referential pairs; `Typing` = OAL's typing rules (`typeOf`) and the walk
  that lists every value instance with subtype and type in creation order; `Recipe` = the table of links each
  created instance receives, checked here against the GENERATED schema table `Gen/OoaSchema.lean`.
  The deciding part of C06 is the predicate evaluated on the REAL population on every run
  (harness/prop_C06.py: integrity violations added = 0, one subtype, neighbour references, positions,
  declaring block, R820 type = independent Python typing); the correspondence stream ties `typeWalk`, the chain
  functions and the recipe table to the code.
-/
namespace PyxProps.C06
open Pyx.Prebuild

/-! ### neighbour references -/

/-- R661 / R816 / R604: for ANY list of distinct statements / parameters / navigation steps in source order, the
    referential attribute each one receives from the prebuilder's chaining loop designates exactly its
    neighbour: the previous statement (none for the first), the next parameter / step (none for the last);
    likewise for event data items. -/
theorem chains_are_source_order (xs : List Nat) (hn : xs.Nodup) (i : Nat) (hi : i < xs.length) :
    prevStatement xs xs[i] = (if i = 0 then none else xs[i-1]?) ∧
    nextInChain xs xs[i] = xs[i+1]? ∧
    nextEventDatum xs xs[i] = xs[i+1]? :=
  ⟨prevStatement_spec xs hn i hi, nextInChain_spec xs hn i hi, nextEventDatum_spec xs hn i hi⟩

/-- an instance outside the list receives no reference -/
theorem chains_touch_only_members (xs : List Nat) (x : Nat) (hx : x ∉ xs) :
    prevStatement xs x = none ∧ nextInChain xs x = none := by
  constructor
  · exact refOf_not_holder (fun l hl he => hx (he ▸ chainLoop_holder xs none l hl))
  · refine refOf_not_holder (fun l hl he => hx ?_)
    have := chainLoop_holder xs.reverse none l hl
    rw [he] at this; exact List.mem_reverse.mp this

/-! ### typing

  CONTENT-BEARING: `typed_as_oal` — the prebuilder's typing MECHANISM (`Mech.buildExpr`: values created bottom-up in
  a growing population, the type of a compound value obtained by navigating R820 from the operand's value, the
  class of an attribute access through the S_IRDT of the root value's type or the V_SLR root) relates the value of
  EVERY expression, in EVERY population, to exactly `typeOf e` (the specification), gives it the subtype `kindOf e`,
  and creates, in order, the rows of the specification walk (which the correspondence run compares with the real
  V_VAL population).

  SPEC EQUATIONS (`typed_comparison` … `typed_selection_statements`, `walk_row_typed`): one-arm unfoldings of the
  specification `typeOf` / `walkStmt`; they restate OAL's typing rules in the property's words and make the
  specification readable against the property text — they are not counted as proofs about the mechanism. -/

/-- R820 of the value the mechanism builds for `e` is `typeOf e`; its R801 subtype is `kindOf e`; the values created
    are exactly the rows of the specification walk, appended in creation order to whatever population existed -/
theorem typed_as_oal (c : TCtx) (env : Env) (sel : Option String) (hg : GenericFree c) (e : Expr) (p : Pop) :
    (buildExpr c env sel e p).2.r820 (buildExpr c env sel e p).1 = typeOf c env sel e ∧
    (buildExpr c env sel e p).2.kind (buildExpr c env sel e p).1 = kindOf c env sel e ∧
    (buildExpr c env sel e p).2.vals = p.vals ++ walkExpr c env sel e :=
  mechanism_types c env sel hg e p

/-- an already typed operand is never re-typed: building further values leaves R820 of earlier ones unchanged -/
theorem earlier_values_untouched (c : TCtx) (env : Env) (sel : Option String) (hg : GenericFree c) (e : Expr)
    (p : Pop) (i : Nat) (hi : i < p.vals.length) :
    (buildExpr c env sel e p).2.r820 i = p.r820 i := by
  have h := (mechanism_types c env sel hg e p).2.2
  simp only [Pop.r820, h, List.getElem?_append_left hi]

theorem typed_comparison (c : TCtx) (env : Env) (sel : Option String) (l r : Expr) (op : String)
    (h : op ∈ compareOps) : typeOf c env sel (.bin l op r) = some "boolean" := by
  simp [typeOf, h]

theorem typed_bool_unary (c : TCtx) (env : Env) (sel : Option String) (e : Expr) (op : String)
    (h : op ∈ boolUnOps) : typeOf c env sel (.un op e) = some "boolean" := by
  simp [typeOf, h]

theorem typed_cardinality (c : TCtx) (env : Env) (sel : Option String) (e : Expr) :
    typeOf c env sel (.un "cardinality" e) = some "integer" := by
  have h1 : "cardinality" ∉ boolUnOps := by decide
  simp [typeOf, h1]

theorem typed_literals (c : TCtx) (env : Env) (sel : Option String) (v : String) :
    typeOf c env sel (.int v) = some "integer" ∧ typeOf c env sel (.real v) = some "real" ∧
    typeOf c env sel (.str v) = some "string" ∧ typeOf c env sel (.bool v) = some "boolean" := by
  simp [typeOf]

theorem typed_enumerator (c : TCtx) (env : Env) (sel : Option String) (en n : String) (es : List String)
    (h1 : c.enums.lookup en = some es) (h2 : n ∈ es) : typeOf c env sel (.enum en n) = some en := by
  simp [typeOf, h1, h2]

/-- arithmetic: the left operand's type (the generic instance-reference case aside) -/
theorem typed_arithmetic (c : TCtx) (env : Env) (sel : Option String) (l r : Expr) (op : String)
    (h1 : op ∉ compareOps) (h2 : typeOf c env sel l ∉ genericRefs) :
    typeOf c env sel (.bin l op r) = typeOf c env sel l := by
  simp [typeOf, h1, h2]

theorem typed_unary_sign (c : TCtx) (env : Env) (sel : Option String) (e : Expr) (op : String)
    (h : op = "+" ∨ op = "-") : typeOf c env sel (.un op e) = typeOf c env sel e := by
  rcases h with rfl | rfl
  · have h1 : "+" ∉ boolUnOps := by decide
    simp [typeOf, h1]
  · have h1 : "-" ∉ boolUnOps := by decide
    simp [typeOf, h1]

theorem typed_parameter (c : TCtx) (env : Env) (sel : Option String) (n : String) :
    typeOf c env sel (.param n) = c.params.lookup n := by simp [typeOf]

/-- attribute read through an instance handle: the declared type of the attribute in the handle's class -/
theorem typed_attribute (c : TCtx) (env : Env) (sel : Option String) (h : Expr) (a : String) (ci : ClassInfo)
    (set : Bool) (hs : h ≠ .selected) (ht : c.classOfType (typeOf c env sel h) = some (ci, set)) :
    typeOf c env sel (.field h a) = ci.attrs.lookup a := by
  cases h <;> simp_all [typeOf, attrTy, tyClass, fieldRow]

theorem typed_selected_attribute (c : TCtx) (env : Env) (kl a : String) (ci : ClassInfo)
    (hc : c.cls kl = some ci) : typeOf c env (some kl) (.field .selected a) = ci.attrs.lookup a := by
  simp [typeOf, attrTy, selClass, fieldRow, hc]

/-- `<array>.length`: the root is a DECLARED (visible) variable whose type is not an instance reference; then the
    name `length` is the array length (V_ALV, integer).
    Guards: `hv` excludes an undeclared root — there the code raises ("Unknown transient", prebuild.py
    `accept_VariableAccessNode`) while the totalised `typeOf` would still answer; the model has no structured types
    (`TCtx` carries none), so a root of structure type with a member named `length` — where the code builds a V_MVL
    typed as the member (prebuild.py `accept_FieldAccessNode`, S_MBR look-up before the length case) — is outside
    this equation: bodies with structure members are judged by the direct predicate only (harness family `struct`). -/
theorem typed_array_length (c : TCtx) (env : Env) (sel : Option String) (n : String) (v : VarInfo)
    (hv : findVar c env n = some v) (h : tyClass c v.ty = none) :
    typeOf c env sel (.field (.var n) "length") = some "integer" ∧
    kindOf c env sel (.field (.var n) "length") = "V_ALV" := by
  have ht : typeOf c env sel (.var n) = v.ty := by simp [typeOf, hv]
  constructor
  · show attrTy (tyClass c (typeOf c env sel (.var n))) "length" = _
    rw [ht, h]; rfl
  · show (fieldRow (tyClass c (typeOf c env sel (.var n))) "length").1 = _
    rw [ht, h]; rfl

/-- a variable read has the type recorded for the variable … -/
theorem typed_variable (c : TCtx) (env : Env) (sel : Option String) (n : String) (v : VarInfo)
    (h : findVar c env n = some v) : typeOf c env sel (.var n) = v.ty := by
  simp [typeOf, h]

/-- … which for a transient is the type of the value FIRST assigned to it: the first assignment declares the
    variable with the type of its right-hand side, and an assignment to a visible variable leaves the
    environment (hence the variable's type) unchanged -/
theorem typed_first_assignment (c : TCtx) (env : Env) (n : String) (r : Expr) :
    (findVar c env n = none →
      typeOf c (walkStmt c env (.assign (.var n) r)).1 none (.var n) = typeOf c env none r) ∧
    (∀ v, findVar c env n = some v → (walkStmt c env (.assign (.var n) r)).1 = env) := by
  constructor
  · intro h
    have hd := findVar_declare_same c env n (assignedVar c (typeOf c env none r))
    simp only [walkStmt, lvalueRoot, h, typeOf, hd]
    unfold assignedVar
    split <;> rfl
  · intro v h
    simp [walkStmt, lvalueRoot, h]

/-- instance selections: the variable a select / create declares is an instance reference (set) of the class -/
theorem typed_selection (c : TCtx) (env : Env) (v kl : String) (ci : ClassInfo) (many : Bool)
    (hv : findVar c env v = none) (hc : c.cls kl = some ci) :
    typeOf c (declareIfNew c env v many kl) none (.var v) = some (if many then ci.irefSet else ci.iref) := by
  have hd := fun info => findVar_declare_same c env v info
  cases many <;> simp [declareIfNew, hv, hc, typeOf, hd]

theorem typed_selection_statements (c : TCtx) (env : Env) (v kl : String) :
    (walkStmt c env (.selFrom "any" v kl)).1 = declareIfNew c env v false kl ∧
    (walkStmt c env (.selFrom "many" v kl)).1 = declareIfNew c env v true kl ∧
    (walkStmt c env (.create v kl)).1 = declareIfNew c env v false kl := by
  refine ⟨?_, ?_, ?_⟩ <;> simp [walkStmt, isMany]

/-- the row the walk emits for an expression carries `typeOf` of that expression -/
theorem walk_row_typed (c : TCtx) (env : Env) (sel : Option String) (e : Expr) :
    (kindOf c env sel e, typeOf c env sel e) ∈ walkExpr c env sel e := by
  cases e <;> simp [walkExpr]

/-! ### the symbol table: scopes, visibility, re-declaration

  Scope rule of the model (`Env` = stack of scopes, innermost first; the real `SymbolTable` is the same stack):
  a name is looked up through ALL enclosing scopes (innermost first), so a name visible from an outer block is
  never re-declared inside (no shadowing: assigning / selecting it in an inner block uses the outer variable);
  a statement declares at most one variable, only when the name is not visible, always in the innermost scope;
  entering a block pushes an empty scope, leaving it drops everything declared inside; the control variable of
  `for each` is declared in the scope that holds the loop (it outlives the loop); after a block has ended its
  names are unknown again, and declaring one again creates a NEW variable. -/

/-- Any statement changes the environment by at most one declaration of a not-yet-visible name; in particular
    whatever the nested blocks of a compound statement declare is not visible after it. -/
theorem scope_one_declaration (c : TCtx) (env : Env) (s : Stmt) :
    (walkStmt c env s).1 = env ∨
    ∃ m info, findVar c env m = none ∧ (walkStmt c env s).1 = env.declare m info :=
  walkStmt_step c env s

/-- block push / pop is balanced and outer scopes are never touched: after any statement the scope stack has
    the same enclosing scopes (only the innermost one may have grown) -/
theorem scope_stack_balanced (c : TCtx) (env : Env) (hne : env ≠ []) (s : Stmt) :
    ∃ top, (walkStmt c env s).1 = top :: env.tail := by
  rcases walkStmt_step c env s with h | ⟨m, info, _, h⟩
  · rw [h]; cases env with
    | nil => exact absurd rfl hne
    | cons a r => exact ⟨a, rfl⟩
  · rw [h]; exact declare_shape env hne m info

/-- a visible variable stays the same variable (same kind, type, class) through any statement: the same name
    used again — assigned, selected into, created, looped over, also inside nested blocks — gets the same V_VAR -/
theorem visible_preserved (c : TCtx) (env : Env) (s : Stmt) (n : String) (v : VarInfo)
    (h : findVar c env n = some v) : findVar c (walkStmt c env s).1 n = some v := by
  rcases walkStmt_step c env s with h1 | ⟨m, info, hm, h1⟩
  · rw [h1]; exact h
  · rw [h1]
    have hne : n ≠ m := by intro e; rw [e, hm] at h; cases h
    rw [findVar_declare_other c env n m info hne]; exact h

/-- variables declared inside the block(s) of `while` / `if` are not visible after the statement, whatever the
    blocks contain -/
theorem block_locals_dropped (c : TCtx) (env : Env) (e : Expr) (b : Block) (el : Elifs) (els : Else) :
    (walkStmt c env (.while_ e b)).1 = env ∧ (walkStmt c env (.if_ e b el els)).1 = env := by
  constructor <;> simp [walkStmt]

/-- the control variable of `for each` is declared in the scope holding the loop: it is visible after the loop
    (by `scope_one_declaration` nothing else the loop body declares is) -/
theorem foreach_variable_scope (c : TCtx) (env : Env) (v s : String) (b : Block) :
    (findVar c (walkStmt c env (.forEach v s b)).1 v).isSome = true := by
  simp only [walkStmt, declareIfNew]
  cases h : findVar c env v with
  | some x => simp [h]
  | none =>
    simp only
    split <;> simp [findVar_declare_same]

/-- selecting into / creating / creating an event into a visible variable declares nothing -/
theorem redeclaration_is_noop (c : TCtx) (env : Env) (n kl : String) (many : Bool) (v : VarInfo)
    (h : findVar c env n = some v) :
    declareIfNew c env n many kl = env ∧ declareEvent c env n = env := by
  simp [declareIfNew, declareEvent, h]

/-! ### the recipe table conforms to the generated schema -/

/-- For each kind of instance the prebuilder creates, the links its recipe relates give it exactly one partner
    on every unconditional single end of its class in the GENERATED ooaofooa schema, at most one on every single
    end, and every link is an association of the schema (a finite check per recipe against Gen/OoaSchema). -/
theorem recipe_conforms : ∀ r ∈ recipes, conforms r = true := by decide +kernel

/-! ### non-vacuity -/

example : prevStatement [10, 20, 30] 30 = some 20 ∧ prevStatement [10, 20, 30] 10 = none ∧
    nextInChain [10, 20, 30] 10 = some 20 ∧ nextInChain [10, 20, 30] 30 = none := by decide

def demoT : TCtx :=
  { classes := [⟨"DOG", "inst_ref<Dog>", "inst_ref_set<Dog>", [("Age", "integer")], [("getAge", "integer")]⟩]
    funcs := [("add", "integer")], ees := [("LOG", [("level", "integer")])], enums := [("Color", ["red"])]
    consts := [], params := [("pb", "boolean")], selfKl := none }

example : GenericFree demoT := rfl

/-- `typed_array_length` APPLIED: `arr` is a declared integer array variable -/
example :
    typeOf demoT [[("arr", ⟨.trn, some "integer", ""⟩)]] none (.field (.var "arr") "length") = some "integer" ∧
    kindOf demoT [[("arr", ⟨.trn, some "integer", ""⟩)]] none (.field (.var "arr") "length") = "V_ALV" :=
  typed_array_length demoT _ none "arr" ⟨.trn, some "integer", ""⟩ rfl rfl


def demoB : Block :=
  .cons (.selFrom "any" "d" "DOG")
  (.cons (.assign (.var "x") (.bin (.field (.var "d") "Age") "+" (.int "1")))
  (.cons (.assign (.var "x") (.str "\"s\""))
  (.cons (.ret (some (.bin (.var "x") "<" (.un "cardinality" (.var "d"))))) .nil)))

/-- `typed_as_oal` APPLIED: in a population that already holds two values, the mechanism relates the value of
    `d.Age + 1` across R820 to what the specification says (integer), as a V_BIN, after creating its three rows -/
example :
    let env : Env := [[("d", ⟨.inst, some "inst_ref<Dog>", "DOG"⟩)]]
    let p : Pop := ⟨[("V_LIN", some "integer"), ("V_LST", some "string")]⟩
    let e : Expr := .bin (.field (.var "d") "Age") "+" (.int "1")
    (buildExpr demoT env none e p).2.r820 (buildExpr demoT env none e p).1 = some "integer" ∧
    (buildExpr demoT env none e p).2.kind (buildExpr demoT env none e p).1 = "V_BIN" ∧
    (buildExpr demoT env none e p).2.vals.length = 6 := by
  intro env p e
  have h := typed_as_oal demoT env none rfl e p
  refine ⟨by rw [h.1]; decide, by rw [h.2.1]; decide, by rw [h.2.2]; decide⟩

/-- `chains_are_source_order` APPLIED to a list of three distinct instances, middle element -/
example : prevStatement [10, 20, 30] 20 = some 10 ∧ nextInChain [10, 20, 30] 20 = some 30 := by
  have h := chains_are_source_order [10, 20, 30] (by decide) 1 (by decide)
  exact ⟨by simpa using h.1, by simpa using h.2.1⟩

/-- `visible_preserved` / `scope_stack_balanced` APPLIED: `x` (an integer transient in the outer scope) is the same
    variable after an `if` whose block assigns a string to `x` and declares `t`; the stack keeps its outer scopes -/
example :
    let env : Env := [[], [("x", ⟨.trn, some "integer", ""⟩)]]
    let s : Stmt := .if_ (.bool "true") (.cons (.assign (.var "x") (.str "\"s\"")) (.cons (.assign (.var "t") (.int "1")) .nil))
      .nil .none
    findVar demoT (walkStmt demoT env s).1 "x" = some ⟨.trn, some "integer", ""⟩ ∧
    ∃ top, (walkStmt demoT env s).1 = top :: env.tail := by
  intro env s
  exact ⟨visible_preserved demoT env s "x" _ rfl, scope_stack_balanced demoT env (by simp [env]) s⟩

/-- `x` keeps the type (integer) of its first assignment although a string is assigned later -/
example : typeWalk demoT demoB =
    [("V_IRF", some "inst_ref<Dog>"), ("V_AVL", some "integer"), ("V_LIN", some "integer"),
     ("V_BIN", some "integer"), ("V_TVL", some "integer"), ("V_LST", some "string"), ("V_TVL", some "integer"),
     ("V_TVL", some "integer"), ("V_IRF", some "inst_ref<Dog>"), ("V_UNY", some "integer"),
     ("V_BIN", some "boolean")] := by decide

example : (required "ACT_AI").length = 3 ∧ (required "V_VAL").length = 2 := by decide +kernel

/-- scopes: `t` declared inside the `if` block is gone after it; the second `t = …` is ANOTHER variable (a string
    this time); `x` assigned inside the block is the outer `x`; the event variable is a transient of type inst<Event> -/
def demoS : Block :=
  .cons (.assign (.var "x") (.int "1"))
  (.cons (.if_ (.bool "true")
      (.cons (.assign (.var "t") (.int "2")) (.cons (.assign (.var "x") (.var "t")) .nil)) .nil .none)
  (.cons (.assign (.var "t") (.str "\"s\""))
  (.cons (.createEvt "ev" "DOG1" (some "'fed'") (.cons "n" (.var "x") .nil) (.cls "DOG"))
  (.cons (.genPre (.var "ev")) .nil))))

example : varWalk demoT demoS =
    [("x", some "integer"), ("t", some "integer"), ("t", some "string"), ("ev", some "inst<Event>")] := by decide
example : typeWalk demoT demoS =
    [("V_LIN", some "integer"), ("V_TVL", some "integer"), ("V_LBO", some "boolean"), ("V_LIN", some "integer"),
     ("V_TVL", some "integer"), ("V_TVL", some "integer"), ("V_TVL", some "integer"), ("V_LST", some "string"),
     ("V_TVL", some "string"), ("V_TVL", some "integer"), ("V_TVL", some "inst<Event>")] := by decide

/-! ### FLAT — well-formedness of the flat population (PyxModel/Prebuild/Flat.lean), VALUE level only

  Full statements (NOT proved; decided on the real population by the direct predicate of harness/prop_C06.py and, for
  the modelled subset, by the row-by-row correspondence of harness/flat_pop.py): every ACT_SMT of
  `prebuildFlat fc a` has exactly one R603 subtype row; R661 restricted to a block is one chain in source order;
  blocks nest as a tree below the outer block; no link field dangles.
  Proved (any expression of `coreE`, any nesting depth, from any sound builder state): the rows one expression adds are
  appended (nothing earlier changes), are V_VAL rows and R801 subtype rows only (no statement / block / variable
  row), every subtype row among them names a V_VAL created by this expression or an operand of it and lies AFTER
  that V_VAL (`TSv`), and the answered instance is a V_VAL row. -/
section Flat
open Pyx.Prebuild.Flat

theorem value_rows_wellformed_partial (fc : FCtx) (e : Expr) (st : St) (hc : coreE e = true) (hs : SymOK st)
    (ht : TSv st.pop) (hok : (buildExpr fc e st).2.ok = true) :
    (∃ d : List Flat.Row, (buildExpr fc e st).2.pop = st.pop ++ d ∧ szV e + 1 ≤ d.length ∧
      (∀ r ∈ d, ∀ k, r.valOf = some k → st.pop.length ≤ k) ∧
      (∀ r ∈ d, r.smtOf = none ∧ r.varOf = none ∧ (∀ b q, r ≠ .smt b q) ∧ (∀ o, r ≠ .blk o))) ∧
    TSv (buildExpr fc e st).2.pop ∧
    (∃ b, (buildExpr fc e st).2.pop[(buildExpr fc e st).1]? = some (.val b)) ∧
    (buildExpr fc e st).2.scopes = st.scopes :=
  let h := buildExpr_spec fc e st hc hs ht hok
  ⟨h.grows, h.tsv, h.isVal, h.scopes⟩

example : ∃ b, (buildExpr { ees := [], classes := [] } (.bin (.int "1") "+" (.un "-" (.real "2.5")))
      { pop := [.blk true], scopes := [⟨.blk 0, []⟩] }).2.pop[
      (buildExpr { ees := [], classes := [] } (.bin (.int "1") "+" (.un "-" (.real "2.5")))
      { pop := [.blk true], scopes := [⟨.blk 0, []⟩] }).1]? = some (Flat.Row.val b) :=
  (value_rows_wellformed_partial { ees := [], classes := [] } (.bin (.int "1") "+" (.un "-" (.real "2.5")))
    { pop := [.blk true], scopes := [⟨.blk 0, []⟩] } (by decide)
    (by intro n v h; simp [findSym, List.lookup] at h)
    (by intro i r k hi hr
        have := List.mem_of_getElem? hi
        simp at this; subst this; simp [Flat.Row.valOf] at hr)
    (by decide)).2.2.1

/-- BODY level, sub-subset `coreB` (statement lists of assignment to a variable / attribute, return, break, continue,
    control stop, create with / without variable, select from instances (+ where), delete, relate / unrelate (+ using), `while` /
    `for each` loops and `if` with elif / else clauses over such lists, nested to any depth; every expression a `coreX`
    expression, i.e. `coreE` + `self` anywhere — the V_VAR / V_INT rows its first look-up creates included): in the population of a whole body every key that is
    searched backwards — the supertype an R603 / R801 subtype row names, Block_ID (R602) and Previous_Statement_ID
    (R661) of an ACT_SMT, the `if` of an ACT_EL / ACT_E (R682 / R683) — names a row created EARLIER: it exists (no
    dangling key) and the successor relation has no cycle.
    MISSING for the full statements: exactly-one-subtype as a count, the R661 chain as a list in source order, the block
    tree, the forward links (value / variable operands), and the statements outside `coreB`. -/
theorem population_keys_wellformed_partial (fc : FCtx) (a : Block) (hc : coreB a = true)
    (hok : flatOk fc a = true) :
    ∀ (i : Nat) (r : Flat.Row), (prebuildFlat fc a)[i]? = some r →
      (∀ k, r.valOf = some k → k < i) ∧ (∀ k, r.smtOf = some k → k < i) ∧ (∀ k ∈ skeys r, k < i) :=
  prebuildFlat_ts fc a hc (okAll_of_flatOk fc a hc hok)

example : ∀ k ∈ skeys ((prebuildFlat { ees := [], classes := ["DOG"] }
      (.cons (.createNV "DOG") (.cons (.ret (some (.int "1"))) (.cons .brk .nil))))[5]?.getD (.blk false)), k < 5 :=
  (population_keys_wellformed_partial { ees := [], classes := ["DOG"] }
    (.cons (.createNV "DOG") (.cons (.ret (some (.int "1"))) (.cons .brk .nil))) (by decide) (by decide) 5 _ (by decide)).2.2

/-- every ACT_SMT of the population of a whole `coreB` body has an R603 subtype row, and `subtype(act_smt, 603)` finds
    it (existence; that there is exactly ONE — as a count — is not proved: the model's `smtSub` takes the first) -/
theorem statement_subtype_exists_partial (fc : FCtx) (a : Block) (hc : coreB a = true) (hok : flatOk fc a = true)
    (i b' : Nat) (p : Option Nat) (hi : (prebuildFlat fc a)[i]? = some (.smt b' p)) :
    ∃ row, smtSub (prebuildFlat fc a) i = some row ∧ row.smtOf = some i :=
  prebuildFlat_subtypes fc a hc (okAll_of_flatOk fc a hc hok) i b' p hi

example : ∃ row, smtSub (prebuildFlat { ees := [], classes := ["DOG"] }
      (.cons (.create "d" "DOG") (.cons (.assign (.var "n") (.int "1")) (.cons (.delete "d") .nil)))) 1 = some row ∧
      row.smtOf = some 1 :=
  statement_subtype_exists_partial { ees := [], classes := ["DOG"] }
    (.cons (.create "d" "DOG") (.cons (.assign (.var "n") (.int "1")) (.cons (.delete "d") .nil)))
    (by decide) (by decide) 1 0 none (by decide)

/-- the R661 chain of the body's outer block AS A LIST (`chainOf`: the first statement by the R602 first_filter, then
    `one(act_smt).ACT_SMT[661, 'precedes']()` until there is none; fuel = number of rows), for every `coreB` body:
    it is exactly the list of ACT_SMT rows the builder created for the statements of the body, in source order
    (`stmtIds`), one per statement; every listed row is an ACT_SMT of the outer block whose Previous_Statement_ID
    names the row listed before it — none for the first (`linked`: one first, source order, and the chain ends
    after the last: one last); and the list is strictly increasing (no statement twice: no cycle).
    `_partial`: statement kinds outside `coreB` (nested blocks) are not covered. -/
theorem block_chain_is_statement_list_partial (fc : FCtx) (a : Block) (hc : coreB a = true) (hok : flatOk fc a = true) :
    chainOf (prebuildFlat fc a) 0 = stmtIds fc none a bodySt ∧
    (chainOf (prebuildFlat fc a) 0).length = lenB a ∧
    linked (prebuildFlat fc a) 0 none (chainOf (prebuildFlat fc a) 0) ∧
    (chainOf (prebuildFlat fc a) 0).Pairwise (· < ·) := by
  obtain ⟨h1, h2, h3⟩ := chainOf_prebuildFlat fc a hc (okAll_of_flatOk fc a hc hok)
  refine ⟨h1, ?_, ?_, ?_⟩
  · rw [h1]; exact stmtIds_length fc a none bodySt
  · rw [h1]; exact h2
  · rw [h1]; exact h3

/-- `create object instance d of DOG; n = 1; delete object instance d;` — statements at rows 1, 5, 13 -/
example : chainOf (prebuildFlat { ees := [], classes := ["DOG"] }
      (.cons (.create "d" "DOG") (.cons (.assign (.var "n") (.int "1")) (.cons (.delete "d") .nil)))) 0 = [1, 5, 13] := by
  decide

example : (chainOf (prebuildFlat { ees := [], classes := ["DOG"] }
      (.cons (.create "d" "DOG") (.cons (.assign (.var "n") (.int "1")) (.cons (.delete "d") .nil)))) 0).length = 3 :=
  (block_chain_is_statement_list_partial { ees := [], classes := ["DOG"] }
    (.cons (.create "d" "DOG") (.cons (.assign (.var "n") (.int "1")) (.cons (.delete "d") .nil)))
    (by decide) (by decide)).2.1

/-- EVERY statement of the population — of the outer block and of every nested block (while / for each / if bodies) — has
    EXACTLY ONE R603 subtype row, as a count over the whole population: `(rows.filter (·.smtOf == some i)).length = 1`
    (first conjunct; the second restates it for the members of the outer block's R661 chain).
    `_partial`: `coreB` bodies (elif / else clauses — each with its own ACT_SMT and exactly one ACT_EL / ACT_E row — are
    covered; so is `self` as the instance name of delete / relate / unrelate (+ using), as a returned value and as the
    root of an attribute in an attribute assignment — the V_VAR / V_INT rows its look-up creates are no subtype rows of
    a statement). -/
theorem statement_subtype_unique_partial (fc : FCtx) (a : Block) (hc : coreB a = true) (hok : flatOk fc a = true) :
    (∀ (i b' : Nat) (p : Option Nat), (prebuildFlat fc a)[i]? = some (.smt b' p) → subCount (prebuildFlat fc a) i = 1) ∧
    (∀ i ∈ chainOf (prebuildFlat fc a) 0, subCount (prebuildFlat fc a) i = 1) := by
  refine ⟨fun i b' p hi => prebuildFlat_subCount_all fc a hc (okAll_of_flatOk fc a hc hok) i b' p hi, ?_⟩
  rw [(chainOf_prebuildFlat fc a hc (okAll_of_flatOk fc a hc hok)).1]
  exact prebuildFlat_subCount fc a hc (okAll_of_flatOk fc a hc hok)

example : subCount (prebuildFlat { ees := [], classes := ["DOG"] }
      (.cons (.create "d" "DOG") (.cons (.assign (.var "n") (.int "1")) (.cons (.delete "d") .nil)))) 5 = 1 :=
  (statement_subtype_unique_partial { ees := [], classes := ["DOG"] }
    (.cons (.create "d" "DOG") (.cons (.assign (.var "n") (.int "1")) (.cons (.delete "d") .nil)))
    (by decide) (by decide)).2 5 (by decide)

/-- a statement of a NESTED block: `while (true) break; end while;` — the `break` is row 5, in the block at row 4 -/
example : subCount (prebuildFlat { ees := [], classes := [] }
      (.cons (.while_ (.bool "true") (.cons .brk .nil)) .nil)) 5 = 1 :=
  (statement_subtype_unique_partial { ees := [], classes := [] }
    (.cons (.while_ (.bool "true") (.cons .brk .nil)) .nil) (by decide) (by decide)).1 5 4 none (by decide)

end Flat

/-! ### PBSHAPE — the builder of Flat.lean tied to the TEXT of bridgepoint/prebuild.py

  translator/gen_pbshape.py re-reads, on every run, the statement structure of the helpers and `accept_*` handlers of
  ActionPrebuilder (Gen/PbShape.lean); Proofs/PbShape.lean interprets that IR generically over the builder state `St`
  (a new row = `self.new`, a link = rewriting the referential attribute of the row that holds it: the tables `setRef` /
  `partnerOk` / `setElem` there are the hand-modelled atom).  Proved equal to Flat.lean so far: the helper `act_smt`
  (R602) and one round of the loop of accept_StatementListNode (R661: who is related to whom, in which direction, with
  which phrase).  Flat.lean's deviation in form — Previous_Statement_ID written when the row is created — is NOT hidden:
  the interpretation yields `linkPrev prev …` applied to `buildStmt fc none child`, and
  `previous_statement_written_late_partial` shows that this is `buildStmt fc prev child` for break / continue / control /
  a bare return (the general statement needs a simulation over all of buildStmt and is not proved). -/
section PbShape
open Pyx.Prebuild.Flat Pyx.PbShape Pyx.Gen.PbShape

theorem act_smt_as_in_source (fc : FCtx) (nd : Node) (g : G) (hb : BlkOK g.st) :
    callFn (mkEnv fc nd) 12 act_smt [.node] [] g = some (.inst (newSmt none g.st).1, { g with st := (newSmt none g.st).2 }) :=
  act_smt_eq fc nd g hb

theorem statement_list_as_in_source (fc : FCtx) (nd : Node) (g : G) (fr : Fr) (i b : Nat) (stmt : Stmt) (prev : Option Nat)
    (hp : fr.get "prev" = prevV prev) (hk : nd.children[i]? = some (stmtAcc fc stmt))
    (hs : (buildStmt fc none stmt g.st).2.pop[(buildStmt fc none stmt g.st).1]? = some (.smt b none))
    (he : ∀ e, prev = some e → ∃ b' p', (buildStmt fc none stmt g.st).2.pop[e]? = some (.smt b' p')) :
    exec (mkEnv fc nd) 20 g (fr.set "child" (.child i)) stmtListBody
      = some (.next (((fr.set "child" (.child i)).set "act_smt" (.inst (buildStmt fc none stmt g.st).1)).set "prev"
                (.inst (buildStmt fc none stmt g.st).1)),
              { g with st := linkPrev prev (buildStmt fc none stmt g.st).1 (buildStmt fc none stmt g.st).2 }) :=
  stmt_list_step fc nd g _ fr i _ b (stmtAcc fc stmt) prev hp hk rfl hs he

theorem previous_statement_written_late_partial (fc : FCtx) (prev : Option Nat) (st : St) (s : Stmt)
    (hs : s = .brk ∨ s = .cont ∨ s = .ctl ∨ s = .ret none) :
    linkPrev prev (buildStmt fc none s st).1 (buildStmt fc none s st).2 = (buildStmt fc prev s st).2 := by
  obtain ⟨pop, scopes, ok⟩ := st
  rcases hs with rfl | rfl | rfl | rfl <;> cases prev <;>
    simp [buildStmt, newSmt, St.new, St.guard, St.fail, linkPrev] <;> split <;> simp

example : (exec (mkEnv { ees := [], classes := [] } demoNd) 20 demoG demoFr stmtListBody).map (·.2.st.pop)
    = some [.blk true, .smt 0 none, .brk 1, .smt 0 (some 1), .con 3] := by decide
example : (exec (mkEnv { ees := [], classes := [] } demoNd) 20 demoG demoFr stmtListBodySwapped).map (·.2.st.pop)
    = some [.blk true, .smt 0 (some 3), .brk 1, .smt 0 none, .con 3] := by decide
example : (exec (mkEnv { ees := [], classes := [] } demoNd) 20 demoG demoFr stmtListBodySucceeds).map (·.2.st.pop)
    = some [.blk true, .smt 0 (some 3), .brk 1, .smt 0 none, .con 3] := by decide
example : stmtListBody ≠ [] := by decide

/-! round 2: statement handlers that need no index renaming, for EVERY fuel ≥ 20 (`n + 20`).  The handler's own
    ACT_SMT has no predecessor (`buildStmt fc none …`): R661 is written by the statement-list loop above. -/

/-- `accept_BreakNode`: act_smt (R602), ACT_BRK, R603 -/
theorem break_as_in_source (fc : FCtx) (nd : Node) (g : G) (n : Nat) (hb : BlkOK g.st) :
    callFn (mkEnv fc nd) (n + 20) accept_BreakNode [.node] [] g
      = some (.inst (buildStmt fc none .brk g.st).1, { g with st := (buildStmt fc none .brk g.st).2 }) :=
  break_eq fc nd g n hb

/-- `accept_ContinueNode` -/
theorem continue_as_in_source (fc : FCtx) (nd : Node) (g : G) (n : Nat) (hb : BlkOK g.st) :
    callFn (mkEnv fc nd) (n + 20) accept_ContinueNode [.node] [] g
      = some (.inst (buildStmt fc none .cont g.st).1, { g with st := (buildStmt fc none .cont g.st).2 }) :=
  continue_eq fc nd g n hb

/-- `accept_ControlNode` -/
theorem control_stop_as_in_source (fc : FCtx) (nd : Node) (g : G) (n : Nat) (hb : BlkOK g.st) :
    callFn (mkEnv fc nd) (n + 20) accept_ControlNode [.node] [] g
      = some (.inst (buildStmt fc none .ctl g.st).1, { g with st := (buildStmt fc none .ctl g.st).2 }) :=
  control_eq fc nd g n hb

/-- `accept_ReturnNode` without a value (node.expression is None: nothing accepted, `xtuml.relate(act_ret, None, 668)`
    does nothing).  With a value Flat.lean appends ACT_RET after the value's rows: needs an index renaming, not proved. -/
theorem return_bare_as_in_source (fc : FCtx) (nd : Node) (g : G) (n : Nat) (hb : BlkOK g.st)
    (hk : nd.kids.lookup "expression" = none) :
    callFn (mkEnv fc nd) (n + 20) accept_ReturnNode [.node] [] g
      = some (.inst (buildStmt fc none (.ret none) g.st).1, { g with st := (buildStmt fc none (.ret none) g.st).2 }) :=
  return_bare_eq fc nd g n hb hk

/-- `accept_CreateObjectNoVariableNode` for a class in scope (R603, R672 names the class).  For a class that is NOT in scope
    both sides fail (`ok = false`) but differ in the row: the source never writes R672, Flat.lean stores the key letters. -/
theorem create_no_variable_as_in_source (fc : FCtx) (nd : Node) (g : G) (n : Nat) (kl : String) (hb : BlkOK g.st)
    (hk : nd.strs.lookup "key_letter" = some kl) (hc : kl ∈ fc.classes) :
    callFn (mkEnv fc nd) (n + 20) accept_CreateObjectNoVariableNode [.node] [] g
      = some (.inst (buildStmt fc none (.createNV kl) g.st).1, { g with st := (buildStmt fc none (.createNV kl) g.st).2 }) :=
  create_nv_eq fc nd g n kl hb hk hc

/-- applied: a `break` in the outer block of a one-row population -/
example : (callFn (mkEnv { ees := [], classes := [] } {}) 20 accept_BreakNode [.node] []
      { st := { pop := [.blk true], scopes := [⟨.blk 0, []⟩] } }).map (·.2.st.pop)
    = some [.blk true, .smt 0 none, .brk 1] :=
  (congrArg (Option.map (·.2.st.pop)) (break_as_in_source { ees := [], classes := [] } {} _ 0
    (by intro b hb; exact ⟨true, by simp [curBlk] at hb; subst hb; rfl⟩))).trans (by decide)

example : (callFn (mkEnv { ees := [], classes := ["DOG"] } { strs := [("key_letter", "DOG")] }) 20
      accept_CreateObjectNoVariableNode [.node] [] { st := { pop := [.blk true], scopes := [⟨.blk 0, []⟩] } }).map (·.2.st.pop)
    = some [.blk true, .smt 0 none, .cnv 1 "DOG"] := by decide

/-! round 3: values.  The R820 type of a V_VAL is kept in the interpreter's side table `tys` (FlatPop does not store it);
    the type the source selects is stated as `unTy` / `binTy` (Proofs/PbShape.lean), written like the clauses of `typeOf`. -/

/-- `v_val(node)`: a V_VAL related over R826 to the current block = `newVal` -/
theorem v_val_as_in_source (fc : FCtx) (nd : Node) (g : G) (n : Nat) (hb : BlkOK g.st) :
    callFn (mkEnv fc nd) (n + 12) v_val [.node] [] g = some (.inst (newVal g.st).1, { g with st := (newVal g.st).2 }) :=
  v_val_fuel fc nd g n hb

/-- `accept_IntegerNode` / `accept_RealNode` / `accept_StringNode`: s_dt by name (R820), v_val, the R801 subtype row with
    Value (for a string: `node.value[1:-1]`) = the literal clauses of `buildExpr` -/
theorem literals_as_in_source (fc : FCtx) (nd : Node) (g : G) (n : Nat) (v : String) (hb : BlkOK g.st)
    (hv : nd.strs.lookup "value" = some v) :
    callFn (mkEnv fc nd) (n + 20) accept_IntegerNode [.node] [] g
      = some (.inst (buildExpr fc (.int v) g.st).1,
              { g with st := (buildExpr fc (.int v) g.st).2, tys := ((buildExpr fc (.int v) g.st).1, "integer") :: g.tys }) ∧
    callFn (mkEnv fc nd) (n + 20) accept_RealNode [.node] [] g
      = some (.inst (buildExpr fc (.real v) g.st).1,
              { g with st := (buildExpr fc (.real v) g.st).2, tys := ((buildExpr fc (.real v) g.st).1, "real") :: g.tys }) ∧
    callFn (mkEnv fc nd) (n + 20) accept_StringNode [.node] [] g
      = some (.inst (buildExpr fc (.str v) g.st).1,
              { g with st := (buildExpr fc (.str v) g.st).2, tys := ((buildExpr fc (.str v) g.st).1, "string") :: g.tys }) :=
  ⟨integer_eq fc nd g n v hb hv, real_eq fc nd g n v hb hv, string_eq fc nd g n v hb hv⟩

/-- `accept_UnaryOperationNode`, for ANY oracle of the operand that answers a V_VAL `o` with recorded type `t`: a V_VAL
    (`newVal`), a V_UNY row with the lower-cased operator, R804 to the operand — the `.un` clause of `buildExpr` with
    `o` for the operand — and R820 := `unTy` (boolean for not / empty / not_empty, integer for cardinality, else `t`) -/
theorem unary_as_in_source (fc : FCtx) (nd : Node) (g g1 : G) (n o b : Nat) (op t : String) (acc : Acc)
    (hop : nd.strs.lookup "operator" = some op) (hk : nd.kids.lookup "operand" = some acc)
    (ha : acc [] g = (.inst o, g1)) (hb : BlkOK g1.st) (ho : g1.st.pop[o]? = some (.val b))
    (ht : g1.tys.lookup o = some t) :
    callFn (mkEnv fc nd) (n + 30) accept_UnaryOperationNode [.node] [] g
      = some (.inst (newVal g1.st).1,
              { g1 with st := ((newVal g1.st).2.new (.uny (newVal g1.st).1 (lowerStr op) o)).2,
                        tys := ((newVal g1.st).1, unTy (lowerStr op) t) :: g1.tys }) :=
  unary_eq fc nd g g1 n o b op t acc hop hk ha hb ho ht

/-- `accept_BinaryOperationNode` for the comparison / logical operators and the operators that are no set operator
    (`*`, `/`, `%`): left then right accepted, V_VAL, V_BIN with the lower-cased operator, R802 := left, R803 := right,
    R820 := `binTy` (boolean for a comparison, else the LEFT operand's type).  `_partial`: the branch of `| + & ^ -`
    (test of the left type against the generic reference types) is interpreted but not proved. -/
theorem binary_as_in_source_partial (fc : FCtx) (nd : Node) (g g1 g2 : G) (n l r bl br : Nat) (op t : String) (accL accR : Acc)
    (hop : nd.strs.lookup "operator" = some op)
    (hkl : nd.kids.lookup "left" = some accL) (hkr : nd.kids.lookup "right" = some accR)
    (hal : accL [] g = (.inst l, g1)) (har : accR [] g1 = (.inst r, g2)) (hb : BlkOK g2.st)
    (hl : g2.st.pop[l]? = some (.val bl)) (hr : g2.st.pop[r]? = some (.val br))
    (ht : g2.tys.lookup l = some t)
    (h2 : ¬ (lowerStr op = "|" ∨ lowerStr op = "+" ∨ lowerStr op = "&" ∨ lowerStr op = "^" ∨ lowerStr op = "-")) :
    callFn (mkEnv fc nd) (n + 40) accept_BinaryOperationNode [.node] [] g = binRes g2 op t l r :=
  binary_eq fc nd g g1 g2 n l r bl br op t accL accR hop hkl hkr hal har hb hl hr ht h2

/-- `unTy` IS the `.un` clause of the specification `typeOf` (Typing.lean) -/
theorem unary_type_is_model_type (c : Pyx.Prebuild.TCtx) (env : Pyx.Prebuild.Env) (sel : Option String) (e : Pyx.Prebuild.Expr) (op t : String)
    (h : Pyx.Prebuild.typeOf c env sel e = some t) :
    Pyx.Prebuild.typeOf c env sel (.un op e) = some (Pyx.PbShape.unTy op t) := by
  have hb : Pyx.Prebuild.boolUnOps = Pyx.Prebuild.Flat.boolUnOps := rfl
  simp only [Pyx.Prebuild.typeOf, h, hb, Pyx.PbShape.unTy]
  by_cases h1 : Pyx.Prebuild.Flat.boolUnOps.contains op = true
  · rw [if_pos h1, if_pos h1]
  · by_cases h2 : (op == "cardinality") = true
    · rw [if_neg h1, if_pos h2, if_neg h1, if_pos h2]
    · rw [if_neg h1, if_neg h2, if_neg h1, if_neg h2]

/-- `binTy` IS the `.bin` clause of the specification `typeOf` (Typing.lean) -/
theorem binary_type_is_model_type (c : Pyx.Prebuild.TCtx) (env : Pyx.Prebuild.Env) (sel : Option String) (e e' : Pyx.Prebuild.Expr) (op t : String)
    (h : Pyx.Prebuild.typeOf c env sel e = some t) :
    Pyx.Prebuild.typeOf c env sel (.bin e op e') = some (Pyx.PbShape.binTy op t) := by
  have hc : Pyx.Prebuild.compareOps = Pyx.Prebuild.Flat.compareOps := rfl
  have hs : Pyx.Prebuild.setOps = ["|", "+", "&", "^", "-"] := rfl
  have hg : (Pyx.Prebuild.genericRefs.contains (some t)) = (["inst_ref<Object>", "inst_ref_set<Object>"].contains t) := by
    simp [Pyx.Prebuild.genericRefs]
  simp only [Pyx.Prebuild.typeOf, h, hc, hs, hg, Pyx.PbShape.binTy]
  by_cases h1 : Pyx.Prebuild.Flat.compareOps.contains op = true
  · rw [if_pos h1, if_pos h1]
  · by_cases h2 : (["|", "+", "&", "^", "-"].contains op && ["inst_ref<Object>", "inst_ref_set<Object>"].contains t) = true
    · rw [if_neg h1, if_pos h2, if_neg h1, if_pos h2]
    · rw [if_neg h1, if_neg h2, if_neg h1, if_neg h2]

/-- the R820 type the SOURCE selects for a unary operation (interpreted IR) is the type the SPECIFICATION `typeOf` gives the
    expression, whenever the operand's recorded type is the specification's type of the operand -/
theorem unary_type_as_in_source (fc : FCtx) (nd : Node) (g g1 : G) (n o b : Nat) (op t : String) (acc : Acc)
    (hop : nd.strs.lookup "operator" = some op) (hk : nd.kids.lookup "operand" = some acc)
    (ha : acc [] g = (.inst o, g1)) (hb : BlkOK g1.st) (ho : g1.st.pop[o]? = some (.val b))
    (ht : g1.tys.lookup o = some t)
    (c : Pyx.Prebuild.TCtx) (env : _root_.Pyx.Prebuild.Env) (sel : Option String) (e : Pyx.Prebuild.Expr)
    (hty : Pyx.Prebuild.typeOf c env sel e = some t) :
    ∃ t', Pyx.Prebuild.typeOf c env sel (.un (lowerStr op) e) = some t' ∧
      callFn (mkEnv fc nd) (n + 30) accept_UnaryOperationNode [.node] [] g
        = some (.inst (newVal g1.st).1,
                { g1 with st := ((newVal g1.st).2.new (.uny (newVal g1.st).1 (lowerStr op) o)).2,
                          tys := ((newVal g1.st).1, t') :: g1.tys }) :=
  ⟨unTy (lowerStr op) t, unary_type_is_model_type c env sel e (lowerStr op) t hty,
    unary_as_in_source fc nd g g1 n o b op t acc hop hk ha hb ho ht⟩

/-- the same for a binary operation (the proved operators: comparison / logical, `*`, `/`, `%`): the recorded R820 type is
    `typeOf` of the expression when the LEFT operand's recorded type is `typeOf` of the left operand.  An integer / real
    promotion in prebuild.py (seed C06-c) changes the interpreted type and breaks this theorem. -/
theorem binary_type_as_in_source_partial (fc : FCtx) (nd : Node) (g g1 g2 : G) (n l r bl br : Nat) (op t : String)
    (accL accR : Acc) (hop : nd.strs.lookup "operator" = some op)
    (hkl : nd.kids.lookup "left" = some accL) (hkr : nd.kids.lookup "right" = some accR)
    (hal : accL [] g = (.inst l, g1)) (har : accR [] g1 = (.inst r, g2)) (hb : BlkOK g2.st)
    (hl : g2.st.pop[l]? = some (.val bl)) (hr : g2.st.pop[r]? = some (.val br))
    (ht : g2.tys.lookup l = some t)
    (h2 : ¬ (lowerStr op = "|" ∨ lowerStr op = "+" ∨ lowerStr op = "&" ∨ lowerStr op = "^" ∨ lowerStr op = "-"))
    (c : Pyx.Prebuild.TCtx) (env : _root_.Pyx.Prebuild.Env) (sel : Option String) (e e' : Pyx.Prebuild.Expr)
    (hty : Pyx.Prebuild.typeOf c env sel e = some t) :
    ∃ t', Pyx.Prebuild.typeOf c env sel (.bin e (lowerStr op) e') = some t' ∧
      callFn (mkEnv fc nd) (n + 40) accept_BinaryOperationNode [.node] [] g
        = some (.inst (newVal g2.st).1,
                { g2 with st := ((newVal g2.st).2.new (.bin (newVal g2.st).1 (lowerStr op) l r)).2,
                          tys := ((newVal g2.st).1, t') :: g2.tys }) :=
  ⟨binTy (lowerStr op) t, binary_type_is_model_type c env sel e e' (lowerStr op) t hty,
    binary_as_in_source_partial fc nd g g1 g2 n l r bl br op t accL accR hop hkl hkr hal har hb hl hr ht h2⟩

/-- `accept_BinaryOperationNode`, EVERY operator (the `| + & ^ -` branch included: left type tested against the generic
    reference types, `.S_IRDT[17].O_OBJ[123].S_IRDT[123]` reaching nothing for them, `or self.s_dt('inst_ref_set<Object>')`) -/
theorem binary_as_in_source (fc : FCtx) (nd : Node) (g g1 g2 : G) (n l r bl br : Nat) (op t : String) (accL accR : Acc)
    (hop : nd.strs.lookup "operator" = some op)
    (hkl : nd.kids.lookup "left" = some accL) (hkr : nd.kids.lookup "right" = some accR)
    (hal : accL [] g = (.inst l, g1)) (har : accR [] g1 = (.inst r, g2)) (hb : BlkOK g2.st)
    (hl : g2.st.pop[l]? = some (.val bl)) (hr : g2.st.pop[r]? = some (.val br))
    (ht : g2.tys.lookup l = some t) :
    callFn (mkEnv fc nd) (n + 40) accept_BinaryOperationNode [.node] [] g = binRes g2 op t l r :=
  binary_all fc nd g g1 g2 n l r bl br op t accL accR hop hkl hkr hal har hb hl hr ht

/-- … and its R820 type is the specification's `typeOf` of the expression, for every operator -/
theorem binary_type_as_in_source (fc : FCtx) (nd : Node) (g g1 g2 : G) (n l r bl br : Nat) (op t : String)
    (accL accR : Acc) (hop : nd.strs.lookup "operator" = some op)
    (hkl : nd.kids.lookup "left" = some accL) (hkr : nd.kids.lookup "right" = some accR)
    (hal : accL [] g = (.inst l, g1)) (har : accR [] g1 = (.inst r, g2)) (hb : BlkOK g2.st)
    (hl : g2.st.pop[l]? = some (.val bl)) (hr : g2.st.pop[r]? = some (.val br))
    (ht : g2.tys.lookup l = some t)
    (c : Pyx.Prebuild.TCtx) (env : _root_.Pyx.Prebuild.Env) (sel : Option String) (e e' : Pyx.Prebuild.Expr)
    (hty : Pyx.Prebuild.typeOf c env sel e = some t) :
    ∃ t', Pyx.Prebuild.typeOf c env sel (.bin e (lowerStr op) e') = some t' ∧
      callFn (mkEnv fc nd) (n + 40) accept_BinaryOperationNode [.node] [] g
        = some (.inst (newVal g2.st).1,
                { g2 with st := ((newVal g2.st).2.new (.bin (newVal g2.st).1 (lowerStr op) l r)).2,
                          tys := ((newVal g2.st).1, t') :: g2.tys }) :=
  ⟨binTy (lowerStr op) t, binary_type_is_model_type c env sel e e' (lowerStr op) t hty,
    binary_as_in_source fc nd g g1 g2 n l r bl br op t accL accR hop hkl hkr hal har hb hl hr ht⟩

/-- applied: `binTy` on `2 * 0.5` is the LEFT type (integer) — with the promotion of seed C06-c it would be real -/
example : Pyx.Prebuild.typeOf demoT [] none (.bin (.int "2") "*" (.real "0.5")) = some (binTy "*" "integer") :=
  binary_type_is_model_type _ _ _ _ _ _ _ rfl

/-- applied: `7` in the outer block -/
example : (callFn (mkEnv { ees := [], classes := [] } { strs := [("value", "7")] }) 20 accept_IntegerNode [.node] []
      { st := { pop := [.blk true], scopes := [⟨.blk 0, []⟩] } }).map (fun r => (r.2.st.pop, r.2.tys))
    = some ([.blk true, .val 0, .lin 1 "7"], [(1, "integer")]) := by decide

/-! final round: the boolean literal, the two block handlers, delete -/

/-- `accept_BooleanNode` for the spellings Flat.lean models (`true` / `false`): `Value = str(node.value).upper()` -/
theorem boolean_as_in_source (fc : FCtx) (nd : Node) (g : G) (n : Nat) (v : String) (hb : BlkOK g.st)
    (hv : nd.strs.lookup "value" = some v) (hlit : v = "true" ∨ v = "false") :
    callFn (mkEnv fc nd) (n + 20) accept_BooleanNode [.node] [] g
      = some (.inst (buildExpr fc (.bool v) g.st).1,
              { g with st := (buildExpr fc (.bool v) g.st).2, tys := ((buildExpr fc (.bool v) g.st).1, "boolean") :: g.tys }) :=
  boolean_eq fc nd g n v hb hv hlit

/-- `accept_BlockNode`, for ANY oracle of the statement list: a new ACT_BLK (R601 is not stored), its scope entered, the
    statements accepted, the scope left, the block answered.  With the oracle `fun _ g => (.none, { g with st := body g.st })`
    this is `withBlock g.st body` of Flat.lean. -/
theorem block_as_in_source (fc : FCtx) (nd : Node) (g : G) (n : Nat) (acc : Acc)
    (hk : nd.kids.lookup "statement_list" = some acc) :
    callFn (mkEnv fc nd) (n + 20) accept_BlockNode [.node] [] g
      = some (.inst (g.st.new (.blk false)).1,
              { (acc [] { g with st := pushScope (.blk (g.st.new (.blk false)).1) (g.st.new (.blk false)).2 }).2 with
                st := popScope (acc [] { g with st := pushScope (.blk (g.st.new (.blk false)).1) (g.st.new (.blk false)).2 }).2.st }) :=
  block_eq fc nd g n acc hk

/-- `accept_BodyNode`: the outer ACT_BLK (R666 → `.blk true`), its scope, `node.block.statement_list` accepted, the scope left;
    on the empty state with the oracle of `buildStmts fc none a` this is `prebuildSt fc a` -/
theorem body_as_in_source (fc : FCtx) (nd : Node) (g : G) (n : Nat) (acc : Acc)
    (hk : nd.kids.lookup "block.statement_list" = some acc) :
    callFn (mkEnv fc nd) (n + 20) accept_BodyNode [.node] [] g
      = some (.actAct,
              { (acc [] { g with st := pushScope (.blk (g.st.new (.blk true)).1) (g.st.new (.blk true)).2 }).2 with
                st := popScope (acc [] { g with st := pushScope (.blk (g.st.new (.blk true)).1) (g.st.new (.blk true)).2 }).2.st }) :=
  body_eq fc nd g n acc hk

/-- applied: an empty body gives the outer block alone, scope stack balanced -/
example : (callFn (mkEnv { ees := [], classes := [] } { kids := [("block.statement_list", fun _ g => (.none, g))] })
      20 accept_BodyNode [.node] [] { st := {} }).map (fun r => (r.2.st.pop, r.2.st.scopes.length)) = some ([.blk true], 0) := by
  decide

/-- `accept_DeleteNode`: act_smt, find_symbol (`lookupVar`), ACT_DEL, R603, R634 := the variable — the `.delete` clause of
    `buildStmt`; a name that is not found fails on both sides (`relate` with None).  Hypothesis: what find_symbol answers is
    a V_VAR row. -/
theorem delete_as_in_source (fc : FCtx) (nd : Node) (g : G) (n : Nat) (name : String) (hb : BlkOK g.st)
    (hn : nd.strs.lookup "variable_name" = some name)
    (hvar : ∀ v, (lookupVar fc name (newSmt none g.st).2).1 = some v →
      ∃ nm b, (lookupVar fc name (newSmt none g.st).2).2.pop[v]? = some (.var nm b)) :
    callFn (mkEnv fc nd) (n + 20) accept_DeleteNode [.node] [] g
      = some (.inst (buildStmt fc none (.delete name) g.st).1,
              { g with st := (buildStmt fc none (.delete name) g.st).2 }) :=
  delete_eq fc nd g n name hb hn hvar

/-! round 5 (Proofs/PbShapeMore.lean): relate / unrelate (with and without `using`).  `VarAns r` = what a look-up answers is
    a V_VAR row of the population it leaves (`∀ v, r.1 = some v → ∃ nm b, r.2.pop[v]? = some (.var nm b)`); the look-ups are
    chained in source order (from, to, using), each on the state the previous one left. -/

/-- `accept_RelateNode`: act_smt, find_symbol of `node.from_variable_name` then of `node.to_variable_name` (`lookupVar`, twice),
    r_rel(node.rel_id), ACT_REL with relationship_phrase = node.phrase, R603, R615 := from, R616 := to, R653 := the association
    — the `.relate a b r ph` clause of `buildStmt`.  A name that is not found fails on both sides (the model at `needVar`, the
    source at the asserting `relate(act_rel, None, …)`) and leaves 0 in the row on both sides.  Hypotheses: the four node
    fields are strings; the current block handle is an ACT_BLK row (`BlkOK`); what each find_symbol answers is a V_VAR row. -/
theorem relate_as_in_source (fc : FCtx) (nd : Node) (g : G) (n : Nat) (a b r ph : String) (hb : BlkOK g.st)
    (ha : nd.strs.lookup "from_variable_name" = some a) (hbn : nd.strs.lookup "to_variable_name" = some b)
    (hr : nd.strs.lookup "rel_id" = some r) (hph : nd.strs.lookup "phrase" = some ph)
    (hva : VarAns (lookupVar fc a (newSmt none g.st).2))
    (hvb : VarAns (lookupVar fc b (lookupVar fc a (newSmt none g.st).2).2)) :
    callFn (mkEnv fc nd) (n + 20) accept_RelateNode [.node] [] g
      = some (.inst (buildStmt fc none (.relate a b r ph) g.st).1,
              { g with st := (buildStmt fc none (.relate a b r ph) g.st).2 }) :=
  relate_eq fc nd g n a b r ph hb ha hbn hr hph hva hvb

/-- `accept_UnrelateNode`: as above with ACT_UNR, R620 := from, R621 := to, R655 — the `.unrelate a b r ph` clause -/
theorem unrelate_as_in_source (fc : FCtx) (nd : Node) (g : G) (n : Nat) (a b r ph : String) (hb : BlkOK g.st)
    (ha : nd.strs.lookup "from_variable_name" = some a) (hbn : nd.strs.lookup "to_variable_name" = some b)
    (hr : nd.strs.lookup "rel_id" = some r) (hph : nd.strs.lookup "phrase" = some ph)
    (hva : VarAns (lookupVar fc a (newSmt none g.st).2))
    (hvb : VarAns (lookupVar fc b (lookupVar fc a (newSmt none g.st).2).2)) :
    callFn (mkEnv fc nd) (n + 20) accept_UnrelateNode [.node] [] g
      = some (.inst (buildStmt fc none (.unrelate a b r ph) g.st).1,
              { g with st := (buildStmt fc none (.unrelate a b r ph) g.st).2 }) :=
  unrelate_eq fc nd g n a b r ph hb ha hbn hr hph hva hvb

/-- `accept_RelateUsingNode`: three look-ups (from, to, using — in this order), ACT_RU, R603, R617 := from, R618 := to,
    R619 := using, R654 — the `.relateU a b r ph u` clause of `buildStmt` -/
theorem relate_using_as_in_source (fc : FCtx) (nd : Node) (g : G) (n : Nat) (a b r ph u : String) (hb : BlkOK g.st)
    (ha : nd.strs.lookup "from_variable_name" = some a) (hbn : nd.strs.lookup "to_variable_name" = some b)
    (hun : nd.strs.lookup "using_variable_name" = some u)
    (hr : nd.strs.lookup "rel_id" = some r) (hph : nd.strs.lookup "phrase" = some ph)
    (hva : VarAns (lookupVar fc a (newSmt none g.st).2))
    (hvb : VarAns (lookupVar fc b (lookupVar fc a (newSmt none g.st).2).2))
    (hvc : VarAns (lookupVar fc u (lookupVar fc b (lookupVar fc a (newSmt none g.st).2).2).2)) :
    callFn (mkEnv fc nd) (n + 20) accept_RelateUsingNode [.node] [] g
      = some (.inst (buildStmt fc none (.relateU a b r ph u) g.st).1,
              { g with st := (buildStmt fc none (.relateU a b r ph u) g.st).2 }) :=
  relate_using_eq fc nd g n a b r ph u hb ha hbn hun hr hph hva hvb hvc

/-- `accept_UnrelateUsingNode`: ACT_URU, R622 := from, R623 := to, R624 := using, R656 — the `.unrelateU a b r ph u` clause -/
theorem unrelate_using_as_in_source (fc : FCtx) (nd : Node) (g : G) (n : Nat) (a b r ph u : String) (hb : BlkOK g.st)
    (ha : nd.strs.lookup "from_variable_name" = some a) (hbn : nd.strs.lookup "to_variable_name" = some b)
    (hun : nd.strs.lookup "using_variable_name" = some u)
    (hr : nd.strs.lookup "rel_id" = some r) (hph : nd.strs.lookup "phrase" = some ph)
    (hva : VarAns (lookupVar fc a (newSmt none g.st).2))
    (hvb : VarAns (lookupVar fc b (lookupVar fc a (newSmt none g.st).2).2))
    (hvc : VarAns (lookupVar fc u (lookupVar fc b (lookupVar fc a (newSmt none g.st).2).2).2)) :
    callFn (mkEnv fc nd) (n + 20) accept_UnrelateUsingNode [.node] [] g
      = some (.inst (buildStmt fc none (.unrelateU a b r ph u) g.st).1,
              { g with st := (buildStmt fc none (.unrelateU a b r ph u) g.st).2 }) :=
  unrelate_using_eq fc nd g n a b r ph u hb ha hbn hun hr hph hva hvb hvc

/-- a block with two instance handles `a` (row 1) and `b` (row 3) -/
def relDemoG : G :=
  { st := { pop := [.blk true, .var "a" 0, .vint 1 "DOG", .var "b" 0, .vint 3 "CAT"], scopes := [⟨.blk 0, [("b", 3), ("a", 1)]⟩] } }
def relDemoNd : Node :=
  { strs := [("from_variable_name", "a"), ("to_variable_name", "b"), ("using_variable_name", "a"), ("rel_id", "R7"), ("phrase", "'owns'")] }

/-- applied: the hypotheses are satisfiable (both names found, both V_VAR rows) and the population is the expected one:
    the from / to variables in the source's order, the association, the phrase -/
example : (callFn (mkEnv { ees := [], classes := [] } relDemoNd) 20 accept_RelateNode [.node] [] relDemoG).map (·.2.st.pop)
    = some [.blk true, .var "a" 0, .vint 1 "DOG", .var "b" 0, .vint 3 "CAT", .smt 0 none, .rel 5 1 3 "R7" "'owns'"] :=
  (congrArg (Option.map (·.2.st.pop)) (relate_as_in_source { ees := [], classes := [] } relDemoNd relDemoG 0 "a" "b" "R7" "'owns'"
    (by intro b hb; exact ⟨true, by simp [relDemoG, curBlk] at hb; subst hb; rfl⟩) rfl rfl rfl rfl
    (VarAns.of_eq (v := 1) (nm := "a") (b := 0) (by decide) (by decide))
    (VarAns.of_eq (v := 3) (nm := "b") (b := 0) (by decide) (by decide)))).trans (by decide)

/-- … and directly, by evaluation of the generated IR: `unrelate b from a … using a` -/
example : (callFn (mkEnv { ees := [], classes := [] } relDemoNd) 20 accept_UnrelateUsingNode [.node] [] relDemoG).map (·.2.st.pop)
    = some [.blk true, .var "a" 0, .vint 1 "DOG", .var "b" 0, .vint 3 "CAT", .smt 0 none, .uru 5 1 3 1 "R7" "'owns'"] := by
  decide

/-- a name that is not found: both sides fail and leave 0 in the row -/
example : (callFn (mkEnv { ees := [], classes := [] }
      { strs := [("from_variable_name", "zz"), ("to_variable_name", "b"), ("rel_id", "R7"), ("phrase", "")] }) 20
      accept_RelateNode [.node] [] relDemoG).map (fun r => (r.2.st.pop.drop 5, r.2.st.ok))
    = some ([.smt 0 none, .rel 5 0 3 "R7" ""], false) := by decide

/-! round 6: return with a value, `selected`, while / if / elif / else (for any oracles of the children, and with the
    model's oracles `exprAcc` = `buildExpr`, `blockAcc` = `withBlock … (buildStmts fc none b)`). -/

/-- `accept_ReturnNode` WITH a value, for ANY oracle of `node.expression` that only appends rows (`hext`) and answers a V_VAL
    row (`hv`): act_smt, then ACT_RET is instantiated BEFORE the value is accepted (the source's order: the ACT_RET row lies at
    position act_smt + 1, in front of the oracle's rows `d`), R603, R668 := the value.  The row is the row of the
    `.ret (some e)` clause of `buildStmt` (`.ret s (some v)`); Flat.lean's documented deviation of FORM — the model appends
    that row AFTER the value's rows — is visible here as the POSITION of the row (`set (s + 1)` instead of an append): the two
    populations differ by that move and the renaming of the later rows it causes, which is not proved (see the example). -/
theorem return_value_as_in_source (fc : FCtx) (nd : Node) (g g1 : G) (n v b : Nat) (acc : Acc) (d : List Flat.Row) (hb : BlkOK g.st)
    (hk : nd.kids.lookup "expression" = some acc)
    (ha : acc [] { g with st := ((newSmt none g.st).2.new (.ret 0 none)).2 } = (.inst v, g1))
    (hext : g1.st.pop = ((newSmt none g.st).2.new (.ret 0 none)).2.pop ++ d)
    (hv : g1.st.pop[v]? = some (.val b)) :
    callFn (mkEnv fc nd) (n + 20) accept_ReturnNode [.node] [] g
      = some (.inst (newSmt none g.st).1,
              { g1 with st := { g1.st with pop := g1.st.pop.set ((newSmt none g.st).1 + 1)
                                                  (.ret (newSmt none g.st).1 (some v)) } }) :=
  return_value_eq fc nd g g1 n v b acc d hb hk ha hext hv

/-- applied, `return 7;` with the oracle `exprAcc` (= `buildExpr`): the source's population, and the model's — the same rows,
    ACT_RET moved behind the value's rows and the value's indices one less -/
example : (callFn (mkEnv { ees := [], classes := [] } { kids := [("expression", exprAcc { ees := [], classes := [] } (.int "7"))] })
      20 accept_ReturnNode [.node] [] { st := { pop := [.blk true], scopes := [⟨.blk 0, []⟩] } }).map (·.2.st.pop)
    = some [.blk true, .smt 0 none, .ret 1 (some 3), .val 0, .lin 3 "7"] := by decide
example : (buildStmt { ees := [], classes := [] } none (.ret (some (.int "7"))) { pop := [.blk true], scopes := [⟨.blk 0, []⟩] }).2.pop
    = [.blk true, .smt 0 none, .val 0, .lin 2 "7", .ret 1 (some 2)] := by decide

/-- `accept_SelectedAccessNode`: s_dt('inst_ref<Object>') (R820), v_val, V_SLR, R801 — the `.selected` clause of `buildExpr` -/
theorem selected_as_in_source (fc : FCtx) (nd : Node) (g : G) (n : Nat) (hb : BlkOK g.st) :
    callFn (mkEnv fc nd) (n + 20) accept_SelectedAccessNode [.node] [] g
      = some (.inst (buildExpr fc .selected g.st).1,
              { g with st := (buildExpr fc .selected g.st).2,
                       tys := ((buildExpr fc .selected g.st).1, "inst_ref<Object>") :: g.tys }) :=
  selected_eq fc nd g n hb

/-- `accept_WhileNode`, for ANY oracles of the condition (answers `v`, leaves `g1`) and of the block (answers `k`, leaves `g2`):
    act_smt, the condition accepted, then the block, ACT_WHL appended, R603, R608 := the block, R626 := the condition — the row
    `.whl s blk v` of the `.while_` clause of `buildStmt`.  Hypotheses: in the state the block's oracle leaves, the handler's
    ACT_SMT is still an ACT_SMT row, `v` is a V_VAL row, `k` an ACT_BLK row. -/
theorem while_as_in_source (fc : FCtx) (nd : Node) (g g1 g2 : G) (n v k b bb : Nat) (pp : Option Nat) (o : Bool) (accE accB : Acc)
    (hb : BlkOK g.st)
    (hkE : nd.kids.lookup "expression" = some accE) (hkB : nd.kids.lookup "block" = some accB)
    (haE : accE [] { g with st := (newSmt none g.st).2 } = (.inst v, g1)) (haB : accB [] g1 = (.inst k, g2))
    (hs : g2.st.pop[(newSmt none g.st).1]? = some (.smt bb pp))
    (hv : g2.st.pop[v]? = some (.val b)) (hk : g2.st.pop[k]? = some (.blk o)) :
    callFn (mkEnv fc nd) (n + 20) accept_WhileNode [.node] [] g
      = some (.inst (newSmt none g.st).1, { g2 with st := (g2.st.new (.whl (newSmt none g.st).1 k v)).2 }) :=
  while_eq fc nd g g1 g2 n v k b bb pp o accE accB hb hkE hkB haE haB hs hv hk

/-- … and with the MODEL's oracles (`exprAcc fc e` = `buildExpr fc e`, `blockAcc fc b` = `withBlock … (buildStmts fc none b)`,
    which is accept_BlockNode by `block_as_in_source`) the handler IS the `.while_ e b` clause of `buildStmt`.
    `condOf` / `blockOf` name the model's states after the condition / after the block. -/
theorem while_model_as_in_source (fc : FCtx) (nd : Node) (g : G) (n : Nat) (e : Pyx.Prebuild.Expr) (b : Block) (bb bv : Nat)
    (pp : Option Nat) (o : Bool) (hb : BlkOK g.st)
    (hkE : nd.kids.lookup "expression" = some (exprAcc fc e)) (hkB : nd.kids.lookup "block" = some (blockAcc fc b))
    (hs : (blockOf fc e b g.st).2.pop[(newSmt none g.st).1]? = some (.smt bb pp))
    (hv : (blockOf fc e b g.st).2.pop[(condOf fc e g.st).1]? = some (.val bv))
    (hk : (blockOf fc e b g.st).2.pop[(blockOf fc e b g.st).1]? = some (.blk o)) :
    callFn (mkEnv fc nd) (n + 20) accept_WhileNode [.node] [] g
      = some (.inst (buildStmt fc none (.while_ e b) g.st).1, { g with st := (buildStmt fc none (.while_ e b) g.st).2 }) :=
  while_model_eq fc nd g n e b bb bv pp o hb hkE hkB hs hv hk

/-- `accept_IfNode`, for ANY oracles: act_smt, condition, block, ACT_IF appended (R603, R607 := the block, R625 := the
    condition), then `node.elif_list` and `node.else_clause` accepted IN THIS ORDER with the keyword `act_if` = the new ACT_IF
    instance (`kid`: an absent child — `accept(None)` — does nothing) -/
theorem if_as_in_source (fc : FCtx) (nd : Node) (g g1 g2 : G) (n v k b : Nat) (bb : Nat) (pp : Option Nat) (o : Bool)
    (accE accB : Acc) (hb : BlkOK g.st)
    (hkE : nd.kids.lookup "expression" = some accE) (hkB : nd.kids.lookup "block" = some accB)
    (haE : accE [] { g with st := (newSmt none g.st).2 } = (.inst v, g1)) (haB : accB [] g1 = (.inst k, g2))
    (hs : g2.st.pop[(newSmt none g.st).1]? = some (.smt bb pp))
    (hv : g2.st.pop[v]? = some (.val b)) (hk : g2.st.pop[k]? = some (.blk o)) :
    callFn (mkEnv fc nd) (n + 20) accept_IfNode [.node] [] g
      = some (.inst (newSmt none g.st).1,
              (kid nd "else_clause" [("act_if", .inst g2.st.pop.length)]
                (kid nd "elif_list" [("act_if", .inst g2.st.pop.length)]
                  { g2 with st := (g2.st.new (.if_ (newSmt none g.st).1 k v)).2 }).2).2) :=
  if_eq fc nd g g1 g2 n v k b bb pp o accE accB hb hkE hkB haE haB hs hv hk

/-- … with the model's oracles for condition and block, and oracles of the elif list / else clause that do what `buildElifs` /
    `buildElse` do with the if's Statement_ID (`hEl`, `hE`), the handler IS the `.if_ e b elifs els` clause of `buildStmt` -/
theorem if_model_as_in_source (fc : FCtx) (nd : Node) (g : G) (n : Nat) (e : Pyx.Prebuild.Expr) (b : Block) (elifs : Elifs) (els : Else)
    (bb bv : Nat) (pp : Option Nat) (o : Bool) (hb : BlkOK g.st)
    (hkE : nd.kids.lookup "expression" = some (exprAcc fc e)) (hkB : nd.kids.lookup "block" = some (blockAcc fc b))
    (hs : (blockOf fc e b g.st).2.pop[(newSmt none g.st).1]? = some (.smt bb pp))
    (hv : (blockOf fc e b g.st).2.pop[(condOf fc e g.st).1]? = some (.val bv))
    (hk : (blockOf fc e b g.st).2.pop[(blockOf fc e b g.st).1]? = some (.blk o))
    (hEl : ∀ st, (kid nd "elif_list" [("act_if", .inst (blockOf fc e b g.st).2.pop.length)] { g with st := st }).2
        = { g with st := buildElifs fc (newSmt none g.st).1 elifs st })
    (hE : ∀ st, (kid nd "else_clause" [("act_if", .inst (blockOf fc e b g.st).2.pop.length)] { g with st := st }).2
        = { g with st := buildElse fc (newSmt none g.st).1 els st }) :
    callFn (mkEnv fc nd) (n + 20) accept_IfNode [.node] [] g
      = some (.inst (buildStmt fc none (.if_ e b elifs els) g.st).1,
              { g with st := (buildStmt fc none (.if_ e b elifs els) g.st).2 }) :=
  if_model_eq fc nd g n e b elifs els bb bv pp o hb hkE hkB hs hv hk hEl hE

/-- `accept_ElIfListNode(node, act_if)`: every child accepted in order with the same `act_if` (fuel: one unit per child) -/
theorem elif_list_as_in_source (fc : FCtx) (nd : Node) (g : G) (n : Nat) (a : V) :
    callFn (mkEnv fc nd) (nd.children.length + n + 5) accept_ElIfListNode [.node] [("act_if", a)] g
      = some (.none, foldAcc [("act_if", a)] nd.children g) :=
  elif_list_eq fc nd g n a

/-- `accept_ElIfNode(node, act_if)` with the model's oracles: act_smt (in the block HOLDING the if, chained nowhere), condition,
    block, ACT_EL, R603, R658, R659, R682 := the Statement_ID `si` of the ACT_IF row `i` — one round of `buildElifs` -/
theorem elif_as_in_source (fc : FCtx) (nd : Node) (g : G) (n i si bi vi : Nat) (e : Pyx.Prebuild.Expr) (b : Block) (bb bv : Nat)
    (pp : Option Nat) (o : Bool) (hb : BlkOK g.st)
    (hkE : nd.kids.lookup "expression" = some (exprAcc fc e)) (hkB : nd.kids.lookup "block" = some (blockAcc fc b))
    (hs : (blockOf fc e b g.st).2.pop[(newSmt none g.st).1]? = some (.smt bb pp))
    (hv : (blockOf fc e b g.st).2.pop[(condOf fc e g.st).1]? = some (.val bv))
    (hk : (blockOf fc e b g.st).2.pop[(blockOf fc e b g.st).1]? = some (.blk o))
    (hi : (blockOf fc e b g.st).2.pop[i]? = some (.if_ si bi vi)) :
    callFn (mkEnv fc nd) (n + 20) accept_ElIfNode [.node] [("act_if", .inst i)] g
      = some (.inst (newSmt none g.st).1, { g with st := buildElifs fc si (.cons e b .nil) g.st }) :=
  elif_model_eq fc nd g n i si bi vi e b bb bv pp o hb hkE hkB hs hv hk hi

/-- `accept_ElseNode(node, act_if)` with the model's block oracle: act_smt, block, ACT_E, R603, R606, R683 := the Statement_ID of
    the ACT_IF row — the `.some b` clause of `buildElse` -/
theorem else_as_in_source (fc : FCtx) (nd : Node) (g : G) (n i si bi vi : Nat) (b : Block) (bb : Nat) (pp : Option Nat)
    (o : Bool) (hb : BlkOK g.st) (hkB : nd.kids.lookup "block" = some (blockAcc fc b))
    (hs : (withBlock (newSmt none g.st).2 (buildStmts fc none b)).2.pop[(newSmt none g.st).1]? = some (.smt bb pp))
    (hk : (withBlock (newSmt none g.st).2 (buildStmts fc none b)).2.pop[(withBlock (newSmt none g.st).2 (buildStmts fc none b)).1]?
      = some (.blk o))
    (hi : (withBlock (newSmt none g.st).2 (buildStmts fc none b)).2.pop[i]? = some (.if_ si bi vi)) :
    callFn (mkEnv fc nd) (n + 20) accept_ElseNode [.node] [("act_if", .inst i)] g
      = some (.inst (newSmt none g.st).1, { g with st := buildElse fc si (.some b) g.st }) :=
  else_model_eq fc nd g n i si bi vi b bb pp o hb hkB hs hk hi

def cmpDemoFc : FCtx := { ees := [], classes := [] }
def cmpDemoNd : Node :=
  { kids := [("expression", exprAcc cmpDemoFc (.bool "true")), ("block", blockAcc cmpDemoFc (.cons .brk .nil))] }
def cmpDemoG : G := { st := { pop := [.blk true], scopes := [⟨.blk 0, []⟩] } }

/-- applied, `while (true) break; end while;`: the hypotheses of `while_model_as_in_source` hold, the population is the model's -/
example : (callFn (mkEnv cmpDemoFc cmpDemoNd) 20 accept_WhileNode [.node] [] cmpDemoG).map (·.2.st.pop)
    = some [.blk true, .smt 0 none, .val 0, .lbo 2 "TRUE", .blk false, .smt 4 none, .brk 5, .whl 1 4 2] :=
  (congrArg (Option.map (·.2.st.pop)) (while_model_as_in_source cmpDemoFc cmpDemoNd cmpDemoG 0 (.bool "true") (.cons .brk .nil)
    0 0 none false (by intro b hb; exact ⟨true, by simp [cmpDemoG, curBlk] at hb; subst hb; rfl⟩) rfl rfl
    (by decide) (by decide) (by decide))).trans (by decide)

/-- applied, an `else` clause of the if whose ACT_IF is row 3 with Statement_ID 1: R683 stores the Statement_ID -/
example : (callFn (mkEnv cmpDemoFc cmpDemoNd) 20 accept_ElseNode [.node] [("act_if", .inst 3)]
      { st := { pop := [.blk true, .smt 0 none, .val 0, .if_ 1 0 2], scopes := [⟨.blk 0, []⟩] } }).map (·.2.st.pop)
    = some [.blk true, .smt 0 none, .val 0, .if_ 1 0 2, .smt 0 none, .blk false, .smt 5 none, .brk 6, .e 4 5 1] := by decide

/-- applied, an if without elif / else: only the ACT_IF row -/
example : (callFn (mkEnv cmpDemoFc cmpDemoNd) 20 accept_IfNode [.node] [] cmpDemoG).map (·.2.st.pop)
    = some [.blk true, .smt 0 none, .val 0, .lbo 2 "TRUE", .blk false, .smt 4 none, .brk 5, .if_ 1 4 2] := by decide

/-- applied, `selected` inside a where clause of the outer block -/
example : (callFn (mkEnv cmpDemoFc {}) 20 accept_SelectedAccessNode [.node] [] cmpDemoG).map (fun r => (r.2.st.pop, r.2.tys))
    = some ([.blk true, .val 0, .slr 1], [(1, "inst_ref<Object>")]) := by decide

/-! round 11: the if chain COMPOSED — the oracles of the elif list, of every elif and of the else clause are the HANDLERS
    themselves (`handlerAcc`: `self.accept(child, act_if=…)` runs accept_ElIfListNode / accept_ElIfNode / accept_ElseNode on the
    child's node); nothing is assumed about them any more.  What makes the composition go through: every builder function of
    Flat.lean only APPENDS rows and keeps the handles of the scope stack (`Ext`, proved for `buildExpr`, `buildStmt`, `buildStmts`,
    `buildElifs`, `buildElse` without any side condition), so the handler's ACT_SMT / ACT_BLK / ACT_IF rows are still there in the
    state the children leave, and `BlkOK` is kept. -/

/-- append-only, for every statement (no side condition): the rows that were there stay where they are, the scope stack keeps
    its handles -/
theorem builder_only_appends (fc : FCtx) (s : Stmt) (prev : Option Nat) (st : St) :
    (∃ d, (buildStmt fc prev s st).2.pop = st.pop ++ d) ∧ hsOf (buildStmt fc prev s st).2.scopes = hsOf st.scopes :=
  buildStmt_ext fc s prev st

/-- `accept_ElIfListNode(node, act_if)` whose children are accepted by `accept_ElIfNode` (conditions / blocks by the model's
    oracles) IS `buildElifs fc si elifs` for the WHOLE list.  Hypotheses: `BlkOK`, `act_if` is an ACT_IF row with Statement_ID
    `si`, every condition is an expression node `buildExpr` has a clause for (`elifsHead`: no index access / invocation —
    otherwise the model answers row 0, no V_VAL) -/
theorem elif_chain_as_in_source (fc : FCtx) (g : G) (i si bi vi : Nat) (elifs : Elifs) (hh : elifsHead elifs = true)
    (hb : BlkOK g.st) (hi : g.st.pop[i]? = some (.if_ si bi vi)) :
    callFn (mkEnv fc (elifListNode fc elifs)) ((elifListNode fc elifs).children.length + 0 + 5) accept_ElIfListNode [.node]
        [("act_if", .inst i)] g
      = some (.none, { g with st := buildElifs fc si elifs g.st }) :=
  elif_list_full_eq fc g i si bi vi elifs hh hb hi

/-- `accept_ElseNode(node, act_if)` with the model's block oracle IS the `.some eb` clause of `buildElse`; the row hypotheses of
    `else_as_in_source` are derived (append-only) -/
theorem else_clause_as_in_source (fc : FCtx) (g : G) (i si bi vi : Nat) (eb : Block) (hb : BlkOK g.st)
    (hi : g.st.pop[i]? = some (.if_ si bi vi)) :
    callFn (mkEnv fc (elseNode fc eb)) 20 accept_ElseNode [.node] [("act_if", .inst i)] g
      = some (.inst (newSmt none g.st).1, { g with st := buildElse fc si (.some eb) g.st }) :=
  else_full_eq fc g i si bi vi eb hb hi

/-- `accept_IfNode` on `ifNode fc e b elifs els` (condition / block: `exprAcc`, `blockAcc`; elif list: accept_ElIfListNode over
    accept_ElIfNode; else clause: accept_ElseNode, absent for `Else.none`) IS the `.if_ e b elifs els` clause of `buildStmt` —
    `if_model_as_in_source` WITHOUT `hEl` / `hE` and without the row hypotheses `hs` / `hv` / `hk`.  Left: `BlkOK`, and the
    conditions are expression nodes `buildExpr` has a clause for. -/
theorem if_full_as_in_source (fc : FCtx) (g : G) (n : Nat) (e : Pyx.Prebuild.Expr) (b : Block) (elifs : Elifs) (els : Else)
    (hb : BlkOK g.st) (he : exprHead e = true) (hh : elifsHead elifs = true) :
    callFn (mkEnv fc (ifNode fc e b elifs els)) (n + 20) accept_IfNode [.node] [] g
      = some (.inst (buildStmt fc none (.if_ e b elifs els) g.st).1,
              { g with st := (buildStmt fc none (.if_ e b elifs els) g.st).2 }) :=
  if_full_eq fc g n e b elifs els hb he hh

theorem cmpDemoG_blkOK : BlkOK cmpDemoG.st := by
  intro b hb; exact ⟨true, by simp [cmpDemoG, curBlk] at hb; subst hb; rfl⟩

/-- applied, `if (true) break; elif (false) continue; else control stop; end if;`: the hypotheses are discharged, R682 / R683
    name the Statement_ID 1 of the if -/
example : (callFn (mkEnv cmpDemoFc (ifNode cmpDemoFc (.bool "true") (.cons .brk .nil)
      (.cons (.bool "false") (.cons .cont .nil) .nil) (.some (.cons .ctl .nil)))) (0 + 20) accept_IfNode [.node] [] cmpDemoG).map (·.2.st.pop)
    = some [.blk true, .smt 0 none, .val 0, .lbo 2 "TRUE", .blk false, .smt 4 none, .brk 5, .if_ 1 4 2,
            .smt 0 none, .val 0, .lbo 9 "FALSE", .blk false, .smt 11 none, .con 12, .el 8 11 9 1,
            .smt 0 none, .blk false, .smt 16 none, .ctl 17, .e 15 16 1] := by
  rw [if_full_as_in_source cmpDemoFc cmpDemoG 0 (.bool "true") (.cons .brk .nil)
    (.cons (.bool "false") (.cons .cont .nil) .nil) (.some (.cons .ctl .nil)) cmpDemoG_blkOK rfl rfl]
  decide

/-! `self` as a value, after a CONSERVATIVE extension of the interpreter's tables (Proofs/PbShape.lean: `blankRow2`, `setRef2`,
    `partnerOk2`, `setElem2`, `relate820g` — reached only where the old tables answered "stuck" / "no such partner"). -/

/-- `accept_SelfAccessNode`: find_symbol(node, 'self'), v_val, V_IRF, R820 to the variable's type (R848 is not in the model:
    not stored), R801, R808 := the variable — the `.self` clause of `buildExpr`.  Hypothesis: what find_symbol answers is a
    V_VAR row. -/
theorem self_access_as_in_source (fc : FCtx) (nd : Node) (g : G) (n : Nat) (hb : BlkOK g.st)
    (hva : VarAns (lookupVar fc "self" g.st)) :
    callFn (mkEnv fc nd) (n + 20) accept_SelfAccessNode [.node] [] g
      = some (.inst (buildExpr fc .self g.st).1, { g with st := (buildExpr fc .self g.st).2 }) :=
  self_eq fc nd g n hb hva

def selfDemoFc : FCtx := { ees := [], classes := ["DOG"], selfKl := some "DOG" }

/-- applied, in an operation of DOG: `self` is declared on first use (V_VAR 1, V_INT 2), the value is V_VAL 3 / V_IRF 4 → 1 -/
example : (callFn (mkEnv selfDemoFc {}) (0 + 20) accept_SelfAccessNode [.node] [] cmpDemoG).map (·.2.st.pop)
    = some [.blk true, .var "self" 0, .vint 1 "DOG", .val 0, .irf 3 1] := by
  rw [self_access_as_in_source selfDemoFc {} cmpDemoG 0 cmpDemoG_blkOK
    (VarAns.of_eq (v := 1) (nm := "self") (b := 0) (by decide) (by decide))]
  decide

/-- … and in a function (no `self`): the look-up answers None, both sides fail and leave 0 in the V_IRF row -/
example : (callFn (mkEnv cmpDemoFc {}) 20 accept_SelfAccessNode [.node] [] cmpDemoG).map (fun r => (r.2.st.pop, r.2.st.ok))
    = some ([.blk true, .val 0, .irf 1 0], false) := by decide

/-- accept_CreateObjectNode / accept_SelectFromNode are no longer stuck (ACT_CR: R603, R633, R671; ACT_FIO: R603, R639, R677;
    the implicit declaration runs the generated helpers v_int / v_ins / v_var).  Proved for every state further down
    (`create_object_as_in_source`, `select_from_as_in_source`); first, kernel-evaluated: on this state
    the generated handlers produce exactly the rows of the `.create` / `.selFrom` clauses of `buildStmt` -/
example : (callFn (mkEnv selfDemoFc { strs := [("variable_name", "d"), ("key_letter", "DOG")] }) 20 accept_CreateObjectNode
      [.node] [] cmpDemoG).map (fun r => (r.1, r.2.st.pop, r.2.st.ok))
    = some (.inst 1, [.blk true, .smt 0 none, .var "d" 0, .vint 2 "DOG", .cr 1 2 "DOG"], true) := by decide
example : (buildStmt selfDemoFc none (.create "d" "DOG") cmpDemoG.st).2.pop
    = [.blk true, .smt 0 none, .var "d" 0, .vint 2 "DOG", .cr 1 2 "DOG"] := by decide
example : (callFn (mkEnv selfDemoFc { strs := [("variable_name", "ds"), ("key_letter", "DOG"), ("cardinality", "many"), ("many", "x")] })
      20 accept_SelectFromNode [.node] [] cmpDemoG).map (fun r => (r.1, r.2.st.pop, r.2.st.ok))
    = some (.inst 1, [.blk true, .smt 0 none, .var "ds" 0, .vins 2 "DOG", .fio 1 2 "DOG" "many"], true) := by decide
example : (buildStmt selfDemoFc none (.selFrom "many" "ds" "DOG") cmpDemoG.st).2.pop
    = [.blk true, .smt 0 none, .var "ds" 0, .vins 2 "DOG", .fio 1 2 "DOG" "many"] := by decide

/-! round 12: the declaring statements for ALL states.  The helpers `v_var` / `v_int` / `v_ins` of the generated IR are `newVar` of
    Flat.lean (V_VAR with R823, V_LOC / R835 / R848 not stored, the R814 subtype with R818 / R819, install_symbol), and with them
    accept_CreateObjectNode / accept_SelectFromNode are the `.create` / `.selFrom` clauses of `buildStmt`. -/

/-- `v_int(node, name, o_obj)` / `v_ins(node, name, o_obj)` with the class `kl` in scope ARE `newVar name (V_INT / V_INS of kl)`
    for every state whose current block handle is an ACT_BLK row; they answer the subtype row (the row after the V_VAR) -/
theorem declare_variable_as_in_source (fc : FCtx) (nd : Node) (g : G) (n : Nat) (name kl : String) (hb : BlkOK g.st) :
    callFn (mkEnv fc nd) (n + 11) v_int [.node, .str name, .obj kl] [] g
        = some (.inst (g.st.pop.length + 1), { g with st := (newVar name (fun i => .vint i kl) g.st).2 })
    ∧ callFn (mkEnv fc nd) (n + 11) v_ins [.node, .str name, .obj kl] [] g
        = some (.inst (g.st.pop.length + 1), { g with st := (newVar name (fun i => .vins i kl) g.st).2 }) :=
  ⟨v_int_fuel fc nd g n name kl hb, v_ins_fuel fc nd g n name kl hb⟩

/-- `accept_CreateObjectNode` IS the `.create v kl` clause of `buildStmt`, for every state: act_smt, o_obj(key_letter),
    find_symbol(variable_name), v_int + `one(v_int).V_VAR[814]` when nothing was found (= `declVar`), ACT_CR with R603, R633 := the
    variable, R671 := the class.  Hypotheses: `BlkOK`; what find_symbol answers is a V_VAR row (`VarAns`); the class is in scope
    (`kl ∈ fc.classes`: otherwise the source raises at `relate(o_obj, v_int, 818)` with an EMPTY referential where the model — which
    goes on with `ok = false` — writes `kl`); the variable is not `self` (the model refuses it, the source re-declares it). -/
theorem create_object_as_in_source (fc : FCtx) (nd : Node) (g : G) (n : Nat) (v kl : String) (hb : BlkOK g.st)
    (hn : nd.strs.lookup "variable_name" = some v) (hk : nd.strs.lookup "key_letter" = some kl)
    (hv : v ≠ "self") (hc : kl ∈ fc.classes)
    (hva : VarAns (lookupVar fc v (newSmt none g.st).2)) :
    callFn (mkEnv fc nd) (n + 20) accept_CreateObjectNode [.node] [] g
      = some (.inst (buildStmt fc none (.create v kl) g.st).1,
              { g with st := (buildStmt fc none (.create v kl) g.st).2 }) :=
  create_object_eq fc nd g n v kl hb hn hk hv hc hva

/-- `accept_SelectFromNode` IS the `.selFrom card v kl` clause of `buildStmt`, for every state: act_smt, find_symbol, o_obj,
    v_ins (node.many) or v_int when nothing was found, ACT_FIO (cardinality in lower case) with R603, R639 := the variable,
    R677 := the class.  `node.many` is a property of the syntax node (bridgepoint/oal.py: `cardinality.lower() == 'many'`), here the
    string field "many" (empty = False) which must agree with the model's `isMany card`. -/
theorem select_from_as_in_source (fc : FCtx) (nd : Node) (g : G) (n : Nat) (card v kl m : String) (hb : BlkOK g.st)
    (hn : nd.strs.lookup "variable_name" = some v) (hk : nd.strs.lookup "key_letter" = some kl)
    (hcd : nd.strs.lookup "cardinality" = some card) (hm : nd.strs.lookup "many" = some m)
    (hmc : (m != "") = Flat.isMany card)
    (hv : v ≠ "self") (hc : kl ∈ fc.classes)
    (hva : VarAns (lookupVar fc v (newSmt none g.st).2)) :
    callFn (mkEnv fc nd) (n + 20) accept_SelectFromNode [.node] [] g
      = some (.inst (buildStmt fc none (.selFrom card v kl) g.st).1,
              { g with st := (buildStmt fc none (.selFrom card v kl) g.st).2 }) :=
  select_from_eq fc nd g n card v kl m hb hn hk hcd hm hmc hv hc hva

/-- a state in which `d` is already declared (V_VAR 1, V_INT 2 of DOG) -/
def declDemoG : G := { st := { pop := [.blk true, .var "d" 0, .vint 1 "DOG"], scopes := [⟨.blk 0, [("d", 1)]⟩] } }
theorem declDemoG_blkOK : BlkOK declDemoG.st := by
  intro b hb; exact ⟨true, by simp [declDemoG, curBlk] at hb; subst hb; rfl⟩

/-- applied, `create object instance d of DOG;` with `d` unknown: the hypotheses are discharged, `d` is declared (V_VAR 2, V_INT 3) -/
example : (callFn (mkEnv selfDemoFc { strs := [("variable_name", "d"), ("key_letter", "DOG")] }) (0 + 20) accept_CreateObjectNode
      [.node] [] cmpDemoG).map (fun r => (r.1, r.2.st.pop, r.2.st.ok))
    = some (.inst 1, [.blk true, .smt 0 none, .var "d" 0, .vint 2 "DOG", .cr 1 2 "DOG"], true) := by
  rw [create_object_as_in_source selfDemoFc _ cmpDemoG 0 "d" "DOG" cmpDemoG_blkOK rfl rfl (by decide) (by decide)
    (VarAns.of_none (by decide))]
  decide

/-- … and with `d` visible: no declaration, R633 names the V_VAR that is there -/
example : (callFn (mkEnv selfDemoFc { strs := [("variable_name", "d"), ("key_letter", "DOG")] }) (0 + 20) accept_CreateObjectNode
      [.node] [] declDemoG).map (fun r => (r.1, r.2.st.pop, r.2.st.ok))
    = some (.inst 3, [.blk true, .var "d" 0, .vint 1 "DOG", .smt 0 none, .cr 3 1 "DOG"], true) := by
  rw [create_object_as_in_source selfDemoFc _ declDemoG 0 "d" "DOG" declDemoG_blkOK rfl rfl (by decide) (by decide)
    (VarAns.of_eq (v := 1) (nm := "d") (b := 0) (by decide) (by decide))]
  decide

/-- applied, `select many ds from instances of DOG;` (a V_INS) and `select any d from instances of DOG;` (a V_INT) -/
example : (callFn (mkEnv selfDemoFc { strs := [("variable_name", "ds"), ("key_letter", "DOG"), ("cardinality", "many"), ("many", "x")] })
      (0 + 20) accept_SelectFromNode [.node] [] cmpDemoG).map (fun r => (r.1, r.2.st.pop, r.2.st.ok))
    = some (.inst 1, [.blk true, .smt 0 none, .var "ds" 0, .vins 2 "DOG", .fio 1 2 "DOG" "many"], true) := by
  rw [select_from_as_in_source selfDemoFc _ cmpDemoG 0 "many" "ds" "DOG" "x" cmpDemoG_blkOK rfl rfl rfl rfl (by decide) (by decide)
    (by decide) (VarAns.of_none (by decide))]
  decide
example : (callFn (mkEnv selfDemoFc { strs := [("variable_name", "d"), ("key_letter", "DOG"), ("cardinality", "any"), ("many", "")] })
      (0 + 20) accept_SelectFromNode [.node] [] cmpDemoG).map (fun r => (r.1, r.2.st.pop, r.2.st.ok))
    = some (.inst 1, [.blk true, .smt 0 none, .var "d" 0, .vint 2 "DOG", .fio 1 2 "DOG" "any"], true) := by
  rw [select_from_as_in_source selfDemoFc _ cmpDemoG 0 "any" "d" "DOG" "" cmpDemoG_blkOK rfl rfl rfl rfl (by decide) (by decide)
    (by decide) (VarAns.of_none (by decide))]
  decide

/-- outside the hypothesis `kl ∈ fc.classes` model and source text part ways on the FAILED run (both `ok = false`): the source
    leaves the referentials of R818 / R671 empty, the model writes the key letters -/
example : (callFn (mkEnv cmpDemoFc { strs := [("variable_name", "d"), ("key_letter", "DOG")] }) 20 accept_CreateObjectNode
      [.node] [] cmpDemoG).map (fun r => (r.2.st.pop, r.2.st.ok))
    = some ([.blk true, .smt 0 none, .var "d" 0, .vint 2 "", .cr 1 2 ""], false)
  ∧ ((buildStmt cmpDemoFc none (.create "d" "DOG") cmpDemoG.st).2.pop, (buildStmt cmpDemoFc none (.create "d" "DOG") cmpDemoG.st).2.ok)
    = ([.blk true, .smt 0 none, .var "d" 0, .vint 2 "DOG", .cr 1 2 "DOG"], false) := by decide

end PbShape

end PyxProps.C06
