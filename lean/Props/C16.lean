import Proofs.Reflexive

/-!
  C16 — Reflexive sorting yields the succession order and terminates.
  Property theorems only.  Model: PyxModel/Reflexive.lean (`sort_reflexive` over two partner functions:
  `across` = partner across the given phrase, `back` = partner across the opposite phrase).
-/
namespace PyxProps.C16
open Pyx.Meta Pyx.Query Pyx.Reflexive

/-- a set made up of whole chains (any number of chains of any length; `chains` lists them in the
    set-order of their starting members): the result is every member exactly once, each chain contiguous,
    beginning with the member without partner across the phrase and continuing along the opposite phrase —
    for EVERY amount of fuel not smaller than the longest chain, i.e. the loop always terminates there -/
theorem sort_chains (across back : Inst → Option Inst) (set : List Inst) (chains : List (List Inst)) (fuel : Nat)
    (hch : ∀ c ∈ chains, IsChain across back c) (hnd : chains.flatten.Nodup)
    (hlen : ∀ c ∈ chains, c.length ≤ fuel)
    (hmem : ∀ x, x ∈ set ↔ x ∈ chains.flatten)
    (hheads : set.filter (fun x => (across x).isNone) = chains.filterMap List.head?) :
    sortReflexive across back set fuel = chains.flatten := by
  unfold sortReflexive firsts
  by_cases hcs : chains = []
  · subst hcs
    have hset : set = [] := by
      cases set with
      | nil => rfl
      | cons a l => exact absurd ((hmem a).1 (by simp)) (by simp)
    subst hset; rfl
  · have hne : chains.filterMap List.head? ≠ [] := filterMap_head_ne_nil hcs (fun c hc => (hch c hc).ne)
    have hemp : (chains.filterMap List.head?).isEmpty = false := by
      cases h : chains.filterMap List.head? with
      | nil => exact absurd h hne
      | cons _ _ => rfl
    rw [hheads]
    simp only [hemp, Bool.false_eq_true, ↓reduceIte]
    rw [flatMap_walk_chains across back set fuel chains hch
      (fun c hc => (List.sublist_flatten_of_mem hc).nodup hnd) hlen
      (fun c hc x hx => (hmem x).2 (List.mem_flatten.mpr ⟨c, hc, hx⟩))]
    exact dedupFirst_of_nodup hnd

/-- sorting across the OTHER phrase (the roles of the two partner functions swap) returns each chain in
    the reverse order: the reversed chains are chains of the swapped functions -/
theorem chain_reversed (across back : Inst → Option Inst) (c : List Inst) (h : IsChain across back c) :
    IsChain back across c.reverse := h.reverse

theorem sort_other_phrase_reverses (across back : Inst → Option Inst) (set : List Inst) (chains : List (List Inst))
    (fuel : Nat) (hch : ∀ c ∈ chains, IsChain across back c) (hnd : (chains.map List.reverse).flatten.Nodup)
    (hlen : ∀ c ∈ chains, c.length ≤ fuel)
    (hmem : ∀ x, x ∈ set ↔ x ∈ (chains.map List.reverse).flatten)
    (hheads : set.filter (fun x => (back x).isNone) = (chains.map List.reverse).filterMap List.head?) :
    sortReflexive back across set fuel = (chains.map List.reverse).flatten := by
  apply sort_chains back across set (chains.map List.reverse) fuel _ hnd _ hmem hheads
  · intro c hc
    obtain ⟨c', hc', rfl⟩ := List.mem_map.mp hc
    exact (hch c' hc').reverse
  · intro c hc
    obtain ⟨c', hc', rfl⟩ := List.mem_map.mp hc
    simpa using hlen c' hc'

/-- a single closed ring `f :: rest` (every member has a partner across the phrase, `back` leads once
    around and from the last member back to `f`), given as a set whose first member is `f`:
    returned once around starting at the set's first member -/
theorem sort_ring (across back : Inst → Option Inst) (set : List Inst) (f : Inst) (rest : List Inst) (fuel : Nat)
    (hfirst : set.head? = some f)
    (hadj : Adj (Succ across back) (f :: rest))
    (hclose : ∀ z, (f :: rest).getLast? = some z → back z = some f)
    (hnd : (f :: rest).Nodup) (hlen : rest.length < fuel)
    (hmem : ∀ x ∈ f :: rest, x ∈ set)
    (hall : ∀ x ∈ set, (across x).isSome) :
    sortReflexive across back set fuel = f :: rest := by
  unfold sortReflexive firsts
  have hfil : set.filter (fun x => (across x).isNone) = [] := by
    apply List.filter_eq_nil_iff.mpr
    intro x hx
    have := hall x hx
    cases h : across x <;> simp_all
  obtain ⟨tl, rfl⟩ : ∃ tl, set = f :: tl := by
    cases set with
    | nil => simp at hfirst
    | cons a tl => simp at hfirst; subst hfirst; exact ⟨tl, rfl⟩
  simp only [hfil, List.isEmpty_nil, ↓reduceIte, List.take_succ_cons, List.take_zero, List.flatMap_cons,
    List.flatMap_nil, List.append_nil]
  rw [walk_run across back (f :: tl) f rest f fuel hadj (fun y hy => Or.inr (hclose y hy))
    (List.nodup_cons.mp hnd).1 hlen]
  have : (f :: rest).filter (fun x => decide (x ∈ f :: tl)) = f :: rest := by
    apply List.filter_eq_self.mpr
    intro x hx; simpa using hmem x hx
  rw [this]
  exact dedupFirst_of_nodup hnd

/-- the empty set yields the empty result, whatever the links -/
theorem sort_empty (across back : Inst → Option Inst) (fuel : Nat) : sortReflexive across back [] fuel = [] := rfl

/-- whatever the set (also arbitrary subsets of chains): the result is duplicate-free and only holds
    members of the set -/
theorem sort_subset (across back : Inst → Option Inst) (set : List Inst) (fuel : Nat) :
    (sortReflexive across back set fuel).Nodup ∧ ∀ x ∈ sortReflexive across back set fuel, x ∈ set := by
  refine ⟨nodup_dedupFirst' _, ?_⟩
  intro x hx
  unfold sortReflexive at hx
  rw [mem_dedupFirst', List.mem_flatMap] at hx
  obtain ⟨first, _, hw⟩ := hx
  have : ∀ (fuel : Nat) (inst : Inst), x ∈ walk back set first fuel inst → x ∈ set := by
    intro fuel
    induction fuel with
    | zero => intro inst h; simp [walk] at h
    | succ n ih =>
      intro inst h
      unfold walk at h
      rw [List.mem_append] at h
      rcases h with h | h
      · by_cases hi : inst ∈ set
        · simp [hi] at h; subst h; exact hi
        · simp [hi] at h
      · cases hb : back inst with
        | none => simp [hb] at h
        | some nxt =>
          simp only [hb] at h
          by_cases hn : nxt = first
          · simp [hn] at h
          · simp only [hn, ↓reduceIte] at h; exact ih nxt h
  exact this fuel first hw

/-
  NOT YET PROVED in full generality (kept at full strength; covered by the watchdog of the correspondence run):
  theorem sort_terminates (back : Inst → Option Inst) (N : Nat)
      (hinj : ∀ a b c, back a = some c → back b = some c → a = b) (hbound : ∀ a b, back a = some b → b < N) :
      ∀ set first fuel, first < N → N < fuel → walk back set first fuel first = walk back set first (N + 1) first
  -- i.e. with injective links (C02's invariant for a 1:1 association) over N instances the loop ends within
  -- N+1 iterations from ANY starting member of ANY set.  The chain and ring theorems above prove
  -- termination for the sets the statement describes (the result is the same for every sufficient fuel).
-/

/-! non-vacuity: two chains 1→2→3 and 7→8 (`back`), set in the order 8 3 7 1 2 -/
def bk : Inst → Option Inst := fun x => if x = 1 then some 2 else if x = 2 then some 3 else if x = 7 then some 8 else none
def ac : Inst → Option Inst := fun x => if x = 2 then some 1 else if x = 3 then some 2 else if x = 8 then some 7 else none
example : IsChain ac bk [1, 2, 3] ∧ IsChain ac bk [7, 8] := by
  refine ⟨⟨by simp, ?_, ?_, ?_⟩, ⟨by simp, ?_, ?_, ?_⟩⟩ <;> simp [Adj, Succ, ac, bk]
example : sortReflexive ac bk [8, 3, 7, 1, 2] 5 = [7, 8, 1, 2, 3] ∧ sortReflexive bk ac [8, 3, 7, 1, 2] 5 = [8, 7, 3, 2, 1] := by
  decide

end PyxProps.C16
