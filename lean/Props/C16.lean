import Proofs.Reflexive
import Proofs.ReflexiveListing
import Proofs.QueryShape
import Proofs.QueryShapeMore
import Proofs.MetaDelete

/-!
  C16 — Reflexive sorting yields the succession order and terminates.
  Property theorems only.  Model: PyxModel/Reflexive.lean (`sort_reflexive` over two partner functions:
  `across` = partner across the given phrase, `back` = partner across the opposite phrase).
-/
namespace PyxProps.C16
open Pyx.Meta Pyx.Query Pyx.Reflexive

/-- a set made up of whole chains (any number of chains of any length; `chains` lists them in the
    set-order of their starting members): the result is every member exactly once, each chain contiguous,
    beginning with the member without partner across the phrase and continuing along the opposite phrase —
    for EVERY amount of fuel not smaller than the longest chain, i.e. the loop always terminates there -/
theorem sort_chains (across back : Inst → Option Inst) (set : List Inst) (chains : List (List Inst)) (fuel : Nat)
    (hch : ∀ c ∈ chains, IsChain across back c) (hnd : chains.flatten.Nodup)
    (hlen : ∀ c ∈ chains, c.length ≤ fuel)
    (hmem : ∀ x, x ∈ set ↔ x ∈ chains.flatten)
    (hheads : set.filter (fun x => (across x).isNone) = chains.filterMap List.head?) :
    sortReflexive across back set fuel = chains.flatten := by
  unfold sortReflexive firsts
  by_cases hcs : chains = []
  · subst hcs
    have hset : set = [] := by
      cases set with
      | nil => rfl
      | cons a l => exact absurd ((hmem a).1 (by simp)) (by simp)
    subst hset; rfl
  · have hne : chains.filterMap List.head? ≠ [] := filterMap_head_ne_nil hcs (fun c hc => (hch c hc).ne)
    have hemp : (chains.filterMap List.head?).isEmpty = false := by
      cases h : chains.filterMap List.head? with
      | nil => exact absurd h hne
      | cons _ _ => rfl
    rw [hheads]
    simp only [hemp, Bool.false_eq_true, ↓reduceIte]
    rw [flatMap_walk_chains across back set fuel chains hch
      (fun c hc => (List.sublist_flatten_of_mem hc).nodup hnd) hlen
      (fun c hc x hx => (hmem x).2 (List.mem_flatten.mpr ⟨c, hc, hx⟩))]
    exact dedupFirst_of_nodup hnd

/-- the same WITHOUT asking the caller for the right listing: for a duplicate-free set made up of whole chains, given in
    ANY order, some permutation of the chains lists them in the set-order of their heads, and the result is that
    permutation flattened (the hypothesis `hheads` of `sort_chains` can always be met: chains_listing_exists) -/
theorem sort_whole_chains (across back : Inst → Option Inst) (set : List Inst) (chains : List (List Inst)) (fuel : Nat)
    (hset : set.Nodup) (hch : ∀ c ∈ chains, IsChain across back c) (hnd : chains.flatten.Nodup)
    (hlen : ∀ c ∈ chains, c.length ≤ fuel) (hmem : ∀ x, x ∈ set ↔ x ∈ chains.flatten) :
    ∃ chains' : List (List Inst), chains'.Perm chains ∧
      set.filter (fun x => (across x).isNone) = chains'.filterMap List.head? ∧
      sortReflexive across back set fuel = chains'.flatten := by
  obtain ⟨cs, hp, hh⟩ := chains_listing_exists across back set chains hset hch hnd hmem
  refine ⟨cs, hp, hh, ?_⟩
  exact sort_chains across back set cs fuel (fun c hc => hch c (hp.mem_iff.mp hc))
    (hp.flatten.nodup_iff.mpr hnd) (fun c hc => hlen c (hp.mem_iff.mp hc))
    (fun x => (hmem x).trans (hp.flatten.mem_iff).symm) hh

/-- sorting across the OTHER phrase (the roles of the two partner functions swap) returns each chain in
    the reverse order: the reversed chains are chains of the swapped functions -/
theorem chain_reversed (across back : Inst → Option Inst) (c : List Inst) (h : IsChain across back c) :
    IsChain back across c.reverse := h.reverse

theorem sort_other_phrase_reverses (across back : Inst → Option Inst) (set : List Inst) (chains : List (List Inst))
    (fuel : Nat) (hch : ∀ c ∈ chains, IsChain across back c) (hnd : (chains.map List.reverse).flatten.Nodup)
    (hlen : ∀ c ∈ chains, c.length ≤ fuel)
    (hmem : ∀ x, x ∈ set ↔ x ∈ (chains.map List.reverse).flatten)
    (hheads : set.filter (fun x => (back x).isNone) = (chains.map List.reverse).filterMap List.head?) :
    sortReflexive back across set fuel = (chains.map List.reverse).flatten := by
  apply sort_chains back across set (chains.map List.reverse) fuel _ hnd _ hmem hheads
  · intro c hc
    obtain ⟨c', hc', rfl⟩ := List.mem_map.mp hc
    exact (hch c' hc').reverse
  · intro c hc
    obtain ⟨c', hc', rfl⟩ := List.mem_map.mp hc
    simpa using hlen c' hc'

/-- a single closed ring `f :: rest` (every member has a partner across the phrase, `back` leads once
    around and from the last member back to `f`), given as a set whose first member is `f`:
    returned once around starting at the set's first member -/
theorem sort_ring (across back : Inst → Option Inst) (set : List Inst) (f : Inst) (rest : List Inst) (fuel : Nat)
    (hfirst : set.head? = some f)
    (hadj : Adj (Succ across back) (f :: rest))
    (hclose : ∀ z, (f :: rest).getLast? = some z → back z = some f)
    (hnd : (f :: rest).Nodup) (hlen : rest.length < fuel)
    (hmem : ∀ x ∈ f :: rest, x ∈ set)
    (hall : ∀ x ∈ set, (across x).isSome) :
    sortReflexive across back set fuel = f :: rest := by
  unfold sortReflexive firsts
  have hfil : set.filter (fun x => (across x).isNone) = [] := by
    apply List.filter_eq_nil_iff.mpr
    intro x hx
    have := hall x hx
    cases h : across x <;> simp_all
  obtain ⟨tl, rfl⟩ : ∃ tl, set = f :: tl := by
    cases set with
    | nil => simp at hfirst
    | cons a tl => simp at hfirst; subst hfirst; exact ⟨tl, rfl⟩
  simp only [hfil, List.isEmpty_nil, ↓reduceIte, List.take_succ_cons, List.take_zero, List.flatMap_cons,
    List.flatMap_nil, List.append_nil]
  rw [walk_run across back (f :: tl) f rest f fuel hadj (fun y hy => Or.inr (hclose y hy))
    (List.nodup_cons.mp hnd).1 hlen]
  have : (f :: rest).filter (fun x => decide (x ∈ f :: tl)) = f :: rest := by
    apply List.filter_eq_self.mpr
    intro x hx; simpa using hmem x hx
  rw [this]
  exact dedupFirst_of_nodup hnd

/-- the empty set yields the empty result, whatever the links -/
theorem sort_empty (across back : Inst → Option Inst) (fuel : Nat) : sortReflexive across back [] fuel = [] := rfl

/-- whatever the set (also arbitrary subsets of chains): the result is duplicate-free and only holds
    members of the set -/
theorem sort_subset (across back : Inst → Option Inst) (set : List Inst) (fuel : Nat) :
    (sortReflexive across back set fuel).Nodup ∧ ∀ x ∈ sortReflexive across back set fuel, x ∈ set := by
  refine ⟨nodup_dedupFirst' _, ?_⟩
  intro x hx
  unfold sortReflexive at hx
  rw [mem_dedupFirst', List.mem_flatMap] at hx
  obtain ⟨first, _, hw⟩ := hx
  have : ∀ (fuel : Nat) (inst : Inst), x ∈ walk back set first fuel inst → x ∈ set := by
    intro fuel
    induction fuel with
    | zero => intro inst h; simp [walk] at h
    | succ n ih =>
      intro inst h
      unfold walk at h
      rw [List.mem_append] at h
      rcases h with h | h
      · by_cases hi : inst ∈ set
        · simp [hi] at h; subst h; exact hi
        · simp [hi] at h
      · cases hb : back inst with
        | none => simp [hb] at h
        | some nxt =>
          simp only [hb] at h
          by_cases hn : nxt = first
          · simp [hn] at h
          · simp only [hn, ↓reduceIte] at h; exact ih nxt h
  exact this fuel first hw

/-- the call always terminates: with injective links (what C02's invariant gives for a one-to-one
    association) over `N` instances, the loop started at ANY member `first < N` of ANY set ends within `N`
    iterations — giving it more fuel never changes the walk, hence never changes the result -/
theorem sort_terminates (back : Inst → Option Inst) (N : Nat)
    (hinj : ∀ a b c, back a = some c → back b = some c → a = b) (hbound : ∀ a b, back a = some b → b < N)
    (set : List Inst) (first : Inst) (hf : first < N) (fuel : Nat) (hfuel : N ≤ fuel) :
    walk back set first fuel first = walk back set first N first := by
  have hN : 1 ≤ N := Nat.lt_of_le_of_lt (Nat.zero_le first) hf
  have inv : WalkInv back N first first [first] :=
    ⟨by simp, fun v hv => by simp at hv; subst hv; exact hf, by simp,
     fun v hv hvf => by simp at hv; exact absurd hv hvf⟩
  have h := walk_stable back set N first hinj hbound (N - 1) [first] first inv (by simp) fuel (by omega)
  have hN' : N - 1 + 1 = N := by omega
  rw [hN'] at h; exact h

theorem sort_result_fuel_independent (across back : Inst → Option Inst) (N : Nat)
    (hinj : ∀ a b c, back a = some c → back b = some c → a = b) (hbound : ∀ a b, back a = some b → b < N)
    (set : List Inst) (hset : ∀ x ∈ set, x < N) (fuel : Nat) (hfuel : N ≤ fuel) :
    sortReflexive across back set fuel = sortReflexive across back set N := by
  unfold sortReflexive
  congr 1
  have hsub : ∀ first ∈ firsts across set, first ∈ set := by
    intro first hfirst
    simp only [firsts] at hfirst
    by_cases he : (set.filter (fun x => (across x).isNone)).isEmpty = true
    · simp only [he, ↓reduceIte] at hfirst; exact List.mem_of_mem_take hfirst
    · simp only [he, ↓reduceIte] at hfirst; exact (List.mem_filter.mp hfirst).1
  have hgen : ∀ (l : List Inst), (∀ x ∈ l, x ∈ set) →
      l.flatMap (fun first => walk back set first fuel first) = l.flatMap (fun first => walk back set first N first) := by
    intro l
    induction l with
    | nil => intro _; rfl
    | cons a l ih =>
      intro h
      simp only [List.flatMap_cons]
      rw [sort_terminates back N hinj hbound set a (hset a (h a (by simp))) fuel hfuel,
        ih (fun x hx => h x (by simp [hx]))]
  exact hgen _ hsub

/-- the injectivity hypothesis of `sort_terminates` is what C02's invariant provides for a one-to-one
    association: in every state satisfying `AInv` (every reachable state, C02 `inv_reachable`) the
    "first partner across the target link" function, and likewise across the source link, is injective -/
theorem links_injective_of_inv (a : AssocSpec) (l : ALinks) (hinv : AInv a l) :
    (a.srcMany = false → ∀ x y c, (l.tgt x).head? = some c → (l.tgt y).head? = some c → x = y) ∧
    (a.tgtMany = false → ∀ x y c, (l.src x).head? = some c → (l.src y).head? = some c → x = y) :=
  ⟨fun h x y c => tgt_head_injective hinv h x y c, fun h x y c => src_head_injective hinv h x y c⟩

/-! ### the state-level sort (`sortReflexiveSt`, what the driver runs) is the abstract one

  `ReflexiveAt sch i a k`: association number `i` is the reflexive association `a` on class `k`
  (srcKind = tgtKind = k, two different phrases), the link keys of class `k` are pairwise distinct (C09
  `link_dict_spec`) and no other association carries the same rel id (needed for the "other phrase" search,
  which takes the first link back to the class with that rel id and a different phrase). -/

/-- the two partner functions the sort obtains through `Query.navigate` are the heads of the association's
    link lists, and the phrase in the other direction is the association's other phrase -/
theorem reflexive_partners (sch : Schema) (i : Nat) (a : AssocSpec) (k : Kind) (h : ReflexiveAt sch i a k)
    (s : State) (x : Inst) (hx : s.kindOf x = k) :
    partner sch s k a.rel a.srcPhrase x = ((s.links i).tgt x).head? ∧
    partner sch s k a.rel a.tgtPhrase x = ((s.links i).src x).head? ∧
    otherPhrase sch k a.rel a.srcPhrase = some a.tgtPhrase ∧
    otherPhrase sch k a.rel a.tgtPhrase = some a.srcPhrase :=
  ⟨partner_srcPhrase h s x hx, partner_tgtPhrase h s x hx,
   otherPhrase_of h _ _ (Or.inl ⟨rfl, rfl⟩), otherPhrase_of h _ _ (Or.inr ⟨rfl, rfl⟩)⟩

/-- termination at state level.  In every state that satisfies C02's invariant `Inv`, holds links only between
    instances of the right classes (`Typed`) and only between live instances (`LiveOnly`: partners are
    `< s.count`), for a ONE-TO-ONE reflexive association and any set of instances of class `k` below `s.count`:
    the state-level sort under either phrase returns the abstract `sortReflexive` of the two link-head functions
    for EVERY fuel ≥ `s.count` — the fuel `s.count + 1` the model uses is never exhausted -/
theorem sort_terminates_state (sch : Schema) (i : Nat) (a : AssocSpec) (k : Kind) (h : ReflexiveAt sch i a k)
    (hone : a.srcMany = false ∧ a.tgtMany = false) (s : State) (hinv : Inv sch s) (ht : Typed sch s) (hl : LiveOnly s)
    (set : List Inst) (hk : ∀ x ∈ set, s.kindOf x = k) (hb : ∀ x ∈ set, x < s.count) (fuel : Nat) (hf : s.count ≤ fuel) :
    sortReflexiveSt sch s set a.rel a.srcPhrase =
      some (sortReflexive (fun x => ((s.links i).tgt x).head?) (fun x => ((s.links i).src x).head?) set fuel) ∧
    sortReflexiveSt sch s set a.rel a.tgtPhrase =
      some (sortReflexive (fun x => ((s.links i).src x).head?) (fun x => ((s.links i).tgt x).head?) set fuel) := by
  have hai : AInv a (s.links i) := by have := hinv i; rwa [specAt_of_get h.get] at this
  have hsym : ∀ x y, y ∈ (s.links i).src x ↔ x ∈ (s.links i).tgt y := hai.1
  obtain ⟨hinjT, hinjS⟩ := links_injective_of_inv a (s.links i) hai
  -- kinds and bounds of partners
  have hkS : ∀ x y, s.kindOf x = k → ((s.links i).src x).head? = some y → s.kindOf y = k := by
    intro x y _ hy
    obtain ⟨b, hb', _, h2⟩ := ht i x y (List.mem_of_mem_head? hy)
    rw [h.get] at hb'; cases hb'; rw [h2]; exact h.src
  have hkT : ∀ x y, s.kindOf x = k → ((s.links i).tgt x).head? = some y → s.kindOf y = k := by
    intro x y _ hy
    obtain ⟨b, hb', h1, _⟩ := ht i y x ((hsym y x).2 (List.mem_of_mem_head? hy))
    rw [h.get] at hb'; cases hb'; rw [h1]; exact h.tgt
  have hbS : ∀ x y, ((s.links i).src x).head? = some y → y < s.count :=
    fun x y hy => (hl i x y (List.mem_of_mem_head? hy)).2.1
  have hbT : ∀ x y, ((s.links i).tgt x).head? = some y → y < s.count :=
    fun x y hy => (hl i y x ((hsym y x).2 (List.mem_of_mem_head? hy))).1.1
  -- fuel independence for both directions
  have hfuelS : ∀ across f1 f2, s.count ≤ f1 → s.count ≤ f2 →
      sortReflexive across (fun x => ((s.links i).src x).head?) set f1 =
      sortReflexive across (fun x => ((s.links i).src x).head?) set f2 := by
    intro across f1 f2 h1 h2
    rw [sort_result_fuel_independent across _ s.count (fun x y c => hinjS hone.2 x y c) hbS set hb f1 h1,
      sort_result_fuel_independent across _ s.count (fun x y c => hinjS hone.2 x y c) hbS set hb f2 h2]
  have hfuelT : ∀ across f1 f2, s.count ≤ f1 → s.count ≤ f2 →
      sortReflexive across (fun x => ((s.links i).tgt x).head?) set f1 =
      sortReflexive across (fun x => ((s.links i).tgt x).head?) set f2 := by
    intro across f1 f2 h1 h2
    rw [sort_result_fuel_independent across _ s.count (fun x y c => hinjT hone.1 x y c) hbT set hb f1 h1,
      sort_result_fuel_independent across _ s.count (fun x y c => hinjT hone.1 x y c) hbT set hb f2 h2]
  cases set with
  | nil => exact ⟨rfl, rfl⟩
  | cons f tl =>
    have hfk : s.kindOf f = k := hk f (by simp)
    constructor
    · unfold sortReflexiveSt
      simp only [List.head?_cons, hfk, otherPhrase_of h _ _ (Or.inl ⟨rfl, rfl⟩),
        navigate_direct' sch s f k a.rel a.srcPhrase _ (by rw [hfk]; exact lookup_srcPhrase h), Option.some.injEq]
      rw [sortReflexive_congr _ (partner sch s k a.rel a.srcPhrase) _ (partner sch s k a.rel a.tgtPhrase)
        (fun x => s.kindOf x = k) (f :: tl) hk hkS (fun x hx => partner_srcPhrase h s x hx)
        (fun x hx => partner_tgtPhrase h s x hx) (s.count + 1)]
      exact hfuelS _ _ _ (Nat.le_succ _) hf
    · unfold sortReflexiveSt
      simp only [List.head?_cons, hfk, otherPhrase_of h _ _ (Or.inr ⟨rfl, rfl⟩),
        navigate_direct' sch s f k a.rel a.tgtPhrase _ (by rw [hfk]; exact lookup_tgtPhrase h), Option.some.injEq]
      rw [sortReflexive_congr _ (partner sch s k a.rel a.tgtPhrase) _ (partner sch s k a.rel a.srcPhrase)
        (fun x => s.kindOf x = k) (f :: tl) hk hkT (fun x hx => partner_tgtPhrase h s x hx)
        (fun x hx => partner_srcPhrase h s x hx) (s.count + 1)]
      exact hfuelT _ _ _ (Nat.le_succ _) hf

/-- … hence in every reachable state: for ANY history of operations (on any arguments; `relate` itself rejects an
    instance that is not in its pool, C02 `relate_on_deleted_rejected`) over a well-formed schema, the state-level sort
    terminates with the abstract result -/
theorem sort_reachable (sch : Schema) (hok : SchemaOk sch) (i : Nat) (a : AssocSpec) (k : Kind)
    (h : ReflexiveAt sch i a k) (hone : a.srcMany = false ∧ a.tgtMany = false) (ops : List Op)
    (set : List Inst) (hk : ∀ x ∈ set, (run sch ops).kindOf x = k) (hb : ∀ x ∈ set, x < (run sch ops).count)
    (fuel : Nat) (hf : (run sch ops).count ≤ fuel) :
    sortReflexiveSt sch (run sch ops) set a.rel a.srcPhrase =
      some (sortReflexive (fun x => (((run sch ops).links i).tgt x).head?)
        (fun x => (((run sch ops).links i).src x).head?) set fuel) ∧
    sortReflexiveSt sch (run sch ops) set a.rel a.tgtPhrase =
      some (sortReflexive (fun x => (((run sch ops).links i).src x).head?)
        (fun x => (((run sch ops).links i).tgt x).head?) set fuel) := by
  have hall : AllInv sch (run sch ops) := run_allInv_any hok ops init (allInv_init sch)
  exact sort_terminates_state sch i a k h hone (run sch ops) hall.inv hall.typed hall.liveOnly set hk hb fuel hf

/-! non-vacuity: two chains 1→2→3 and 7→8 (`back`), set in the order 8 3 7 1 2 -/
def bk : Inst → Option Inst := fun x => if x = 1 then some 2 else if x = 2 then some 3 else if x = 7 then some 8 else none
def ac : Inst → Option Inst := fun x => if x = 2 then some 1 else if x = 3 then some 2 else if x = 8 then some 7 else none
example : IsChain ac bk [1, 2, 3] ∧ IsChain ac bk [7, 8] := by
  refine ⟨⟨by simp, ?_, ?_, ?_⟩, ⟨by simp, ?_, ?_, ?_⟩⟩ <;> simp [Adj, Succ, ac, bk]
example : sortReflexive ac bk [8, 3, 7, 1, 2] 5 = [7, 8, 1, 2, 3] ∧ sortReflexive bk ac [8, 3, 7, 1, 2] 5 = [8, 7, 3, 2, 1] := by
  decide

/-- `sort_chains` APPLIED: its five hypotheses hold for these two chains and this set order -/
example : sortReflexive ac bk [8, 3, 7, 1, 2] 5 = [[7, 8], [1, 2, 3]].flatten :=
  sort_chains ac bk [8, 3, 7, 1, 2] [[7, 8], [1, 2, 3]] 5
    (by
      intro c hc
      simp only [List.mem_cons, List.not_mem_nil, or_false] at hc
      rcases hc with rfl | rfl
      · refine ⟨by simp, ?_, ?_, ?_⟩ <;> simp [Adj, Succ, ac, bk]
      · refine ⟨by simp, ?_, ?_, ?_⟩ <;> simp [Adj, Succ, ac, bk])
    (by decide)
    (by
      intro c hc
      simp only [List.mem_cons, List.not_mem_nil, or_false] at hc
      rcases hc with rfl | rfl <;> simp)
    (by intro x; exact List.Perm.mem_iff (by decide))
    (by decide)

/-- `sort_whole_chains` APPLIED to the same set with the chains listed in the WRONG order: the permutation it yields
    must list [7, 8] first (7 precedes 1 in the set), so the result is again [7, 8, 1, 2, 3] -/
example : ∃ chains' : List (List Inst), chains'.Perm [[1, 2, 3], [7, 8]] ∧
    sortReflexive ac bk [8, 3, 7, 1, 2] 5 = chains'.flatten :=
  let ⟨cs, hp, _, he⟩ := sort_whole_chains ac bk [8, 3, 7, 1, 2] [[1, 2, 3], [7, 8]] 5 (by decide)
    (by
      intro c hc
      simp only [List.mem_cons, List.not_mem_nil, or_false] at hc
      rcases hc with rfl | rfl
      · refine ⟨by simp, ?_, ?_, ?_⟩ <;> simp [Adj, Succ, ac, bk]
      · refine ⟨by simp, ?_, ?_, ?_⟩ <;> simp [Adj, Succ, ac, bk])
    (by decide)
    (by
      intro c hc
      simp only [List.mem_cons, List.not_mem_nil, or_false] at hc
      rcases hc with rfl | rfl <;> simp)
    (by intro x; exact List.Perm.mem_iff (by decide))
  ⟨cs, hp, he⟩

/-- a ring 1 → 2 → 3 → 1 (`bkR` leads around, `acR` is its inverse) -/
def bkR : Inst → Option Inst := fun x => if x = 1 then some 2 else if x = 2 then some 3 else if x = 3 then some 1 else none
def acR : Inst → Option Inst := fun x => if x = 2 then some 1 else if x = 3 then some 2 else if x = 1 then some 3 else none

/-- `sort_ring` APPLIED: the set [2, 3, 1] comes back once around from its first member -/
example : sortReflexive acR bkR [2, 3, 1] 3 = [2, 3, 1] :=
  sort_ring acR bkR [2, 3, 1] 2 [3, 1] 3 rfl (by simp [Adj, Succ, acR, bkR]) (by intro z hz; simp at hz; subst hz; rfl)
    (by decide) (by simp) (by intro x hx; exact hx) (by intro x hx; simp at hx; rcases hx with rfl | rfl | rfl <;> rfl)

/-! non-vacuity of the state-level theorems: a one-to-one reflexive association R1 on class 0 with the phrases
    "succeeds" / "precedes", three instances linked 0 — 1 — 2 -/
def aR : AssocSpec :=
  { rel := "R1", srcKind := 0, srcKeys := [], srcMany := false, srcCond := true, srcPhrase := "succeeds",
    tgtKind := 0, tgtKeys := [], tgtMany := false, tgtCond := true, tgtPhrase := "precedes" }
def opsR : List Op := [.new 0 false, .new 0 false, .new 0 false, .relate 0 1 "R1" "precedes", .relate 1 2 "R1" "precedes"]
example : ReflexiveAt [aR] 0 aR 0 := by
  refine ⟨rfl, rfl, rfl, by decide, by unfold KeysDistinct; decide, ?_⟩
  intro j b hj _
  match j, hj with
  | 0, _ => rfl
example : SchemaOk [aR] := by
  intro i a h
  match i, h with
  | 0, h => simp at h; subst h; decide
example : (run [aR] opsR).count = 3 ∧ sortReflexiveSt [aR] (run [aR] opsR) [2, 0, 1] "R1" "succeeds" = some [0, 1, 2] ∧
    sortReflexiveSt [aR] (run [aR] opsR) [2, 0, 1] "R1" "precedes" = some [2, 1, 0] := by decide

end PyxProps.C16

/-! ==========================================================================================================
  SOURCE TIE of sort_reflexive  (section owned by the QueryShape extension)

  translator/gen_queryshape.py reads xtuml.sort_reflexive with `ast` on every run: the empty-set guard, the
  other-phrase search (its skip conditions, in order), the first-instance filter (a NEGATED navigation across the
  GIVEN phrase), the fall-back to the set's first member, and the generator — for each first instance, `while inst:`
  with the body statements in source order (yield if in the set, advance across the OTHER phrase, break when back at
  the first instance) — and emits them as IR (lean/Gen/QueryShape.lean); any other shape raises (broken tie).
  The theorem states that the model of PyxModel/Reflexive.lean IS the generic interpretation (Proofs/QueryShape.lean)
  of the IR generated from the current source.
  ========================================================================================================== -/
namespace PyxProps.C16
open Pyx.Meta Pyx.Query Pyx.Reflexive Pyx.QShape Pyx.Gen.QueryShape

theorem sort_as_in_source (across back : Inst → Option Inst) (set : List Inst) (first x : Inst) (fuel : Nat)
    (sch : Schema) (k : Kind) (rel phrase : String) :
    walk back set first fuel x = iWalk walkBody across back set first fuel x ∧
    firsts across set = iFirsts firstFiltNegated firstFiltPhrase across back set ∧
    sortReflexive across back set fuel = iSort firstFiltNegated firstFiltPhrase walkBody across back set fuel ∧
    otherPhrase sch k rel phrase = iOtherPhrase otherSkips sch k rel phrase :=
  ⟨walk_eq across back set first fuel x, firsts_eq across back set, sortReflexive_eq across back set fuel,
   otherPhrase_eq sch k rel phrase⟩

/-! non-vacuity: the interpreted IR sorts the two chains of the example above; a body that advanced across the
    GIVEN phrase (or did not stop at the first instance of a ring) is a different function -/
example : iSort firstFiltNegated firstFiltPhrase walkBody ac bk [8, 3, 7, 1, 2] 5 = [7, 8, 1, 2, 3] := by decide
example : iSort firstFiltNegated firstFiltPhrase [.yieldIfInSet, .advance .given, .breakIfIsFirst] ac bk [8, 3, 7, 1, 2] 5 = [7, 1] := by decide
example : iOtherPhrase otherSkips [aR] 0 "R1" "precedes" = some "succeeds" := by decide

/-- `sort_reflexive` ON A METAMODEL STATE, as a whole and for every schema, state, set, rel id and phrase: the model
    `sortReflexiveSt` is the interpretation of the generated IR — the empty-set guard (`QuerySet()`), the class of the
    set's first member, the other-phrase search with the source's skip conditions (no link left = the `else: raise
    UnknownLinkException`, here `none`), the first-instance filter navigating across the GIVEN phrase through the
    interpreted `MetaClass.navigate` (an unknown key raises), and the generator, whose two partner functions are
    `navigate_one(x).nav(kind, rel, phrase)()` read through the interpreted navigation (`assocSkip`, incl. the two-hop
    branch) and the result form `navOneResult` of the `navigate_one` chain -/
theorem sort_reflexive_state_as_in_source (sch : Schema) (s : State) (set : List Inst) (rel phrase : String) :
    sortReflexiveSt sch s set rel phrase =
      iSortSt otherSkips assocSkip navOneResult firstFiltNegated firstFiltPhrase walkBody sch s set rel phrase :=
  sortReflexiveSt_eq sch s set rel phrase

/-! non-vacuity: the interpreted whole sorts the three linked instances of the example above both ways, raises on a
    phrase the class does not have, and returns the empty set for the empty set -/
example : iSortSt otherSkips assocSkip navOneResult firstFiltNegated firstFiltPhrase walkBody [aR] (run [aR] opsR)
      [2, 0, 1] "R1" "succeeds" = some [0, 1, 2] ∧
    iSortSt otherSkips assocSkip navOneResult firstFiltNegated firstFiltPhrase walkBody [aR] (run [aR] opsR)
      [2, 0, 1] "R1" "precedes" = some [2, 1, 0] ∧
    iSortSt otherSkips assocSkip navOneResult firstFiltNegated firstFiltPhrase walkBody [aR] (run [aR] opsR)
      [2, 0, 1] "R7" "precedes" = none ∧
    iSortSt otherSkips assocSkip navOneResult firstFiltNegated firstFiltPhrase walkBody [aR] (run [aR] opsR)
      [] "R1" "precedes" = some [] := by decide


end PyxProps.C16
