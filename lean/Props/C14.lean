import Proofs.ExtractShape
import Proofs.ExtractPerm
import Proofs.ExtractSql
import Proofs.ExtractReload
import Proofs.ExtractScope
import Proofs.ExtractFrame
import Proofs.ExtractRows
import Proofs.ExtractPkgRef
import Proofs.ExtractAcyclic
import Proofs.ExtractShapeTie
import Proofs.ExtractShapeAssoc
import Proofs.ExtractShapeLinked
import Proofs.ExtractShapeSubsup
import Proofs.ExtractShapeScope
import Proofs.ExtractShapeClass
import Proofs.ExtractShapeAttrs

/-!
  C14 — Component extraction mirrors the BridgePoint class model.
  Property theorems only (helper lemmas: Proofs/Extract*.lean).

  Model: PyxModel/Extract/Diagram.lean (what an ooaofooa population denotes), Schema.lean
  (`extract` = the arguments of define_class / define_unique_identifier / define_association made by
  `mk_component`, written from bridgepoint/ooaofooa.py), Edit.lean (`applyEdit` on the diagram,
  `schemaEdit` on the result, `resolve` from one to the other).
  `WF d`: Obj_ID, key letters, Attr_ID and attribute names per class, Rel_ID and relationship
  numbers are unique.  `EditOk d e`: the edit is applicable (fresh name / supported types /
  a permutation).  All statements hold for every diagram, every component and both settings of
  the derived-attributes flag.
  Package references (EP_PKGREF rows, R1402; `ClassDiagram.pkgrefs`) are part of the diagram: `is_contained_in`
  follows them, so every statement about the scope of a component (`inScope`, `containedIn`, `Reaches`, `TreeOk`) is
  about containment AND references; `restrict_no_pkgref` says that a diagram without such rows behaves as the
  reference-free model did, `restrict_follows_reference` … `restrict_selected_once` say what the rows add.
-/

namespace PyxProps.C14
open Pyx.Extract

/-! ### extract_shape: what is defined for a diagram -/

/-- one class per modeled class in scope (all classes when no component is given), in modeled order,
    each built by `classOf` -/
theorem extract_shape (d : ClassDiagram) (comp : Option Nat) (drv : Bool) :
    (extract d comp drv).classes.map (·.kl) =
      (d.classes.filter (fun c => inScope d.containers d.pkgrefs comp c.parent)).map (·.kl) ∧
    (extract d comp drv).classes.length =
      (d.classes.filter (fun c => inScope d.containers d.pkgrefs comp c.parent)).length ∧
    (∀ s ∈ (extract d comp drv).classes, ∃ c ∈ d.classes, inScope d.containers d.pkgrefs comp c.parent = true ∧
      s = classOf d drv c) := by
  unfold extract
  refine ⟨?_, ?_, ?_⟩
  · simp only [List.map_map]; rfl
  · simp
  · intro s hs
    obtain ⟨c, hc, rfl⟩ := List.mem_map.mp hs
    exact ⟨c, (List.mem_filter.mp hc).1, (List.mem_filter.mp hc).2, rfl⟩

/-- the attributes of a class are the kept modeled attributes (not a left-out derived one, of a
    supported type), in modeled (R103) order -/
theorem extract_shape_attr_order (d : ClassDiagram) (drv : Bool) (c : Class) :
    (classOf d drv c).attrs.map (·.name) = (c.attrs.filter (Attr.kept d drv)).map (·.name) :=
  classOf_attr_names d drv c

/-- … and each one carries the mapped type of its (referred) data type; nothing else is declared -/
theorem extract_shape_attr_types {d : ClassDiagram} {drv : Bool} {c : Class} {s : SAttr} :
    s ∈ (classOf d drv c).attrs ↔
      ∃ a ∈ c.attrs, a.name = s.name ∧ (drv = true ∨ a.isDerived = false) ∧ attrTy d a = some s.ty :=
  classOf_attr_mem

/-- derived attributes exactly on request -/
theorem extract_shape_derived_iff_requested (d : ClassDiagram) (drv : Bool) (a : Attr) (h : a.isDerived = true) :
    (sattr d drv a).isSome = (drv && (attrTy d a).isSome) := by
  rw [sattr_isSome]; unfold Attr.kept; rw [h]; cases drv <;> rfl

/-- type mapping, on `dtTypeName` itself (= `_get_data_type_name`): core types 1..5 -> the upper-cased name (an EMPTY name
    counts as unsupported: `elif not ty:`) -/
theorem type_of_core (dts : List DataType) (t : DataType) (n : Nat) (h : findDt dts t.id = some t)
    (hk : t.kind = .core n) : dtTypeName dts t.id = if 1 ≤ n ∧ n ≤ 5 ∧ t.name ≠ "" then some (upper t.name) else none :=
  dtTypeName_core h hk

/-- enumerations -> INTEGER -/
theorem type_of_enum (dts : List DataType) (t : DataType) (es : List String)
    (h : findDt dts t.id = some t) (hk : t.kind = .enum es) : dtTypeName dts t.id = some "INTEGER" :=
  dtTypeName_enum h hk

/-- user types -> whatever their base type maps to, for acyclic R18 chains (`DtChainOk`; on a cyclic chain Python
    recurses without end) -/
theorem type_of_user (dts : List DataType) (chain : DtChainOk dts) (t : DataType) (b : Nat)
    (h : findDt dts t.id = some t) (hk : t.kind = .user b) : dtTypeName dts t.id = dtTypeName dts b :=
  dtTypeName_user chain h hk

/-- anything else (structured types, instance references, a dangling DT_ID) is unsupported -/
theorem type_of_other (dts : List DataType) (id : Nat) :
    (findDt dts id = none → dtTypeName dts id = none) ∧
    (∀ t, findDt dts id = some t → t.kind = .other → dtTypeName dts id = none) :=
  dtTypeName_other id

/-- `_get_data_type_name` against a relational specification (`MapsTo`: core 1..5 -> NAME, enumeration -> INTEGER,
    user type -> the type of its base): the model decides exactly that relation and its fuel is never exhausted on
    acyclic chains -/
theorem type_mapping_rel {dts : List DataType} (chain : DtChainOk dts) (i : Nat) (s : String) :
    dtTypeName dts i = some s ↔ MapsTo dts i s :=
  dtTypeName_iff chain i s

/-- a referential attribute has the type of the base attribute it refers to over R113 -/
theorem type_of_referential (d : ClassDiagram) (a ba : Attr) (c b : Nat) (k : Class) (hk : a.kind = .ref c b)
    (hc : findClass d c = some k) (hb : k.findAttr b = some ba) (hnr : ∀ c' b', ba.kind ≠ .ref c' b') :
    attrTy d a = attrTy d ba :=
  attrTy_dependent hc hb hnr hk

/-- one unique identifier `I<Oid_ID+1>` per modeled identifier that has attributes and (unless derived
    attributes are requested) no derived attribute; its names are the names of the O_OIDA attributes -/
theorem extract_shape_identifiers {drv : Bool} {d : ClassDiagram} {c : Class} {si : SIdent} :
    si ∈ (classOf d drv c).idents ↔
      ∃ i ∈ c.idents, si.num = i.num + 1 ∧ si.names = (i.attrs.filterMap c.findAttr).map (·.name) ∧
        (i.attrs.filterMap c.findAttr) ≠ [] ∧
        (drv = true ∨ ∀ a ∈ i.attrs.filterMap c.findAttr, a.isDerived = false) :=
  classOf_ident_mem

/-- the associations: one group per relationship in scope (whose classes exist), in modeled order,
    numbered by R_REL.Numb -/
theorem extract_shape_groups (d : ClassDiagram) (comp : Option Nat) (drv : Bool) :
    (extract d comp drv).groups =
      (d.rels.filter (fun r => inScope d.containers d.pkgrefs comp r.parent)).filterMap (groupOf d) ∧
    (∀ r g, groupOf d r = some g → g.rel = r.numb) :=
  ⟨rfl, fun _ _ h => groupOf_rel h⟩

/-- formalised simple relationship: ONE association, from the R_FORM class to the R_PART class.
    R_FORM.Mult/Cond -> source_many/source_conditional, R_PART.Mult/Cond -> target_many/
    target_conditional; phrases only when both ends are the same class, and then crosswise:
    source_phrase = R_PART.Txt_Phrs, target_phrase = R_FORM.Txt_Phrs. -/
theorem extract_shape_simple (d : ClassDiagram) (r : Rel) (form part : End) (refs : List Ref) (fc pc : Class)
    (hk : r.kind = .simple form part refs) (hf : findClass d form.cls = some fc)
    (hp : findClass d part.cls = some pc) :
    groupOf d r = some { rel := r.numb, items := [
      { src := { kind := fc.kl, keys := keyNames fc (refs.map (·.rattr)), many := form.mult, cond := form.cond,
                 phrase := if form.cls = part.cls then part.phrase else "" },
        tgt := { kind := pc.kl, keys := keyNames pc (refs.map (·.iattr)), many := part.mult, cond := part.cond,
                 phrase := if form.cls = part.cls then form.phrase else "" } } ] } := by
  unfold groupOf
  simp only [hk, hf, hp, phraseIf, beq_iff_eq]

/-- linked relationship: TWO associations from the link class (R_ASSR), first to the R_AONE class,
    then to the R_AOTH class.  The multiplicity / conditionality of the link class towards one side is
    the OTHER side's Mult / Cond; the referred side is always unconditional one.  Phrases only when
    both sides are the same class: the association to a side carries that side's phrase as
    source_phrase and the other side's as target_phrase. -/
theorem extract_shape_linked (d : ClassDiagram) (r : Rel) (one oth : End) (link : Nat) (r1 r2 : List Ref)
    (lc oc tc : Class) (hk : r.kind = .linked one oth link r1 r2) (hl : findClass d link = some lc)
    (ho : findClass d one.cls = some oc) (ht : findClass d oth.cls = some tc) :
    groupOf d r = some { rel := r.numb, items := [
      { src := { kind := lc.kl, keys := keyNames lc (r1.map (·.rattr)), many := oth.mult, cond := oth.cond,
                 phrase := if one.cls = oth.cls then one.phrase else "" },
        tgt := { kind := oc.kl, keys := keyNames oc (r1.map (·.iattr)), many := false, cond := false,
                 phrase := if one.cls = oth.cls then oth.phrase else "" } },
      { src := { kind := lc.kl, keys := keyNames lc (r2.map (·.rattr)), many := one.mult, cond := one.cond,
                 phrase := if one.cls = oth.cls then oth.phrase else "" },
        tgt := { kind := tc.kl, keys := keyNames tc (r2.map (·.iattr)), many := false, cond := false,
                 phrase := if one.cls = oth.cls then one.phrase else "" } } ] } := by
  unfold groupOf
  simp only [hk, hl, ho, ht, phraseIf, beq_iff_eq]

/-- subtype relationship: one association per subtype, from the subtype (conditional one) to the
    supertype (unconditional one), no phrases -/
theorem extract_shape_subsup (d : ClassDiagram) (r : Rel) (sup : Nat) (subs : List (Nat × List Ref)) (pc : Class)
    (hk : r.kind = .subsup sup subs) (hs : findClass d sup = some pc)
    (hsubs : ∀ s ∈ subs, (findClass d s.1).isSome = true) :
    ∃ items, groupOf d r = some { rel := r.numb, items := items } ∧ items.length = subs.length ∧
      ∀ a ∈ items, a.src.many = false ∧ a.src.cond = true ∧ a.src.phrase = "" ∧
        a.tgt.kind = pc.kl ∧ a.tgt.many = false ∧ a.tgt.cond = false ∧ a.tgt.phrase = "" ∧
        ∃ s ∈ subs, ∃ sc, findClass d s.1 = some sc ∧ a.src.kind = sc.kl ∧
          a.src.keys = keyNames sc (s.2.map (·.rattr)) ∧ a.tgt.keys = keyNames pc (s.2.map (·.iattr)) := by
  unfold groupOf
  simp only [hk, hs]
  refine ⟨_, rfl, ?_, ?_⟩
  · clear hk
    induction subs with
    | nil => rfl
    | cons s t ih =>
      obtain ⟨sc, hsc⟩ := Option.isSome_iff_exists.mp (hsubs s (by simp))
      simp only [List.filterMap_cons, hsc, Option.map_some, List.length_cons]
      rw [ih (fun x hx => hsubs x (List.mem_cons_of_mem _ hx))]
  · intro a ha
    obtain ⟨s, hsm, hsa⟩ := List.mem_filterMap.mp ha
    obtain ⟨sc, hsc⟩ := Option.isSome_iff_exists.mp (hsubs s hsm)
    rw [hsc] at hsa
    simp only [Option.map_some, Option.some.injEq] at hsa
    subst hsa
    exact ⟨rfl, rfl, rfl, rfl, rfl, rfl, rfl, s, hsm, sc, hsc, rfl, rfl, rfl⟩

/-- a derived relationship (R_COMP) defines nothing -/
theorem extract_shape_derived_rel (d : ClassDiagram) (r : Rel) (hk : r.kind = .derived) :
    groupOf d r = some { rel := r.numb, items := [] } := by
  unfold groupOf; simp only [hk]

/-- whole model or a named component: no name -> everything; the name of a component -> that
    component; an unknown non-empty name -> OoaOfOoaException (`none`) -/
theorem component_selection (d : ClassDiagram) (drv : Bool) :
    extractByName d none drv = some (extract d none drv) ∧
    (∀ n k, d.containers.find? (fun k => k.isComp && k.name == n) = some k →
      extractByName d (some n) drv = some (extract d (some k.id) drv)) ∧
    (∀ n, n ≠ "" → d.containers.find? (fun k => k.isComp && k.name == n) = none →
      extractByName d (some n) drv = none) := by
  refine ⟨rfl, ?_, ?_⟩
  · intro n k h; simp [extractByName, selectComp, h]
  · intro n hn h; simp [extractByName, selectComp, h, hn]

/-! ### edit_commutes: an edit of the model changes exactly the corresponding part of the result -/

/-- for EVERY edit (rename / retype / reorder attributes, set Mult / Cond / Txt_Phrs of an end, move a
    class or a relationship) applicable to a well-formed diagram: extracting from the edited diagram is
    the same as applying the predicted schema edit to the schema extracted before -/
theorem edit_commutes {d : ClassDiagram} (wf : WF d) (e : Edit) (ok : EditOk d e) (comp : Option Nat) (drv : Bool) :
    extract (applyEdit e d) comp drv = schemaEdit (resolve d comp drv e) (extract d comp drv) :=
  edit_commutes_all wf e ok comp drv

/-- edits keep the diagram well-formed, so they can be chained -/
theorem edit_keeps_wellformed {d : ClassDiagram} (wf : WF d) (e : Edit) (ok : EditOk d e) : WF (applyEdit e d) :=
  applyEdit_wf wf e ok

/-- edit scripts of any length -/
theorem edit_script_commutes {d : ClassDiagram} (wf : WF d) (es : List Edit) (ok : ScriptOk d es)
    (comp : Option Nat) (drv : Bool) :
    extract (applyEdits es d) comp drv = schemaEdits (resolveAll d comp drv es) (extract d comp drv) :=
  script_commutes wf es ok comp drv

/-- frame: a rename keeps the classes, all attribute types and orders, and every association's kinds,
    multiplicities, conditionalities and phrases; classes with other key letters are untouched -/
theorem edit_frame_rename (kl old new : String) (s : Schema) :
    (schemaEdit (.renameAttr kl old new) s).classes.map (·.kl) = s.classes.map (·.kl) ∧
    (schemaEdit (.renameAttr kl old new) s).classes.map (fun c => c.attrs.map (·.ty)) =
      s.classes.map (fun c => c.attrs.map (·.ty)) ∧
    (∀ c ∈ s.classes, c.kl ≠ kl → c ∈ (schemaEdit (.renameAttr kl old new) s).classes) ∧
    (schemaEdit (.renameAttr kl old new) s).groups.map
        (fun g => (g.rel, g.items.map (fun a => (a.src.kind, a.src.many, a.src.cond, a.src.phrase,
          a.tgt.kind, a.tgt.many, a.tgt.cond, a.tgt.phrase)))) =
      s.groups.map (fun g => (g.rel, g.items.map (fun a => (a.src.kind, a.src.many, a.src.cond, a.src.phrase,
          a.tgt.kind, a.tgt.many, a.tgt.cond, a.tgt.phrase)))) :=
  frame_rename kl old new s

/-- frame: a rename keeps every identifier's number and size, and the class named `kl` becomes its renamed self -/
theorem edit_frame_rename_idents (kl old new : String) (s : Schema) :
    (schemaEdit (.renameAttr kl old new) s).classes.map (fun c => c.idents.map (fun i => (i.num, i.names.length))) =
      s.classes.map (fun c => c.idents.map (fun i => (i.num, i.names.length))) ∧
    (∀ c ∈ s.classes, c.kl = kl → c.rename old new ∈ (schemaEdit (.renameAttr kl old new) s).classes) :=
  frame_rename_idents kl old new s

/-- frame: a retype keeps the associations, the classes' names, attribute names / order and identifiers;
    attributes outside the listed sites keep their type -/
theorem edit_frame_retype (sites : List (String × String)) (ty : String) (s : Schema) :
    (schemaEdit (.retype sites ty) s).groups = s.groups ∧
    (schemaEdit (.retype sites ty) s).classes.map (fun c => (c.kl, c.attrs.map (·.name), c.idents)) =
      s.classes.map (fun c => (c.kl, c.attrs.map (·.name), c.idents)) ∧
    (∀ c ∈ (schemaEdit (.retype sites ty) s).classes, ∀ a ∈ c.attrs,
      (c.kl, a.name) ∉ sites → ∃ c' ∈ s.classes, c'.kl = c.kl ∧ a ∈ c'.attrs) :=
  frame_retype sites ty s

/-- frame: a reorder keeps the associations, every class's identifiers, the other classes, and adds no
    attribute -/
theorem edit_frame_reorder (kl : String) (names : List String) (s : Schema) :
    (schemaEdit (.reorder kl names) s).groups = s.groups ∧
    (schemaEdit (.reorder kl names) s).classes.map (fun c => (c.kl, c.idents)) =
      s.classes.map (fun c => (c.kl, c.idents)) ∧
    (∀ c ∈ s.classes, c.kl ≠ kl → c ∈ (schemaEdit (.reorder kl names) s).classes) ∧
    (∀ c ∈ (schemaEdit (.reorder kl names) s).classes, ∀ a ∈ c.attrs, ∃ c' ∈ s.classes, c'.kl = c.kl ∧ a ∈ c'.attrs) :=
  frame_reorder kl names s

/-- frame: a reorder by a permutation of the attribute names loses nothing and adds nothing -/
theorem edit_frame_reorder_perm (names : List String) (c : SClass) (nd : (c.attrs.map (·.name)).Nodup)
    (hp : names.Perm (c.attrs.map (·.name))) : (c.reorder names).attrs.Perm c.attrs :=
  frame_reorder_perm names c nd hp

/-- WHICH field an end edit changes, everything else of the association being literally kept: R_FORM -> source end,
    R_PART -> target end of the one association; R_AONE -> source end of the SECOND, R_AOTH -> of the FIRST association -/
theorem edit_end_table (a b : SAssoc) (v : Bool) :
    itemsSetMult .form v [a] = [{ a with src := { a.src with many := v } }] ∧
    itemsSetMult .part v [a] = [{ a with tgt := { a.tgt with many := v } }] ∧
    itemsSetMult .one v [a, b] = [a, { b with src := { b.src with many := v } }] ∧
    itemsSetMult .oth v [a, b] = [{ a with src := { a.src with many := v } }, b] ∧
    itemsSetCond .form v [a] = [{ a with src := { a.src with cond := v } }] ∧
    itemsSetCond .part v [a] = [{ a with tgt := { a.tgt with cond := v } }] ∧
    itemsSetCond .one v [a, b] = [a, { b with src := { b.src with cond := v } }] ∧
    itemsSetCond .oth v [a, b] = [{ a with src := { a.src with cond := v } }, b] :=
  end_edit_table a b v

/-- … and for phrases (only reflexive relationships show them; crosswise) -/
theorem edit_phrase_table (a b : SAssoc) (v : String) :
    (a.src.kind = a.tgt.kind →
      itemsSetPhrase .form v [a] = [{ a with tgt := { a.tgt with phrase := v } }] ∧
      itemsSetPhrase .part v [a] = [{ a with src := { a.src with phrase := v } }]) ∧
    (a.src.kind ≠ a.tgt.kind → ∀ sel, itemsSetPhrase sel v [a] = [a]) ∧
    (a.tgt.kind = b.tgt.kind →
      itemsSetPhrase .one v [a, b] =
        [{ a with src := { a.src with phrase := v } }, { b with tgt := { b.tgt with phrase := v } }] ∧
      itemsSetPhrase .oth v [a, b] =
        [{ a with tgt := { a.tgt with phrase := v } }, { b with src := { b.src with phrase := v } }]) ∧
    (a.tgt.kind ≠ b.tgt.kind → ∀ sel, itemsSetPhrase sel v [a, b] = [a, b]) :=
  phrase_edit_table a b v

/-- frame: setting a multiplicity keeps the classes, the other relationships' associations, and in the
    edited relationship every field except `many` -/
theorem edit_frame_mult (rel : Nat) (sel : EndSel) (v : Bool) (s : Schema) :
    (schemaEdit (.setMult rel sel v) s).classes = s.classes ∧
    (∀ g ∈ s.groups, g.rel ≠ rel → g ∈ (schemaEdit (.setMult rel sel v) s).groups) ∧
    (schemaEdit (.setMult rel sel v) s).groups.map
        (fun g => (g.rel, g.items.map (fun a => (a.src.kind, a.src.keys, a.src.cond, a.src.phrase,
          a.tgt.kind, a.tgt.keys, a.tgt.cond, a.tgt.phrase)))) =
      s.groups.map (fun g => (g.rel, g.items.map (fun a => (a.src.kind, a.src.keys, a.src.cond, a.src.phrase,
          a.tgt.kind, a.tgt.keys, a.tgt.cond, a.tgt.phrase)))) :=
  frame_setMult rel sel v s

/-- frame: … every field except `cond` -/
theorem edit_frame_cond (rel : Nat) (sel : EndSel) (v : Bool) (s : Schema) :
    (schemaEdit (.setCond rel sel v) s).classes = s.classes ∧
    (∀ g ∈ s.groups, g.rel ≠ rel → g ∈ (schemaEdit (.setCond rel sel v) s).groups) ∧
    (schemaEdit (.setCond rel sel v) s).groups.map
        (fun g => (g.rel, g.items.map (fun a => (a.src.kind, a.src.keys, a.src.many, a.src.phrase,
          a.tgt.kind, a.tgt.keys, a.tgt.many, a.tgt.phrase)))) =
      s.groups.map (fun g => (g.rel, g.items.map (fun a => (a.src.kind, a.src.keys, a.src.many, a.src.phrase,
          a.tgt.kind, a.tgt.keys, a.tgt.many, a.tgt.phrase)))) :=
  frame_setCond rel sel v s

/-- frame: … every field except `phrase` -/
theorem edit_frame_phrase (rel : Nat) (sel : EndSel) (v : String) (s : Schema) :
    (schemaEdit (.setPhrase rel sel v) s).classes = s.classes ∧
    (∀ g ∈ s.groups, g.rel ≠ rel → g ∈ (schemaEdit (.setPhrase rel sel v) s).groups) ∧
    (schemaEdit (.setPhrase rel sel v) s).groups.map
        (fun g => (g.rel, g.items.map (fun a => (a.src.kind, a.src.keys, a.src.many, a.src.cond,
          a.tgt.kind, a.tgt.keys, a.tgt.many, a.tgt.cond)))) =
      s.groups.map (fun g => (g.rel, g.items.map (fun a => (a.src.kind, a.src.keys, a.src.many, a.src.cond,
          a.tgt.kind, a.tgt.keys, a.tgt.many, a.tgt.cond)))) :=
  frame_setPhrase rel sel v s

/-- frame: moving a class out of / into the component removes / adds that class and nothing else;
    moving a relationship removes / adds its associations and nothing else -/
theorem edit_frame_move (kl : String) (pos rel : Nat) (c : SClass) (g : SGroup) (s : Schema) :
    ((schemaEdit (.dropClass kl) s).groups = s.groups ∧
      (schemaEdit (.dropClass kl) s).classes = s.classes.filter (fun c => c.kl != kl)) ∧
    ((schemaEdit (.insertClass pos c) s).groups = s.groups ∧
      (schemaEdit (.insertClass pos c) s).classes.Perm (c :: s.classes)) ∧
    ((schemaEdit (.dropGroup rel) s).classes = s.classes ∧
      (schemaEdit (.dropGroup rel) s).groups = s.groups.filter (fun g => g.rel != rel)) ∧
    ((schemaEdit (.insertGroup pos g) s).classes = s.classes ∧
      (schemaEdit (.insertGroup pos g) s).groups.Perm (g :: s.groups)) :=
  ⟨frame_dropClass kl s, frame_insertClass pos c s, frame_dropGroup rel s, frame_insertGroup pos g s⟩

/-! ### the order of the rows does not matter -/

/-- permuting the class, relationship, data type and container rows (identifiers being unique) permutes the
    defined classes and the association groups and changes nothing else.  (Row orders below that level —
    O_ID, O_OIDA, O_REF, R_SUB rows — only permute identifiers, identifier attributes, key pairs and the
    associations of a subtype relationship; that part is tied by correspondence: the encoder shuffles all rows
    and the observations are canonicalised accordingly.) -/
theorem extract_deterministic_under_row_order {d d' : ClassDiagram} (hp : RowPerm d d') (wf : RowWF d)
    (comp : Option Nat) (drv : Bool) :
    (extract d comp drv).classes.Perm (extract d' comp drv).classes ∧
    (extract d comp drv).groups.Perm (extract d' comp drv).groups :=
  extract_perm hp wf comp drv

/-! ### restricting to a component -/

/-- `is_contained_in(pe_pe, c_c)` decides exactly "the containment chain PE_PE -> EP_PKG | C_C -> its PE_PE -> …
    reaches the component" (`Reaches`), through packages, nested components and packages inside components — and from a
    package over every EP_PKGREF row that refers to it on to the PE_PE of the REFERRING package (`Reaches.ref`) —, for
    every acyclic container + reference graph (`TreeOk`: the fuel of the model covers the depth; Python recurses
    unboundedly and never returns on a containment or reference cycle) -/
theorem restrict_contained_iff {cs : List Container} {rf : List PkgRef} (tree : TreeOk cs rf) (root : Nat) (p : Parent) :
    containedIn cs rf root p = true ↔ Reaches cs rf root p :=
  contained_iff tree root p

/-- the fuel is sufficient on the domain: ANY larger recursion budget gives the answer `containedIn` gives — exhaustion
    (the model's `false` at fuel 0) is unreachable on acyclic container + reference graphs -/
theorem restrict_fuel_sufficient {cs : List Container} {rf : List PkgRef} (tree : TreeOk cs rf) (root : Nat) (p : Parent)
    (f : Nat) (hf : cs.length < f) : containedFuel cs rf root f p = containedIn cs rf root p :=
  contained_fuel_irrelevant tree root p f hf

/-- THE DOMAIN IS ACYCLICITY, nothing more: `TreeOk` holds iff SOME natural-valued rank drops from every container row to
    its parent and from every (existing) referred package to the parent of every (existing) package referring to it — the
    graph `is_contained_in` walks has no cycle.  The bound `rank ≤ number of container rows` inside `TreeOk` (which makes
    the fuel `cs.length + 1` enough) can always be met (`TreeOk.of_acyclic`: count the container rows of rank at most
    one's own). -/
theorem restrict_domain_is_acyclicity {cs : List Container} {rf : List PkgRef} :
    TreeOk cs rf ↔ ∃ depth : Parent → Nat,
      (∀ k ∈ cs, depth k.parent < depth (if k.isComp then .comp k.id else .pkg k.id)) ∧
      (∀ r ∈ rf, ∀ k kq, findContainer cs false r.referred = some k → findContainer cs false r.referring = some kq →
        depth kq.parent < depth (.pkg r.referred)) :=
  treeOk_iff_acyclic

/-- CONSERVATIVE EXTENSION: without EP_PKGREF rows `is_contained_in` is the plain walk up the containment
    (`containedFuelPlain`: the definition of the model before package references entered it), the domain is the
    containment forest alone, and `Reaches` has no reference step -/
theorem restrict_no_pkgref (cs : List Container) (root : Nat) (p : Parent) :
    containedIn cs [] root p = containedFuelPlain cs root (cs.length + 1) p ∧
    (TreeOk cs [] ↔ ∃ depth : Parent → Nat,
      (∀ k ∈ cs, depth k.parent < depth (if k.isComp then .comp k.id else .pkg k.id)) ∧ ∀ p, depth p ≤ cs.length) ∧
    (Reaches cs [] root p →
      (∃ k, p = .comp root ∧ findContainer cs true root = some k) ∨
      (∃ q k, p = .pkg q ∧ findContainer cs false q = some k ∧ Reaches cs [] root k.parent) ∨
      (∃ c k, p = .comp c ∧ findContainer cs true c = some k ∧ Reaches cs [] root k.parent)) :=
  ⟨containedFuel_no_pkgref cs root _ p, TreeOk.no_pkgref, reaches_no_pkgref_cases⟩

/-- … and for one element already when no reference row targets a package on ITS OWN containment chain: references
    elsewhere in the diagram do not matter (no hypothesis on cycles needed) -/
theorem restrict_untargeted (cs : List Container) (rf : List PkgRef) (root : Nat) (p : Parent)
    (h : ∀ q, OnChain cs p q → ∀ r ∈ rf, r.referred ≠ q) :
    containedIn cs rf root p = containedFuelPlain cs root (cs.length + 1) p :=
  containedFuel_untargeted cs rf root _ p h

/-- WHAT A REFERENCE ADDS: package `r.referring` lies inside the component and refers to package `r.referred` — every
    element of `r.referred` is inside the component; `is_contained_in` of an element of a package, unfolded once: its
    package is inside, or a package referring to its package is; and the content below comes along (sub-packages) -/
theorem restrict_follows_reference {cs : List Container} {rf : List PkgRef} (tree : TreeOk cs rf) (root : Nat) :
    (∀ r ∈ rf, ∀ k kq, findContainer cs false r.referred = some k → findContainer cs false r.referring = some kq →
      containedIn cs rf root kq.parent = true → containedIn cs rf root (.pkg r.referred) = true) ∧
    (∀ p k, findContainer cs false p = some k → containedIn cs rf root k.parent = true →
      containedIn cs rf root (.pkg p) = true) ∧
    (∀ p, containedIn cs rf root (.pkg p) = true ↔
      ∃ k, findContainer cs false p = some k ∧
        (containedIn cs rf root k.parent = true ∨
          ∃ r ∈ rf, r.referred = p ∧ ∃ kq, findContainer cs false r.referring = some kq ∧
            containedIn cs rf root kq.parent = true)) :=
  ⟨fun _ hr _ _ hk hq hc => contained_of_reference tree hr hk hq hc,
   fun _ _ hk hc => contained_of_parent tree hk hc,
   fun p => contained_pkg_iff tree root p⟩

/-- a class of a package referred to from a package of the component IS defined by the restricted build, as in the
    whole model; a relationship of such a package brings its associations -/
theorem restrict_reference_selected {d : ClassDiagram} (tree : TreeOk d.containers d.pkgrefs) (c : Nat) (drv : Bool)
    {r : PkgRef} {kp kq : Container} (hr : r ∈ d.pkgrefs) (hp : findContainer d.containers false r.referred = some kp)
    (hq : findContainer d.containers false r.referring = some kq)
    (hc : containedIn d.containers d.pkgrefs c kq.parent = true) :
    (∀ k ∈ d.classes, k.parent = .pkg r.referred → classOf d drv k ∈ (extract d (some c) drv).classes) ∧
    (∀ x ∈ d.rels, x.parent = .pkg r.referred → ∀ g, groupOf d x = some g → g ∈ (extract d (some c) drv).groups) := by
  have hin : containedIn d.containers d.pkgrefs c (.pkg r.referred) = true := contained_of_reference tree hr hp hq hc
  have hreach := (contained_iff tree c _).mp hin
  constructor
  · intro k hk hpar
    exact ((restrict_exact' tree c drv).1 _).mpr ⟨k, hk, hpar ▸ hreach, rfl⟩
  · intro x hx hpar g hg
    exact ((restrict_exact' tree c drv).2 _).mpr ⟨x, hx, hpar ▸ hreach, hg⟩

/-- EXACTLY ONCE: a class (relationship) in scope — along however many chains: its own containment, one or several
    references — is defined exactly once (key letters / relationship numbers unique, `WF`) -/
theorem restrict_selected_once {d : ClassDiagram} (wf : WF d) (comp : Option Nat) (drv : Bool) :
    (∀ k ∈ d.classes, inScope d.containers d.pkgrefs comp k.parent = true →
      ((extract d comp drv).classes.map (·.kl)).count k.kl = 1) ∧
    (∀ r ∈ d.rels, inScope d.containers d.pkgrefs comp r.parent = true → ∀ g, groupOf d r = some g →
      ((extract d comp drv).groups.map (·.rel)).count r.numb = 1) :=
  ⟨fun _ hk hs => extract_class_once wf comp drv hk hs, fun _ hr hs _ hg => extract_group_once wf comp drv hr hs hg⟩

/-- the restricted build defines exactly the classes whose containment chain (continued over package references:
    `Reaches`) reaches the requested component, each one as in the whole model; an association is kept iff the chain of ITS R_REL reaches the component —
    the position of its classes plays no role (see `build_raises_on_dangling` for what follows) -/
theorem restrict_exact {d : ClassDiagram} (tree : TreeOk d.containers d.pkgrefs) (c : Nat) (drv : Bool) :
    (∀ s, s ∈ (extract d (some c) drv).classes ↔
      ∃ k ∈ d.classes, Reaches d.containers d.pkgrefs c k.parent ∧ s = classOf d drv k) ∧
    (∀ g, g ∈ (extract d (some c) drv).groups ↔
      ∃ r ∈ d.rels, Reaches d.containers d.pkgrefs c r.parent ∧ groupOf d r = some g) :=
  restrict_exact' tree c drv

/-- monotone: component ⊆ enclosing component ⊆ whole model (as sublists: same definitions, same order) -/
theorem restrict_monotone {d : ClassDiagram} (tree : TreeOk d.containers d.pkgrefs) {c1 c2 : Nat}
    (h12 : Reaches d.containers d.pkgrefs c2 (.comp c1)) (drv : Bool) :
    (extract d (some c1) drv).classes.Sublist (extract d (some c2) drv).classes ∧
    (extract d (some c2) drv).classes.Sublist (extract d none drv).classes ∧
    (extract d (some c1) drv).groups.Sublist (extract d (some c2) drv).groups ∧
    (extract d (some c2) drv).groups.Sublist (extract d none drv).groups :=
  restrict_monotone' tree h12 drv

/-- restricting a restriction is the restriction to the inner component; with `c1 = c2` (`Reaches.here`):
    restricting twice is restricting once -/
theorem restrict_compose {d : ClassDiagram} (tree : TreeOk d.containers d.pkgrefs) {c1 c2 : Nat}
    (h12 : Reaches d.containers d.pkgrefs c2 (.comp c1)) (drv : Bool) :
    ((d.classes.filter (fun k => inScope d.containers d.pkgrefs (some c2) k.parent)).filter
        (fun k => inScope d.containers d.pkgrefs (some c1) k.parent)).map (classOf d drv) = (extract d (some c1) drv).classes ∧
    ((d.rels.filter (fun r => inScope d.containers d.pkgrefs (some c2) r.parent)).filter
        (fun r => inScope d.containers d.pkgrefs (some c1) r.parent)).filterMap (groupOf d) = (extract d (some c1) drv).groups :=
  restrict_compose' tree h12 drv

/-- a relationship inside the component with a class outside it: `define_association` cannot find the class,
    `mk_component` RAISES (UnknownClassException ⊂ MetaModelException; model: `mkComponent … = none`) — no
    dangling association is ever returned, so nothing unloadable is ever written -/
theorem build_raises_on_dangling {d : ClassDiagram} {comp : Option Nat} {drv : Bool} {g : SGroup} {a : SAssoc}
    (hg : g ∈ (extract d comp drv).groups) (ha : a ∈ g.items)
    (hno : (∀ c ∈ (extract d comp drv).classes, upper c.kl ≠ upper a.src.kind) ∨
           (∀ c ∈ (extract d comp drv).classes, upper c.kl ≠ upper a.tgt.kind)) :
    mkComponent d comp drv = none :=
  dangling_raises' hg ha hno

/-- conversely a component that builds is `extract`, has distinct class names and only associations between its
    own classes over existing target attributes -/
theorem built_component_closed {d : ClassDiagram} {comp : Option Nat} {drv : Bool} {s : Schema}
    (h : mkComponent d comp drv = some s) :
    s = extract d comp drv ∧ (s.classes.map (fun c => upper c.kl)).Nodup ∧
    ∀ g ∈ s.groups, ∀ a ∈ g.items,
      (∃ c ∈ s.classes, upper c.kl = upper a.src.kind) ∧
      (∃ c ∈ s.classes, upper c.kl = upper a.tgt.kind) ∧
      a.src.keys.length = a.tgt.keys.length ∧
      (∃ c ∈ s.classes, upper c.kl = upper a.tgt.kind ∧
        ∀ k ∈ a.tgt.keys, upper k ∈ c.attrs.map (fun x => upper x.name)) :=
  mkComponent_some h

/-- the model's functions are total where the Python code dereferences None (a relationship naming a class or an
    attribute row that does not exist: AttributeError).  `resolvedRel` excludes exactly that, and then nothing is
    dropped: `groupOf` is defined, has 1 / 2 / one-per-subtype / 0 associations and every key list has one entry per
    O_REF.  `buildOutcome` reports AttributeError for an unresolved relationship in scope; the shape and edit theorems
    describe the Python code on resolved diagrams (`resolvedIn d comp = true`). -/
theorem resolved_nothing_dropped {d : ClassDiagram} {r : Rel} (h : resolvedRel d r = true) :
    ∃ g, groupOf d r = some g ∧
      g.items.length = (match r.kind with
        | .simple _ _ _ => 1 | .linked _ _ _ _ _ => 2 | .subsup _ subs => subs.length | .derived => 0) ∧
      ∀ a ∈ g.items, a.src.keys.length = a.tgt.keys.length :=
  resolved_group h

/-- the three endings of `mk_component`: AttributeError iff class names are distinct and some relationship in scope
    is unresolved; otherwise MetaModelException iff some definition is refused; otherwise the extracted schema -/
theorem build_outcome_cases (d : ClassDiagram) (comp : Option Nat) (drv : Bool) :
    (∀ s, buildOutcome d comp drv = .ok s → s = extract d comp drv ∧ resolvedIn d comp = true ∧ s.definable = true) ∧
    (buildOutcome d comp drv = .attributeError → resolvedIn d comp = false) ∧
    (resolvedIn d comp = true → (extract d comp drv).definable = true →
      buildOutcome d comp drv = .ok (extract d comp drv)) := by
  have hdn : (extract d comp drv).definable = true →
      ((extract d comp drv).classes.map (fun c => upper c.kl)).Nodup := by
    intro hd
    unfold Schema.definable at hd
    simp only [Bool.and_eq_true, decide_eq_true_eq] at hd
    exact hd.1
  by_cases hn : ((extract d comp drv).classes.map (fun c => upper c.kl)).Nodup
  · cases hr : resolvedIn d comp <;> cases hd : (extract d comp drv).definable <;>
      simp [buildOutcome, mkComponent, hn, hr, hd]
  · have hdf : (extract d comp drv).definable = false := by
      cases hd : (extract d comp drv).definable
      · rfl
      · exact absurd (hdn hd) hn
    cases hr : resolvedIn d comp <;> simp [buildOutcome, mkComponent, hn, hr, hdf]

/-- derived attributes only on request: with the flag off NO declared attribute stems from a derived one, and the
    result is the flag-on result of the non-derived attributes (nothing else moves); with the flag on the declared
    attributes are exactly the modeled ones of a supported type, derived or not, in modeled position -/
theorem derived_only_on_request (d : ClassDiagram) (c : Class) :
    (∀ s ∈ (classOf d false c).attrs, ∃ a ∈ c.attrs, a.name = s.name ∧ a.isDerived = false ∧ attrTy d a = some s.ty) ∧
    (classOf d false c).attrs = (c.attrs.filter (fun a => !a.isDerived)).filterMap (sattr d true) ∧
    (classOf d true c).attrs.map (·.name) = (c.attrs.filter (fun a => (attrTy d a).isSome)).map (·.name) :=
  ⟨fun s h => derived_off' d c s h, (derived_flag' d c).1, (derived_flag' d c).2⟩

/-! ### schema_reload: the SQL written for the component loads back to the same definitions -/

/-- `gen_sql_schema.main` ends with `xtuml.persist_database(component, path)`.  For EVERY diagram whose key
    letters, attribute names and core type names are identifiers of the SQL dialect (`NamesOk`; the lexical
    domain of C01), every component and both settings of the derived flag: the text of that route — per class in
    sorted order its CREATE TABLE and CREATE UNIQUE INDEX lines, then the CREATE ROP lines sorted by rel_id —
    exists, the loader's lexer and parser (`Pyx.Sql.classify`, character level) accept it, the statements
    parsed are exactly the statements of the written items, and the definitions those statements carry
    (`stmtDef`: the arguments `populate_classes` / `populate_unique_identifiers` / `populate_associations` pass to
    define_class / define_unique_identifier / define_association, cardinalities decoded by `'M' in c`, `'C' in c`)
    are the written items again, type names upper-cased.  Rests on C01's `route_roundtrip` (builder-B's SQL
    model), instantiated with `(extract d comp drv).toMM`. -/
theorem schema_reload {u : Pyx.Sql.UC} {d : ClassDiagram} (names : NamesOk u d) (comp : Option Nat) (drv : Bool) :
    ∃ text stmts,
      Pyx.Sql.printItems u (((extract d comp drv).toMM).persistDatabase u) = some text ∧
      Pyx.Sql.classify u text = .accepted stmts ∧
      Pyx.Sql.itemsStmts u (((extract d comp drv).toMM).persistDatabase u) = some stmts ∧
      stmts.filterMap stmtDef = (((extract d comp drv).toMM).persistDatabase u).map (Pyx.Sql.canonItem u) := by
  obtain ⟨text, stmts, h1, h2, h3, h4⟩ := reload_routes names comp drv _
    (by simp [Pyx.Sql.MM.routes] : ((extract d comp drv).toMM).persistDatabase u ∈ ((extract d comp drv).toMM).routes u)
  exact ⟨text, stmts, h1, h3, h2, h4⟩

/-- the same for each of the eight writer routes of xtuml/persist.py (serialize_schema,
    serialize_unique_identifiers, persist_schema, …) -/
theorem schema_reload_routes {u : Pyx.Sql.UC} {d : ClassDiagram} (names : NamesOk u d) (comp : Option Nat) (drv : Bool)
    (r : List Pyx.Sql.Item) (hr : r ∈ ((extract d comp drv).toMM).routes u) :
    ∃ text stmts, Pyx.Sql.printItems u r = some text ∧ Pyx.Sql.itemsStmts u r = some stmts ∧
      Pyx.Sql.classify u text = .accepted stmts ∧ stmts.filterMap stmtDef = r.map (Pyx.Sql.canonItem u) :=
  reload_routes names comp drv r hr

/-- … and for `serialize_schema(c) + serialize_unique_identifiers(c)`, the text the check's harness reloads -/
theorem schema_reload_serialized {u : Pyx.Sql.UC} {d : ClassDiagram} (names : NamesOk u d) (comp : Option Nat) (drv : Bool) :
    ∃ ta tb sa sb,
      Pyx.Sql.printItems u (((extract d comp drv).toMM).serializeSchema u) = some ta ∧
      Pyx.Sql.printItems u (((extract d comp drv).toMM).serializeUniqueIdentifiers u) = some tb ∧
      Pyx.Sql.itemsStmts u (((extract d comp drv).toMM).serializeSchema u) = some sa ∧
      Pyx.Sql.itemsStmts u (((extract d comp drv).toMM).serializeUniqueIdentifiers u) = some sb ∧
      Pyx.Sql.classify u (ta ++ tb) = .accepted (sa ++ sb) := by
  have hwf := toMM_wf names comp drv
  have hr1 : ((extract d comp drv).toMM).serializeSchema u ∈ ((extract d comp drv).toMM).routes u := by
    simp [Pyx.Sql.MM.routes]
  have hr2 : ((extract d comp drv).toMM).serializeUniqueIdentifiers u ∈ ((extract d comp drv).toMM).routes u := by
    simp [Pyx.Sql.MM.routes]
  obtain ⟨ta, hta⟩ := printItems_defs u _ (toMM_routes_defs u _ _ hr1)
  obtain ⟨tb, htb⟩ := printItems_defs u _ (toMM_routes_defs u _ _ hr2)
  obtain ⟨sa, sb, hsa, hsb, hc⟩ := Pyx.Sql.classify_concat u _ _ ta tb
    (Pyx.Sql.MM.route_items_wf u _ hwf _ hr1) (Pyx.Sql.MM.route_items_wf u _ hwf _ hr2) hta htb
  exact ⟨ta, tb, sa, sb, hta, htb, hsa, hsb, hc⟩

/-- BUILD LEVEL (builder-B's `reload_persistDatabase` instantiated with the extracted component): under `NamesOk`
    and `ReloadOk` — key letters distinct after upper-casing, core type names are pyxtuml type names, identifier
    numbers unique per class, every relationship in scope has its classes in scope, resolving O_REFs and kept
    referred attributes (what `define_class` / `define_association` check when the component itself is built) —
    the text `gen_sql_schema.main` writes exists, the loader accepts it, `ModelLoader.build_metamodel`
    (`Pyx.Sql.build`: duplicate-class, unknown-class, key-length and unknown-target-key checks, identifier dict,
    referential bookkeeping) succeeds on the parsed statements, and the metamodel it builds, seen through the
    writers' eyes, is the extracted schema in canonical form: the classes in sorted order with their attribute
    lists (type names upper-cased) and identifiers, the associations sorted by rel_id with cardinalities, keys
    and phrases — "the SQL schema written for the component loads back to the same definitions".
    (Identifiers without attributes never reach the schema: `identOf` drops them exactly as
    `define_unique_identifier` returns early for them.) -/
theorem schema_reload_build {u : Pyx.Sql.UC} {d : ClassDiagram} {comp : Option Nat} {drv : Bool}
    (names : NamesOk u d) (ok : ReloadOk u d comp drv) :
    ∃ text stmts bs,
      Pyx.Sql.printItems u (((extract d comp drv).toMM).persistDatabase u) = some text ∧
      Pyx.Sql.classify u text = .accepted stmts ∧ Pyx.Sql.build u stmts = .ok bs ∧
      bs.toMM u = ((extract d comp drv).toMM).reloaded u ((extract d comp drv).toMM).assocsById :=
  reload_build names ok

/-- the build conditions are met by construction of the model: the metamodel of ANY extracted component under
    `ReloadOk` is closed in the sense of the SQL build model -/
theorem schema_reload_closed {u : Pyx.Sql.UC} {d : ClassDiagram} {comp : Option Nat} {drv : Bool}
    (ok : ReloadOk u d comp drv) : ((extract d comp drv).toMM).Closed u :=
  toMM_closed ok

/-- what the file written by `gen_sql_schema.main` (`persist_database`) consists of: for every class of the component
    its CREATE TABLE item and one CREATE UNIQUE INDEX item per kept identifier, one CREATE ROP item per
    association, and nothing else — the route only sorts them (classes by upper-cased key letters, each followed by
    its identifiers; associations by rel_id).  Dropping the identifier lines (e.g. writing `persist_schema`
    instead) is a different text: the model's text is compared with the real file character by character. -/
theorem sql_file_contents (u : Pyx.Sql.UC) (d : ClassDiagram) (comp : Option Nat) (drv : Bool) :
    (((extract d comp drv).toMM).persistDatabase u).Perm
      (((extract d comp drv).toMM).classes.flatMap (fun c => c.item :: c.indexItems) ++
        ((extract d comp drv).toMM).assocs.map Pyx.Sql.AssocM.item) :=
  persistDatabase_contents u (extract d comp drv)

/-! ### non-vacuity: a concrete diagram meets the hypotheses, and the edits really change the result -/

/-- Owner (id, name, derived age; I1 = id) and Dog (tag : user type of integer, color : enumeration,
    owner_id -> Owner.id; I1 = tag), R1 Dog (many, conditional) -> Owner, everything in package
    Pkg inside component Comp; a reflexive linked relationship R2 on Dog through Leash -/
def d0 : ClassDiagram :=
  { containers := [⟨false, 5, "Pkg", .comp 6⟩, ⟨true, 6, "Comp", .none⟩, ⟨false, 7, "Other", .none⟩],
    dts := [⟨102, "integer", .core 2, .none⟩, ⟨104, "string", .core 4, .none⟩, ⟨107, "same_as<Base_Attribute>", .core 7, .none⟩,
            ⟨50, "Color", .enum ["red", "green"], .pkg 5⟩, ⟨51, "MyInt", .user 102, .pkg 5⟩],
    classes := [
      ⟨1, "OWN", [⟨11, "id", .base 102⟩, ⟨12, "name", .base 104⟩, ⟨13, "age", .derived 102⟩], [⟨0, [11]⟩], .pkg 5⟩,
      ⟨2, "DOG", [⟨21, "tag", .base 51⟩, ⟨22, "color", .base 50⟩, ⟨23, "owner_id", .ref 1 11⟩], [⟨0, [21]⟩, ⟨1, []⟩], .pkg 5⟩,
      ⟨3, "LSH", [⟨31, "front", .ref 2 21⟩, ⟨32, "back", .ref 2 21⟩], [⟨0, [31, 32]⟩], .pkg 5⟩],
    rels := [
      ⟨41, 1, .simple ⟨2, true, true, "is owned by"⟩ ⟨1, false, false, "owns"⟩ [⟨23, 11⟩], .pkg 5⟩,
      ⟨42, 2, .linked ⟨2, false, true, "leads"⟩ ⟨2, true, false, "follows"⟩ 3 [⟨31, 21⟩] [⟨32, 21⟩], .pkg 5⟩] }

theorem d0_wf : WF d0 := by
  constructor <;> decide

example : extract d0 (some 6) false =
    { classes := [
        ⟨"OWN", [⟨"id", "INTEGER"⟩, ⟨"name", "STRING"⟩], [⟨1, ["id"]⟩]⟩,
        ⟨"DOG", [⟨"tag", "INTEGER"⟩, ⟨"color", "INTEGER"⟩, ⟨"owner_id", "INTEGER"⟩], [⟨1, ["tag"]⟩]⟩,
        ⟨"LSH", [⟨"front", "INTEGER"⟩, ⟨"back", "INTEGER"⟩], [⟨1, ["front", "back"]⟩]⟩],
      groups := [
        ⟨1, [⟨⟨"DOG", ["owner_id"], true, true, ""⟩, ⟨"OWN", ["id"], false, false, ""⟩⟩]⟩,
        ⟨2, [⟨⟨"LSH", ["front"], true, false, "leads"⟩, ⟨"DOG", ["tag"], false, false, "follows"⟩⟩,
             ⟨⟨"LSH", ["back"], false, true, "follows"⟩, ⟨"DOG", ["tag"], false, false, "leads"⟩⟩]⟩] } := by
  decide

/-- with derived attributes the derived `age` appears -/
example : ((extract d0 none true).classes.map (fun c => c.attrs.map (·.name))).head? = some ["id", "name", "age"] := by
  decide

/-- the applicability conditions are satisfiable … -/
example : EditOk d0 (.renameAttr 1 11 "ident") := by
  intro kc hc x hx hn
  have : kc = ⟨1, "OWN", [⟨11, "id", .base 102⟩, ⟨12, "name", .base 104⟩, ⟨13, "age", .derived 102⟩], [⟨0, [11]⟩], .pkg 5⟩ := by
    have h : findClass d0 1 = some ⟨1, "OWN", [⟨11, "id", .base 102⟩, ⟨12, "name", .base 104⟩, ⟨13, "age", .derived 102⟩], [⟨0, [11]⟩], .pkg 5⟩ := by decide
    rw [h] at hc; exact (Option.some.inj hc).symm
  subst this
  simp only [List.mem_cons, List.not_mem_nil, or_false] at hx
  rcases hx with rfl | rfl | rfl <;> simp at hn

example : ScriptOk d0 [.setMult 41 .form false, .setPhrase 42 .one "pulls", .moveClass 1 (.pkg 7), .moveRel 41 .none] :=
  ⟨trivial, trivial, trivial, trivial, trivial⟩

/-- … and the edits are visible in the result: renaming the identifying attribute changes the class, its
    identifier and the target key of R1 -/
example : extract (applyEdit (.renameAttr 1 11 "ident") d0) none false ≠ extract d0 none false := by decide

example : ((extract (applyEdit (.renameAttr 1 11 "ident") d0) none false).groups.map
    (fun g => g.items.map (fun a => a.tgt.keys))).head? = some [["ident"]] := by decide

/-- retyping Owner.id to string changes Owner.id AND the referential Dog.owner_id -/
example : (extract (applyEdit (.retypeAttr 1 11 104) d0) none false).classes.map (fun c => c.attrs.map (·.ty)) =
    [["STRING", "STRING"], ["INTEGER", "INTEGER", "STRING"], ["INTEGER", "INTEGER"]] := by decide

/-- R_AONE.Mult lands in the SECOND association of the linked relationship -/
example : ((extract (applyEdit (.setMult 42 .one true) d0) none false).groups.map
    (fun g => g.items.map (fun a => a.src.many))) = [[true], [true, true]] := by decide

/-- nested containers: package 9 inside component 8 inside package 5 inside component 6 -/
def nested : List Container :=
  [⟨false, 5, "Pkg", .comp 6⟩, ⟨true, 6, "Comp", .none⟩, ⟨false, 7, "Other", .none⟩, ⟨true, 8, "Inner", .pkg 5⟩,
   ⟨false, 9, "Deep", .comp 8⟩]

theorem nested_tree : TreeOk nested [] :=
  ⟨⟨fun p => match p with
      | .none => 0 | .comp 6 => 1 | .pkg 5 => 2 | .comp 8 => 3 | .pkg 9 => 4 | .pkg 7 => 1 | _ => 0,
    by decide, (fun r hr => by cases hr), by intro p; simp only [nested, List.length_cons, List.length_nil]; split <;> omega⟩⟩

example : Reaches nested [] 6 (.pkg 9) ∧ Reaches nested [] 6 (.comp 8) ∧ containedIn nested [] 6 (.pkg 9) = true ∧
    containedIn nested [] 8 (.pkg 5) = false ∧ containedIn nested [] 6 (.pkg 7) = false :=
  ⟨.pkg (k := ⟨false, 9, "Deep", .comp 8⟩) (by decide)
      (.comp (k := ⟨true, 8, "Inner", .pkg 5⟩) (by decide) (.pkg (k := ⟨false, 5, "Pkg", .comp 6⟩) (by decide) (.here (k := ⟨true, 6, "Comp", .none⟩) (by decide)))),
   .comp (k := ⟨true, 8, "Inner", .pkg 5⟩) (by decide) (.pkg (k := ⟨false, 5, "Pkg", .comp 6⟩) (by decide) (.here (k := ⟨true, 6, "Comp", .none⟩) (by decide))),
   by decide, by decide, by decide⟩

/-- Owner moved out of the component while R1 stays inside: the build raises; moved together with R1: it builds -/
example : mkComponent (applyEdit (.moveClass 1 (.pkg 7)) d0) (some 6) false = none ∧
    (mkComponent (applyEdits [.moveRel 41 .none, .moveClass 1 (.pkg 7)] d0) (some 6) false).isSome = true ∧
    (mkComponent d0 (some 6) true).isSome = true := by decide

/-- the applicability conditions of retype and reorder are satisfiable too -/
example : EditOk d0 (.retypeAttr 1 11 104) := by
  intro kc xa hc ha _
  have h : findClass d0 1 = some ⟨1, "OWN", [⟨11, "id", .base 102⟩, ⟨12, "name", .base 104⟩, ⟨13, "age", .derived 102⟩], [⟨0, [11]⟩], .pkg 5⟩ := by decide
  rw [h] at hc; cases hc
  have h2 : (⟨1, "OWN", [⟨11, "id", .base 102⟩, ⟨12, "name", .base 104⟩, ⟨13, "age", .derived 102⟩], [⟨0, [11]⟩], .pkg 5⟩ : Class).findAttr 11 =
      some ⟨11, "id", .base 102⟩ := by decide
  rw [h2] at ha; cases ha
  exact ⟨by decide, by decide⟩

example : EditOk d0 (.reorderAttrs 2 [23, 21, 22]) := by
  intro kc hc
  have h : findClass d0 2 = some ⟨2, "DOG", [⟨21, "tag", .base 51⟩, ⟨22, "color", .base 50⟩, ⟨23, "owner_id", .ref 1 11⟩], [⟨0, [21]⟩, ⟨1, []⟩], .pkg 5⟩ := by decide
  rw [h] at hc; cases hc
  decide

/-- a subtype relationship: Sup with the subtypes SB1 and SB2; one association per subtype, subtype side conditional -/
def dSub : ClassDiagram :=
  { containers := [], dts := [⟨102, "integer", .core 2, .none⟩],
    classes := [⟨1, "SUP", [⟨11, "id", .base 102⟩], [⟨0, [11]⟩], .none⟩,
                ⟨2, "SB1", [⟨21, "id", .ref 1 11⟩], [⟨0, [21]⟩], .none⟩,
                ⟨3, "SB2", [⟨31, "sup_id", .ref 1 11⟩, ⟨32, "x", .base 102⟩], [⟨0, [31]⟩], .none⟩],
    rels := [⟨41, 7, .subsup 1 [(2, [⟨21, 11⟩]), (3, [⟨31, 11⟩])], .none⟩] }

example : (extract dSub none false).groups =
    [⟨7, [⟨⟨"SB1", ["id"], false, true, ""⟩, ⟨"SUP", ["id"], false, false, ""⟩⟩,
          ⟨⟨"SB2", ["sup_id"], false, true, ""⟩, ⟨"SUP", ["id"], false, false, ""⟩⟩]⟩] ∧
    resolvedIn dSub none = true ∧ (mkComponent dSub none false).isSome = true := by decide

/-- a relationship naming a class that does not exist: the model reports the AttributeError of the Python code -/
example : (match buildOutcome { dSub with rels := [⟨41, 7, .subsup 9 [(2, [⟨21, 11⟩])], .none⟩] } none false with
    | .attributeError => true | _ => false) = true := by decide

/-- the rows of d0 in reverse order -/
example : RowWF d0 ∧ RowPerm d0 ⟨d0.containers.reverse, d0.dts.reverse, d0.classes.reverse, d0.rels.reverse, [], [], []⟩ :=
  ⟨⟨by decide, by decide, by decide⟩,
   ⟨(List.reverse_perm _).symm, (List.reverse_perm _).symm, (List.reverse_perm _).symm, (List.reverse_perm _).symm,
    List.Perm.refl _⟩⟩

/-- the names of d0 are in the lexical domain of the SQL dialect, for every view `u` of the non-ASCII characters -/
theorem d0_namesOk (u : Pyx.Sql.UC) : NamesOk u d0 := by
  have up : ∀ w : Pyx.Sql.Text, Pyx.Sql.AsciiText w → u.upper w = w.map Pyx.Sql.asciiUpper :=
    fun w h => Pyx.Sql.upper_ascii u w h
  refine ⟨?_, ?_, ?_⟩
  · intro c hc
    simp only [d0, List.mem_cons, List.not_mem_nil, or_false] at hc
    rcases hc with rfl | rfl | rfl <;> exact ⟨by decide, by decide, by decide, by decide⟩
  · intro c hc a ha
    simp only [d0, List.mem_cons, List.not_mem_nil, or_false] at hc
    rcases hc with rfl | rfl | rfl <;> simp only [List.mem_cons, List.not_mem_nil, or_false] at ha <;>
      rcases ha with rfl | rfl | rfl <;> exact ⟨by decide, by decide, by decide, by decide⟩
  · intro t ht n hk h1 h5
    simp only [d0, List.mem_cons, List.not_mem_nil, or_false] at ht
    rcases ht with rfl | rfl | rfl | rfl | rfl
    · rw [up _ (by unfold Pyx.Sql.AsciiText; decide)]; exact ⟨by decide, by decide, by decide, by decide⟩
    · rw [up _ (by unfold Pyx.Sql.AsciiText; decide)]; exact ⟨by decide, by decide, by decide, by decide⟩
    · simp only [DtKind.core.injEq] at hk; omega
    · simp at hk
    · simp at hk

/-- d0's component can be rebuilt from its SQL: the build conditions hold for every view `u` of the non-ASCII
    characters -/
theorem d0_reloadOk (u : Pyx.Sql.UC) : ReloadOk u d0 (some 6) false := by
  have up : ∀ w : Pyx.Sql.Text, Pyx.Sql.AsciiText w → u.upper w = w.map Pyx.Sql.asciiUpper :=
    fun w h => Pyx.Sql.upper_ascii u w h
  have hown : findClass d0 1 = some ⟨1, "OWN", [⟨11, "id", .base 102⟩, ⟨12, "name", .base 104⟩, ⟨13, "age", .derived 102⟩], [⟨0, [11]⟩], .pkg 5⟩ := by decide
  have hdog : findClass d0 2 = some ⟨2, "DOG", [⟨21, "tag", .base 51⟩, ⟨22, "color", .base 50⟩, ⟨23, "owner_id", .ref 1 11⟩], [⟨0, [21]⟩, ⟨1, []⟩], .pkg 5⟩ := by decide
  have hlsh : findClass d0 3 = some ⟨3, "LSH", [⟨31, "front", .ref 2 21⟩, ⟨32, "back", .ref 2 21⟩], [⟨0, [31, 32]⟩], .pkg 5⟩ := by decide
  refine ⟨?_, ?_, by decide, ?_, ?_, by decide, by decide⟩
  · simp only [d0, List.map_cons, List.map_nil]
    rw [up "OWN".toList (by unfold Pyx.Sql.AsciiText; decide), up "DOG".toList (by unfold Pyx.Sql.AsciiText; decide),
      up "LSH".toList (by unfold Pyx.Sql.AsciiText; decide)]
    decide
  · intro t ht n hk h1 h5
    simp only [d0, List.mem_cons, List.not_mem_nil, or_false] at ht
    rcases ht with rfl | rfl | rfl | rfl | rfl
    · have : (upper "integer").toList = Gen.Persist.Ty.INTEGER.chars := by decide
      rw [this, Pyx.Sql.tyOfName_chars]; rfl
    · have : (upper "string").toList = Gen.Persist.Ty.STRING.chars := by decide
      rw [this, Pyx.Sql.tyOfName_chars]; rfl
    · simp only [DtKind.core.injEq] at hk; omega
    · simp at hk
    · simp at hk
  · intro r hr _
    simp only [d0, List.mem_cons, List.not_mem_nil, or_false] at hr
    rcases hr with rfl | rfl
    · exact ⟨_, _, hdog, hown, by decide, by decide, by decide⟩
    · exact ⟨⟨_, _, hlsh, hdog, by decide, by decide, by decide⟩, ⟨_, _, hlsh, hdog, by decide, by decide, by decide⟩⟩
  · intro c hc
    rw [Pyx.Sql.attrNamesOk_iff]
    simp only [d0, List.mem_cons, List.not_mem_nil, or_false] at hc
    rcases hc with rfl | rfl | rfl
    · have e : (classOf d0 false ⟨1, "OWN", [⟨11, "id", .base 102⟩, ⟨12, "name", .base 104⟩, ⟨13, "age", .derived 102⟩], [⟨0, [11]⟩], .pkg 5⟩).toM.attrs.map (·.1) =
          ["id".toList, "name".toList] := by decide
      rw [show ∀ l : List (Pyx.Sql.Name × Pyx.Sql.Name), l.map (fun a => u.upper a.1) = (l.map (·.1)).map u.upper from
        fun l => by rw [List.map_map]; rfl, e]
      simp only [List.map_cons, List.map_nil]
      rw [up "id".toList (by unfold Pyx.Sql.AsciiText; decide), up "name".toList (by unfold Pyx.Sql.AsciiText; decide)]
      decide
    · have e : (classOf d0 false ⟨2, "DOG", [⟨21, "tag", .base 51⟩, ⟨22, "color", .base 50⟩, ⟨23, "owner_id", .ref 1 11⟩], [⟨0, [21]⟩, ⟨1, []⟩], .pkg 5⟩).toM.attrs.map (·.1) =
          ["tag".toList, "color".toList, "owner_id".toList] := by decide
      rw [show ∀ l : List (Pyx.Sql.Name × Pyx.Sql.Name), l.map (fun a => u.upper a.1) = (l.map (·.1)).map u.upper from
        fun l => by rw [List.map_map]; rfl, e]
      simp only [List.map_cons, List.map_nil]
      rw [up "tag".toList (by unfold Pyx.Sql.AsciiText; decide), up "color".toList (by unfold Pyx.Sql.AsciiText; decide),
        up "owner_id".toList (by unfold Pyx.Sql.AsciiText; decide)]
      decide
    · have e : (classOf d0 false ⟨3, "LSH", [⟨31, "front", .ref 2 21⟩, ⟨32, "back", .ref 2 21⟩], [⟨0, [31, 32]⟩], .pkg 5⟩).toM.attrs.map (·.1) =
          ["front".toList, "back".toList] := by decide
      rw [show ∀ l : List (Pyx.Sql.Name × Pyx.Sql.Name), l.map (fun a => u.upper a.1) = (l.map (·.1)).map u.upper from
        fun l => by rw [List.map_map]; rfl, e]
      simp only [List.map_cons, List.map_nil]
      rw [up "front".toList (by unfold Pyx.Sql.AsciiText; decide), up "back".toList (by unfold Pyx.Sql.AsciiText; decide)]
      decide

/-- the metamodel the writers see for d0's component: three classes, three associations (R2 twice) -/
example : ((extract d0 (some 6) false).toMM).classes.map (fun c => (c.kind, c.attrs.map (·.1), c.indices.map (·.2))) =
      [("OWN".toList, ["id".toList, "name".toList], [["id".toList]]),
       ("DOG".toList, ["tag".toList, "color".toList, "owner_id".toList], [["tag".toList]]),
       ("LSH".toList, ["front".toList, "back".toList], [["front".toList, "back".toList]])] ∧
    ((extract d0 (some 6) false).toMM).assocs.map (fun a => (a.src.kind, a.src.keys, a.src.many, a.src.cond, a.tgt.kind)) =
      [("DOG".toList, ["owner_id".toList], true, true, "OWN".toList),
       ("LSH".toList, ["front".toList], true, false, "DOG".toList),
       ("LSH".toList, ["back".toList], false, true, "DOG".toList)] := by decide

/-- moving Owner and R1 out of the component removes exactly them -/
example : (extract (applyEdits [.moveRel 41 .none, .moveClass 1 (.pkg 7)] d0) (some 6) false).classes.map (·.kl) =
    ["DOG", "LSH"] := by decide

/-! ### mk_association as a total function: every R_REL row, whatever hangs on it

  `RelRows` (Diagram.lean) holds the rows of one R_REL as the code reads them, `mkAssociation` (Rows.lean) is
  `mk_association` with every ending, `buildAll` is `mk_component` over the relationships of the diagram and the ones given
  row by row.  What the code does (bridgepoint/ooaofooa.py, probed against the implementation by the harness family `rows`):

    R206 subtype row(s)        first of R_ASSOC, R_COMP, R_SIMP, R_SUBSUP that exists decides; none: TypeError
    R_COMP                     nothing
    R_SUBSUP                   one association per R_SUB (none without R_SUB rows — R_SUPER is then not looked at);
                               R_SUB rows without R_SUPER: AttributeError
    R_ASSOC                    two associations when R_AONE, R_AOTH and R_ASSR all exist, whether or not the link class
                               holds referential attributes (key lists then empty); a row missing: AttributeError
    R_SIMP, R_FORM + R_PART    one association (first R_PART when there are several)
    R_SIMP, no R_FORM          UNFORMALISED: two R_PART rows -> one association WITHOUT keys from the second R_PART row to
                               the first (so its direction follows the row order); fewer: AttributeError
    R_SIMP, R_FORM, no R_PART  AttributeError
    a class / attribute row named by an end or an O_REF is missing: AttributeError

  The property's clause "one association per FORMALISED simple, linked and subtype relationship" is
  `formalised_relationship_produces`.  About relationships that are NOT formalised the property says nothing; what the code
  does for them is documented here: unformalised simple and linked relationships and subtypes without referential attributes
  get associations with EMPTY key lists (`unformalised_simple_still_defined`, `unformalised_linked_still_defined`), and the
  direction of an unformalised simple one follows the order of its R_PART rows
  (`unformalised_direction_follows_row_order`) — the one place where the result depends on the row order. -/

/-- the four shapes of `RelKind`, given row by row, end exactly as `groupOf` / `resolvedRel` say -/
theorem mk_association_wellformed (d : ClassDiagram) (r : Rel) (h : resolvedRel d r = true) :
    rowGroup d { id := r.id, numb := r.numb, rows := rowsOf r.kind, parent := r.parent } = groupOf d r :=
  rowGroup_rowsOf d r h

/-- at least one association is defined exactly when the dispatched subtype has all its end rows (simple: R_FORM and a
    participant, or two participants; linked: all three; subtype: R_SUPER and a subtype) and every class and attribute row
    they name exists -/
theorem mk_association_produces_iff (d : ClassDiagram) (w : RelRows) :
    (∃ items, mkAssociation d w = .defined items ∧ items ≠ []) ↔ reachesDefine d w :=
  association_produced_iff d w

/-- nothing is defined, silently, exactly for R_COMP and for a subtype relationship without subtypes -/
theorem mk_association_silent_iff (d : ClassDiagram) (w : RelRows) :
    mkAssociation d w = .defined [] ↔ w.dispatch = .comp ∨ (w.dispatch = .subsup ∧ w.subs = []) :=
  nothing_defined_iff d w

/-- TypeError exactly for an R_REL without any R206 subtype row -/
theorem mk_association_typeError_iff (d : ClassDiagram) (w : RelRows) :
    mkAssociation d w = .typeError ↔ w.dispatch = .none :=
  mkAssociation_typeError_iff d w

/-- AttributeError in every remaining case -/
theorem mk_association_attributeError_iff (d : ClassDiagram) (w : RelRows) :
    mkAssociation d w = .attributeError ↔
      (w.dispatch = .linked ∨ w.dispatch = .simple ∨ (w.dispatch = .subsup ∧ w.subs ≠ [])) ∧ ¬ reachesDefine d w :=
  mkAssociation_attributeError_iff d w

/-- one association per FORMALISED relationship whose rows exist (1 / 2 / one per subtype), each with non-empty key lists
    of equal length -/
theorem formalised_relationship_produces (d : ClassDiagram) (w : RelRows) (hf : w.formalised = true)
    (hr : reachesDefine d w) :
    ∃ items, mkAssociation d w = .defined items ∧ items ≠ [] ∧
      ∀ a ∈ items, a.src.keys ≠ [] ∧ a.src.keys.length = a.tgt.keys.length :=
  formalised_produces d w hf hr

/-- key lists mirror the O_REF rows: one key pair per O_REF, so an association has empty key lists exactly when the
    relationship has no O_REF for it -/
theorem association_keys_per_ref {d : ClassDiagram} {k : RelKind} (h : resolvedRel d k.asRel = true) {g : SGroup}
    (hg : groupOf d k.asRel = some g) :
    g.items.map (fun a => a.src.keys.length) = k.refLists.map List.length ∧
    g.items.map (fun a => a.tgt.keys.length) = k.refLists.map List.length :=
  resolved_key_lengths h hg

/-- DOCUMENTED BEHAVIOUR, outside the property's clauses (the property speaks about formalised relationships; a keyless
    association has no referential / identifying pairs to mirror): an unformalised simple relationship is not formalised,
    yet one association is defined for it — no keys, from the second participant row to the first.  Its SQL line
    (`CREATE ROP REF_ID R1 FROM 1C B () TO M A ();`) loads back to the same keyless association (harness family `rows`). -/
theorem unformalised_simple_still_defined (d : ClassDiagram) (w : RelRows) (p q : End) (pc qc : Class)
    (hd : w.dispatch = .simple) (hf : w.form = none) (hp : w.parts = [p, q]) (hr : w.refs = [])
    (hpc : findClass d p.cls = some pc) (hqc : findClass d q.cls = some qc) :
    w.formalised = false ∧
    mkAssociation d w = .defined [
      { src := { kind := qc.kl, keys := [], many := q.mult, cond := q.cond, phrase := phraseIf (q.cls == p.cls) p.phrase },
        tgt := { kind := pc.kl, keys := [], many := p.mult, cond := p.cond, phrase := phraseIf (q.cls == p.cls) q.phrase } } ] :=
  unformalised_simple_defines d w p q pc qc hd hf hp hr hpc hqc

/-- ... and the ORDER OF THE TWO R_PART ROWS decides its direction: the other order gives the mirror image -/
theorem unformalised_direction_follows_row_order (d : ClassDiagram) (w : RelRows) (p q : End)
    (hd : w.dispatch = .simple) (hf : w.form = none) (hp : w.parts = [p, q]) (hr : w.refs = []) :
    mkAssociation d { w with parts := [q, p] } = (mkAssociation d w).mirror :=
  unformalised_mirror d w p q hd hf hp hr

/-- the same for a linked relationship whose link class holds no referential attributes: two associations without keys -/
theorem unformalised_linked_still_defined (d : ClassDiagram) (w : RelRows) (o t : End) (l : Nat) (oc tc lc : Class)
    (hd : w.dispatch = .linked) (ho : w.aone = some o) (ht : w.aoth = some t) (hl : w.assr = some l)
    (h1 : w.refsOne = []) (h2 : w.refsOth = [])
    (hoc : findClass d o.cls = some oc) (htc : findClass d t.cls = some tc) (hlc : findClass d l = some lc) :
    w.formalised = false ∧
    ∃ a b, mkAssociation d w = .defined [a, b] ∧ a.src.keys = [] ∧ a.tgt.keys = [] ∧ b.src.keys = [] ∧ b.tgt.keys = [] ∧
      a.src.kind = lc.kl ∧ a.tgt.kind = oc.kl ∧ b.src.kind = lc.kl ∧ b.tgt.kind = tc.kl :=
  unformalised_linked_defines d w o t l oc tc lc hd ho ht hl h1 h2 hoc htc hlc

/-- `mk_component` over everything: without row-given relationships it is `buildOutcome`; a successful build holds the
    groups of the diagram's relationships followed by one group per row-given relationship in scope, none of which raised;
    TypeError needs an R_REL without subtype row in scope -/
theorem build_all_cases (d : ClassDiagram) (comp : Option Nat) (drv : Bool) :
    (d.rowRels = [] → buildAll d comp drv = (buildOutcome d comp drv).toFull) ∧
    (∀ s, buildAll d comp drv = .ok s →
      ∃ s0, buildOutcome d comp drv = .ok s0 ∧ s.classes = s0.classes ∧ s.groups = s0.groups ++ rowGroups d comp ∧
        (∀ r ∈ rowRelsInScope d comp, ∃ items, mkAssociation d r.rows = .defined items) ∧ s.definable = true) ∧
    (buildAll d comp drv = .typeError → ∃ r ∈ rowRelsInScope d comp, r.rows.dispatch = .none) :=
  ⟨buildAll_no_rowRels d comp drv, fun _ h => buildAll_ok h, buildAll_typeError⟩

/-- d0's R1 unformalised: R_SIMP with the participants Owner (first row) and Dog, no R_FORM, no O_REF -/
def wUnformal : RelRows :=
  { simp := true, parts := [⟨1, false, false, "owns"⟩, ⟨2, true, true, "is owned by"⟩] }

example : wUnformal.formalised = false ∧
    mkAssociation d0 wUnformal =
      .defined [⟨⟨"DOG", [], true, true, ""⟩, ⟨"OWN", [], false, false, ""⟩⟩] ∧
    mkAssociation d0 { wUnformal with parts := wUnformal.parts.reverse } =
      .defined [⟨⟨"OWN", [], false, false, ""⟩, ⟨"DOG", [], true, true, ""⟩⟩] := by decide

/-- the theorems applied to it -/
example : mkAssociation d0 wUnformal =
    .defined [⟨⟨"DOG", [], true, true, phraseIf ((2 : Nat) == 1) "owns"⟩,
               ⟨"OWN", [], false, false, phraseIf ((2 : Nat) == 1) "is owned by"⟩⟩] :=
  (unformalised_simple_still_defined d0 wUnformal _ _ _ _ rfl rfl rfl rfl rfl rfl).2

example : reachesDefine d0 wUnformal :=
  Or.inr (Or.inl ⟨rfl, _, _, rfl, by decide⟩)

/-- the formalised R1 of d0 as rows: formalised, reaches define_association, one association with its key pair -/
example : (rowsOf (.simple ⟨2, true, true, "is owned by"⟩ ⟨1, false, false, "owns"⟩ [⟨23, 11⟩])).formalised = true ∧
    mkAssociation d0 (rowsOf (.simple ⟨2, true, true, "is owned by"⟩ ⟨1, false, false, "owns"⟩ [⟨23, 11⟩])) =
      .defined [⟨⟨"DOG", ["owner_id"], true, true, ""⟩, ⟨"OWN", ["id"], false, false, ""⟩⟩] := by decide

example : ∃ items, mkAssociation d0 (rowsOf (.simple ⟨2, true, true, "is owned by"⟩ ⟨1, false, false, "owns"⟩ [⟨23, 11⟩])) =
    .defined items ∧ items ≠ [] ∧ ∀ a ∈ items, a.src.keys ≠ [] ∧ a.src.keys.length = a.tgt.keys.length :=
  formalised_relationship_produces d0 _ (by decide) (Or.inr (Or.inl ⟨rfl, _, _, rfl, by decide⟩))

/-- every other ending on d0: no subtype row, R_COMP, no subtypes, a missing R_AOTH, one participant only, subtypes
    without R_SUPER, an unformalised linked relationship, two subtype rows (R_COMP wins over R_SIMP) -/
example :
    mkAssociation d0 {} = .typeError ∧
    mkAssociation d0 { comp := true } = .defined [] ∧
    mkAssociation d0 { subsup := true, super := some 99 } = .defined [] ∧
    mkAssociation d0 { assoc := true, aone := some ⟨2, false, true, "leads"⟩, assr := some 3 } = .attributeError ∧
    mkAssociation d0 { simp := true, parts := [⟨1, false, false, "owns"⟩] } = .attributeError ∧
    mkAssociation d0 { simp := true, form := some ⟨2, true, true, "x"⟩ } = .attributeError ∧
    mkAssociation d0 { subsup := true, subs := [(2, [])] } = .attributeError ∧
    mkAssociation d0 { assoc := true, aone := some ⟨2, false, true, "leads"⟩, aoth := some ⟨1, true, false, "follows"⟩,
                       assr := some 3 } =
      .defined [⟨⟨"LSH", [], true, false, ""⟩, ⟨"DOG", [], false, false, ""⟩⟩,
                ⟨⟨"LSH", [], false, true, ""⟩, ⟨"OWN", [], false, false, ""⟩⟩] ∧
    mkAssociation d0 { wUnformal with comp := true } = .defined [] := by decide

/-- the whole build with row-given relationships: d0 plus the unformalised R3 in the component -> one more group; plus an
    R_REL without subtype row -> TypeError; outside the component it does no harm -/
example :
    (match buildAll { d0 with rowRels := [⟨43, 3, wUnformal, .pkg 5⟩] } (some 6) false with
      | .ok s => s.groups.map (·.rel) | _ => []) = [1, 2, 3] ∧
    buildAll { d0 with rowRels := [⟨43, 3, wUnformal, .pkg 5⟩, ⟨44, 4, {}, .pkg 5⟩] } (some 6) false = .typeError ∧
    (match buildAll { d0 with rowRels := [⟨44, 4, {}, .pkg 7⟩] } (some 6) false with
      | .ok s => s.groups.map (·.rel) | _ => []) = [1, 2] := by decide

/-! ### non-vacuity with a PACKAGE REFERENCE: every restriction theorem applied to `dRef` -/

/-- d0 plus: class CAT and relationship R3 (CAT -> Owner) in the GLOBAL package Other (7); package Ref (8) inside
    component Comp refers to Other (EP_PKGREF 8 -> 7); package Far (9) is global and refers to Pkg (5) — a reference from
    OUTSIDE any component, which adds nothing; a second component Comp2 (10) with nothing in it -/
def dRef : ClassDiagram :=
  { d0 with
    containers := d0.containers ++ [⟨false, 8, "Ref", .comp 6⟩, ⟨false, 9, "Far", .none⟩, ⟨true, 10, "Comp2", .none⟩],
    classes := d0.classes ++ [⟨4, "CAT", [⟨41, "id", .base 102⟩, ⟨42, "owner_id", .ref 1 11⟩], [⟨0, [41]⟩], .pkg 7⟩],
    rels := d0.rels ++ [⟨43, 3, .simple ⟨4, true, true, "is fed by"⟩ ⟨1, false, false, "feeds"⟩ [⟨42, 11⟩], .pkg 7⟩],
    pkgrefs := [⟨8, 7⟩, ⟨9, 5⟩] }

theorem dRef_tree : TreeOk dRef.containers dRef.pkgrefs :=
  TreeOk.of_rank (fun p => match p with
      | .none => 0 | .comp 6 => 1 | .pkg 5 => 2 | .pkg 8 => 2 | .pkg 7 => 2 | .pkg 9 => 1 | .comp 10 => 1 | _ => 0)
    (by decide) (by decide)
    (by intro p; simp only [dRef, d0, List.length_append, List.length_cons, List.length_nil]; split <;> omega)

theorem dRef_wf : WF dRef := by
  constructor <;> decide

/-- `restrict_domain_is_acyclicity` applied: a rank far above the number of rows (10, 20, 30) is as good -/
example : TreeOk dRef.containers dRef.pkgrefs :=
  restrict_domain_is_acyclicity.mpr ⟨fun p => match p with
      | .none => 0 | .comp 6 => 10 | .pkg 5 => 20 | .pkg 8 => 20 | .pkg 7 => 30 | .pkg 9 => 10 | .comp 10 => 10 | _ => 0,
    by decide, by
      intro r hr k kq hk hq
      simp only [dRef, List.mem_cons, List.not_mem_nil, or_false] at hr
      rcases hr with rfl | rfl
      · have : findContainer dRef.containers false 8 = some ⟨false, 8, "Ref", .comp 6⟩ := by decide
        rw [this] at hq; cases hq; decide
      · have : findContainer dRef.containers false 9 = some ⟨false, 9, "Far", .none⟩ := by decide
        rw [this] at hq; cases hq; decide⟩

/-- the model computes it: CAT and R3 are inside Comp (6) through the reference, not inside Comp2 (10); without the
    reference rows they are not inside Comp either -/
example : (extract dRef (some 6) false).classes.map (·.kl) = ["OWN", "DOG", "LSH", "CAT"] ∧
    (extract dRef (some 6) false).groups.map (·.rel) = [1, 2, 3] ∧
    (extract dRef (some 10) false).classes = [] ∧
    (extract { dRef with pkgrefs := [] } (some 6) false).classes.map (·.kl) = ["OWN", "DOG", "LSH"] ∧
    (mkComponent dRef (some 6) false).isSome = true := by decide

/-- `restrict_contained_iff` on dRef: the relational side, by the reference step -/
example : containedIn dRef.containers dRef.pkgrefs 6 (.pkg 7) = true :=
  (restrict_contained_iff dRef_tree 6 (.pkg 7)).mpr
    (.ref (k := ⟨false, 7, "Other", .none⟩) (r := ⟨8, 7⟩) (kq := ⟨false, 8, "Ref", .comp 6⟩) (by decide) (by decide) rfl
      (by decide) (.here (k := ⟨true, 6, "Comp", .none⟩) (by decide)))

/-- … and back: what the model answers for Comp2 is a statement about chains -/
example : ¬ Reaches dRef.containers dRef.pkgrefs 10 (.pkg 7) :=
  fun h => absurd ((restrict_contained_iff dRef_tree 10 (.pkg 7)).mpr h) (by decide)

example : containedFuel dRef.containers dRef.pkgrefs 6 1000 (.pkg 7) = containedIn dRef.containers dRef.pkgrefs 6 (.pkg 7) :=
  restrict_fuel_sufficient dRef_tree 6 (.pkg 7) 1000 (by decide)

/-- `restrict_follows_reference`, first clause, for the row 8 -> 7 -/
example : containedIn dRef.containers dRef.pkgrefs 6 (.pkg 7) = true :=
  (restrict_follows_reference dRef_tree 6).1 ⟨8, 7⟩ (by decide) ⟨false, 7, "Other", .none⟩ ⟨false, 8, "Ref", .comp 6⟩
    (by decide) (by decide) (by decide)

/-- `restrict_reference_selected`: CAT is defined in Comp as in the whole model, R3 brings its association -/
example : classOf dRef false ⟨4, "CAT", [⟨41, "id", .base 102⟩, ⟨42, "owner_id", .ref 1 11⟩], [⟨0, [41]⟩], .pkg 7⟩ ∈
    (extract dRef (some 6) false).classes :=
  (restrict_reference_selected dRef_tree 6 false (r := ⟨8, 7⟩) (kp := ⟨false, 7, "Other", .none⟩)
    (kq := ⟨false, 8, "Ref", .comp 6⟩) (by decide) (by decide) (by decide) (by decide)).1 _ (by decide) rfl

/-- `restrict_selected_once`: Owner is inside Comp by its own chain AND Pkg is referred to (from Far): defined once; CAT
    comes over the reference: once -/
example : ((extract dRef (some 6) false).classes.map (·.kl)).count "OWN" = 1 ∧
    ((extract dRef (some 6) false).classes.map (·.kl)).count "CAT" = 1 :=
  ⟨(restrict_selected_once dRef_wf (some 6) false).1
      ⟨1, "OWN", [⟨11, "id", .base 102⟩, ⟨12, "name", .base 104⟩, ⟨13, "age", .derived 102⟩], [⟨0, [11]⟩], .pkg 5⟩ (by decide) (by decide),
   (restrict_selected_once dRef_wf (some 6) false).1
      ⟨4, "CAT", [⟨41, "id", .base 102⟩, ⟨42, "owner_id", .ref 1 11⟩], [⟨0, [41]⟩], .pkg 7⟩ (by decide) (by decide)⟩

/-- `restrict_exact` on dRef: membership in the restricted build from a chain with a reference step -/
example : ∃ k ∈ dRef.classes, Reaches dRef.containers dRef.pkgrefs 6 k.parent ∧ k.kl = "CAT" := by
  have h : classOf dRef false ⟨4, "CAT", [⟨41, "id", .base 102⟩, ⟨42, "owner_id", .ref 1 11⟩], [⟨0, [41]⟩], .pkg 7⟩ ∈
      (extract dRef (some 6) false).classes := by decide
  obtain ⟨k, hk, hr, he⟩ := ((restrict_exact dRef_tree 6 false).1 _).mp h
  refine ⟨k, hk, hr, ?_⟩
  have := congrArg SClass.kl he
  simpa [classOf] using this.symm

/-- `restrict_monotone` / `restrict_compose` with c1 = c2 = Comp on dRef (restricting twice = once, references included) -/
example : (extract dRef (some 6) true).classes.Sublist (extract dRef none true).classes :=
  (restrict_monotone dRef_tree (c1 := 6) (c2 := 6) (.here (k := ⟨true, 6, "Comp", .none⟩) (by decide)) true).2.1

example : ((dRef.classes.filter (fun k => inScope dRef.containers dRef.pkgrefs (some 6) k.parent)).filter
    (fun k => inScope dRef.containers dRef.pkgrefs (some 6) k.parent)).map (classOf dRef false) =
    (extract dRef (some 6) false).classes :=
  (restrict_compose dRef_tree (c1 := 6) (c2 := 6) (.here (k := ⟨true, 6, "Comp", .none⟩) (by decide)) false).1

/-- `restrict_untargeted`: no reference row targets a package on the chain of an element of Ref (8) -/
example : containedIn dRef.containers dRef.pkgrefs 6 (.pkg 8) = containedFuelPlain dRef.containers 6 (dRef.containers.length + 1) (.pkg 8) :=
  restrict_untargeted _ _ 6 (.pkg 8) (by
    intro q hq r hr
    have h8 : q = 8 := by
      cases hq with
      | here _ => rfl
      | up hk h' =>
        have : findContainer dRef.containers false 8 = some ⟨false, 8, "Ref", .comp 6⟩ := by decide
        rw [this] at hk; cases hk
        cases h' with
        | upComp hk' h'' =>
          have : findContainer dRef.containers true 6 = some ⟨true, 6, "Comp", .none⟩ := by decide
          rw [this] at hk'; cases hk'; cases h''
    subst h8
    simp only [dRef, List.mem_cons, List.not_mem_nil, or_false] at hr
    rcases hr with rfl | rfl <;> decide)

/-- the rows of dRef in another order, the EP_PKGREF rows too: `extract_deterministic_under_row_order` -/
example : (extract dRef (some 6) false).classes.Perm
    (extract { dRef with containers := dRef.containers.reverse, pkgrefs := dRef.pkgrefs.reverse } (some 6) false).classes :=
  (extract_deterministic_under_row_order (d := dRef)
    (d' := { dRef with containers := dRef.containers.reverse, pkgrefs := dRef.pkgrefs.reverse })
    ⟨(List.reverse_perm _).symm, List.Perm.refl _, List.Perm.refl _, List.Perm.refl _, (List.reverse_perm _).symm⟩
    ⟨by decide, by decide, by decide⟩ (some 6) false).1

/-- NOT transitive over references alone: Other2 is referred to by the global package Other, which is only REFERRED to
    from the component (not contained in it) — the content of Other2 is not inside the component; a package nested in
    Other is -/
example :
    let cs : List Container := [⟨true, 6, "Comp", .none⟩, ⟨false, 8, "Ref", .comp 6⟩, ⟨false, 7, "Other", .none⟩,
      ⟨false, 11, "Other2", .none⟩, ⟨false, 12, "Sub", .pkg 7⟩]
    containedIn cs [⟨8, 7⟩, ⟨7, 11⟩] 6 (.pkg 7) = true ∧ containedIn cs [⟨8, 7⟩, ⟨7, 11⟩] 6 (.pkg 11) = false ∧
    containedIn cs [⟨8, 7⟩, ⟨7, 11⟩] 6 (.pkg 12) = true := by decide

/-- OUTSIDE the domain: Ref lies inside Other and refers to it — `is_contained_in` of an element of Other asks for Ref,
    whose chain passes Other, which asks for Ref … : Python never returns (RecursionError); no rank exists, and the
    model's answer is the exhaustion value `false` for every fuel -/
example : ¬ TreeOk [⟨false, 7, "Other", .none⟩, ⟨false, 8, "Ref", .pkg 7⟩] [⟨8, 7⟩] := by
  rintro ⟨depth, _, href, _⟩
  have := href ⟨8, 7⟩ (by decide) ⟨false, 7, "Other", .none⟩ ⟨false, 8, "Ref", .pkg 7⟩ (by decide) (by decide)
  exact absurd this (Nat.lt_irrefl _)

end PyxProps.C14

/-! ==========================================================================================================
  SOURCE TIE OF THE EXTRACTION FUNCTIONS' STATEMENT STRUCTURE (builder extract-shape) — appended section
  translator/gen_extractshape.py re-reads, with `ast`, is_contained_in / is_global / get_attribute_type / _get_data_type_name /
  _get_related_attributes / mk_class / mk_simple_association / mk_linked_association (+ _mk_assoc) / mk_subsuper_association /
  mk_derived_association / mk_association / mk_component / ModelLoader.build_component of bridgepoint/ooaofooa.py into
  Gen/ExtractShape.lean (navigations by class + association number + phrase, filters, loops, conditionals, and for every
  define_* call which expression lands in which parameter).  Proofs/ExtractShapeTie.lean defines ONE generic interpreter of that
  IR (`Pyx.XShape`, for any IR value, over an abstract population `World`) and the populations a diagram denotes (`dtWorld`,
  `relWorld`: hand-written, the reading of harness/ooa_encoder.py in navigation form — the model is stated over the diagram, not
  over rows).  Proved for ALL inputs: the data-type mapping and the O_REF loop of _get_related_attributes.  The association
  constructors are tied for all Mult / Cond values of both ends on fixed two-class diagrams with pairwise different phrases
  (kernel-evaluated: a field swap in the SOURCE changes the IR and fails these), not yet for all diagrams; mk_class, containment
  and mk_component are generated but not yet tied by a theorem.
  ========================================================================================================== -/
namespace PyxProps.C14
open Pyx.Extract Pyx.XShape Pyx.Gen.ExtractShape

/-- `_get_data_type_name`, for every list of data types, every id and every amount of fuel = depth of the Python recursion: core
    types with Core_Typ in range(1, 6) give the upper-cased name, an S_EDT gives INTEGER, an S_UDT is followed over R18, anything
    else (and a dangling id) gives None — `dtTypeFuel` IS the interpretation of the IR generated from the source (`tyOf`: what
    `elif not ty:` of mk_class makes of the value; an interpretation error counts as no type) -/
theorem type_mapping_as_in_source (dts : List DataType) (f id : Nat) (L : Loc DI) (C : Calls DI) :
    dtTypeFuel dts f id =
      tyOf (callAt (dtWorld dts) defs f "_get_data_type_name" [.inst ((findDt dts id).map DI.dt)] L C) ∧
    dtTypeName dts id =
      tyOf (run (dtWorld dts) defs (dts.length + 1) "_get_data_type_name" [.inst ((findDt dts id).map DI.dt)]) :=
  ⟨(dtType_eq dts f id L C).symm, dtTypeName_eq dts id⟩

/-- the loop of `_get_related_attributes`, for every relationship, every pair (referring end g, referred end t) whose classes
    exist and every list of resolving O_REF rows: the name reached over R108.R106 (the referential attribute, in the REFERRING
    class) is appended to l1, the one over R111.R110.R105 (the identifying attribute, in the REFERRED class) to l2, in row order —
    `keyNames` of the `rattr` / `iattr` columns -/
theorem related_attributes_loop_as_in_source (d : ClassDiagram) (numb : Nat) (w : RelRows) (callF : CallF RI) (fuel : Nat)
    (g t : EndId) (rc tc : Class) (hrc : classOfEnd d w g = some rc) (htc : classOfEnd d w t = some tc)
    (refs : List Ref) (hres : refsResolved rc tc refs = true) (L : Loc RI) (C : Calls RI) (a b : List String)
    (h1 : L "l1" = .strs a) (h2 : L "l2" = .strs b) :
    ∃ L', forLoop (fun x L' C' => iStmts (relWorld d numb w) callF fuel
              (match get_related_attributes.body with
               | [_, _, .forNav _ _ body, _] => body
               | _ => [])
              (L'.set "o_ref" (.inst (some x))) C') (refs.map (RI.ref g t)) L C = .ok (L', C, .next) ∧
        L' "l1" = .strs (a ++ keyNames rc (refs.map (·.rattr))) ∧ L' "l2" = .strs (b ++ keyNames tc (refs.map (·.iattr))) :=
  relLoop d numb w callF fuel g t rc tc hrc htc refs hres L C a b h1 h2

/-- two classes; B.A_Id refers to A.Id -/
def tieA : Class := { id := 1, kl := "A", attrs := [{ id := 1, name := "Id", kind := .base 1 }], idents := [], parent := .none }
def tieB : Class :=
  { id := 2, kl := "B", attrs := [{ id := 1, name := "Id", kind := .base 1 }, { id := 2, name := "A_Id", kind := .ref 1 1 }],
    idents := [], parent := .none }
def tieD : ClassDiagram := { containers := [], dts := [], classes := [tieA, tieB], rels := [] }

/-- a simple relationship B -> A (formalised), a reflexive unformalised one on A, a linked reflexive one on A with link class B,
    a subtype relationship: every end with its own phrase, Mult and Cond free -/
def tieSimple (fm fc pm pc : Bool) : RelRows :=
  { simp := true, form := some { cls := 2, mult := fm, cond := fc, phrase := "has" },
    parts := [{ cls := 1, mult := pm, cond := pc, phrase := "is of" }], refs := [{ rattr := 2, iattr := 1 }] }
def tieReflexive (fm fc pm pc : Bool) : RelRows :=
  { simp := true, form := some { cls := 1, mult := fm, cond := fc, phrase := "has" },
    parts := [{ cls := 1, mult := pm, cond := pc, phrase := "is of" }], refs := [{ rattr := 1, iattr := 1 }] }
def tieUnformalised (fm fc pm pc : Bool) : RelRows :=
  { simp := true, form := none,
    parts := [{ cls := 1, mult := pm, cond := pc, phrase := "first" }, { cls := 1, mult := fm, cond := fc, phrase := "second" }] }
def tieLinked (om oc tm tc : Bool) : RelRows :=
  { assoc := true, aone := some { cls := 1, mult := om, cond := oc, phrase := "p" },
    aoth := some { cls := 1, mult := tm, cond := tc, phrase := "q" }, assr := some 2,
    refsOne := [{ rattr := 2, iattr := 1 }], refsOth := [{ rattr := 1, iattr := 1 }] }
def tieSubsup : RelRows :=
  { subsup := true, super := some 1, subs := [(2, [{ rattr := 2, iattr := 1 }]), (2, [{ rattr := 1, iattr := 1 }])] }

/-- mk_association -> mk_simple_association / mk_linked_association / mk_subsuper_association / mk_derived_association / no
    subtype row, interpreted from the generated IR, ends as `mkAssociation` says — rel_id, both kinds, both key lists, and which
    end's Mult / Cond / Txt_Phrs lands on which side — for all 16 Mult / Cond combinations of the two ends of a formalised, a
    reflexive, an unformalised (second participant = referring end) and a linked relationship, and for a subtype relationship
    with two subtypes (the OIR_ID filter separates their O_REF rows), a derived one, one without subtype row (TypeError) and a
    simple one without participants (AttributeError).  Kernel evaluation over a finite family on FIXED diagrams: a test of the
    tie, not a theorem about all diagrams. -/
theorem association_ends_as_in_source :
    (∀ fm fc pm pc : Bool,
      sameR (iMkAssociation defs tieD 7 (tieSimple fm fc pm pc)) (expected 7 (mkAssociation tieD (tieSimple fm fc pm pc))) = true ∧
      sameR (iMkAssociation defs tieD 7 (tieReflexive fm fc pm pc)) (expected 7 (mkAssociation tieD (tieReflexive fm fc pm pc))) = true ∧
      sameR (iMkAssociation defs tieD 7 (tieUnformalised fm fc pm pc)) (expected 7 (mkAssociation tieD (tieUnformalised fm fc pm pc))) = true ∧
      sameR (iMkAssociation defs tieD 7 (tieLinked fm fc pm pc)) (expected 7 (mkAssociation tieD (tieLinked fm fc pm pc))) = true) ∧
    sameR (iMkAssociation defs tieD 7 tieSubsup) (expected 7 (mkAssociation tieD tieSubsup)) = true ∧
    sameR (iMkAssociation defs tieD 7 { comp := true }) (expected 7 (mkAssociation tieD { comp := true })) = true ∧
    sameR (iMkAssociation defs tieD 7 {}) (expected 7 (mkAssociation tieD {})) = true ∧
    sameR (iMkAssociation defs tieD 7 { simp := true }) (expected 7 (mkAssociation tieD { simp := true })) = true := by
  decide +kernel

/-- non-vacuity: the interpretation is a real association with distinct fields … -/
example : sameR (iMkAssociation defs tieD 7 (tieReflexive true false false true))
    (.ok [(7, { src := { kind := "A", keys := ["Id"], many := true, cond := false, phrase := "is of" },
                tgt := { kind := "A", keys := ["Id"], many := false, cond := true, phrase := "has" } })]) = true := by
  decide +kernel

/-- hand-mutated IR: `source_conditional=r_part.Cond` instead of `r_form.Cond` in mk_simple_association -/
def mutatedSimple : Def :=
  { mk_simple_association with
    body := mk_simple_association.body.map (fun s =>
      match s with
      | .define fn args star bind =>
        .define fn (args.map (fun a => if a.1 = "source_conditional" then (a.1, Expr.attr "r_part" "Cond") else a)) star bind
      | s => s) }
def mutatedDefs : List (String × Def) :=
  defs.map (fun p => if p.1 = "mk_simple_association" then (p.1, mutatedSimple) else p)

/-- … and a mutated IR (the other end's Cond) gives ANOTHER result, so the equalities above do constrain the source -/
example : sameR (iMkAssociation mutatedDefs tieD 7 (tieSimple true false false true))
    (expected 7 (mkAssociation tieD (tieSimple true false false true))) = false := by
  decide +kernel

def tieDts : List DataType := [⟨1, "string", .core 4, .none⟩, ⟨2, "u", .user 1, .none⟩, ⟨3, "v", .user 2, .none⟩]

/-- the data-type mapping applied: a user type over a user type over core type 4 ("string") -/
example : tyOf (run (dtWorld tieDts) defs (tieDts.length + 1) "_get_data_type_name" [.inst ((findDt tieDts 3).map DI.dt)]) =
    some "STRING" :=
  (type_mapping_as_in_source tieDts 0 3 Loc.empty []).2 ▸ (by decide +kernel : dtTypeName tieDts 3 = some "STRING")

/-- a mutated mapping (`range(1, 5)`: core type 5 no longer supported) gives another result -/
example : tyOf (run (dtWorld [⟨1, "inst_ref", .core 5, .none⟩])
      (defs.map (fun p => if p.1 = "_get_data_type_name" then
        (p.1, { get_data_type_name with body := get_data_type_name.body.map (fun s => match s with
          | .ite (.and a (.attrInRange v f lo _)) t e => .ite (.and a (.attrInRange v f lo 5)) t e
          | s => s) }) else p))
      3 "_get_data_type_name" [.inst (some (DI.dt ⟨1, "inst_ref", .core 5, .none⟩))]) = none ∧
    dtTypeName [⟨1, "inst_ref", .core 5, .none⟩] 1 = some "INST_REF" := by
  decide +kernel

/-- the O_REF loop applied: B.A_Id -> A.Id -/
example : True := by
  have _h := related_attributes_loop_as_in_source tieD 7 (tieSimple true true false false) (fun _ _ _ _ => .error .stuck) 0
    .form (.part 0) tieB tieA (by decide) (by decide) [{ rattr := 2, iattr := 1 }] (by decide)
    ((Loc.empty.set "l1" (.strs [])).set "l2" (.strs [])) [] [] [] rfl rfl
  trivial

end PyxProps.C14

/-! ==========================================================================================================
  SOURCE TIE, round 2 (builder extract-shape) — appended section.  Proofs/ExtractShapeAssoc.lean: the whole-function lemma for
  `_get_related_attributes` (`relattrs`, from `relLoopT`: both name lists, or AttributeError as soon as an O_REF row of the pair
  leads to no attribute; `relattrs_none_rto` / `relattrs_none_rgo`: None arguments) and, on top of it, `mk_association` of the
  generated IR = `mkAssociation` of the model for ALL diagrams, relationship numbers and rows:
    * every relationship dispatched to mk_simple_association (formalised, unformalised = second participant refers, and the
      rows without the two ends: AttributeError) — TOTAL, every ending;
    * mk_derived_association (nothing defined) and no R206 subtype row (TypeError) — TOTAL;
    * mk_linked_association — TOTAL, every ending (`linked_association_as_in_source`, Proofs/ExtractShapeLinked.lean; `_partial`
      is the case whose three ends exist and resolve);
    * mk_subsuper_association — TOTAL, every ending, the loop over the R_SUB rows included (`subsuper_association_as_in_source`,
      Proofs/ExtractShapeSubsup.lean); `association_as_in_source` is the capstone over all five dispatch cases.
  ========================================================================================================== -/
namespace PyxProps.C14
open Pyx.Extract Pyx.XShape Pyx.Gen.ExtractShape

/-- mk_association -> mk_simple_association, for every diagram, number and rows of a relationship with an R_SIMP row: rel_id, both
    kinds, both key lists, which end's Mult / Cond lands where, the phrases (crosswise, only when both ends are the same class),
    the unformalised fallback (the SECOND R_PART refers, the first is referred to), and AttributeError exactly when an end, a
    class or an attribute of an O_REF row is missing — `mkAssociation` IS the interpretation of the IR generated from the source -/
theorem simple_association_as_in_source (d : ClassDiagram) (numb : Nat) (w : RelRows) (hd : w.dispatch = .simple) :
    expected numb (mkAssociation d w) = iMkAssociation defs d numb w := by
  rw [dispatch_eq, hd]
  simp only [mkAssociation, hd]
  cases hform : w.form with
  | some f =>
    cases hparts : w.parts with
    | nil =>
      have h : w.simpleEnds = none := by simp [RelRows.simpleEnds, hform, hparts]
      rw [h, simple_degenerate d numb w h]; rfl
    | cons p rest =>
      have h : w.simpleEnds = some (f, p) := by simp [RelRows.simpleEnds, hform, hparts]
      rw [h, simple_formalised d numb w f p rest hform hparts]
  | none =>
    cases hparts : w.parts with
    | nil =>
      have h : w.simpleEnds = none := by simp [RelRows.simpleEnds, hform, hparts]
      rw [h, simple_degenerate d numb w h]; rfl
    | cons p rest =>
      cases rest with
      | nil =>
        have h : w.simpleEnds = none := by simp [RelRows.simpleEnds, hform, hparts]
        rw [h, simple_degenerate d numb w h]; rfl
      | cons q rest =>
        have h : w.simpleEnds = some (q, p) := by simp [RelRows.simpleEnds, hform, hparts]
        rw [h, simple_unformalised d numb w p q rest hform hparts]

/-- mk_association on an R_COMP row (mk_derived_association: `pass`) and without any R206 subtype row (`handler.get('NoneType')`
    is None and is called: TypeError), for every diagram and rows -/
theorem derived_and_untyped_association_as_in_source (d : ClassDiagram) (numb : Nat) (w : RelRows) :
    (w.dispatch = .comp → expected numb (mkAssociation d w) = iMkAssociation defs d numb w) ∧
    (w.dispatch = .none → expected numb (mkAssociation d w) = iMkAssociation defs d numb w) := by
  constructor <;> intro hd <;> rw [dispatch_eq, hd] <;> simp [mkAssociation, hd, expected]

/-- mk_association -> mk_linked_association with its nested _mk_assoc called twice ((R_AONE, R_AOTH) then (R_AOTH, R_AONE)): the
    link class is the source of both, the OTHER side's Mult / Cond are the source's, target never many / conditional, phrases
    side1 / side2 on a reflexive relationship — for every diagram and rows whose three ends exist and resolve.
    The FULL STATEMENT (the AttributeError endings included) is `linked_association_as_in_source` below. -/
theorem linked_association_as_in_source_partial (d : ClassDiagram) (numb : Nat) (w : RelRows) (o t : End) (l : Nat)
    (hd : w.dispatch = .linked) (hone : w.aone = some o) (hoth : w.aoth = some t) (hassr : w.assr = some l)
    (hr : resolvedRel d (RelKind.linked o t l w.refsOne w.refsOth).asRel = true) :
    expected numb (mkAssociation d w) = iMkAssociation defs d numb w := by
  rw [dispatch_eq, hd]
  simp only [mkAssociation, hd, hone, hoth, hassr]
  rw [linked_resolved d numb w o t l hone hoth hassr hr]

/-- mk_association -> mk_linked_association, for EVERY diagram, number and rows of a relationship with an R_ASSOC row, every ending
    included (Proofs/ExtractShapeLinked.lean): next to the two associations of `_partial`, AttributeError exactly when an end row
    (R_AONE / R_AOTH / R_ASSR), a class or an attribute of an O_REF row is missing.  In the order the IR evaluates: without R_AONE
    `side1.Obj_ID` of the first `_mk_assoc` raises (`_get_related_attributes(r_rgo, None)` has returned two empty lists); without
    R_ASSR `r_rgo.OIR_ID` raises in the filter of `_get_related_attributes` when an O_REF hangs on R_AONE's R_RTO, else
    `side2.Obj_ID` (no R_AOTH) or `source_o_obj.Key_Lett`; with R_ASSR an unresolved O_REF raises `o_attr.Name`, then
    `side2.Obj_ID`, `source_o_obj.Key_Lett` (link class), `target_o_obj.Key_Lett` (side1's class), and the same in the second
    `_mk_assoc` — the model reports AttributeError for each of them (the first `define_association` already made is lost with
    the exception in both) -/
theorem linked_association_as_in_source (d : ClassDiagram) (numb : Nat) (w : RelRows) (hd : w.dispatch = .linked) :
    expected numb (mkAssociation d w) = iMkAssociation defs d numb w := by
  rw [dispatch_eq, hd]
  simp only [mkAssociation, hd]
  cases hone : w.aone with
  | none => rw [linked_degenerate d numb w (.inl hone)]; rfl
  | some o =>
    cases hoth : w.aoth with
    | none => rw [linked_degenerate d numb w (.inr (.inl hoth))]; rfl
    | some t =>
      cases hassr : w.assr with
      | none => rw [linked_degenerate d numb w (.inr (.inr hassr))]; rfl
      | some l =>
        cases hr : resolvedRel d (RelKind.linked o t l w.refsOne w.refsOth).asRel with
        | true => rw [linked_resolved d numb w o t l hone hoth hassr hr]
        | false => rw [linked_unresolved d numb w o t l hone hoth hassr hr]; simp [kindOutcome, hr, expected]

/-- the theorems applied: the formalised B -> A relationship, the unformalised reflexive one (AttributeError-free), a simple
    relationship without participants (AttributeError) and the linked one of `tieLinked` -/
example : iMkAssociation defs tieD 7 (tieSimple true false false true) =
    expected 7 (mkAssociation tieD (tieSimple true false false true)) :=
  (simple_association_as_in_source tieD 7 _ (by decide)).symm
example : iMkAssociation defs tieD 7 (tieUnformalised true false false true) =
    expected 7 (mkAssociation tieD (tieUnformalised true false false true)) :=
  (simple_association_as_in_source tieD 7 _ (by decide)).symm
example : iMkAssociation defs tieD 7 { simp := true } = .error .attributeError :=
  (simple_association_as_in_source tieD 7 { simp := true } (by decide)).symm
example : iMkAssociation defs tieD 7 (tieLinked true false false true) =
    expected 7 (mkAssociation tieD (tieLinked true false false true)) :=
  (linked_association_as_in_source_partial tieD 7 _ _ _ _ (by decide) rfl rfl rfl (by decide)).symm
/-- non-vacuity of the error endings: a linked relationship without its R_ASSR row, one without R_AONE, one whose link class
    does not exist, one whose second O_REF list names a missing attribute (the first `_mk_assoc` has already defined) -/
example : iMkAssociation defs tieD 7 { tieLinked true false false true with assr := none } = .error .attributeError :=
  (linked_association_as_in_source tieD 7 { tieLinked true false false true with assr := none } (by decide)).symm
example : iMkAssociation defs tieD 7 { tieLinked true false false true with aone := none } = .error .attributeError :=
  (linked_association_as_in_source tieD 7 { tieLinked true false false true with aone := none } (by decide)).symm
example : iMkAssociation defs tieD 7 { tieLinked true false false true with assr := some 9, refsOne := [], refsOth := [] } =
    .error .attributeError :=
  (linked_association_as_in_source tieD 7
    { tieLinked true false false true with assr := some 9, refsOne := [], refsOth := [] } (by decide)).symm
example : iMkAssociation defs tieD 7 { tieLinked true false false true with refsOth := [{ rattr := 1, iattr := 5 }] } =
    .error .attributeError :=
  (linked_association_as_in_source tieD 7
    { tieLinked true false false true with refsOth := [{ rattr := 1, iattr := 5 }] } (by decide)).symm
/-- … and the kernel evaluates the interpretation of the IR to the same ending -/
example : sameR (iMkAssociation defs tieD 7 { tieLinked true false false true with assr := none }) (.error .attributeError) = true := by
  decide +kernel

/-- mk_association -> mk_subsuper_association, for EVERY diagram, number and rows of a relationship dispatched to its R_SUBSUP row,
    the loop `for r_sub in many(r_subsup).R_SUB[213]()` included (Proofs/ExtractShapeSubsup.lean: `subLoop`, induction over the
    row list) and every ending: ONE `define_association` per R_SUB row, in row order, all with the relationship's number — the
    subtype class is the source (conditional, never many, no phrase), the supertype class the target, the keys are the names of
    the O_REF rows of THAT subtype (the OIR_ID filter of `_get_related_attributes` separates the subtypes' rows: `refsFor_sub`);
    nothing at all without R_SUB rows (the supertype is never dereferenced then); AttributeError, with at least one R_SUB row,
    exactly when the R_SUPER row, a class or an attribute of an O_REF row is missing.  In the order the IR evaluates: without
    R_SUPER the first pass raises `source_o_obj.Key_Lett` / `target_o_obj.Key_Lett` (`_get_related_attributes(r_rgo, None)` has
    returned two empty lists); with R_SUPER the first row j whose pair does not resolve raises `o_attr.Name` (an O_REF row),
    `source_o_obj.Key_Lett` (subtype class) or `target_o_obj.Key_Lett` (supertype class) — the `define_association` calls of
    the rows before j are lost with the exception, the model reports AttributeError -/
theorem subsuper_association_as_in_source (d : ClassDiagram) (numb : Nat) (w : RelRows) (hd : w.dispatch = .subsup) :
    expected numb (mkAssociation d w) = iMkAssociation defs d numb w := by
  rw [dispatch_eq, hd]
  simp only [mkAssociation, hd]
  exact (subsup_eq d numb w _).symm

/-- CAPSTONE: `mk_association(m, r_rel)` of the generated IR — the dispatch over the R206 subtype row and each of
    mk_simple_association / mk_linked_association (+ _mk_assoc) / mk_subsuper_association / mk_derived_association /
    _get_related_attributes behind it — ends as the model's `mkAssociation` says, for EVERY diagram, relationship number and
    rows, every `define_association` argument and every AttributeError / TypeError ending included -/
theorem association_as_in_source (d : ClassDiagram) (numb : Nat) (w : RelRows) :
    expected numb (mkAssociation d w) = iMkAssociation defs d numb w := by
  cases hd : w.dispatch with
  | linked => exact linked_association_as_in_source d numb w hd
  | comp => exact (derived_and_untyped_association_as_in_source d numb w).1 hd
  | simple => exact simple_association_as_in_source d numb w hd
  | subsup => exact subsuper_association_as_in_source d numb w hd
  | none => exact (derived_and_untyped_association_as_in_source d numb w).2 hd

/-- the theorems applied: two subtype rows on one supertype (two associations B -> A with the number 7, each with its own key) … -/
example : iMkAssociation defs tieD 7 tieSubsup =
    .ok [(7, { src := { kind := "B", keys := ["A_Id"], many := false, cond := true, phrase := "" },
               tgt := { kind := "A", keys := ["Id"], many := false, cond := false, phrase := "" } }),
         (7, { src := { kind := "B", keys := ["Id"], many := false, cond := true, phrase := "" },
               tgt := { kind := "A", keys := ["Id"], many := false, cond := false, phrase := "" } })] :=
  (subsuper_association_as_in_source tieD 7 tieSubsup (by decide)).symm
/-- … the error endings and the silent one: no R_SUB row (nothing defined, even without R_SUPER), no R_SUPER row, a supertype class
    that does not exist, a SECOND subtype row whose O_REF names a missing attribute (the first row has already defined), a
    missing subtype class -/
example : iMkAssociation defs tieD 7 { subsup := true } = .ok [] :=
  (association_as_in_source tieD 7 { subsup := true }).symm
example : iMkAssociation defs tieD 7 { tieSubsup with super := none } = .error .attributeError :=
  (association_as_in_source tieD 7 { tieSubsup with super := none }).symm
example : iMkAssociation defs tieD 7 { tieSubsup with super := some 9 } = .error .attributeError :=
  (association_as_in_source tieD 7 { tieSubsup with super := some 9 }).symm
example : iMkAssociation defs tieD 7
    { tieSubsup with subs := [(2, [{ rattr := 2, iattr := 1 }]), (2, [{ rattr := 5, iattr := 1 }])] } = .error .attributeError :=
  (association_as_in_source tieD 7 _).symm
example : iMkAssociation defs tieD 7 { tieSubsup with subs := [(2, []), (9, [])] } = .error .attributeError :=
  (association_as_in_source tieD 7 _).symm
/-- … and the kernel evaluates the interpretation of the IR to the same ending -/
example : sameR (iMkAssociation defs tieD 7
    { tieSubsup with subs := [(2, [{ rattr := 2, iattr := 1 }]), (2, [{ rattr := 5, iattr := 1 }])] }) (.error .attributeError) = true := by
  decide +kernel

end PyxProps.C14

/-! ==========================================================================================================
  SOURCE TIE, round 3 (builder extract-shape) — appended section.  Proofs/ExtractShapeScope.lean: the population `scopeWorld`
  (PE_PE rows by the `Parent` they denote, EP_PKG / C_C rows = containers, R8000 / R8003 / R8001, R1402 'is referenced by' over
  the EP_PKGREF rows) and `is_global` of the generated IR against `globalFuel` / `isGlobal`.  Partial correctness: WHENEVER the
  interpretation returns, it returns the model's value (the reading Props/C20's `oracle` gives to ooaofooa.is_global).
  For `is_contained_in` the R1402 loop is tied (`contained_reference_loop_as_in_source`); the whole-function equality with
  `containedFuel` is NOT yet proved (the C20 oracle for is_contained_in still rests on K).
  ========================================================================================================== -/
namespace PyxProps.C14
open Pyx.Extract Pyx.XShape Pyx.Gen.ExtractShape

/-- `is_global(x)` interpreted from the IR generated from the source, for x a PE_PE, an EP_PKG or a C_C row of ANY container list:
    whenever the call returns at recursion depth f, it returns `globalFuel cs f` of the Parent x stands for and defines nothing
    (a C_C on the way up: False; no package / a Package_ID naming no EP_PKG row: True; else the package's own PE_PE, recursively;
    package references are not followed); on `TreeOk` and with f above the number of containers that is `isGlobal` itself -/
theorem is_global_as_in_source (cs : List Container) (rf : List PkgRef) (f : Nat) (x : SI) (Lc : Loc SI) (C : Calls SI)
    (v : Val SI) (C' : Calls SI) (h : callAt (scopeWorld cs rf) defs f "is_global" [.inst (some x)] Lc C = .ok (v, C'))
    (p : Parent) (hp : parentOf (some x) = some p) :
    (v = .bool (globalFuel cs f p) ∧ C' = C) ∧
    (TreeOk cs rf → cs.length < f → v = .bool (isGlobal cs p)) := by
  have h1 := isGlobal_sound cs rf f x Lc C v C' h p hp
  refine ⟨h1, fun tree hf => ?_⟩
  rw [h1.1]
  congr 1
  obtain ⟨depth, hdec, _, hb⟩ := tree.ex
  have h2 := global_fuel depth hdec f p (by have := hb p; omega)
  have h3 := global_iff tree p
  cases hg : globalFuel cs f p <;> cases hi : isGlobal cs p <;> simp_all

/-- what the state a loop ends in says about a disjunction `b`: `return True` = b, fallen through = not b -/
def loopSays (s : Sig SI) (b : Bool) : Prop :=
  match s with
  | .ret v => v = .bool true ∧ b = true
  | .next => b = false
  | .cont => False

/-- a Boolean result without `define_*` calls -/
def boolRun : Except Err (Val SI × Calls SI) → Option Bool
  | .ok (.bool b, []) => some b
  | _ => none

/-- the loop of `is_contained_in` over the packages REFERRING to a package (R1402 'is referenced by'), for every list of referring
    packages: given that the recursive calls return the model's value at depth f, the loop returns True exactly when
    `containedFuel … f` holds for the parent of one of them (in row order, first hit returns), defines nothing and keeps `root`;
    `any_referrers`: that disjunction IS the `rf.any …` clause of `containedFuel` -/
theorem contained_reference_loop_as_in_source (cs : List Container) (rf : List PkgRef) (root : Nat) (kr : Container)
    (cf : CallF SI) (f fuel i : Nat) (hs : SoundF cs rf root kr cf f) (L : Loc SI) (C : Calls SI) (L1 : Loc SI) (C1 : Calls SI)
    (s : Sig SI) (hr : L "root" = .inst (some (SI.comp kr)))
    (h : forLoop (fun x L' C' => iStmts (scopeWorld cs rf) cf fuel
            (match is_contained_in.body.drop 5 with
             | [.forNav _ _ body, _] => body
             | _ => [])
            (L'.set "ep_pkg" (.inst (some x))) C')
          ((referrers cs rf i).map SI.pkg) L C = .ok (L1, C1, s)) :
    C1 = C ∧ loopSays s (rf.any (fun r => r.referred == i &&
      match findContainer cs false r.referring with
      | some kq => containedFuel cs rf root f kq.parent
      | none => false)) := by
  have h1 := refLoop_sound cs rf root kr cf f fuel hs (referrers cs rf i) L C L1 C1 s hr h
  rw [any_referrers] at h1
  exact ⟨h1.1, h1.2.2⟩

/-- applied: a package inside a component is not global, at depth 3 of a two-container tree -/
example : boolRun (callAt (scopeWorld [⟨true, 1, "C", .none⟩, ⟨false, 2, "P", .comp 1⟩] []) defs 3 "is_global"
    [.inst (some (SI.pe (.pkg 2)))] Loc.empty []) = some false := by decide +kernel
example : isGlobal [⟨true, 1, "C", .none⟩, ⟨false, 2, "P", .comp 1⟩] (.pkg 2) = false := by decide +kernel

/-- is_contained_in interpreted on a concrete tree with a package reference (package 3, global, is referred to by package 2 inside
    component 1): contained through the reference, as `containedIn` says (a kernel-evaluated instance, not the general theorem) -/
example : boolRun (callAt (scopeWorld [⟨true, 1, "C", .none⟩, ⟨false, 2, "P", .comp 1⟩, ⟨false, 3, "Q", .none⟩] [⟨2, 3⟩]) defs 6
      "is_contained_in" [.inst (some (SI.pe (.pkg 3))), .inst (some (SI.comp ⟨true, 1, "C", .none⟩))] Loc.empty []) =
      some true ∧
    containedIn [⟨true, 1, "C", .none⟩, ⟨false, 2, "P", .comp 1⟩, ⟨false, 3, "Q", .none⟩] [⟨2, 3⟩] 1 (.pkg 3) = true := by
  decide +kernel

end PyxProps.C14

/-! ==========================================================================================================
  SOURCE TIE, round 4 (builder extract-shape) — appended section.  Proofs/ExtractShapeScope.lean: the whole function
  `is_contained_in` of the generated IR against `containedFuel` / `containedIn` (`contained_sound_interp`: induction over the
  recursion depth; `cicIf_sound`: the `root in [ep_pkg, c_c]` test and the two recursive calls; `cicTail_sound` on
  `refLoop_sound`: the loop over the referring packages; `cic_key`: the case split over the Parent).  Partial correctness:
  WHENEVER the interpretation returns, it returns the model's value — termination of the interpreted recursion (Python:
  RecursionError on cyclic containment) is not proved.  This is the reading Props/C20's `oracle` gives to
  ooaofooa.is_contained_in.
  ========================================================================================================== -/
namespace PyxProps.C14
open Pyx.Extract Pyx.XShape Pyx.Gen.ExtractShape

/-- `is_contained_in(x, root)` interpreted from the IR generated from the source, for ANY containers and EP_PKGREF rows, root the
    C_C row with id `root`, x None / a PE_PE / an EP_PKG / a C_C: whenever the call returns at recursion depth f it returns
    `containedFuel cs rf root f` of the Parent x stands for (False for None) and defines nothing — `root in [ep_pkg, c_c]`, up
    over R8000 / R8003 through the container's own PE_PE (R8001), and from the package over R1402 'is referenced by' to every
    package REFERRING to it; on `TreeOk` and with f above the number of containers that is `containedIn` itself -/
theorem is_contained_in_as_in_source (cs : List Container) (rf : List PkgRef) (root : Nat) (kr : Container)
    (hkr : findContainer cs true root = some kr) (f : Nat) (xo : Option SI) (Lc : Loc SI) (C : Calls SI) (v : Val SI)
    (C' : Calls SI)
    (h : callAt (scopeWorld cs rf) defs f "is_contained_in" [.inst xo, .inst (some (SI.comp kr))] Lc C = .ok (v, C')) :
    (v = .bool (cont cs rf root f xo) ∧ C' = C) ∧
    (∀ p, parentOf xo = some p → TreeOk cs rf → cs.length < f → v = .bool (containedIn cs rf root p)) := by
  have h1 := contained_sound_interp cs rf root kr hkr f xo Lc C v C' h
  refine ⟨h1, fun p hp tree hf => ?_⟩
  rw [h1.1]
  simp only [cont, hp]
  rw [contained_fuel_irrelevant tree root p f hf]

/-- applied to the call of the round-3 example (package 3, global, referred to by package 2 inside component 1) -/
example : boolRun (callAt (scopeWorld [⟨true, 1, "C", .none⟩, ⟨false, 2, "P", .comp 1⟩, ⟨false, 3, "Q", .none⟩] [⟨2, 3⟩]) defs 6
      "is_contained_in" [.inst (some (SI.pe (.pkg 3))), .inst (some (SI.comp ⟨true, 1, "C", .none⟩))] Loc.empty []) =
    some (containedFuel [⟨true, 1, "C", .none⟩, ⟨false, 2, "P", .comp 1⟩, ⟨false, 3, "Q", .none⟩] [⟨2, 3⟩] 1 6 (.pkg 3)) := by
  decide +kernel

end PyxProps.C14

/-! ==========================================================================================================
  SOURCE TIE, round 5 (builder extract-shape) — appended section.  Proofs/ExtractShapeClass.lean: the identifier loop of
  `mk_class` (`for o_id in many(o_obj).O_ID[104](): …`) of the generated IR against `identOf` / `classOf … .idents`, over the
  population `classWorld` (O_ID rows of the class in modeled order, their O_OIDA rows in modeled order, R105 to the attribute with
  that id if the class has it, O_BATTR / O_DBATTR for derived attributes; hand-written).  The attribute loop (R103 order, skipped
  attributes) is generated as IR but not tied by a theorem.
  ========================================================================================================== -/
namespace PyxProps.C14
open Pyx.Extract Pyx.XShape Pyx.Gen.ExtractShape

/-- the identifier loop of mk_class, interpreted from the IR generated from the source, for EVERY class and both settings of
    `derived_attributes`: it ends normally and records, in O_ID row order, exactly one `define_unique_identifier(Key_Lett,
    Oid_ID + 1, *names)` per identifier that holds no left-out derived attribute (such an identifier is dropped AS A WHOLE —
    `continue` before any name is collected), names = the attribute names in O_OIDA order; read as the metamodel keeps them
    (`decodeIdent`: an identifier without attributes is ignored by define_unique_identifier) these are the model's
    `(classOf d drv c).idents` -/
theorem class_identifiers_as_in_source (d : ClassDiagram) (c : Class) (cf : CallF CI) (fuel : Nat) (drv : Bool) (L : Loc CI)
    (C : Calls CI) (h1 : L "o_obj" = .inst (some CI.obj)) (h2 : L "derived_attributes" = .bool drv) :
    ∃ L' new, iStmt (classWorld c) cf fuel
        (match mk_class.body with
         | [_, _, _, _, s, _, _, _] => s
         | _ => .pass) L C = .ok (L', C ++ new, .next) ∧
      new.filterMap decodeIdent = (classOf d drv c).idents ∧
      (∀ k ∈ new, k.fn = "define_unique_identifier" ∧ k.args.lookup "0" = some (.str c.kl)) := by
  obtain ⟨L', hL, _, _⟩ := idLoop c cf fuel drv c.idents L C h1 h2
  refine ⟨L', c.idents.filterMap (idCall drv c), ?_, ?_, ?_⟩
  · show iStmt (classWorld c) cf fuel (.forNav "o_id" idNav idBody) L C = _
    have hn : eNav (classWorld c) L idNav = .ok (.insts (c.idents.map CI.oid)) := by
      simp [eNav, idNav, h1, startSet, evalHops, classHop, hp]
    simp only [iStmt, hn]
    exact hL
  · rw [idCalls_identOf]; rfl
  · intro k hk
    obtain ⟨i, _, hi⟩ := List.mem_filterMap.mp hk
    unfold idCall at hi
    split at hi
    · cases hi
    · cases hi; exact ⟨rfl, rfl⟩

/-- applied: identifier 0 over (Id), identifier 1 over (Code, Total) with Total derived, identifier 2 over (Code): without derived
    attributes *2 is dropped as a whole (seed C14-o kept a truncated (Code)), numbers come from Oid_ID (seed C14-q: row position) -/
example : (classOf { containers := [], dts := [], classes := [], rels := [] } false
    { id := 1, kl := "ORD", attrs := [⟨1, "Id", .base 1⟩, ⟨2, "Code", .base 1⟩, ⟨3, "Total", .derived 1⟩],
      idents := [⟨0, [1]⟩, ⟨2, [2]⟩, ⟨1, [2, 3]⟩], parent := .none }).idents = [⟨1, ["Id"]⟩, ⟨3, ["Code"]⟩] := by
  decide +kernel
example : True := by
  have _h := class_identifiers_as_in_source { containers := [], dts := [], classes := [], rels := [] }
    { id := 1, kl := "ORD", attrs := [⟨1, "Id", .base 1⟩, ⟨2, "Code", .base 1⟩, ⟨3, "Total", .derived 1⟩],
      idents := [⟨0, [1]⟩, ⟨2, [2]⟩, ⟨1, [2, 3]⟩], parent := .none } (fun _ _ _ _ => .error .stuck) 0 false
    ((Loc.empty.set "o_obj" (.inst (some CI.obj))).set "derived_attributes" (.bool false)) [] rfl rfl
  trivial

end PyxProps.C14

/-! ==========================================================================================================
  SOURCE TIE, round 6 (builder extract-shape) — appended section.  Proofs/ExtractShapeAttrs.lean: the attribute loop of `mk_class`
  (`while o_attr: …` along R103 'precedes') of the generated IR against `sattr` / `classOf … .attrs`, over the population
  `attrWorld` (the attributes of the class by position on the R103 chain = the model's `Class.attrs`; hand-written).  The two type
  calls get_attribute_type / _get_data_type_name are read through an ORACLE (`TyOracle`: they return the model's `attrTy`;
  `_get_data_type_name` itself is tied by `type_mapping_as_in_source`, get_attribute_type is not).  Not covered: the choice of the
  first attribute (`first_filter`: the one that succeeds none) and the hand-over `list(attributes)` to define_class.
  ========================================================================================================== -/
namespace PyxProps.C14
open Pyx.Extract Pyx.XShape Pyx.Gen.ExtractShape

/-- the attribute loop of mk_class, interpreted from the IR generated from the source, for EVERY class of every diagram and both
    settings of `derived_attributes`, started at the first attribute of the R103 chain with `attributes = list()`: it terminates
    (fuel above the number of attributes), defines nothing, and leaves in `attributes`, in R103 order, exactly the (name, type)
    pairs of the model's `(classOf d drv c).attrs` — a derived attribute is skipped unless requested, an attribute without a
    supported type is skipped, the pair is (o_attr.Name, ty) — given that the two type calls return the model's type (`TyOracle`) -/
theorem class_attributes_as_in_source (d : ClassDiagram) (c : Class) (cf : CallF AI) (fuel : Nat) (O : TyOracle d c cf)
    (drv : Bool) (L : Loc AI) (C : Calls AI) (hf : c.attrs.length < fuel)
    (h1 : L "o_attr" = .inst (if c.attrs = [] then none else some (AI.pos 0)))
    (h2 : L "derived_attributes" = .bool drv) (h3 : L "attributes" = .strs []) :
    ∃ L', iStmt (attrWorld c) cf fuel
        (match mk_class.body with
         | [_, _, s, _, _, _, _, _] => s
         | _ => .pass) L C = .ok (L', C, .next) ∧
      L' "attributes" = accVal ((classOf d drv c).attrs.map pairOf) := by
  obtain ⟨L', hL, hacc⟩ := attrLoop d c cf fuel O drv c.attrs [] L C [] fuel (by simp) (by simpa using h1) h2 h3 hf
  refine ⟨L', ?_, by simpa [classOf] using hacc⟩
  show iStmt (attrWorld c) cf fuel (.whileVar "o_attr" attrBody) L C = _
  simp only [iStmt]
  exact hL

/-- applied: Id (integer), Total (derived, left out), Note (no supported type, left out), Code (string) — with an oracle built from
    the model's own `attrTy` -/
def tieAttrD : ClassDiagram :=
  { containers := [], dts := [⟨1, "integer", .core 2, .none⟩, ⟨2, "string", .core 4, .none⟩, ⟨3, "odd", .other, .none⟩],
    classes := [], rels := [] }
def tieAttrC : Class :=
  { id := 1, kl := "ORD", attrs := [⟨1, "Id", .base 1⟩, ⟨2, "Total", .derived 1⟩, ⟨3, "Note", .base 3⟩, ⟨4, "Code", .base 2⟩],
    idents := [], parent := .none }
example : (classOf tieAttrD false tieAttrC).attrs = [⟨"Id", "INTEGER"⟩, ⟨"Code", "STRING"⟩] := by decide +kernel
def tieAttrCf : CallF AI := fun f args _ C =>
  if f = "get_attribute_type" then
    (match args with
     | [.inst (some (AI.pos k))] => .ok (.nat k, C)
     | _ => .error .stuck)
  else if f = "_get_data_type_name" then
    (match args with
     | [.nat k] => .ok (tyVal ((tieAttrC.attrs[k]?).bind (attrTy tieAttrD)), C)
     | _ => .error .stuck)
  else .error .stuck
example : True := by
  have _h := class_attributes_as_in_source tieAttrD tieAttrC tieAttrCf 5
    { tok := fun k => .nat k, h1 := fun _ _ _ => rfl, h2 := fun _ _ _ => rfl } false
    (((Loc.empty.set "o_attr" (.inst (some (AI.pos 0)))).set "derived_attributes" (.bool false)).set "attributes" (.strs [])) []
    (by decide) (by simp [Loc.set, tieAttrC]) (by simp [Loc.set]) (by simp [Loc.set])
  trivial

end PyxProps.C14
