import Proofs.Attr

/-!
  C10 — Names are case-insensitive and every spelling addresses one stored value.
  Property theorems only (helper lemmas: Proofs/Attr.lean; model: PyxModel/Attr.lean, written from
  xtuml/meta.py `Class.__getattr__/__setattr__/__delattr__`, `MetaClass.new`, `MetaModel.find_metaclass/
  define_class`, `WhereEqual`).  Names are ASCII; `fold` is `str.upper()` on ASCII.

  Domain of `one_cell` (predicate `Valid`): histories of ANY length whose writes address declared attributes
  (writes to referential ones are rejected and change nothing), whose reads are arbitrary, and whose deletes
  address a non-referential attribute THAT CURRENTLY HOLDS A VALUE.  Outside it the code does something the
  property does not describe: `Class.__delattr__` on a name with no matching `__dict__` key deletes the LAST
  key of `__dict__` (see the `example` at the end); after a delete, a read raises AttributeError (`cellRead none`).
-/
namespace PyxProps.C10
open Pyx.Attr

/-- After ANY covered history, with independently chosen spellings at every step: the dictionary holds no key
    that folds to a declared name other than the declared name itself (and no referential key); reading a
    non-referential attribute under EVERY spelling yields the last value written to its case-folded name
    (AttributeError when the last event was a delete); that is also what `serialize_instance` reads (it reads
    under the declared name) and what a `where_eq` item under any spelling compares against. -/
theorem one_cell (c : Cls) (hwf : WF c) (d0 : Dict) (hg : Good c d0) (h : List Op)
    (hv : Valid c (absOf c d0) h) :
    Good c (run c d0 h) ∧
    ∀ a ∈ c.names, a ∉ c.refs → ∀ sp, fold sp = fold a →
      getattr c (run c d0 h) sp = cellRead (lastValue c (fold a) (dget d0 a) h) ∧
      getattr c (run c d0 h) sp = getattr c (run c d0 h) a ∧
      ∀ v, whereItemHolds c (run c d0 h) sp v = decide (lastValue c (fold a) (dget d0 a) h = some v) := by
  obtain ⟨hg', hs'⟩ := run_sim hwf h d0 (absOf c d0) hg (sim_absOf hwf d0) hv
  refine ⟨hg', ?_⟩
  intro a ha hr sp hf
  have hcell : dget (run c d0 h) a = lastValue c (fold a) (dget d0 a) h := by
    rw [hs' a ha, absRun_eq_lastValue, ← sim_absOf hwf d0 a ha]
  have h1 : getattr c (run c d0 h) sp = cellRead (lastValue c (fold a) (dget d0 a) h) := by
    rw [getattr_plain hwf hg' ha hr hf, hcell]
  have h2 : getattr c (run c d0 h) a = cellRead (lastValue c (fold a) (dget d0 a) h) := by
    rw [getattr_plain hwf hg' ha hr rfl, hcell]
  refine ⟨h1, h1.trans h2.symm, ?_⟩
  intro v
  unfold whereItemHolds
  rw [h1]
  cases lastValue c (fold a) (dget d0 a) h with
  | none => simp [cellRead]
  | some x => simp [cellRead]

/-- every prefix of a covered history is covered: the conclusions of `one_cell` hold at every moment, so
    `__dict__` NEVER holds a stray spelling of a declared name -/
theorem one_cell_every_moment (c : Cls) (m : Cells) (h1 h2 : List Op) (hv : Valid c m (h1 ++ h2)) :
    Valid c m h1 := valid_append h1 h2 m hv

/-- `serialize_instance` after any covered history: per declared attribute the cell (the property for a
    referential attribute) -/
theorem serialised_is_cell (c : Cls) (hwf : WF c) (d0 : Dict) (hg : Good c d0) (h : List Op)
    (hv : Valid c (absOf c d0) h) :
    serialReads c (run c d0 h) = c.names.map fun a =>
      if a ∈ c.refs then Read.prop a else cellRead (lastValue c (fold a) (dget d0 a) h) := by
  unfold serialReads
  apply List.map_congr_left
  intro a ha
  by_cases hr : a ∈ c.refs
  · simp [getattr, hr]
  · rw [if_neg hr]
    exact ((one_cell c hwf d0 hg h hv).2 a ha hr a rfl).1

/-- writing a referential attribute under ANY spelling raises the metamodel exception and changes nothing;
    `Good` holds in every state reachable by a covered history (`one_cell`), so this applies at any moment -/
theorem referential_write_rejected (c : Cls) (hwf : WF c) (d : Dict) (hg : Good c d) (a : Name)
    (hr : a ∈ c.refs) (sp : Name) (hf : fold sp = fold a) (v : Val) :
    setattr c d sp v = (d, SetRes.metaExc) := setattr_ref hwf hg v hr hf

/-- constructor arguments: defaults, positional values and keywords under ANY spelling of non-referential
    attributes are one history of writes on the cells — the constructor succeeds, leaves a good dictionary,
    and each attribute reads (under every spelling) the last value assigned to its case-folded name -/
theorem constructor_keywords_one_cell (c : Cls) (hwf : WF c) (defaults : List (Name × Val)) (args : List Val)
    (kwargs : List (Name × Val)) (hp : ∀ it ∈ defaults ++ c.names.zip args ++ kwargs, Plain c it.1) :
    (newCore c defaults args kwargs).2 = SetRes.ok ∧
    Good c (newCore c defaults args kwargs).1.dict ∧
    ∀ a ∈ c.names, a ∉ c.refs → ∀ sp, fold sp = fold a →
      getattr c (newCore c defaults args kwargs).1.dict sp =
        cellRead (lastValue c (fold a) none
          ((defaults ++ c.names.zip args ++ kwargs).map fun it => Op.write it.1 it.2)) := by
  unfold newCore
  rw [assignAll_plain hwf _ ⟨[], []⟩ hp]
  have hv := valid_writes (c := c) (defaults ++ c.names.zip args ++ kwargs) (absOf c []) hp
  obtain ⟨hg, hall⟩ := one_cell c hwf [] (good_nil c) _ hv
  refine ⟨rfl, hg, ?_⟩
  intro a ha hr sp hf
  exact (hall a ha hr sp hf).1

/-- class names: after ANY sequence of `define_class` calls, `find_metaclass` under every spelling of a kind
    returns the first class defined under that case-folded name (a later definition under another spelling is
    rejected), and two spellings of one kind always address the same class -/
theorem class_lookup_case (defs : List (Name × List (Name × Name))) (k1 k2 : Name) (hk : fold k1 = fold k2) :
    findMetaclass (defineAll [] defs) k1 = findMetaclass (defineAll [] defs) k2 ∧
    findMetaclass (defineAll [] defs) k1 = firstDef (fold k1) defs := by
  unfold findMetaclass
  refine ⟨by rw [hk], ?_⟩
  rw [defineAll_get]
  rfl

/-- redefinition under another spelling is rejected with the metamodel exception -/
theorem define_class_case (cs : Classes) (k1 k2 : Name) (hk : fold k1 = fold k2) (as1 as2 : List (Name × Name))
    (cs' : Classes) (h : defineClass cs k1 as1 = some cs') : defineClass cs' k2 as2 = none := by
  unfold defineClass at h ⊢
  cases hg : clsGet cs (fold k1) with
  | some c => simp [hg] at h
  | none =>
    simp only [hg, Option.some.injEq] at h
    subst h
    rw [← hk, clsGet_append_self cs _ _ hg]

/-- creation and selection address the class through `find_metaclass`: every spelling behaves the same -/
theorem new_select_case (w : World) (k1 k2 : Name) (hk : fold k1 = fold k2) (args : List Val)
    (kwargs filt : List (Name × Val)) :
    newInst w k1 args kwargs = newInst w k2 args kwargs ∧ selectMany w k1 filt = selectMany w k2 filt := by
  unfold newInst newInstWith selectMany findMetaclass
  rw [hk]
  exact ⟨rfl, rfl⟩

/-! non-vacuity: a concrete class, dictionary and history meeting the hypotheses -/

def cB : Cls :=
  { kind := ['B', 'b']
    attrs := [(['I', 'd'], ['u', 'n', 'i', 'q', 'u', 'e', '_', 'i', 'd']), (['N', 'm'], ['s', 't', 'r', 'i', 'n', 'g']),
              (['A', '_', 'I', 'd'], ['u', 'n', 'i', 'q', 'u', 'e', '_', 'i', 'd'])]
    refs := [['A', '_', 'I', 'd']] }
def dB : Dict := [(['I', 'd'], .int 7), (['N', 'm'], .str [])]
def hB : List Op :=
  [.write ['N', 'M'] (.int 1), .write ['n', 'm'] (.int 2), .read ['n', 'M'], .write ['a', '_', 'i', 'D'] (.int 9),
   .delete ['n', 'M'], .write ['n', 'M'] (.int 3), .write ['i', 'D'] (.int 4)]

example : WF cB := by unfold WF; decide
example : Good cB dB := by unfold Good; decide
example : Valid cB (absOf cB dB) hB := by
  refine ⟨⟨['N', 'm'], by decide, by decide⟩, ⟨['N', 'm'], by decide, by decide⟩, ⟨['A', '_', 'I', 'd'], by decide, by decide⟩,
    ⟨['N', 'm'], by decide, by decide, by decide⟩, by decide, ⟨['N', 'm'], by decide, by decide⟩,
    ⟨['I', 'd'], by decide, by decide⟩, trivial⟩
example : run cB dB hB = [(['I', 'd'], .int 4), (['N', 'm'], .int 3)] := by decide
example : getattr cB (run cB dB hB) ['N', 'M'] = .val (.int 3) ∧ fold ['n', 'M'] = fold ['N', 'm'] := by decide
/-- why deletes of absent names are outside the domain: `del inst.zz` removes the LAST key of `__dict__` -/
example : delattr dB ['z', 'z'] = ([(['I', 'd'], .int 7)], .ok) := by decide
example : delattr [] ['z', 'z'] = ([], .keyError) := by decide
/-- a constructor keyword for a referential attribute is recognised only in the association's own spelling -/
example : (newCore cB [] [] [(['a', '_', 'i', 'd'], .int 1)]).2 = .metaExc ∧
    (newCore cB [] [] [(['A', '_', 'I', 'd'], .int 1)]) = (⟨[], [(['A', '_', 'I', 'd'], .int 1)]⟩, .ok) := by decide

end PyxProps.C10
