import Proofs.Attr
import Proofs.AttrShape

/-!
  C10 — Names are case-insensitive and every spelling addresses one stored value.
  Property theorems only (helper lemmas: Proofs/Attr.lean; model: PyxModel/Attr.lean, written from
  xtuml/meta.py `Class.__getattr__/__setattr__/__delattr__`, `MetaClass.new`, `MetaModel.find_metaclass/
  define_class`, `WhereEqual`).  Names are ASCII; `fold` is `str.upper()` on ASCII.

  `one_cell` covers EVERY history of writes, reads and deletes, of any length, under any spellings: writes to
  a referential attribute are rejected and change nothing, a delete of an attribute that holds no value (a
  referential attribute never does) is rejected with AttributeError and changes nothing, names that are no
  spelling of a declared attribute live in cells of their own.  After a delete, a read raises AttributeError
  (`cellRead none`).  Hypotheses: the declared names of the class are distinct after case folding, referential
  names are declared names (`WF`), and the initial dictionary is `Good` (as every constructor leaves it).
-/
namespace PyxProps.C10
open Pyx.Attr

/-- After ANY history, with independently chosen spellings at every step: the dictionary holds no key that
    folds to a declared name other than the declared name itself (and no referential key); reading a
    non-referential attribute under EVERY spelling yields the last value written to its case-folded name
    (AttributeError when the last event was a delete); that is also what `serialize_instance` reads (it reads
    under the declared name) and what a `where_eq` item under any spelling compares against.  Every prefix of a
    history is a history, so this holds at every moment: `__dict__` NEVER holds a stray spelling. -/
theorem one_cell (c : Cls) (hwf : WF c) (d0 : Dict) (hg : Good c d0) (h : List Op) :
    Good c (run c d0 h) ∧
    ∀ a ∈ c.names, a ∉ c.refs → ∀ sp, fold sp = fold a →
      getattr c (run c d0 h) sp = cellRead (lastValue c (fold a) (dget d0 a) h) ∧
      getattr c (run c d0 h) sp = getattr c (run c d0 h) a ∧
      ∀ v, whereItemHolds c (run c d0 h) sp v = decide (lastValue c (fold a) (dget d0 a) h = some v) := by
  obtain ⟨hg', hs'⟩ := run_sim hwf h d0 (absOf c d0) hg (sim_absOf hwf d0)
  refine ⟨hg', ?_⟩
  intro a ha hr sp hf
  have hcell : dget (run c d0 h) a = lastValue c (fold a) (dget d0 a) h := by
    rw [hs' a ha, absRun_eq_lastValue, ← sim_absOf hwf d0 a ha]
  have h1 : getattr c (run c d0 h) sp = cellRead (lastValue c (fold a) (dget d0 a) h) := by
    rw [getattr_plain hwf hg' ha hr hf, hcell]
  have h2 : getattr c (run c d0 h) a = cellRead (lastValue c (fold a) (dget d0 a) h) := by
    rw [getattr_plain hwf hg' ha hr rfl, hcell]
  refine ⟨h1, h1.trans h2.symm, ?_⟩
  intro v
  unfold whereItemHolds
  rw [h1]
  cases lastValue c (fold a) (dget d0 a) h with
  | none => simp [cellRead]
  | some x => simp [cellRead]

/-- what a delete does, in every reachable (`Good`) state and under ANY spelling `sp` of a declared attribute `a`:
    if `a` holds a value exactly its key is removed; if it holds none — in particular when `a` is referential —
    AttributeError is raised and the dictionary is untouched (no other attribute loses its value) -/
theorem delete_spec (c : Cls) (d : Dict) (hg : Good c d) (a : Name) (ha : a ∈ c.names)
    (sp : Name) (hf : fold sp = fold a) :
    (dget d a ≠ none → delattr d sp = (ddel d a, DelRes.ok)) ∧
    (dget d a = none → delattr d sp = (d, DelRes.attrError)) ∧
    (a ∈ c.refs → delattr d sp = (d, DelRes.attrError)) := by
  refine ⟨delattr_plain hg ha hf, delattr_absent hg ha hf, ?_⟩
  intro hr
  exact delattr_absent hg ha hf ((dget_none_iff d a).mpr (fun hk => hg.2 a hk hr))

/-- `serialize_instance` after any history: per declared attribute the cell (the property for a
    referential attribute) -/
theorem serialised_is_cell (c : Cls) (hwf : WF c) (d0 : Dict) (hg : Good c d0) (h : List Op) :
    serialReads c (run c d0 h) = c.names.map fun a =>
      if a ∈ c.refs then Read.prop a else cellRead (lastValue c (fold a) (dget d0 a) h) := by
  unfold serialReads
  apply List.map_congr_left
  intro a ha
  by_cases hr : a ∈ c.refs
  · simp [getattr, hr]
  · rw [if_neg hr]
    exact ((one_cell c hwf d0 hg h).2 a ha hr a rfl).1

/-- writing a referential attribute under ANY spelling raises the metamodel exception and changes nothing;
    `Good` holds in every state reachable by any history (`one_cell`), so this applies at any moment -/
theorem referential_write_rejected (c : Cls) (hwf : WF c) (d : Dict) (hg : Good c d) (a : Name)
    (hr : a ∈ c.refs) (sp : Name) (hf : fold sp = fold a) (v : Val) :
    setattr c d sp v = (d, SetRes.metaExc) := setattr_ref hwf hg v hr hf

/-- an instance that existed BEFORE the association was formalised keeps the value it was created with in `__dict__`
    under the declared name (`NoStray`, not `Good`): the property shadows it under EVERY spelling - reads go to the
    property, writes are refused and change nothing (since the repair of `Class.__getattr__` / `__setattr__`, which
    used to return / overwrite the stale dictionary entry for every spelling but the declared one) -/
theorem late_formalised_shadowed (c : Cls) (hwf : WF c) (d : Dict) (hn : NoStray c d) (a : Name)
    (hr : a ∈ c.refs) (sp : Name) (hf : fold sp = fold a) (v : Val) :
    getattr c d sp = Read.prop a ∧ setattr c d sp v = (d, SetRes.metaExc) :=
  ⟨getattr_ref_shadow hwf hn hr hf, setattr_ref_any hwf d v hr hf⟩

/-- constructor arguments: defaults (under declared names), positional values and keywords under ANY names and
    spellings act as one history of writes on the cells — the constructor never raises, leaves a good
    dictionary, and each non-referential attribute reads (under every spelling) the last value assigned to its
    case-folded name; items that name a referential attribute (keywords in any spelling) go to the local
    dictionary that drives the batch relate and are not written -/
theorem constructor_keywords_one_cell (c : Cls) (hwf : WF c) (defaults : List (Name × Val)) (args : List Val)
    (kwargs : List (Name × Val)) (hd : ∀ it ∈ defaults, it.1 ∈ c.names) :
    (newCore c defaults args kwargs).2 = SetRes.ok ∧
    Good c (newCore c defaults args kwargs).1.dict ∧
    ∀ a ∈ c.names, a ∉ c.refs → ∀ sp, fold sp = fold a →
      getattr c (newCore c defaults args kwargs).1.dict sp =
        cellRead (lastValue c (fold a) none (writesOf c (newItems c defaults args kwargs))) := by
  have hres : ∀ it ∈ newItems c defaults args kwargs, Resolved c it.1 := by
    intro it hi
    simp only [newItems, List.mem_append, List.mem_map] at hi
    rcases hi with (hi | hi) | ⟨kw, _, rfl⟩
    · exact Or.inl (hd it hi)
    · exact Or.inl (List.of_mem_zip hi).1
    · exact resolved_resolveKw c kw
  obtain ⟨rd, hass⟩ := assignAll_resolved hwf _ ⟨[], []⟩ hres
  unfold newCore
  rw [hass]
  obtain ⟨hg, hall⟩ := one_cell c hwf [] (good_nil c) (writesOf c (newItems c defaults args kwargs))
  refine ⟨rfl, hg, ?_⟩
  intro a ha hr sp hf
  exact (hall a ha hr sp hf).1

/-- a constructor keyword may be spelled in any letter case, for non-referential AND referential attributes:
    every spelling of a declared name is first replaced by the declared name, and the constructor only ever sees
    the replaced list — so `new(…, a_id=1)` and `new(…, A_Id=1)` are the same call -/
theorem constructor_keyword_spelling (c : Cls) (hwf : WF c) :
    (∀ a ∈ c.names, ∀ sp, fold sp = fold a → ∀ v, resolveKw c (sp, v) = (a, v)) ∧
    (∀ defaults args kwargs, newCore c defaults args kwargs = newCore c defaults args (kwargs.map (resolveKw c))) := by
  constructor
  · intro a ha sp hf v
    unfold resolveKw
    rw [declMatch_eq hwf ha hf]; rfl
  · intro defaults args kwargs
    have hidem : ∀ kw, resolveKw c (resolveKw c kw) = resolveKw c kw := by
      intro kw
      unfold resolveKw
      cases hd : declMatch c kw.1 with
      | none => simp [hd]
      | some a =>
        have h1 : declMatch c a = declMatch c kw.1 := by
          unfold declMatch; rw [(declMatch_some hd).2]
        simp [h1, hd]
    unfold newCore newItems
    rw [List.map_map]
    congr 2
    apply List.map_congr_left
    intro kw _
    exact (hidem kw).symm

/-- class names: after ANY sequence of `define_class` calls, `find_metaclass` under every spelling of a kind
    returns the first class defined under that case-folded name (a later definition under another spelling is
    rejected), and two spellings of one kind always address the same class -/
theorem class_lookup_case (defs : List (Name × List (Name × Name))) (k1 k2 : Name) (hk : fold k1 = fold k2) :
    findMetaclass (defineAll [] defs) k1 = findMetaclass (defineAll [] defs) k2 ∧
    findMetaclass (defineAll [] defs) k1 = firstDef (fold k1) defs := by
  unfold findMetaclass
  refine ⟨by rw [hk], ?_⟩
  rw [defineAll_get]
  rfl

/-- redefinition under another spelling is rejected with the metamodel exception -/
theorem define_class_case (cs : Classes) (k1 k2 : Name) (hk : fold k1 = fold k2) (as1 as2 : List (Name × Name))
    (cs' : Classes) (h : defineClass cs k1 as1 = some cs') : defineClass cs' k2 as2 = none := by
  unfold defineClass at h ⊢
  cases hg : clsGet cs (fold k1) with
  | some c => simp [hg] at h
  | none =>
    cases hd : badNames (as1.map (·.1)) with
    | true => simp [hg, hd] at h
    | false =>
      simp only [hg, hd, Bool.false_eq_true, ↓reduceIte, Option.some.injEq] at h
      subst h
      rw [← hk, clsGet_append_self cs _ _ hg]

/-- a class whose attribute names coincide apart from letter case, or one of whose attribute names python reserves for
    itself (`__x__`, longer than four characters), is rejected and nothing is defined; a class that `define_class`
    accepts therefore satisfies the hypothesis `WF` of the theorems above (its declared names are distinct after case
    folding; it has no referential attributes yet) and has no reserved attribute name -/
theorem define_class_checks_names (cs cs' : Classes) (k : Name) (attrs : List (Name × Name)) :
    (dupFold (attrs.map (·.1)) = true → defineClass cs k attrs = none) ∧
    ((∃ a ∈ attrs, isReserved a.1 = true) → defineClass cs k attrs = none) ∧
    (defineClass cs k attrs = some cs' →
      WF { kind := k, attrs := attrs, refs := [] } ∧ findMetaclass cs' k = some { kind := k, attrs := attrs, refs := [] } ∧
      ∀ a ∈ attrs, isReserved a.1 = false) := by
  refine ⟨?_, ?_, ?_⟩
  · intro hd
    unfold defineClass badNames
    cases clsGet cs (fold k) <;> simp [hd]
  · intro ⟨a, ha, hr⟩
    have : (attrs.map (·.1)).any isReserved = true := by
      rw [List.any_eq_true]
      exact ⟨a.1, List.mem_map_of_mem ha, hr⟩
    unfold defineClass badNames
    cases clsGet cs (fold k) <;> simp [this]
  · intro h
    unfold defineClass at h
    cases hg : clsGet cs (fold k) with
    | some c => simp [hg] at h
    | none =>
      cases hd : badNames (attrs.map (·.1)) with
      | true => simp [hg, hd] at h
      | false =>
        simp only [hg, hd, Bool.false_eq_true, ↓reduceIte, Option.some.injEq] at h
        subst h
        unfold badNames at hd
        rw [Bool.or_eq_false_iff] at hd
        refine ⟨⟨nodup_of_not_dupFold _ hd.2, fun r hr => by simp at hr⟩, ?_, ?_⟩
        · unfold findMetaclass
          exact clsGet_append_self cs _ _ hg
        · intro a ha
          cases hr : isReserved a.1 with
          | false => rfl
          | true =>
            have : (attrs.map (·.1)).any isReserved = true := by
              rw [List.any_eq_true]
              exact ⟨a.1, List.mem_map_of_mem ha, hr⟩
            rw [this] at hd
            exact absurd hd.1 (by decide)

/-- creation and selection address the class through `find_metaclass`: every spelling behaves the same -/
theorem new_select_case (w : World) (k1 k2 : Name) (hk : fold k1 = fold k2) (args : List Val)
    (kwargs filt : List (Name × Val)) :
    newInst w k1 args kwargs = newInst w k2 args kwargs ∧ selectMany w k1 filt = selectMany w k2 filt := by
  unfold newInst newInstWith selectMany findMetaclass
  rw [hk]
  exact ⟨rfl, rfl⟩

/-! non-vacuity: a concrete class, dictionary and history meeting the hypotheses -/

def cB : Cls :=
  { kind := ['B', 'b']
    attrs := [(['I', 'd'], ['u', 'n', 'i', 'q', 'u', 'e', '_', 'i', 'd']), (['N', 'm'], ['s', 't', 'r', 'i', 'n', 'g']),
              (['A', '_', 'I', 'd'], ['u', 'n', 'i', 'q', 'u', 'e', '_', 'i', 'd'])]
    refs := [['A', '_', 'I', 'd']] }
def dB : Dict := [(['I', 'd'], .int 7), (['N', 'm'], .str [])]
def hB : List Op :=
  [.write ['N', 'M'] (.int 1), .write ['n', 'm'] (.int 2), .read ['n', 'M'], .write ['a', '_', 'i', 'D'] (.int 9),
   .delete ['n', 'M'], .delete ['N', 'M'], .delete ['a', '_', 'I', 'D'], .write ['n', 'M'] (.int 3),
   .write ['i', 'D'] (.int 4), .delete ['z', 'z']]

example : WF cB := by unfold WF; decide
example : Good cB dB := by unfold Good; decide
example : run cB dB hB = [(['I', 'd'], .int 4), (['N', 'm'], .int 3)] := by decide
example : getattr cB (run cB dB hB) ['N', 'M'] = .val (.int 3) ∧ fold ['n', 'M'] = fold ['N', 'm'] := by decide
/-- regression examples for the two repaired behaviours: a delete that finds no value (second delete of the same
    attribute, delete of a referential attribute, delete on an empty dictionary) raises AttributeError and
    removes nothing -/
example : delattr [(['I', 'd'], .int 7)] ['n', 'M'] = ([(['I', 'd'], .int 7)], .attrError) := by decide
example : delattr dB ['a', '_', 'i', 'D'] = (dB, .attrError) := by decide
example : delattr [] ['z', 'z'] = ([], .attrError) := by decide
/-- … and a constructor keyword for a referential attribute is recognised in any spelling -/
example : (newCore cB [] [] [(['a', '_', 'i', 'd'], .int 1)]) = (⟨[], [(['A', '_', 'I', 'd'], .int 1)]⟩, .ok) ∧
    (newCore cB [] [] [(['A', '_', 'I', 'd'], .int 1)]) = (⟨[], [(['A', '_', 'I', 'd'], .int 1)]⟩, .ok) := by decide

end PyxProps.C10

/-! ==========================================================================================================
  SOURCE TIE of case-insensitive name handling

  translator/gen_attrshape.py reads `Class.__getattr__ / __setattr__ / __delattr__`, `MetaClass.attribute_type` and
  `MetaModel.find_metaclass / find_class / define_class` with `ast` on every run and emits their statement structure
  as IR (lean/Gen/AttrShape.lean): how names are matched, under which spelling `__dict__` is tested, read and written,
  where `object.__setattr__` (and with it the refusing property of a referential attribute) is reached, which key of
  the class table is upper-cased.  Anything outside the expected shape raises (broken tie).  Proofs/AttrShape.lean
  defines ONE generic interpreter; Python's own `object.__getattribute__ / __setattr__` and "the hook runs after the
  normal lookup failed" are fixed there.  The theorems state that the model of PyxModel/Attr.lean IS the
  interpretation of the IR generated from the current source.
  ========================================================================================================== -/
namespace PyxProps.C10
open Pyx.Attr Pyx.AShape Pyx.Gen.AttrShape

theorem attribute_access_as_in_source (c : Cls) (d : Dict) (sp : Name) (v : Val) :
    iGetattr getShape c d sp = some (getattr c d sp) ∧
    setattr c d sp v = iSetattr setShape c d sp v ∧
    delattr d sp = iDelattr delMatch d sp ∧
    attrType c sp = iAttrType attributeTypeMatch c sp :=
  ⟨getattr_eq c d sp, setattr_eq c d sp v, delattr_eq d sp, attrType_eq c sp⟩

theorem class_table_as_in_source (cs : Classes) (kind : Name) (attrs : List (Name × Name)) :
    findMetaclass cs kind = iFind findTestKey findReadKey cs kind ∧
    defineClass cs kind attrs =
      iDefine defineTestKey defineStoredKind defineStoreKey defineAttrCollision defineReserved cs kind attrs :=
  ⟨findMetaclass_eq cs kind, defineClass_eq cs kind attrs⟩

/-! non-vacuity: the interpreter runs the generated shapes; other shapes are other functions (a write that stored
    under the GIVEN spelling after overwriting — the original defect —, a duplicate test on the name as given) -/
example : iGetattr getShape cB dB ['N', 'M'] = some (.val (.str [])) ∧ iGetattr getShape cB dB ['a', '_', 'i', 'd'] = some (.prop ['A', '_', 'I', 'd']) ∧
    iSetattr setShape cB dB ['n', 'M'] (.int 5) = ([(['I', 'd'], .int 7), (['N', 'm'], .int 5)], .ok) ∧
    iSetattr setShape cB dB ['a', '_', 'i', 'd'] (.int 5) = (dB, .metaExc) ∧
    iDelattr delMatch dB ['I', 'D'] = ([(['N', 'm'], .str [])], .ok) := by decide
/-- a fall-through `return self.__dict__[name]` is another function: an unknown name gives KeyError (`none`) where the source
    gives AttributeError; so is a matched branch that reads under the GIVEN spelling while it tested the declared one -/
example : iGetattr getShape cB dB ['z', 'z'] = some .attrError ∧
    iGetattr { getShape with noMatch := .dictValueGiven } cB dB ['z', 'z'] = none ∧
    iGetattr { getShape with inDict := .dictValue .given } cB dB ['N', 'M'] = none := by decide
example : iSetattr { setShape with inDict := .dictStore .given } cB dB ['n', 'M'] (.int 5) =
    ([(['I', 'd'], .int 7), (['N', 'm'], .str []), (['n', 'M'], .int 5)], .ok) := by decide
example : iDefine .asGiven defineStoredKind defineStoreKey defineAttrCollision defineReserved [(['A', 'B'], cB)] ['a', 'b'] [] ≠ none ∧
    iDefine defineTestKey defineStoredKind defineStoreKey defineAttrCollision defineReserved [(['A', 'B'], cB)] ['a', 'b'] [] = none ∧
    iDefine defineTestKey defineStoredKind defineStoreKey defineAttrCollision defineReserved [] ['C'] [(['N', 'm'], ['s']), (['n', 'M'], ['s'])] = none ∧
    iDefine defineTestKey defineStoredKind defineStoreKey none defineReserved [] ['C'] [(['N', 'm'], ['s']), (['n', 'M'], ['s'])] ≠ none := by decide
/-- reserved names: `__class__` is refused, `____` (four characters) and `__a` are not; without the check (IR `none`), or
    with another length bound, it is another function -/
example : iDefine defineTestKey defineStoredKind defineStoreKey defineAttrCollision defineReserved [] ['C']
      [(['_', '_', 'c', 'l', 'a', 's', 's', '_', '_'], ['s'])] = none ∧
    iDefine defineTestKey defineStoredKind defineStoreKey defineAttrCollision none [] ['C']
      [(['_', '_', 'c', 'l', 'a', 's', 's', '_', '_'], ['s'])] ≠ none ∧
    iDefine defineTestKey defineStoredKind defineStoreKey defineAttrCollision defineReserved [] ['C']
      [(['_', '_', '_', '_'], ['s']), (['_', '_', 'a'], ['s'])] ≠ none ∧
    iDefine defineTestKey defineStoredKind defineStoreKey defineAttrCollision (some { minLen := 3, pre := ['_', '_'], suf := ['_', '_'] })
      [] ['C'] [(['_', '_', '_', '_'], ['s'])] = none := by decide
example : isReserved ['_', '_', 'x', '_', '_'] = true ∧ isReserved ['_', '_', '_', '_'] = false ∧
    isReserved ['_', '_', 'i', 'n', 'i', 't', '_'] = false ∧ isReserved ['I', 'd'] = false := by decide

end PyxProps.C10

/-! ==========================================================================================================
  APPLIED examples (audit round 2, item 12): the main theorems instantiated, every hypothesis discharged for the
  concrete class `cB` (three attributes, one referential), dictionary `dB` and history `hB` above
  ========================================================================================================== -/
namespace PyxProps.C10
open Pyx.Attr

theorem cB_wf : WF cB := by unfold WF; decide
/-- `late_formalised_shadowed` applied: the dictionary of an instance created before `formalize` (it stores A_Id = 2) -/
def dLate : Dict := dB ++ [(['A', '_', 'I', 'd'], .int 2)]
example : NoStray cB dLate ∧ ¬ Good cB dLate := by unfold NoStray Good; decide
example : getattr cB dLate ['a', '_', 'i', 'd'] = Read.prop ['A', '_', 'I', 'd'] ∧
    setattr cB dLate ['a', '_', 'i', 'd'] (.int 5) = (dLate, SetRes.metaExc) :=
  late_formalised_shadowed cB cB_wf dLate (by unfold NoStray; decide) ['A', '_', 'I', 'd'] (by decide) ['a', '_', 'i', 'd'] (by decide) (.int 5)
theorem dB_good : Good cB dB := by unfold Good; decide

/-- `one_cell` on (cB, dB, hB): after the history the attribute `Nm`, read under the spelling `nM`, holds the last value
    written to its case-folded name, which is what the declared spelling reads -/
example : getattr cB (run cB dB hB) ['n', 'M'] = cellRead (lastValue cB (fold ['N', 'm']) (dget dB ['N', 'm']) hB) ∧
    getattr cB (run cB dB hB) ['n', 'M'] = getattr cB (run cB dB hB) ['N', 'm'] :=
  let h := (one_cell cB cB_wf dB dB_good hB).2 ['N', 'm'] (by decide) (by decide) ['n', 'M'] (by decide)
  ⟨h.1, h.2.1⟩
/-- `delete_spec` on the reached state (it is `Good` by `one_cell`): a delete under `ID` removes exactly the key `Id`; a
    delete of the referential attribute under another spelling raises AttributeError and changes nothing -/
example : delattr (run cB dB hB) ['I', 'D'] = (ddel (run cB dB hB) ['I', 'd'], DelRes.ok) ∧
    delattr (run cB dB hB) ['a', '_', 'i', 'D'] = (run cB dB hB, DelRes.attrError) :=
  ⟨(delete_spec cB _ (one_cell cB cB_wf dB dB_good hB).1 ['I', 'd'] (by decide) ['I', 'D'] (by decide)).1 (by decide),
   (delete_spec cB _ (one_cell cB cB_wf dB dB_good hB).1 ['A', '_', 'I', 'd'] (by decide) ['a', '_', 'i', 'D'] (by decide)).2.2
     (by decide)⟩
/-- `constructor_keywords_one_cell` and `constructor_keyword_spelling` on `new(B, 7, nM='x')`: the constructor succeeds, the
    dictionary is good, `Nm` reads under `NM` the keyword value, and the keyword resolves to the declared name -/
example : (newCore cB [(['I', 'd'], .int 1), (['N', 'm'], .str [])] [.int 7] [(['n', 'M'], .str ['x'])]).2 = SetRes.ok ∧
    getattr cB (newCore cB [(['I', 'd'], .int 1), (['N', 'm'], .str [])] [.int 7] [(['n', 'M'], .str ['x'])]).1.dict ['N', 'M'] =
      cellRead (lastValue cB (fold ['N', 'm']) none
        (writesOf cB (newItems cB [(['I', 'd'], .int 1), (['N', 'm'], .str [])] [.int 7] [(['n', 'M'], .str ['x'])]))) ∧
    resolveKw cB (['n', 'M'], .str ['x']) = (['N', 'm'], .str ['x']) :=
  let h := constructor_keywords_one_cell cB cB_wf [(['I', 'd'], .int 1), (['N', 'm'], .str [])] [.int 7]
    [(['n', 'M'], .str ['x'])] (by decide)
  ⟨h.1, h.2.2 ['N', 'm'] (by decide) (by decide) ['N', 'M'] (by decide),
   (constructor_keyword_spelling cB cB_wf).1 ['N', 'm'] (by decide) ['n', 'M'] (by decide) _⟩
/-- `define_class_checks_names` and `class_lookup_case` applied: the class defined as `Bb` with cB's attributes is WF and is
    found under `bB`; with a reserved attribute name it is refused -/
example : (∀ cs', defineClass [] ['B', 'b'] cB.attrs = some cs' → WF { kind := ['B', 'b'], attrs := cB.attrs, refs := [] }) ∧
    defineClass [] ['B', 'b'] [(['_', '_', 'x', '_', '_'], ['s'])] = none :=
  ⟨fun cs' h => ((define_class_checks_names [] cs' ['B', 'b'] cB.attrs).2.2 h).1,
   (define_class_checks_names [] [] ['B', 'b'] [(['_', '_', 'x', '_', '_'], ['s'])]).2.1 ⟨_, List.mem_singleton.mpr rfl, by decide⟩⟩

end PyxProps.C10
