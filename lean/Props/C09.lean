import Proofs.Query
import Proofs.MetaState

/-!
  C09 — Queries and navigations return exactly the matching instances in model order.
  Property theorems only.  Model: PyxModel/Query.lean over the L2 state of PyxModel/Meta.lean.
-/
namespace PyxProps.C09
open Pyx.Meta Pyx.Query

/-- with equality filters and predicate filters only, in any number and order, `select_many` returns
    precisely the instances of the pool that satisfy ALL filters, in pool (creation) order -/
theorem select_spec (val : Valuation) (s : State) (k : Kind) (ops : List QOp)
    (hf : ∀ op ∈ ops, isFilter op = true) (hp : (s.pool k).Nodup) :
    selectMany val s k ops = (s.pool k).filter (fun x => ops.all (opHolds val x)) := by
  unfold selectMany
  rw [applyOps_filters val ops _ hf]
  exact dedupFirst_of_nodup (hp.filter _)

/-- the pool of every reachable state is duplicate-free and holds exactly the live instances of the
    class, so `select_spec` applies in every reachable state -/
theorem pool_nodup_reachable (sch : Schema) (hist : List Op) (k : Kind) : ((run sch hist).pool k).Nodup :=
  (run_poolInv_from sch hist init poolInv_init k).1

/-- an ordering operator returns a permutation of its input that is sorted by the key tuple
    (ascending for order_by, descending for reverse_order_by) … -/
theorem order_spec (val : Valuation) (l : List Inst) (attrs : List String) :
    (applyOp val l (.orderBy attrs false)).Perm l ∧
    Sorted (fun a b => keyLt (keyOf val attrs a) (keyOf val attrs b)) (applyOp val l (.orderBy attrs false)) ∧
    (applyOp val l (.orderBy attrs true)).Perm l ∧
    Sorted (fun a b => keyLt (keyOf val attrs b) (keyOf val attrs a)) (applyOp val l (.orderBy attrs true)) := by
  have h1 := sortStable_perm_sorted (keyOrder_strict (keyOf val attrs)) l [] (by simp [Sorted])
  have h2 := sortStable_perm_sorted (keyOrder_strict_rev (keyOf val attrs)) l [] (by simp [Sorted])
  exact ⟨by simpa [applyOp, sortStable] using h1.1, h1.2, by simpa [applyOp, sortStable] using h2.1, h2.2⟩

/-- … and it is stable in both directions: the elements of any one key keep their incoming order -/
theorem order_stable (val : Valuation) (l : List Inst) (attrs : List String) (k : List Int) (rev : Bool) :
    (applyOp val l (.orderBy attrs rev)).filter (fun x => decide (keyOf val attrs x = k)) =
      l.filter (fun x => decide (keyOf val attrs x = k)) := by
  cases rev with
  | false =>
    have := sortStable_filter_key (keyOf val attrs) keyLt (keyOrder_strict (keyOf val attrs)) keyLt_irrefl k l []
      (by simp [Sorted])
    simpa [applyOp, sortStable] using this
  | true =>
    have := sortStable_filter_key (keyOf val attrs) (fun a b => keyLt b a) (keyOrder_strict_rev (keyOf val attrs))
      keyLt_irrefl k l [] (by simp [Sorted])
    simpa [applyOp, sortStable] using this

/-- operators compose left to right, whatever their kinds -/
theorem ops_compose (val : Valuation) (l : List Inst) (ops₁ ops₂ : List QOp) :
    applyOps val l (ops₁ ++ ops₂) = applyOps val (applyOps val l ops₁) ops₂ := by
  simp [applyOps, List.foldl_append]

/-- selecting one / any returns the first element of the sequence select_many returns, or nothing -/
theorem select_one_spec (val : Valuation) (s : State) (k : Kind) (ops : List QOp) :
    selectOne val s k ops = (selectMany val s k ops).head? := by
  unfold selectOne selectMany; rw [head_dedupFirst]

/-- navigation along a chain (every step given by its link's partner function, when no step raises):
    the result is duplicate-free, and it contains `y` exactly when `y` is reachable from some handle
    element through the relational composition of the steps -/
theorem nav_spec (fs : List (Inst → List Inst)) (h : List Inst) (y : Inst) :
    (dedupFirst (chainSeq fs h)).Nodup ∧
    (y ∈ dedupFirst (chainSeq fs h) ↔ ∃ x ∈ h, Reach fs x y) := by
  refine ⟨nodup_dedupFirst' _, ?_⟩
  rw [mem_dedupFirst', mem_chainSeq]

/-- one model step over a sequence is exactly the concatenation of the per-instance results
    (`flatMap`), provided no instance raises UnknownLinkException -/
theorem nav_step_flatMap (sch : Schema) (s : State) (st : Step) (f : Inst → List Inst) (l : List Inst)
    (h : ∀ x ∈ l, navigate sch s x st.toKind st.rel st.phrase = some (f x)) :
    navStep sch s l st = some (l.flatMap f) := navStep_eq sch s st f l h

/-- from `None` (the empty handle) every chain yields nothing; the single-result forms return the
    head of the sequence or nothing; filters commute with the final de-duplication -/
theorem nav_from_none (fs : List (Inst → List Inst)) : chainSeq fs [] = [] := by
  induction fs with
  | nil => rfl
  | cons f fs ih => simpa [chainSeq] using ih

theorem nav_one_spec (sch : Schema) (val : Valuation) (s : State) (h : List Inst) (steps : List Step) (ops : List QOp) :
    navOne sch val s h steps ops = (navMany sch val s h steps ops).map List.head? := by
  unfold navOne navMany
  cases navSeq sch s h steps with
  | none => rfl
  | some l => simp [head_dedupFirst]

theorem filter_dedup_commute (p : Nat → Bool) (l : List Nat) :
    dedupFirst (l.filter p) = (dedupFirst l).filter p := dedupFirst_filter p l

/-! non-vacuity -/
example : applyOp (fun x _ => some (Int.ofNat (x % 2))) [3, 1, 4, 2, 6] (.orderBy ["P"] false) = [4, 2, 6, 3, 1] := by decide
example : applyOp (fun x _ => some (Int.ofNat (x % 2))) [3, 1, 4, 2, 6] (.orderBy ["P"] true) = [3, 1, 4, 2, 6] := by decide
example : Reach [fun x => [x + 1, x + 2], fun x => [x * 2]] 1 6 := ⟨3, by simp, 6, by simp, rfl⟩

end PyxProps.C09
