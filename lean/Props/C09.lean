import Proofs.Query
import Proofs.QueryShape
import Proofs.QueryShapeMore
import Proofs.MetaState

/-!
  C09 — Queries and navigations return exactly the matching instances in model order.
  Property theorems only.  Model: PyxModel/Query.lean over the L2 state of PyxModel/Meta.lean.
-/
namespace PyxProps.C09
open Pyx.Meta Pyx.Query

/-- with equality filters and predicate filters only, in any number and order, `select_many` returns
    precisely the instances of the pool that satisfy ALL filters, in pool (creation) order -/
theorem select_spec (val : Valuation) (s : State) (k : Kind) (ops : List QOp)
    (hf : ∀ op ∈ ops, isFilter op = true) (hp : (s.pool k).Nodup) :
    selectMany val s k ops = (s.pool k).filter (fun x => ops.all (opHolds val x)) := by
  unfold selectMany
  rw [applyOps_filters val ops _ hf]
  exact dedupFirst_of_nodup (hp.filter _)

/-- the pool of every reachable state is duplicate-free and holds exactly the live instances of the
    class, so `select_spec` applies in every reachable state -/
theorem pool_nodup_reachable (sch : Schema) (hist : List Op) (k : Kind) : ((run sch hist).pool k).Nodup :=
  (run_poolInv_from sch hist init poolInv_init k).1

/-- an ordering operator returns a permutation of its input that is sorted by the key tuple
    (ascending for order_by, descending for reverse_order_by) … -/
theorem order_spec (val : Valuation) (l : List Inst) (attrs : List String) :
    (applyOp val l (.orderBy attrs false)).Perm l ∧
    Sorted (fun a b => keyLt (keyOf val attrs a) (keyOf val attrs b)) (applyOp val l (.orderBy attrs false)) ∧
    (applyOp val l (.orderBy attrs true)).Perm l ∧
    Sorted (fun a b => keyLt (keyOf val attrs b) (keyOf val attrs a)) (applyOp val l (.orderBy attrs true)) := by
  have h1 := sortStable_perm_sorted (keyOrder_strict (keyOf val attrs)) l [] (by simp [Sorted])
  have h2 := sortStable_perm_sorted (keyOrder_strict_rev (keyOf val attrs)) l [] (by simp [Sorted])
  exact ⟨by simpa [applyOp, sortStable] using h1.1, h1.2, by simpa [applyOp, sortStable] using h2.1, h2.2⟩

/-- … and it is stable in both directions: the elements of any one key keep their incoming order -/
theorem order_stable (val : Valuation) (l : List Inst) (attrs : List String) (k : List Int) (rev : Bool) :
    (applyOp val l (.orderBy attrs rev)).filter (fun x => decide (keyOf val attrs x = k)) =
      l.filter (fun x => decide (keyOf val attrs x = k)) := by
  cases rev with
  | false =>
    have := sortStable_filter_key (keyOf val attrs) keyLt (keyOrder_strict (keyOf val attrs)) keyLt_irrefl k l []
      (by simp [Sorted])
    simpa [applyOp, sortStable] using this
  | true =>
    have := sortStable_filter_key (keyOf val attrs) (fun a b => keyLt b a) (keyOrder_strict_rev (keyOf val attrs))
      keyLt_irrefl k l [] (by simp [Sorted])
    simpa [applyOp, sortStable] using this

/-- operators compose left to right, whatever their kinds -/
theorem ops_compose (val : Valuation) (l : List Inst) (ops₁ ops₂ : List QOp) :
    applyOps val l (ops₁ ++ ops₂) = applyOps val (applyOps val l ops₁) ops₂ := by
  simp [applyOps, List.foldl_append]

/-- selecting one / any returns the first element of the sequence select_many returns, or nothing -/
theorem select_one_spec (val : Valuation) (s : State) (k : Kind) (ops : List QOp) :
    selectOne val s k ops = (selectMany val s k ops).head? := by
  unfold selectOne selectMany; rw [head_dedupFirst]

/-- navigation along a chain (every step given by its link's partner function, when no step raises):
    the result is duplicate-free, and it contains `y` exactly when `y` is reachable from some handle
    element through the relational composition of the steps -/
theorem nav_spec (fs : List (Inst → List Inst)) (h : List Inst) (y : Inst) :
    (dedupFirst (chainSeq fs h)).Nodup ∧
    (y ∈ dedupFirst (chainSeq fs h) ↔ ∃ x ∈ h, Reach fs x y) := by
  refine ⟨nodup_dedupFirst' _, ?_⟩
  rw [mem_dedupFirst', mem_chainSeq]

/-- one model step over a sequence is exactly the concatenation of the per-instance results
    (`flatMap`), provided no instance raises UnknownLinkException -/
theorem nav_step_flatMap (sch : Schema) (s : State) (st : Step) (f : Inst → List Inst) (l : List Inst)
    (h : ∀ x ∈ l, navigate sch s x st.toKind st.rel st.phrase = some (f x)) :
    navStep sch s l st = some (l.flatMap f) := navStep_eq sch s st f l h

/-- from `None` (the empty handle) every chain yields nothing; the single-result forms return the
    head of the sequence or nothing; filters commute with the final de-duplication -/
theorem nav_from_none (fs : List (Inst → List Inst)) : chainSeq fs [] = [] := by
  induction fs with
  | nil => rfl
  | cons f fs ih => simpa [chainSeq] using ih

theorem nav_one_spec (sch : Schema) (val : Valuation) (s : State) (h : List Inst) (steps : List Step) (ops : List QOp) :
    navOne sch val s h steps ops = (navMany sch val s h steps ops).map List.head? := by
  unfold navOne navMany
  cases navSeq sch s h steps with
  | none => rfl
  | some l => simp [head_dedupFirst]

theorem filter_dedup_commute (p : Nat → Bool) (l : List Nat) :
    dedupFirst (l.filter p) = (dedupFirst l).filter p := dedupFirst_filter p l

/-- de-duplication between steps changes nothing: navigating from a handle WITH duplicates (a generator) gives
    the same result as from the de-duplicated handle, for one step and for any chain; and a chain that
    de-duplicates after every step (`chainSeqDedup`) ends in the same sequence as the real one, which keeps
    duplicates until the final `QuerySet(...)` -/
theorem nav_dedup_commute (l : List Inst) (f : Inst → List Inst) (fs : List (Inst → List Inst)) (h : List Inst) :
    dedupFirst ((dedupFirst l).flatMap f) = dedupFirst (l.flatMap f) ∧
    dedupFirst (chainSeq fs (dedupFirst h)) = dedupFirst (chainSeq fs h) ∧
    chainSeqDedup fs h = dedupFirst (chainSeq fs h) :=
  ⟨dedup_flatMap l f, dedup_chainSeq fs h, chainSeqDedup_eq fs h⟩

/-- direct navigation: when the class's `links` dict has an entry under the key (kind, rel, phrase), `navigate`
    is exactly that entry's partner list -/
theorem navigate_direct (sch : Schema) (s : State) (x : Inst) (toKind : Kind) (rel phrase : String) (e : LinkEntry)
    (h : lookupKey (linkDict sch (s.kindOf x)) toKind rel phrase = some e) :
    navigate sch s x toKind rel phrase = some (followEntry s e x) := navigate_direct' sch s x toKind rel phrase e h

/-- … and which entry that is, in terms of the schema: if the link keys (toKind, rel, phrase) of class `k` are
    pairwise distinct, the dict is the list of the class's links in definition order, every link is found under
    its own key, and association number `i` contributes its source_link to its target class (key: source kind,
    rel, target phrase) and its target_link to its source class (key: target kind, rel, source phrase) -/
theorem link_dict_spec (sch : Schema) (k : Kind) (hd : KeysDistinct (linkEntriesFrom k 0 sch)) :
    linkDict sch k = linkEntriesFrom k 0 sch ∧
    (∀ e ∈ linkEntriesFrom k 0 sch, lookupKey (linkDict sch k) e.toKind e.rel e.phrase = some e) ∧
    (∀ i a, sch[i]? = some a →
      (a.tgtKind = k → lookupKey (linkDict sch k) a.srcKind a.rel a.tgtPhrase =
        some { toKind := a.srcKind, rel := a.rel, phrase := a.tgtPhrase, assoc := i, isSrc := true }) ∧
      (a.srcKind = k → lookupKey (linkDict sch k) a.tgtKind a.rel a.srcPhrase =
        some { toKind := a.tgtKind, rel := a.rel, phrase := a.srcPhrase, assoc := i, isSrc := false })) := by
  have hdict := linkDict_distinct sch k hd
  refine ⟨hdict, ?_, ?_⟩
  · intro e he
    rw [hdict]; exact lookupKey_of_mem _ e hd he
  · intro i a hi
    obtain ⟨h1, h2⟩ := mem_linkEntriesFrom k sch 0 i a hi
    rw [Nat.zero_add] at h1 h2
    rw [hdict]
    exact ⟨fun hk => lookupKey_of_mem _ _ hd (h1 hk), fun hk => lookupKey_of_mem _ _ hd (h2 hk)⟩

/-- two-hop navigation (through an association class): when there is no direct entry, `_find_assoc_links` takes
    the first link `l1` of the class with that rel id and phrase whose far class has an entry `l2` under the
    requested key; the result is the duplicate-free union, in encounter order, of the second-hop partners of the
    first-hop partners — i.e. the two-step chain — and it contains `y` exactly when `y` is related to `x` by the
    relational composition of the two links; without such a pair UnknownLinkException (`none`) -/
theorem navigate_two_hop (sch : Schema) (s : State) (x : Inst) (toKind : Kind) (rel phrase : String)
    (hno : lookupKey (linkDict sch (s.kindOf x)) toKind rel phrase = none) :
    (∀ l1 l2, (linkDict sch (s.kindOf x)).findSome? (assocHop sch toKind rel phrase) = some (l1, l2) →
      navigate sch s x toKind rel phrase = some (unionAll ((followEntry s l1 x).map (followEntry s l2))) ∧
      unionAll ((followEntry s l1 x).map (followEntry s l2)) =
        dedupFirst (chainSeq [followEntry s l1, followEntry s l2] [x]) ∧
      (unionAll ((followEntry s l1 x).map (followEntry s l2))).Nodup ∧
      (∀ y, y ∈ unionAll ((followEntry s l1 x).map (followEntry s l2)) ↔
        ∃ z ∈ followEntry s l1 x, y ∈ followEntry s l2 z) ∧
      l1 ∈ linkDict sch (s.kindOf x) ∧ l1.rel = rel ∧ l1.phrase = phrase ∧
      lookupKey (linkDict sch l1.toKind) toKind rel phrase = some l2) ∧
    ((linkDict sch (s.kindOf x)).findSome? (assocHop sch toKind rel phrase) = none →
      navigate sch s x toKind rel phrase = none) := by
  have hnav := navigate_indirect sch s x toKind rel phrase hno
  constructor
  · intro l1 l2 hfs
    rw [hfs] at hnav
    have hu := unionAll_map (followEntry s l2) (followEntry s l1 x)
    refine ⟨hnav, ?_, ?_, ?_, ?_⟩
    · rw [hu]; simp [chainSeq]
    · rw [hu]; exact nodup_dedupFirst' _
    · intro y
      rw [hu, mem_dedupFirst', List.mem_flatMap]
    · obtain ⟨pre, l, post, hsplit, hl, _⟩ := List.findSome?_eq_some_iff.mp hfs
      obtain ⟨rfl, h2, h3, h4⟩ := assocHop_some hl
      exact ⟨by rw [hsplit]; simp, h2, h3, h4⟩
  · intro hfs
    rw [hfs] at hnav
    exact hnav

/-- `navigate_subtype(x, rel)` when no navigation raises: if no link key of the class with that rel id yields an
    instance the result is `None`; if the keys that yield anything all yield `y` first (in particular when at most
    one key yields an instance — one supertype instance has one subtype instance) the result is `y` -/
theorem nav_subtype_spec (sch : Schema) (s : State) (x : Inst) (rel : String) (y : Inst) :
    ((∀ e ∈ linkDict sch (s.kindOf x), e.rel = rel → navigate sch s x e.toKind rel "" = some []) →
      navSubtype sch s x rel = some none) ∧
    ((∀ e ∈ linkDict sch (s.kindOf x), e.rel = rel →
        ∃ l, navigate sch s x e.toKind rel "" = some l ∧ (l = [] ∨ l.head? = some y)) →
      (∃ e ∈ linkDict sch (s.kindOf x), e.rel = rel ∧ ∃ l, navigate sch s x e.toKind rel "" = some l ∧ l.head? = some y) →
      navSubtype sch s x rel = some (some y)) :=
  ⟨navSubtypeFrom_none sch s x rel _, navSubtypeFrom_some sch s x rel y _⟩

/-- whatever the operators (filters, orderings) and whatever the handle and steps: the results of `select_many`
    and of `navigate_many(...)…(...)` are duplicate-free -/
theorem select_many_nodup (sch : Schema) (val : Valuation) (s : State) (k : Kind) (ops : List QOp) (h : List Inst)
    (steps : List Step) :
    (selectMany val s k ops).Nodup ∧ ∀ r, navMany sch val s h steps ops = some r → r.Nodup := by
  refine ⟨nodup_dedupFirst' _, ?_⟩
  intro r hr
  unfold navMany at hr
  cases hn : navSeq sch s h steps with
  | none => simp [hn] at hr
  | some l =>
    simp only [hn, Option.map_some, Option.some.injEq] at hr
    rw [← hr]; exact nodup_dedupFirst' _

/-! non-vacuity -/
example : applyOp (fun x _ => some (Int.ofNat (x % 2))) [3, 1, 4, 2, 6] (.orderBy ["P"] false) = [4, 2, 6, 3, 1] := by decide
example : applyOp (fun x _ => some (Int.ofNat (x % 2))) [3, 1, 4, 2, 6] (.orderBy ["P"] true) = [3, 1, 4, 2, 6] := by decide
example : Reach [fun x => [x + 1, x + 2], fun x => [x * 2]] 1 6 := ⟨3, by simp, 6, by simp, rfl⟩


/-- an association class AB (kind 2) between A (kind 0) and B (kind 1): two associations with the rel id R2 -/
def mkAssoc (rel : String) (src tgt : Kind) : AssocSpec :=
  { rel := rel, srcKind := src, srcKeys := [], srcMany := true, srcCond := true, srcPhrase := "",
    tgtKind := tgt, tgtKeys := [], tgtMany := false, tgtCond := true, tgtPhrase := "" }
def schAB : Schema := [mkAssoc "R2" 2 0, mkAssoc "R2" 2 1]
/-- a = 0; ab = 10, 11, 12; b = 20, 21; a—{10, 11, 12}; 10—20, 11—21, 12—20 -/
def stAB : State :=
  { init with
    kindOf := fun x => if x = 0 then 0 else if x < 20 then 2 else 1
    links := fun i =>
      if i = 0 then { src := fun x => if x = 0 then [10, 11, 12] else [], tgt := fun x => if 10 ≤ x ∧ x ≤ 12 then [0] else [] }
      else { src := fun x => if x = 20 then [10, 12] else if x = 21 then [11] else [],
             tgt := fun x => if x = 10 ∨ x = 12 then [20] else if x = 11 then [21] else [] } }

example : dedupFirst ((dedupFirst [3, 1, 3, 2, 1]).flatMap fun x => [x % 2, x]) = [1, 3, 0, 2] ∧
    dedupFirst (([3, 1, 3, 2, 1] : List Nat).flatMap fun x => [x % 2, x]) = [1, 3, 0, 2] := by decide
example : KeysDistinct (linkEntriesFrom 2 0 schAB) ∧ KeysDistinct (linkEntriesFrom 0 0 schAB) := by
  unfold KeysDistinct; decide
/-- direct: from a to its association-class instances; from ab 11 to its b -/
example : navigate schAB stAB 0 2 "R2" "" = some [10, 11, 12] ∧ navigate schAB stAB 11 1 "R2" "" = some [21] := by decide
/-- two-hop: A has no entry for (B, R2); through AB the union in encounter order, 20 only once -/
example : lookupKey (linkDict schAB 0) 1 "R2" "" = none ∧ navigate schAB stAB 0 1 "R2" "" = some [20, 21] ∧
    navigate schAB stAB 0 1 "R9" "" = none := by decide
/-- supertype S (kind 0) with subtypes T1 (kind 1) and T2 (kind 2) over R3; instance 0 is a T2 (instance 7) -/
def schSub : Schema := [mkAssoc "R3" 1 0, mkAssoc "R3" 2 0]
def stSub : State :=
  { init with
    kindOf := fun x => if x = 7 then 2 else 0
    links := fun i => if i = 1 then { src := fun x => if x = 0 then [7] else [], tgt := fun x => if x = 7 then [0] else [] }
                      else emptyLinks }
example : navSubtype schSub stSub 0 "R3" = some (some 7) ∧ navSubtype schSub stSub 3 "R3" = some none := by decide
example : (selectMany (fun x _ => some (Int.ofNat x)) { init with pool := fun _ => [4, 2, 9] } 0
    [.orderBy ["v"] true, .pred (.geC "v" 3)]) = [9, 4] := by decide

end PyxProps.C09

/-! ==========================================================================================================
  SOURCE TIE of the query side  (section owned by the QueryShape extension)

  translator/gen_queryshape.py reads apply_query_operators, WhereEqual.__call__, OrderBy.__call__, MetaClass /
  MetaModel select_one / select_many (select_any), QuerySet.first / last, the NavChain family, MetaClass.navigate,
  _find_assoc_links, Link.navigate and navigate_subtype with `ast` on every run and emits their statement structure
  as a first-order IR (lean/Gen/QueryShape.lean); statements the IR does not parameterise are compared exactly, any
  other shape makes the generator raise (broken tie).  Proofs/QueryShape.lean defines ONE generic interpreter of
  that IR (`Pyx.QShape.i…`).  The theorems below state that the model of PyxModel/Query.lean IS the interpretation
  of the IR generated from the current source.
  ========================================================================================================== -/
namespace PyxProps.C09
open Pyx.Meta Pyx.Query Pyx.QShape Pyx.Gen.QueryShape

/-- apply_query_operators: every operator is dispatched as the source's isinstance chain says (a where_eq / an
    order_by is called on the sequence, a plain function filters it) and the operators are folded left to right;
    where_eq keeps, in order, the instances for which no item compares unequal; order_by is the stable sort on the
    attribute list, the reverse flag being handled inside `sorted` -/
theorem query_ops_as_in_source (val : Valuation) (l : List Inst) (op : QOp) (ops : List QOp) :
    applyOp val l op = iApplyOp opDispatch opElse whereShape orderShape val l op ∧
    applyOps val l ops = iApplyOps opDispatch opElse whereShape orderShape val l ops :=
  ⟨applyOp_eq val l op, applyOps_eq val l ops⟩

/-- select_many / select_one (= select_any): the operators applied to the storage in creation order, then a
    QuerySet resp. the first element or None -/
theorem select_as_in_source (val : Valuation) (s : State) (k : Kind) (ops : List QOp) :
    selectMany val s k ops =
      iMany selectManyResult (iApplyOps opDispatch opElse whereShape orderShape val (s.pool k) ops) ∧
    selectOne val s k ops =
      iOne selectOneResult (iApplyOps opDispatch opElse whereShape orderShape val (s.pool k) ops) :=
  ⟨selectMany_eq val s k ops, selectOne_eq val s k ops⟩

/-- MetaClass.navigate with _find_assoc_links: the direct entry, else the first link of the class that the source's
    skip test lets through and whose far class has the key -/
theorem navigate_as_in_source (sch : Schema) (s : State) (x : Inst) (toKind : Kind) (rel phrase : String) :
    navigate sch s x toKind rel phrase = iNavigate assocSkip sch s x toKind rel phrase :=
  navigate_eq sch s x toKind rel phrase

/-- the navigation chains: one step visits the handle in order and yields every result of the per-instance
    navigation (duplicates kept), steps are chained, the operators are applied to the final sequence, and the
    result is a QuerySet (navigate_many) resp. the first element or None (navigate_one / navigate_any) -/
theorem nav_chain_as_in_source (sch : Schema) (val : Valuation) (s : State) (h : List Inst) (st : Step)
    (steps : List Step) (ops : List QOp) :
    navStep sch s h st = iNavStep navInner (fun x => iNavigate assocSkip sch s x st.toKind st.rel st.phrase) h ∧
    navSeq sch s h steps = iNavSeq navInner assocSkip sch s h steps ∧
    navMany sch val s h steps ops = (iNavSeq navInner assocSkip sch s h steps).map
      (fun l => iMany navManyResult (iApplyOps opDispatch opElse whereShape orderShape val l ops)) ∧
    navOne sch val s h steps ops = (iNavSeq navInner assocSkip sch s h steps).map
      (fun l => iOne navOneResult (iApplyOps opDispatch opElse whereShape orderShape val l ops)) :=
  ⟨navStep_eq' sch s h st, navSeq_eq sch s h steps, navMany_eq sch val s h steps ops, navOne_eq sch val s h steps ops⟩

/-- navigate_subtype: the link keys in dict order, skipped as the source's test says, the first that yields wins -/
theorem nav_subtype_as_in_source (sch : Schema) (s : State) (x : Inst) (rel : String) :
    navSubtype sch s x rel =
      iNavSubtypeFrom subtypeSkip (fun k => iNavigate assocSkip sch s x k rel "") rel (linkDict sch (s.kindOf x)) :=
  navSubtypeFrom_eq sch s x rel _

/-! non-vacuity: the interpreter runs the generated IR (it is not a renaming of the model), and another IR gives
    another function -/
example : iApplyOps opDispatch opElse whereShape orderShape (fun x n => if n = "P" then some (Int.ofNat (x % 2)) else some (Int.ofNat x))
    [3, 1, 4, 2, 6] [.orderBy ["P"] true, .whereEq [("P", some 0)], .pred (.geC "v" 4)] = [4, 6] := by decide
example : iNavigate assocSkip schAB stAB 0 1 "R2" "" = some [20, 21] ∧ iNavigate assocSkip schAB stAB 0 2 "R2" "" = some [10, 11, 12] ∧
    iNavSeq navInner assocSkip schAB stAB [0, 0] [⟨2, "R2", ""⟩, ⟨1, "R2", ""⟩] = some [20, 21, 20, 20, 21, 20] := by decide
/-- a where_eq that broke on EQUAL items, or an order_by that did not pass the reverse flag, would be different functions -/
example : iWhere { breakWhen := .eq, yieldWhen := .completed } (fun x _ => some (Int.ofNat x)) [("v", some 3)] [3, 4] = [4] ∧
    iWhere whereShape (fun x _ => some (Int.ofNat x)) [("v", some 3)] [3, 4] = [3] ∧
    iOrder { key := .listOfGetattr, passesReverseFlag := false } (fun x _ => some (Int.ofNat x)) ["v"] true [1, 3, 2] = [1, 2, 3] ∧
    iOrder orderShape (fun x _ => some (Int.ofNat x)) ["v"] true [1, 3, 2] = [3, 2, 1] := by decide

end PyxProps.C09

/-! ==========================================================================================================
  AUDIT ROUND 1 REPAIRS (C09#1, #2, #3)  — appended section
  ========================================================================================================== -/
namespace PyxProps.C09
open Pyx.Meta Pyx.Query

/-- the ordering attributes are SET on every element: the domain of the ordering theorems.  Python compares the key
    lists element-wise and raises TypeError when an unset value (None) meets an integer; the model's `keyOf` reads an
    unset value as 0, so `order_spec` / `order_stable` above describe the code only inside this domain -/
def KeysSet (val : Valuation) (l : List Inst) (attrs : List String) : Prop := ∀ x ∈ l, ∀ a ∈ attrs, val x a ≠ none

/-- C09#1 — the ordering theorems with their domain made explicit: when every ordering attribute is set on every
    element, the key the model sorts by is the list of the attribute VALUES (no default stands in for an unset one), the
    result is a permutation sorted by that key (ascending / descending), and ties keep their incoming order -/
theorem order_spec_guarded (val : Valuation) (l : List Inst) (attrs : List String) (hset : KeysSet val l attrs) :
    (∀ x ∈ l, (keyOf val attrs x).map some = attrs.map (val x)) ∧
    (applyOp val l (.orderBy attrs false)).Perm l ∧
    Sorted (fun a b => keyLt (keyOf val attrs a) (keyOf val attrs b)) (applyOp val l (.orderBy attrs false)) ∧
    (applyOp val l (.orderBy attrs true)).Perm l ∧
    Sorted (fun a b => keyLt (keyOf val attrs b) (keyOf val attrs a)) (applyOp val l (.orderBy attrs true)) ∧
    (∀ k rev, (applyOp val l (.orderBy attrs rev)).filter (fun x => decide (keyOf val attrs x = k)) =
      l.filter (fun x => decide (keyOf val attrs x = k))) := by
  refine ⟨?_, (order_spec val l attrs).1, (order_spec val l attrs).2.1, (order_spec val l attrs).2.2.1,
    (order_spec val l attrs).2.2.2, fun k rev => order_stable val l attrs k rev⟩
  intro x hx
  unfold keyOf
  rw [List.map_map]
  apply List.map_congr_left
  intro a ha
  have := hset x hx a ha
  cases hv : val x a with
  | none => exact absurd hv this
  | some v => simp [hv]

/-- C09#3 — a WHOLE chain at state level: when every step can be navigated (no UnknownLinkException) from every element
    reached so far (`ChainOk`, with the steps' partner functions `fs`), the sequence the driver's `navSeq` computes is
    `chainSeq fs h`; hence `navigate_many(h).nav(…)…()` is duplicate-free and contains `y` exactly when `y` is reachable
    from a handle element through the relational composition of the steps (`nav_spec` is about what the driver runs) -/
theorem nav_seq_is_chain (sch : Schema) (val : Valuation) (s : State) (h : List Inst) (steps : List Step)
    (fs : List (Inst → List Inst)) (hc : ChainOk sch s steps fs h) (y : Inst) :
    navSeq sch s h steps = some (chainSeq fs h) ∧
    navMany sch val s h steps [] = some (dedupFirst (chainSeq fs h)) ∧
    (y ∈ dedupFirst (chainSeq fs h) ↔ ∃ x ∈ h, Reach fs x y) := by
  have h1 := navSeq_chainSeq sch s steps fs h hc
  refine ⟨h1, ?_, (nav_spec fs h y).2⟩
  unfold navMany
  rw [h1]
  rfl

/-- C09#2 — the single-result forms and laziness.  `navigate_one/any(h)…()` is `next(iter(…), None)` over LAZY
    generators: the code stops at the first result and never navigates from the handle elements after it.  The model's
    `navOne` evaluates the whole sequence first and is an exception as soon as ANY element raises.  The two agree when no
    element raises — the domain of `nav_one_spec` above: handles whose elements all have the navigated link (in
    particular single-class handles, the only ones the correspondence generates).  Inside it: -/
theorem nav_one_domain (sch : Schema) (val : Valuation) (s : State) (h : List Inst) (steps : List Step)
    (fs : List (Inst → List Inst)) (hc : ChainOk sch s steps fs h) (ops : List QOp) :
    navOne sch val s h steps ops = some ((applyOps val (chainSeq fs h) ops).head?) ∧
    navOne sch val s h steps ops = (navMany sch val s h steps ops).map List.head? := by
  refine ⟨?_, nav_one_spec sch val s h steps ops⟩
  unfold navOne
  rw [navSeq_chainSeq sch s steps fs h hc]
  rfl

/-! examples: the two-step chain a → ab → b of the schema above satisfies `ChainOk`; an unknown link makes `navSeq` an exception -/
example : ChainOk schAB stAB [⟨2, "R2", ""⟩, ⟨1, "R2", ""⟩]
    [fun x => if x = 0 then [10, 11, 12] else [], fun x => if x = 10 ∨ x = 12 then [20] else if x = 11 then [21] else []] [0] := by
  refine ⟨?_, ?_, trivial⟩
  · intro x hx; simp at hx; subst hx; decide
  · intro x hx
    simp at hx
    rcases hx with rfl | rfl | rfl <;> decide
example : navSeq schAB stAB [0, 20] [⟨2, "R9", ""⟩] = none ∧ navigate schAB stAB 0 2 "R2" "" = some [10, 11, 12] := by decide
example : KeysSet (fun x _ => some (Int.ofNat x)) [3, 1, 2] ["v"] := by intro x _ a _; simp

end PyxProps.C09

/-! ==========================================================================================================
  AUDIT ROUND 2 (Task B, item 3) — "a different IR gives a different function": the interpreters of Proofs/QueryShape.lean
  run on statement structures OTHER than the generated ones compute other results, so the `…_as_in_source` equalities
  above are not equalities that any IR would satisfy  — appended section (builder G)
  ========================================================================================================== -/
namespace PyxProps.C09
open Pyx.Meta Pyx.Query Pyx.QShape Pyx.Gen.QueryShape

def valPQ : Valuation := fun x a => if a = "P" then some (Int.ofNat (x % 2)) else some (Int.ofNat x)

/-- where_eq: breaking on EQUAL items / yielding the instances whose loop BROKE selects the complement;
    order_by: a `sorted` call that does not pass the reverse flag sorts ascending where the source sorts descending;
    result forms: `next(iter(…), None)` for a set-valued selection keeps one instance, a QuerySet for select_one is the
    same FIRST element (equivalent, as the audit's mutation table says) -/
example : iWhere whereShape valPQ [("P", some 1)] [1, 2, 3, 4] = [1, 3] ∧
    iWhere { whereShape with breakWhen := .eq } valPQ [("P", some 1)] [1, 2, 3, 4] = [2, 4] ∧
    iWhere { whereShape with yieldWhen := .broke } valPQ [("P", some 1)] [1, 2, 3, 4] = [2, 4] ∧
    iOrder orderShape valPQ ["P"] true [1, 2, 3, 4] = [1, 3, 2, 4] ∧
    iOrder { orderShape with passesReverseFlag := false } valPQ ["P"] true [1, 2, 3, 4] = [2, 4, 1, 3] ∧
    iMany selectManyResult [3, 1, 3, 2] = [3, 1, 2] ∧ iMany .firstOrNone [3, 1, 3, 2] = [3] ∧
    iOne selectOneResult [3, 1, 3, 2] = some 3 := by decide

/-- the dispatch of apply_query_operators: the generated chain calls a where_eq / order_by operator and wraps a dict; a chain
    without tests sends everything to the `else:` branch (filter with the operator as a predicate) -/
example : pickAct opDispatch opElse .whereEqual = .callOp ∧ pickAct opDispatch opElse .callable = .filterWith ∧
    pickAct [] opElse .whereEqual = .filterWith ∧
    pickAct [(.isDict, .wrapWhereEqual), (.isWhereEqual, .callOp)] opElse .whereEqual = .wrapWhereEqual := by decide

/-- navigation through an association class: a skip test that ignores the relation id of the first hop finds the same
    two-hop route here, a skip test that is always true finds none (UnknownLinkException) -/
example : iNavigate assocSkip schAB stAB 0 1 "R2" "" = some [20, 21] ∧
    iNavigate (.or (.atom .relDiffers) (.not (.atom .relDiffers))) schAB stAB 0 1 "R2" "" = none := by decide

/-- the `links` dict every navigation consults (`MetaClass.navigate`, `_find_assoc_links`, `navigate_subtype`,
    `sort_reflexive`): for every schema and class, the model's entries are the `add_link` calls of
    `define_association` read from the source (Gen/RelateShape.lean `linkDefs`) — a link is filed under the class it
    STARTS at, keyed by the class it LEADS TO, the rel id and the phrase handed to that call, the source link before
    the target link — followed by the dict semantics of assignment (`dictInsert`) -/
theorem link_dict_as_in_source (sch : Schema) (k : Kind) (i : Nat) :
    linkEntriesFrom k i sch = iLinkEntriesFrom Pyx.Gen.RelateShape.linkDefs k i sch ∧
    linkDict sch k = iLinkDict Pyx.Gen.RelateShape.linkDefs sch k :=
  ⟨linkEntriesFrom_eq k sch i, linkDict_eq sch k⟩

/-! non-vacuity: the interpreted `add_link` calls give the association class (2) of the schema above its two links
    and class 0 its one; on a reflexive association the source link (stored under the TARGET phrase) comes first, and
    link definitions added in the other order are another dict -/
def aRefl : AssocSpec :=
  { rel := "R1", srcKind := 0, srcKeys := [], srcMany := false, srcCond := true, srcPhrase := "succeeds",
    tgtKind := 0, tgtKeys := [], tgtMany := false, tgtCond := true, tgtPhrase := "precedes" }
example : (iLinkDict Pyx.Gen.RelateShape.linkDefs schAB 2).map (fun e => (e.toKind, e.rel, e.phrase, e.assoc, e.isSrc)) =
      [(0, "R2", "", 0, false), (1, "R2", "", 1, false)] ∧
    (iLinkDict Pyx.Gen.RelateShape.linkDefs schAB 0).map (fun e => (e.toKind, e.rel, e.phrase, e.assoc, e.isSrc)) =
      [(2, "R2", "", 0, true)] ∧
    (iLinkDict Pyx.Gen.RelateShape.linkDefs [aRefl] 0).map (fun e => (e.phrase, e.isSrc)) =
      [("precedes", true), ("succeeds", false)] ∧
    (iLinkDict Pyx.Gen.RelateShape.linkDefs.reverse [aRefl] 0).map (fun e => (e.phrase, e.isSrc)) =
      [("succeeds", false), ("precedes", true)] := by decide

end PyxProps.C09
